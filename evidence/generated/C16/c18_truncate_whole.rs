#![feature(sized_hierarchy)]
#![feature(allocator_api)]
#![allow(unused_imports, unused_variables, dead_code, unused_mut, unused_parens, unused_braces, non_snake_case)]
use vstd::prelude::*;
use vstd::std_specs::ops::*;
use vstd::std_specs::cmp::*;
use vstd::float::*;
use vstd::std_specs::iter::IteratorSpec;
verus! {
#[verifier::external_body]
#[verifier::reject_recursive_types(I)]
#[verifier::reject_recursive_types(A)]
pub struct Game<I, A> { _p: core::marker::PhantomData<(I, A)> }
// the effect of the per-player / per-infoset loops of truncate on the two dense vectors
pub uninterp spec fn trunc_rel(before: [Box<[f64]>; 2], thresh: f64, after: [Box<[f64]>; 2]) -> bool;

// ---- extracted from src/lib.rs: struct Strategies ----
#[verifier::reject_recursive_types(Infoset)]
#[verifier::reject_recursive_types(Action)]
pub struct Strategies<'a, Infoset, Action> {
    pub game: &'a Game<Infoset, Action>,
    pub probs: [Box<[f64]>; 2],
}

#[verifier::external_body]
pub fn __abs_truncate_loops<'a, I, A>(s: &mut Strategies<'a, I, A>, thresh: f64)
    ensures trunc_rel(old(s).probs, thresh, final(s).probs), final(s).game == old(s).game,
{ unimplemented!() }

// ---- extracted from src/lib.rs: impl Strategies ----
impl<'a, I, A> Strategies<'a, I, A> {
pub fn truncate(&mut self, thresh: f64) 
    ensures
        // truncate IS its per-infoset loops applied once to the profile as it was handed in, with the
        // threshold as given -- for every threshold and every profile, whatever was done to it before
        trunc_rel(old(self).probs, thresh, final(self).probs), // @ob C18.V.truncate.whole
        final(self).game == old(self).game,
{
        __abs_truncate_loops(self, thresh);
    }
}


// vacuity canary: must be REJECTED by the verifier (an inconsistent axiom set would accept it)
pub proof fn __canary_must_fail()
    ensures false, // @ob __canary
{
    
}

} // verus!
fn main() {}
