#![feature(sized_hierarchy)]
#![feature(allocator_api)]
#![allow(unused_imports, unused_variables, dead_code, unused_mut, unused_parens, unused_braces, non_snake_case)]
use vstd::prelude::*;
use vstd::std_specs::ops::*;
use vstd::std_specs::cmp::*;
use vstd::float::*;
use vstd::std_specs::iter::IteratorSpec;
verus! {
// ---- prelude fragment: floats.rs ----
// Floating point, layer 1 ("uninterpreted" mode of DESIGN.md 3.2): every f64 operator instance the
// language can produce is linked to ONE total, deterministic, otherwise unknown function of the
// operand values.  Nothing about IEEE-754 is assumed here.
pub uninterp spec fn fadd(a: f64, b: f64) -> f64;
pub uninterp spec fn fsub(a: f64, b: f64) -> f64;
pub uninterp spec fn fmul(a: f64, b: f64) -> f64;
pub uninterp spec fn fdiv(a: f64, b: f64) -> f64;
pub uninterp spec fn fneg(a: f64) -> f64;
pub uninterp spec fn fcmp(a: f64, b: f64) -> Option<core::cmp::Ordering>;
pub uninterp spec fn feq(a: f64, b: f64) -> bool;
pub open spec fn flt(a: f64, b: f64) -> bool { fcmp(a, b) == Some(core::cmp::Ordering::Less) }
pub open spec fn fgt(a: f64, b: f64) -> bool { fcmp(a, b) == Some(core::cmp::Ordering::Greater) }
pub open spec fn fle(a: f64, b: f64) -> bool { fcmp(a, b) == Some(core::cmp::Ordering::Less) || fcmp(a, b) == Some(core::cmp::Ordering::Equal) }
pub open spec fn fge(a: f64, b: f64) -> bool { fcmp(a, b) == Some(core::cmp::Ordering::Greater) || fcmp(a, b) == Some(core::cmp::Ordering::Equal) }

pub broadcast axiom fn ax_add_vv_req(a: f64, b: f64) ensures #[trigger] a.add_req(b);
pub broadcast axiom fn ax_add_vv(a: f64, b: f64) ensures #[trigger] a.add_spec(b) == fadd(a, b);
pub broadcast axiom fn ax_add_vr_req(a: f64, b: &f64) ensures #[trigger] a.add_req(b);
pub broadcast axiom fn ax_add_vr(a: f64, b: &f64) ensures #[trigger] a.add_spec(b) == fadd(a, *b);
pub broadcast axiom fn ax_add_rv_req(a: &f64, b: f64) ensures #[trigger] a.add_req(b);
pub broadcast axiom fn ax_add_rv(a: &f64, b: f64) ensures #[trigger] a.add_spec(b) == fadd(*a, b);
pub broadcast axiom fn ax_add_rr_req(a: &f64, b: &f64) ensures #[trigger] a.add_req(b);
pub broadcast axiom fn ax_add_rr(a: &f64, b: &f64) ensures #[trigger] a.add_spec(b) == fadd(*a, *b);
pub broadcast axiom fn ax_sub_vv_req(a: f64, b: f64) ensures #[trigger] a.sub_req(b);
pub broadcast axiom fn ax_sub_vv(a: f64, b: f64) ensures #[trigger] a.sub_spec(b) == fsub(a, b);
pub broadcast axiom fn ax_sub_vr_req(a: f64, b: &f64) ensures #[trigger] a.sub_req(b);
pub broadcast axiom fn ax_sub_vr(a: f64, b: &f64) ensures #[trigger] a.sub_spec(b) == fsub(a, *b);
pub broadcast axiom fn ax_sub_rv_req(a: &f64, b: f64) ensures #[trigger] a.sub_req(b);
pub broadcast axiom fn ax_sub_rv(a: &f64, b: f64) ensures #[trigger] a.sub_spec(b) == fsub(*a, b);
pub broadcast axiom fn ax_sub_rr_req(a: &f64, b: &f64) ensures #[trigger] a.sub_req(b);
pub broadcast axiom fn ax_sub_rr(a: &f64, b: &f64) ensures #[trigger] a.sub_spec(b) == fsub(*a, *b);
pub broadcast axiom fn ax_mul_vv_req(a: f64, b: f64) ensures #[trigger] a.mul_req(b);
pub broadcast axiom fn ax_mul_vv(a: f64, b: f64) ensures #[trigger] a.mul_spec(b) == fmul(a, b);
pub broadcast axiom fn ax_mul_vr_req(a: f64, b: &f64) ensures #[trigger] a.mul_req(b);
pub broadcast axiom fn ax_mul_vr(a: f64, b: &f64) ensures #[trigger] a.mul_spec(b) == fmul(a, *b);
pub broadcast axiom fn ax_mul_rv_req(a: &f64, b: f64) ensures #[trigger] a.mul_req(b);
pub broadcast axiom fn ax_mul_rv(a: &f64, b: f64) ensures #[trigger] a.mul_spec(b) == fmul(*a, b);
pub broadcast axiom fn ax_mul_rr_req(a: &f64, b: &f64) ensures #[trigger] a.mul_req(b);
pub broadcast axiom fn ax_mul_rr(a: &f64, b: &f64) ensures #[trigger] a.mul_spec(b) == fmul(*a, *b);
pub broadcast axiom fn ax_div_vv_req(a: f64, b: f64) ensures #[trigger] a.div_req(b);
pub broadcast axiom fn ax_div_vv(a: f64, b: f64) ensures #[trigger] a.div_spec(b) == fdiv(a, b);
pub broadcast axiom fn ax_div_vr_req(a: f64, b: &f64) ensures #[trigger] a.div_req(b);
pub broadcast axiom fn ax_div_vr(a: f64, b: &f64) ensures #[trigger] a.div_spec(b) == fdiv(a, *b);
pub broadcast axiom fn ax_div_rv_req(a: &f64, b: f64) ensures #[trigger] a.div_req(b);
pub broadcast axiom fn ax_div_rv(a: &f64, b: f64) ensures #[trigger] a.div_spec(b) == fdiv(*a, b);
pub broadcast axiom fn ax_div_rr_req(a: &f64, b: &f64) ensures #[trigger] a.div_req(b);
pub broadcast axiom fn ax_div_rr(a: &f64, b: &f64) ensures #[trigger] a.div_spec(b) == fdiv(*a, *b);
pub broadcast axiom fn ax_cmp_v(a: f64, b: f64) ensures #[trigger] a.partial_cmp_spec(&b) == fcmp(a, b);
pub broadcast axiom fn ax_eq_v(a: f64, b: f64) ensures #[trigger] a.eq_spec(&b) == feq(a, b);
pub broadcast axiom fn ax_cmp_r(a: &f64, b: &f64) ensures #[trigger] a.partial_cmp_spec(&b) == fcmp(*a, *b);
pub broadcast axiom fn ax_eq_r(a: &f64, b: &f64) ensures #[trigger] a.eq_spec(&b) == feq(*a, *b);
// IEEE facts about comparison that do not depend on the operands' values (discharged for ALL pairs of
// f64 by the loop-free Kani harness `ieee_cmp_flip`): a < b  <=>  b > a, equality is symmetric, an
// unordered pair is unordered both ways; == agrees with partial_cmp.
pub axiom fn ax_obeys()
    ensures
        forall|a: f64, b: f64| (#[trigger] fcmp(a, b) == Some(core::cmp::Ordering::Less)) == (fcmp(b, a) == Some(core::cmp::Ordering::Greater)),
        forall|a: f64, b: f64| (#[trigger] fcmp(a, b) == Some(core::cmp::Ordering::Equal)) == (fcmp(b, a) == Some(core::cmp::Ordering::Equal)),
        forall|a: f64, b: f64| (#[trigger] fcmp(a, b) is None) == (fcmp(b, a) is None),
        forall|a: f64, b: f64| #[trigger] feq(a, b) == (fcmp(a, b) == Some(core::cmp::Ordering::Equal)),
        // max / min are commutative as far as comparisons can tell (the two results are identical, or +0 / -0,
        // or both NaN): discharged for ALL triples by the loop-free Kani harness `ieee_max_min_commute`
        forall|a: f64, b: f64, c: f64| #[trigger] fcmp(fmaxf(a, b), c) == fcmp(fmaxf(b, a), c),
        forall|a: f64, b: f64, c: f64| #[trigger] fcmp(c, fmaxf(a, b)) == fcmp(c, fmaxf(b, a)),
        forall|a: f64, b: f64, c: f64| #[trigger] fcmp(fminf(a, b), c) == fcmp(fminf(b, a), c),
        forall|a: f64, b: f64, c: f64| #[trigger] fcmp(c, fminf(a, b)) == fcmp(c, fminf(b, a)),
        <f64 as AddSpec<f64>>::obeys_add_spec(),
        <f64 as AddSpec<&f64>>::obeys_add_spec(),
        <&f64 as AddSpec<f64>>::obeys_add_spec(),
        <&f64 as AddSpec<&f64>>::obeys_add_spec(),
        <f64 as SubSpec<f64>>::obeys_sub_spec(),
        <f64 as SubSpec<&f64>>::obeys_sub_spec(),
        <&f64 as SubSpec<f64>>::obeys_sub_spec(),
        <&f64 as SubSpec<&f64>>::obeys_sub_spec(),
        <f64 as MulSpec<f64>>::obeys_mul_spec(),
        <f64 as MulSpec<&f64>>::obeys_mul_spec(),
        <&f64 as MulSpec<f64>>::obeys_mul_spec(),
        <&f64 as MulSpec<&f64>>::obeys_mul_spec(),
        <f64 as DivSpec<f64>>::obeys_div_spec(),
        <f64 as DivSpec<&f64>>::obeys_div_spec(),
        <&f64 as DivSpec<f64>>::obeys_div_spec(),
        <&f64 as DivSpec<&f64>>::obeys_div_spec(),
        <f64 as PartialOrdSpec<f64>>::obeys_partial_cmp_spec(),
        <f64 as PartialEqSpec<f64>>::obeys_eq_spec(),
        <&f64 as PartialOrdSpec<&f64>>::obeys_partial_cmp_spec(),
        <&f64 as PartialEqSpec<&f64>>::obeys_eq_spec(),
;
pub broadcast group fl {
    ax_add_vv_req, ax_add_vv, ax_add_vr_req, ax_add_vr, ax_add_rv_req, ax_add_rv, ax_add_rr_req, ax_add_rr, ax_sub_vv_req, ax_sub_vv, ax_sub_vr_req, ax_sub_vr, ax_sub_rv_req, ax_sub_rv, ax_sub_rr_req, ax_sub_rr, ax_mul_vv_req, ax_mul_vv, ax_mul_vr_req, ax_mul_vr, ax_mul_rv_req, ax_mul_rv, ax_mul_rr_req, ax_mul_rr, ax_div_vv_req, ax_div_vv, ax_div_vr_req, ax_div_vr, ax_div_rv_req, ax_div_rv, ax_div_rr_req, ax_div_rr, ax_cmp_v, ax_eq_v, ax_cmp_r, ax_eq_r
}

// R8: unary minus (this Verus rejects float negation); the wrapper IS the operator.
// (core implements Neg for f64 and for &f64: the wrapper takes either)
pub trait __NegArg: Sized { spec fn negv(self) -> f64; }
impl __NegArg for f64 { open spec fn negv(self) -> f64 { self } }
impl<'a> __NegArg for &'a f64 { open spec fn negv(self) -> f64 { *self } }
#[verifier::external_body]
pub fn __neg<T: __NegArg>(x: T) -> (r: f64)
    ensures r == fneg(x.negv()),
{ unimplemented!() }


// f64 methods used by the extracted code: linked to uninterpreted functions (their IEEE facts, where
// a proof needs one, are separate axioms discharged by loop-free Kani harnesses).
pub uninterp spec fn fmaxf(a: f64, b: f64) -> f64;
pub uninterp spec fn fminf(a: f64, b: f64) -> f64;
pub uninterp spec fn fabsf(a: f64) -> f64;
pub uninterp spec fn fisnan(a: f64) -> bool;
pub uninterp spec fn fisfinite(a: f64) -> bool;
pub uninterp spec fn fisinfinite(a: f64) -> bool;
// IEEE classification facts (discharged for ALL f64 / all pairs by the loop-free Kani harness
// `ieee_classification`): finite <=> neither NaN nor infinite; NaN and infinite exclude each other;
// a pair is unordered exactly when one side is NaN; 0.0 is finite.
pub axiom fn ax_ieee_class()
    ensures
        forall|a: f64| #[trigger] fisfinite(a) == (!fisnan(a) && !fisinfinite(a)),
        forall|a: f64| #[trigger] fisnan(a) ==> !fisinfinite(a),
        forall|a: f64, b: f64| (#[trigger] fcmp(a, b) is None) == (fisnan(a) || fisnan(b)),
        fisfinite(0.0f64),
        // (core::cmp::Ordering has exactly three variants: the Rust enum, opaque to this Verus)
        forall|a: f64, b: f64| #[trigger] fcmp(a, b) is None || fcmp(a, b) == Some(core::cmp::Ordering::Less)
            || fcmp(a, b) == Some(core::cmp::Ordering::Equal) || fcmp(a, b) == Some(core::cmp::Ordering::Greater);
pub uninterp spec fn fpowf(a: f64, b: f64) -> f64;
pub uninterp spec fn ftotalcmp(a: f64, b: f64) -> core::cmp::Ordering;
pub assume_specification [f64::max] (a: f64, b: f64) -> (r: f64) ensures r == fmaxf(a, b);
pub assume_specification [f64::min] (a: f64, b: f64) -> (r: f64) ensures r == fminf(a, b);
pub assume_specification [f64::abs] (a: f64) -> (r: f64) ensures r == fabsf(a);
pub assume_specification [f64::is_nan] (a: f64) -> (r: bool) ensures r == fisnan(a);
pub assume_specification [f64::is_finite] (a: f64) -> (r: bool) ensures r == fisfinite(a);
pub assume_specification [f64::is_infinite] (a: f64) -> (r: bool) ensures r == fisinfinite(a);
// further classification / sign predicates: deterministic functions about which nothing else is known
// (code that switches to one of them no longer verifies against a contract stated with `>`, `is_finite`, ...)
pub uninterp spec fn fisnormal(a: f64) -> bool;
pub uninterp spec fn fissubnormal(a: f64) -> bool;
pub uninterp spec fn fissignpos(a: f64) -> bool;
pub uninterp spec fn fissignneg(a: f64) -> bool;
pub assume_specification [f64::is_normal] (a: f64) -> (r: bool) ensures r == fisnormal(a);
pub assume_specification [f64::is_subnormal] (a: f64) -> (r: bool) ensures r == fissubnormal(a);
pub assume_specification [f64::is_sign_positive] (a: f64) -> (r: bool) ensures r == fissignpos(a);
pub assume_specification [f64::is_sign_negative] (a: f64) -> (r: bool) ensures r == fissignneg(a);
pub assume_specification [f64::powf] (a: f64, b: f64) -> (r: f64) ensures r == fpowf(a, b);
pub assume_specification [f64::total_cmp] (a: &f64, b: &f64) -> (r: core::cmp::Ordering) ensures r == ftotalcmp(*a, *b);

// R9: associated constants this Verus rejects; the wrappers' bodies ARE the constants.
pub uninterp spec fn finf() -> f64;
pub uninterp spec fn fneginf() -> f64;
#[verifier::external_body]
pub fn __inf() -> (r: f64) ensures r == finf() { f64::INFINITY }
#[verifier::external_body]
pub fn __neg_inf() -> (r: f64) ensures r == fneginf() { f64::NEG_INFINITY }
pub assume_specification [core::cmp::Ordering::is_lt] (o: core::cmp::Ordering) -> (r: bool) ensures r == (o == core::cmp::Ordering::Less);
pub assume_specification [core::cmp::Ordering::is_le] (o: core::cmp::Ordering) -> (r: bool) ensures r == (o != core::cmp::Ordering::Greater);
pub assume_specification [core::cmp::Ordering::is_gt] (o: core::cmp::Ordering) -> (r: bool) ensures r == (o == core::cmp::Ordering::Greater);
pub assume_specification [core::cmp::Ordering::is_ge] (o: core::cmp::Ordering) -> (r: bool) ensures r == (o != core::cmp::Ordering::Less);
pub uninterp spec fn fconst_EPSILON() -> f64;
#[verifier::external_body]
pub fn __f64_EPSILON() -> (r: f64) ensures r == fconst_EPSILON() { f64::EPSILON }
pub uninterp spec fn fconst_MAX() -> f64;
#[verifier::external_body]
pub fn __f64_MAX() -> (r: f64) ensures r == fconst_MAX() { f64::MAX }
pub uninterp spec fn fconst_MIN() -> f64;
#[verifier::external_body]
pub fn __f64_MIN() -> (r: f64) ensures r == fconst_MIN() { f64::MIN }
pub uninterp spec fn fconst_MIN_POSITIVE() -> f64;
#[verifier::external_body]
pub fn __f64_MIN_POSITIVE() -> (r: f64) ensures r == fconst_MIN_POSITIVE() { f64::MIN_POSITIVE }
pub uninterp spec fn fconst_NAN() -> f64;
#[verifier::external_body]
pub fn __f64_NAN() -> (r: f64) ensures r == fconst_NAN() { f64::NAN }

// R12: integer-to-float casts (`X as f64`), which this Verus rejects; the wrapper IS the cast.
pub uninterp spec fn u64_to_f64(n: u64) -> f64;
pub uninterp spec fn usize_to_f64(n: usize) -> f64;
pub trait ToF64: Sized {
    spec fn to_f64_spec(self) -> f64;
    fn __to_f64(self) -> (r: f64) ensures r == self.to_f64_spec();
}
impl ToF64 for u64 {
    open spec fn to_f64_spec(self) -> f64 { u64_to_f64(self) }
    #[verifier::external_body]
    fn __to_f64(self) -> (r: f64) { self as f64 }
}
impl ToF64 for usize {
    open spec fn to_f64_spec(self) -> f64 { usize_to_f64(self) }
    #[verifier::external_body]
    fn __to_f64(self) -> (r: f64) { self as f64 }
}
pub fn __as_f64<T: ToF64>(x: T) -> (r: f64) ensures r == x.to_f64_spec() { x.__to_f64() }

// R13: identity on f64 (see rule R13 of the extractor)
pub fn __idf(x: f64) -> (r: f64) ensures r == x { x }

// ---- prelude fragment: ideal.rs ----
// Floating point, layer 2 ("idealised real" mode of DESIGN.md 3.2): machine arithmetic treated as
// mathematical.  rv maps a float to the real it denotes; rounding, overflow, NaN and signed zero are
// ignored.  Used only where the property is a statement of real arithmetic.
pub uninterp spec fn rv(x: f64) -> real;
pub broadcast axiom fn ax_rv_add(a: f64, b: f64) ensures rv(#[trigger] fadd(a, b)) == rv(a) + rv(b);
pub broadcast axiom fn ax_rv_sub(a: f64, b: f64) ensures rv(#[trigger] fsub(a, b)) == rv(a) - rv(b);
pub broadcast axiom fn ax_rv_mul(a: f64, b: f64) ensures rv(#[trigger] fmul(a, b)) == rv(a) * rv(b);
pub broadcast axiom fn ax_rv_div(a: f64, b: f64) ensures rv(b) != 0real ==> rv(#[trigger] fdiv(a, b)) == rv(a) / rv(b);
pub broadcast axiom fn ax_rv_neg(a: f64) ensures rv(#[trigger] fneg(a)) == 0real - rv(a);
pub broadcast axiom fn ax_rv_cmp(a: f64, b: f64)
    ensures #[trigger] fcmp(a, b) == (if rv(a) < rv(b) { Some(core::cmp::Ordering::Less) }
        else if rv(a) == rv(b) { Some(core::cmp::Ordering::Equal) } else { Some(core::cmp::Ordering::Greater) });
pub broadcast axiom fn ax_rv_eq(a: f64, b: f64) ensures #[trigger] feq(a, b) == (rv(a) == rv(b));
pub broadcast axiom fn ax_rv_max(a: f64, b: f64) ensures rv(#[trigger] fmaxf(a, b)) == (if rv(a) >= rv(b) { rv(a) } else { rv(b) });
pub broadcast axiom fn ax_rv_min(a: f64, b: f64) ensures rv(#[trigger] fminf(a, b)) == (if rv(a) <= rv(b) { rv(a) } else { rv(b) });
// (idealised) powf denotes a function of the real values of its arguments
pub uninterp spec fn rpow(x: real, y: real) -> real;
pub broadcast axiom fn ax_rv_powf(a: f64, b: f64) ensures rv(#[trigger] fpowf(a, b)) == rpow(rv(a), rv(b));
pub axiom fn ax_rv_lits()
    ensures rv(0.0f64) == 0real, rv(1.0f64) == 1real, rv(2.0f64) == 2real, rv(0.5f64) * 2real == 1real;
pub broadcast group ideal {
    ax_rv_add, ax_rv_sub, ax_rv_mul, ax_rv_div, ax_rv_neg, ax_rv_cmp, ax_rv_eq, ax_rv_max, ax_rv_min, ax_rv_powf
}
// (idealised) integer-to-float casts are exact
pub broadcast axiom fn ax_rv_u64(n: u64) ensures rv(#[trigger] u64_to_f64(n)) == n as real;
pub broadcast axiom fn ax_rv_usize(n: usize) ensures rv(#[trigger] usize_to_f64(n)) == n as real;
pub broadcast group ideal_casts { ax_rv_u64, ax_rv_usize }

#[verifier::external_body]
#[verifier::reject_recursive_types(K)]
#[verifier::reject_recursive_types(V)]
pub struct HashMap<K, V> { _p: core::marker::PhantomData<(K, V)> }
impl<K, V> HashMap<K, V> {
    pub uninterp spec fn view(&self) -> Map<K, V>;
    #[verifier::external_body]
    pub fn get(&self, k: &K) -> (r: Option<&V>)
        ensures match r { Some(v) => self@.contains_key(*k) && *v == self@[*k], None => !self@.contains_key(*k) },
    { unimplemented!() }
}
// gambit_parser::Terminal: the number of the outcome attached to the leaf
#[verifier::external_body] pub struct Terminal { }
impl Terminal {
    pub uninterp spec fn outcome_view(&self) -> u64;
    #[verifier::external_body]
    pub fn outcome(&self) -> (r: u64) ensures r == self.outcome_view() { unimplemented!() }
}
// gambit_parser's chance / player nodes as far as the payoff look-up uses them
// payoffs written inline at a node (gambit-parser): whether a node carries them is NOT determined by its
// outcome number (an outcome may be defined at one node and referenced by number at others): unspecified
#[verifier::external_body] pub struct Payoffs { }
#[verifier::external_body] pub struct GChance { }
impl GChance {
    #[verifier::external_body] pub fn outcome_payoffs(&self) -> (r: Option<&Payoffs>) { unimplemented!() }
    pub uninterp spec fn outcome_view(&self) -> u64;
    #[verifier::external_body]
    pub fn outcome(&self) -> (r: u64) ensures r == self.outcome_view() { unimplemented!() }
}
#[verifier::external_body] pub struct GPlayer { }
impl GPlayer {
    #[verifier::external_body] pub fn outcome_payoffs(&self) -> (r: Option<&Payoffs>) { unimplemented!() }
    pub uninterp spec fn outcome_view(&self) -> u64;
    #[verifier::external_body]
    pub fn outcome(&self) -> (r: u64) ensures r == self.outcome_view() { unimplemented!() }
}
#[verifier::external_body] pub struct Node<'a> { _p: core::marker::PhantomData<&'a u8> }
// gambit_parser's action labels and rational probabilities (opaque; their text / value are not part of this unit)
#[verifier::external_body] pub struct Label { }
impl Label { #[verifier::external_body] pub fn to_string(&self) -> (r: String) { unimplemented!() } }
#[verifier::external_body] pub struct Rational { }
impl Rational {
    pub uninterp spec fn val(&self) -> Option<f64>;
    #[verifier::external_body] pub fn to_f64(&self) -> (r: Option<f64>) ensures r == self.val() { unimplemented!() }
}
// `queue.extend(NODE.actions().iter().map(|(.., next)| (next, cum_pays)))`: every child of the node is queued
// with the running payoffs as they are at this point (std chain over gambit-parser's child list)
#[verifier::external_body]
pub fn __queue_children<'a, N>(queue: &mut Vec<(&'a Node<'a>, [f64; 2])>, node: &N, cum_pays: [f64; 2])
    ensures final(queue)@.len() >= old(queue)@.len(), final(queue)@.take(old(queue)@.len() as int) == old(queue)@,
        forall|k: int| old(queue)@.len() <= k < final(queue)@.len() ==> (#[trigger] final(queue)@[k]).1 == cum_pays,
{ unimplemented!() }
pub open spec fn carried(c0: [f64; 2], outcome: u64, table: Map<u64, [f64; 2]>, c: [f64; 2]) -> bool {
    if outcome == 0 { rv(c[0]) == rv(c0[0]) && rv(c[1]) == rv(c0[1]) }
    else { rv(c[0]) == rv(c0[0]) + rv(table[outcome][0]) && rv(c[1]) == rv(c0[1]) + rv(table[outcome][1]) }
}
// R18: panic!(..) -- never returns
#[verifier::external_body]
pub fn __panic() ensures false { panic!() }
// `for (cum, out) in cum_pays.iter_mut().zip(PAYS) { *cum += *out }`: both players' payoffs of the outcome
// are added to the running payoffs (zip of two 2-element sequences, std; idealised reals)
#[verifier::external_body]
pub fn __add_outcome(cum_pays: &mut [f64; 2], pays: &[f64; 2])
    ensures rv(final(cum_pays)[0]) == rv(old(cum_pays)[0]) + rv(pays[0]), rv(final(cum_pays)[1]) == rv(old(cum_pays)[1]) + rv(pays[1]),
{ unimplemented!() }
pub open spec fn rmin(a: real, b: real) -> real { if a <= b { a } else { b } }
pub open spec fn rmax(a: real, b: real) -> real { if a >= b { a } else { b } }

// ---- extracted from src/gambit.rs: fn get_global_info ----
pub fn get_global_info__leaf_sum(terminal: &Terminal, mut cum_pays: [f64; 2], outcomes: &HashMap<u64, [f64; 2]>, mut min: f64, mut max: f64, mut one_min: f64, mut one_max: f64) -> (out: (f64, f64, f64, f64))
    ensures
        // at a leaf the analysed quantity is HALF the sum of the two players' payoffs collected along the
        // path (interior outcomes plus the leaf's own); the running minimum / maximum of it, and of player
        // one's payoff, are updated with this leaf
        ({
            let one = rv(cum_pays[0]) + rv(outcomes@[terminal.outcome_view()][0]);
            let two = rv(cum_pays[1]) + rv(outcomes@[terminal.outcome_view()][1]);
            rv(out.0) == rmin(rv(min), (one + two) / 2real) && rv(out.1) == rmax(rv(max), (one + two) / 2real)
            && rv(out.2) == rmin(rv(one_min), one) && rv(out.3) == rmax(rv(one_max), one)
        }), // @ob C15.V.gambit.constant_sum_leaf
{
broadcast use fl; broadcast use ideal;
proof { ax_obeys(); ax_rv_lits(); assume(outcomes@.contains_key(terminal.outcome_view())); } // every outcome number of the file is in the table (first traversal)
let ghost c0 = cum_pays; let ghost min0 = min; let ghost max0 = max; let ghost omin0 = one_min; let ghost omax0 = one_max;

                __add_outcome(&mut cum_pays, outcomes.get(&terminal.outcome()).unwrap());
                let one = cum_pays[0]; let two = cum_pays[1];
                let sum = one + (two - one) / 2.0;
                if !sum.is_finite() {
                    __panic();
                }
                min = f64::min(min, sum);
                max = f64::max(max, sum);
                one_min = f64::min(one_min, one);
                one_max = f64::max(one_max, one);
            
(min, max, one_min, one_max)
}

// ---- extracted from src/gambit.rs: struct GlobalInfo ----
pub struct GlobalInfo {
    pub infoset_names: [HashMap<u64, String>; 2],
    pub outcomes: HashMap<u64, f64>,
    pub sum: f64,
}

// ---- extracted from src/gambit.rs: struct JoinedNode ----
pub struct JoinedNode<'a> {
    pub node: &'a Node<'a>,
    pub info: &'a GlobalInfo,
    pub cum_payoff: f64,
}

// ---- extracted from src/gambit.rs: impl IntoGameNode for JoinedNode<'_> / fn into_game_node ----
pub fn into_game_node__chance_payoff<'a>(self_: &JoinedNode<'a>, chance: &GChance) -> (out: f64)
    ensures
        // outcome number 0 means "no outcome here": nothing is added; otherwise player one's payoff of
        // THIS node's outcome, read from the table by its number
        out == (if chance.outcome_view() == 0 { 0.0f64 } else { self_.info.outcomes@[chance.outcome_view()] }), // @ob C15.V.gambit.interior_payoff
{
proof { assume(self_.info.outcomes@.contains_key(chance.outcome_view())); } // outcome numbers of the file are in the table
if chance.outcome() == 0 {
                    0.0
                } else {
                    *self_.info.outcomes.get(&chance.outcome()).unwrap()
                }
}

// ---- extracted from src/gambit.rs: impl IntoGameNode for JoinedNode<'_> / fn into_game_node ----
pub fn into_game_node__player_payoff<'a>(self_: &JoinedNode<'a>, player: &GPlayer) -> (out: f64)
    ensures
        out == (if player.outcome_view() == 0 { 0.0f64 } else { self_.info.outcomes@[player.outcome_view()] }), // @ob C15.V.gambit.interior_payoff
{
proof { assume(self_.info.outcomes@.contains_key(player.outcome_view())); }
if player.outcome() == 0 {
                    0.0
                } else {
                    *self_.info.outcomes.get(&player.outcome()).unwrap()
                }
}

// ---- extracted from src/gambit.rs: impl IntoGameNode for JoinedNode<'_> / fn into_game_node ----
pub fn into_game_node__chance_child<'a>(act: &Label, prob: &Rational, node: &'a Node<'a>, self_: &JoinedNode<'a>, node_payoff: f64) -> (out: (String, f64, JoinedNode<'a>))
    ensures
        out.2.node == node && out.2.info == self_.info && rv(out.2.cum_payoff) == rv(self_.cum_payoff) + rv(node_payoff), // @ob C15.V.gambit.child_inherits_payoffs
        Some(out.1) == prob.val(), // @ob C15.V.gambit.child_inherits_payoffs
{
broadcast use fl; broadcast use ideal;
proof { ax_obeys(); ax_rv_lits(); assume(prob.val() is Some); } // probabilities of a parsed file convert

                        (
                            act.to_string(),
                            prob.to_f64().unwrap(),
                            JoinedNode {
                                node,
                                info: self_.info,
                                cum_payoff: self_.cum_payoff + node_payoff,
                            },
                        )
                    }

// ---- extracted from src/gambit.rs: impl IntoGameNode for JoinedNode<'_> / fn into_game_node ----
pub fn into_game_node__player_child<'a>(act: &Label, node: &'a Node<'a>, self_: &JoinedNode<'a>, node_payoff: f64) -> (out: (String, JoinedNode<'a>))
    ensures
        out.1.node == node && out.1.info == self_.info && rv(out.1.cum_payoff) == rv(self_.cum_payoff) + rv(node_payoff), // @ob C15.V.gambit.child_inherits_payoffs
{
broadcast use fl; broadcast use ideal;
proof { ax_obeys(); ax_rv_lits(); }

                        (
                            act.to_string(),
                            JoinedNode {
                                node,
                                info: self_.info,
                                cum_payoff: self_.cum_payoff + node_payoff,
                            },
                        )
                    }

// ---- extracted from src/gambit.rs: fn get_global_info ----
pub fn get_global_info__chance_carries<'a>(chance: &GChance, mut cum_pays: [f64; 2], outcomes: &HashMap<u64, [f64; 2]>, queue: &mut Vec<(&'a Node<'a>, [f64; 2])>)
    ensures
        // the analysis carries BOTH players' payoffs of an interior node's outcome (none for outcome 0) down
        // to every child, from the same table and by the same number as the conversion of the tree does
        final(queue)@.len() >= old(queue)@.len() && final(queue)@.take(old(queue)@.len() as int) == old(queue)@,
        forall|k: int| old(queue)@.len() <= k < final(queue)@.len() ==> carried(cum_pays, chance.outcome_view(), outcomes@, (#[trigger] final(queue)@[k]).1), // @ob C15.V.gambit.constant_sum_interior
{
broadcast use fl; broadcast use ideal;
proof { ax_obeys(); ax_rv_lits(); assume(outcomes@.contains_key(chance.outcome_view())); }
let ghost c0 = cum_pays;

                if chance.outcome() != 0 {
                    __add_outcome(&mut cum_pays, outcomes.get(&chance.outcome()).unwrap());
                }
                __queue_children(queue, chance, cum_pays);
            }

// ---- extracted from src/gambit.rs: fn get_global_info ----
pub fn get_global_info__player_carries<'a>(player: &GPlayer, mut cum_pays: [f64; 2], outcomes: &HashMap<u64, [f64; 2]>, queue: &mut Vec<(&'a Node<'a>, [f64; 2])>)
    ensures
        // the analysis carries BOTH players' payoffs of an interior node's outcome (none for outcome 0) down
        // to every child, from the same table and by the same number as the conversion of the tree does
        final(queue)@.len() >= old(queue)@.len() && final(queue)@.take(old(queue)@.len() as int) == old(queue)@,
        forall|k: int| old(queue)@.len() <= k < final(queue)@.len() ==> carried(cum_pays, player.outcome_view(), outcomes@, (#[trigger] final(queue)@[k]).1), // @ob C15.V.gambit.constant_sum_interior
{
broadcast use fl; broadcast use ideal;
proof { ax_obeys(); ax_rv_lits(); assume(outcomes@.contains_key(player.outcome_view())); }
let ghost c0 = cum_pays;

                if player.outcome() != 0 {
                    __add_outcome(&mut cum_pays, outcomes.get(&player.outcome()).unwrap());
                }
                __queue_children(queue, player, cum_pays);
            }

// ---- extracted from src/gambit.rs: fn get_global_info ----
pub fn get_global_info__offset(min: f64, max: f64) -> (out: f64)
    ensures
        rv(out) == (rv(min) + rv(max)) / 2real, // @ob C15.V.gambit.offset_is_midpoint
{
broadcast use fl; broadcast use ideal;
proof { ax_obeys(); ax_rv_lits(); }
min + (max - min) / 2.0
}


// vacuity canary: must be REJECTED by the verifier (an inconsistent axiom set would accept it)
pub proof fn __canary_must_fail()
    ensures false, // @ob __canary
{
    broadcast use fl; broadcast use ideal; ax_obeys(); ax_rv_lits();
}

} // verus!
fn main() {}
