#![feature(sized_hierarchy)]
#![feature(allocator_api)]
#![allow(unused_imports, unused_variables, dead_code, unused_mut, unused_parens, unused_braces, non_snake_case)]
use vstd::prelude::*;
use vstd::std_specs::ops::*;
use vstd::std_specs::cmp::*;
use vstd::float::*;
use vstd::std_specs::iter::IteratorSpec;
verus! {
// ---- extracted from src/solve/data.rs: struct RegretParams ----
#[derive(Clone, Copy)]
pub struct RegretParams {
    /// The discount factor for positive cumulative regret or `α`.
    ///
    /// Positive cumulative regrets are discounted by `tᵅ/(tᵅ + 1)` every iteration `t`. Setting
    /// alpha closer to infinity implies no discounting, while setting it at negative infinity
    /// means imediate forgetting. Note that any non-positive value is probably not desired.
    pub pos_regret: f64,
    /// The discount factor for negative cumulative regret or `β`
    ///
    /// Negative cumulative regrets are discounted by `tᵝ/(tᵝ + 1)` every iteration `t`. The
    /// values are the same as for positive regrets. Setting this to a non-positive value will
    /// prevent the cumulative regret of negative regret actions from approaching negative
    /// infinity, which can make pruning negative regret actions impossible.
    pub neg_regret: f64,
    /// The average strategy discount factor `γ`
    ///
    /// The average strategy is discounted by `(ᵗ⁄ₜ₊₁)ᵞ` every iteration t, which is equivalent to
    /// weighting each strategy update by `tᵞ`.
    pub strat: f64,
    /// The scale for picking a strategy when all regrets are negative
    ///
    /// If all actions have negative regret, the chosen strategy can be anything. We use the
    /// softmax of the regrets times this weight. Setting it to infinity is the same as always
    /// playing the strategy with the highest regret. Zero is equivalent to playing each action
    /// uniformly. No other values are recommend, but interpolate between those extremes.
    pub no_positive: f64,
}

// ---- extracted from src/lib.rs: enum SolveMethod ----
#[derive(Clone, Copy)]
pub enum SolveMethod {
    /// This method indicates vanilla counterfactual regret minimization, which does no random
    /// sampling. This can be good for small games, espcially ones with very unlikely chance
    /// outcomes, but otherwise spends a lot of computation exploring unimportant areas of the game
    /// tree.
    Full,
    /// This method indicates chance sampled counterfactual regret minimization, which samples
    /// outcomes at chance nodes, but fully explores player actions. This often performs better
    /// than full exploration, but may produce worse results if there are infrequent but very
    /// relevant chance outcomes.
    ///
    /// Since this is sampled, there's a chance that it terminates early with a small regret bound
    /// that's slighly incorrect because it didn't sample enough chance outcomes.
    Sampled,
    /// This method indicates external sampled counterfactual regret minimization, which alternates
    /// between players, and only fully explores the actions of one player, while sampling the
    /// actions of the other according to their current strategy. This often converges faster than
    /// the other methods because it doesn't explore sections of the game tree with low value.
    ///
    /// Since this is sampled, there's a chance that it terminates early with a small regret bound
    /// that's slighly incorrect because it didn't sample enough chance outcomes.
    External,
}

// ---- extracted from src/error.rs: enum SolveError ----
#[derive(Clone, Copy)]
pub enum SolveError {
    /// Returned when the requested number of threads was too large
    ThreadOverflow,
    /// Returned when a multi-threaded solver couldn't create a thread pool
    ThreadSpawnError,
}


use std::hash::Hash;
// ---- R5 stubs: std::num::NonZeroUsize, std::thread::available_parallelism, rayon's error, the six solver entry points ----
#[derive(Clone, Copy, PartialEq, Eq, Structural)]
pub struct NonZeroUsize { pub v: usize }
impl NonZeroUsize {
    pub fn new(n: usize) -> (r: Option<NonZeroUsize>)
        ensures n == 0 ==> r is None, n != 0 ==> r == Some(NonZeroUsize { v: n }),
    { if n == 0 { None } else { Some(NonZeroUsize { v: n }) } }
    // core: "Multiplies two non-zero integers together. Checks for overflow and returns None on overflow."
    #[verifier::external_body]
    pub fn checked_mul(self, other: NonZeroUsize) -> (r: Option<NonZeroUsize>)
        ensures self.v * other.v > usize::MAX ==> r is None,
                self.v * other.v <= usize::MAX ==> r == Some(NonZeroUsize { v: (self.v * other.v) as usize }),
    { unimplemented!() }
}
pub struct ThreadPoolBuildError { }
pub struct IoError { }
// what std::thread::available_parallelism() answers on this machine (any value, or an error)
pub uninterp spec fn avail_spec() -> Result<NonZeroUsize, IoError>;
pub mod thread {
    use super::*;
    #[verifier::external_body]
    pub fn available_parallelism() -> (r: Result<NonZeroUsize, IoError>)
        ensures r == avail_spec(), r is Ok ==> r->Ok_0.v != 0,
    { unimplemented!() }
}
#[verifier::external_body] pub struct Node { }
pub trait ChanceInfoset { }
pub trait PlayerInfoset { }
pub type SolveInfo = ([f64; 2], [Box<[f64]>; 2]);
pub uninterp spec fn default_params() -> RegretParams;
impl Default for RegretParams {
    #[verifier::external_body]
    fn default() -> (r: Self) ensures r == default_params() { unimplemented!() }
}
// core: Option::or_else "Returns the option if it contains a value, otherwise calls f and returns the result"
pub assume_specification<T, F: FnOnce() -> Option<T>> [Option::<T>::or_else] (o: Option<T>, f: F) -> (r: Option<T>)
    ensures o is Some ==> r == o, o is None ==> f.ensures((), r);
// result of each solver as a function of (budget, threshold, parameters [, thread info])
pub uninterp spec fn single_spec(which: int, max_iter: u64, max_reg: f64, p: RegretParams) -> SolveInfo;
pub uninterp spec fn multi_spec(which: int, max_iter: u64, max_reg: f64, threads: usize, target: usize, p: RegretParams) -> Result<SolveInfo, ThreadPoolBuildError>;
pub mod vanilla {
    use super::*;
    #[verifier::external_body]
    pub fn solve_full_single(start: &Node, chance_info: &[impl ChanceInfoset], player_info: [&[impl PlayerInfoset]; 2], max_iter: u64, max_reg: f64, params: &RegretParams) -> (r: SolveInfo)
        ensures r == single_spec(0, max_iter, max_reg, *params) { unimplemented!() }
    #[verifier::external_body]
    pub fn solve_sampled_single(start: &Node, chance_info: &[impl ChanceInfoset], player_info: [&[impl PlayerInfoset]; 2], max_iter: u64, max_reg: f64, params: &RegretParams) -> (r: SolveInfo)
        ensures r == single_spec(1, max_iter, max_reg, *params) { unimplemented!() }
    #[verifier::external_body]
    pub fn solve_full_multi(start: &Node, chance_info: &[impl ChanceInfoset], player_info: [&[impl PlayerInfoset]; 2], max_iter: u64, max_reg: f64, thread_info: (NonZeroUsize, NonZeroUsize), params: &RegretParams) -> (r: Result<SolveInfo, ThreadPoolBuildError>)
        ensures r == multi_spec(0, max_iter, max_reg, thread_info.0.v, thread_info.1.v, *params) { unimplemented!() }
    #[verifier::external_body]
    pub fn solve_sampled_multi(start: &Node, chance_info: &[impl ChanceInfoset], player_info: [&[impl PlayerInfoset]; 2], max_iter: u64, max_reg: f64, thread_info: (NonZeroUsize, NonZeroUsize), params: &RegretParams) -> (r: Result<SolveInfo, ThreadPoolBuildError>)
        ensures r == multi_spec(1, max_iter, max_reg, thread_info.0.v, thread_info.1.v, *params) { unimplemented!() }
}
pub mod external {
    use super::*;
    #[verifier::external_body]
    pub fn solve_external_single(start: &Node, chance_info: &[impl ChanceInfoset], player_info: [&[impl PlayerInfoset]; 2], max_iter: u64, max_reg: f64, params: &RegretParams) -> (r: SolveInfo)
        ensures r == single_spec(2, max_iter, max_reg, *params) { unimplemented!() }
    #[verifier::external_body]
    pub fn solve_external_multi(start: &Node, chance_info: &[impl ChanceInfoset], player_info: [&[impl PlayerInfoset]; 2], max_iter: u64, max_reg: f64, thread_info: (NonZeroUsize, NonZeroUsize), params: &RegretParams) -> (r: Result<SolveInfo, ThreadPoolBuildError>)
        ensures r == multi_spec(2, max_iter, max_reg, thread_info.0.v, thread_info.1.v, *params) { unimplemented!() }
}
pub open spec fn p_eff(params: Option<RegretParams>) -> RegretParams { match params { Some(p) => p, None => default_params() } }
pub open spec fn which_of(m: SolveMethod) -> int { match m { SolveMethod::Full => 0, SolveMethod::Sampled => 1, SolveMethod::External => 2 } }
// effective thread count: the argument, or the machine's parallelism for 0, or 1 if that is unknown
pub open spec fn eff_threads(num_threads: usize) -> usize {
    if num_threads != 0 { num_threads } else { match avail_spec() { Ok(n) => n.v, Err(_) => 1 } }
}

// vstd attaches a trait-level law to From::from; this impl states its spec-level meaning (ghost)
impl vstd::std_specs::convert::FromSpecImpl<ThreadPoolBuildError> for SolveError {
    open spec fn obeys_from_spec() -> bool { true }
    open spec fn from_spec(v: ThreadPoolBuildError) -> Self { SolveError::ThreadSpawnError }
}

// ---- extracted from src/error.rs: impl From<ThreadPoolBuildError> for SolveError ----
impl From<ThreadPoolBuildError> for SolveError {
fn from(_e: ThreadPoolBuildError) -> (r: Self) 
    ensures r == SolveError::ThreadSpawnError
{
        SolveError::ThreadSpawnError
    }
}

// ---- extracted from src/lib.rs: struct ChanceInfosetData ----
pub struct ChanceInfosetData {
    pub probs: Box<[f64]>,
}

// ---- extracted from src/lib.rs: struct PlayerInfosetData ----
pub struct PlayerInfosetData<I, A> {
    pub infoset: I,
    pub actions: Box<[A]>,
    pub prev_infoset: Option<usize>,
}

impl ChanceInfoset for ChanceInfosetData { }
impl<I, A> PlayerInfoset for PlayerInfosetData<I, A> { }

// ---- extracted from src/lib.rs: struct Game ----
#[verifier::reject_recursive_types(Infoset)]
#[verifier::reject_recursive_types(Action)]
pub struct Game<Infoset, Action> {
    pub chance_infosets: Box<[ChanceInfosetData]>,
    pub player_infosets: [Box<[PlayerInfosetData<Infoset, Action>]>; 2],
    pub single_infosets: [Box<[(Infoset, Action)]>; 2],
    pub root: Node,
}

// ---- extracted from src/lib.rs: struct Strategies ----
#[verifier::reject_recursive_types(Infoset)]
#[verifier::reject_recursive_types(Action)]
pub struct Strategies<'a, Infoset, Action> {
    pub game: &'a Game<Infoset, Action>,
    pub probs: [Box<[f64]>; 2],
}

// ---- extracted from src/lib.rs: struct RegretBound ----
pub struct RegretBound {
    pub regrets: [f64; 2],
}

// ---- extracted from src/lib.rs: impl RegretBound ----
impl RegretBound {
pub fn new(regrets: [f64; 2]) -> (r: Self) 
    ensures r.regrets == regrets
{
        RegretBound { regrets }
    }
}

// ---- extracted from src/lib.rs: impl Game ----
impl<I, A> Game<I, A> {
pub fn solve(
        &self,
        method: SolveMethod,
        max_iter: u64,
        max_reg: f64,
        num_threads: usize,
        params: Option<RegretParams>,
    ) -> (out: Result<(Strategies<I, A>, RegretBound), SolveError>) 
    ensures
        // a returned profile belongs to this game and carries exactly what the chosen solver returned
        out is Ok ==> out->Ok_0.0.game == self, // @ob C05.V.solve.result_plumbing
        // ONE thread never errors and uses the single-threaded variant of the requested method, with
        // the documented default parameters when none are given
        num_threads == 1 ==> out is Ok
            && (out->Ok_0.1.regrets, out->Ok_0.0.probs) == single_spec(which_of(method), max_iter, max_reg, p_eff(params)), // @ob C05.V.solve.one_thread_never_errors
        // several threads: the documented thread-count error exactly when 3 x threads overflows, and then no solver runs
        num_threads > 1 && num_threads * 3 > usize::MAX ==> out == Err::<(Strategies<I, A>, RegretBound), SolveError>(SolveError::ThreadOverflow), // @ob C05.V.solve.thread_overflow
        // otherwise the multi-threaded variant of the requested method with (threads, 3 x threads); its
        // pool-construction error is the only other error
        num_threads > 1 && num_threads * 3 <= usize::MAX ==>
            match multi_spec(which_of(method), max_iter, max_reg, num_threads, (num_threads * 3) as usize, p_eff(params)) {
                Ok(info) => out is Ok && (out->Ok_0.1.regrets, out->Ok_0.0.probs) == info,
                // (the error VALUE is `From::from(e)` applied by `?` -- Rust semantics, trusted; the impl of
                // From<ThreadPoolBuildError> is proved above to return ThreadSpawnError)
                Err(_) => out is Err,
            }, // @ob C05.V.solve.multi_dispatch
{
        let first_player = &self.player_infosets[0]; let second_player = &self.player_infosets[1];
        let threads = NonZeroUsize::new(num_threads)
            .or_else(|| thread::available_parallelism().ok())
            .unwrap_or(NonZeroUsize::new(1).unwrap());
        let params = params.unwrap_or_default();
        let (regrets, probs) = if threads == NonZeroUsize::new(1).unwrap() {
            match method {
                SolveMethod::Full => vanilla::solve_full_single(
                    &self.root,
                    &self.chance_infosets,
                    [first_player, second_player],
                    max_iter,
                    max_reg,
                    &params,
                ),
                SolveMethod::Sampled => vanilla::solve_sampled_single(
                    &self.root,
                    &self.chance_infosets,
                    [first_player, second_player],
                    max_iter,
                    max_reg,
                    &params,
                ),
                SolveMethod::External => external::solve_external_single(
                    &self.root,
                    &self.chance_infosets,
                    [first_player, second_player],
                    max_iter,
                    max_reg,
                    &params,
                ),
            }
        } else {
            // number of tasks to send to num_threads
            let target = threads
                .checked_mul(NonZeroUsize::new(3).unwrap())
                .ok_or(SolveError::ThreadOverflow)?;
            match method {
                SolveMethod::Full => vanilla::solve_full_multi(
                    &self.root,
                    &self.chance_infosets,
                    [first_player, second_player],
                    max_iter,
                    max_reg,
                    (threads, target),
                    &params,
                ),
                SolveMethod::Sampled => vanilla::solve_sampled_multi(
                    &self.root,
                    &self.chance_infosets,
                    [first_player, second_player],
                    max_iter,
                    max_reg,
                    (threads, target),
                    &params,
                ),
                SolveMethod::External => external::solve_external_multi(
                    &self.root,
                    &self.chance_infosets,
                    [first_player, second_player],
                    max_iter,
                    max_reg,
                    (threads, target),
                    &params,
                ),
            }?
        };
        Ok((Strategies { game: self, probs }, RegretBound::new(regrets)))
    }
}


// vacuity canary: must be REJECTED by the verifier (an inconsistent axiom set would accept it)
pub proof fn __canary_must_fail()
    ensures false, // @ob __canary
{
    
}

} // verus!
fn main() {}
