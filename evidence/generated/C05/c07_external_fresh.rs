#![feature(sized_hierarchy)]
#![feature(allocator_api)]
#![allow(unused_imports, unused_variables, dead_code, unused_mut, unused_parens, unused_braces, non_snake_case)]
use vstd::prelude::*;
use vstd::std_specs::ops::*;
use vstd::std_specs::cmp::*;
use vstd::float::*;
use vstd::std_specs::iter::IteratorSpec;
verus! {
// ---- prelude fragment: workspace.rs ----
// R5/R6 for the workspace-freshness slices (C06/C07).  The frontier queue, the next-level work list
// and the payoff cache are modelled by their LENGTHS only (ghost-free: real Vec / an opaque map).
// thread_threshold's contract at its call sites: it REQUIRES a fresh workspace (the anchor's
// sentence: the frontier "must describe the current iteration only" -- entries left from an earlier
// pass carry that pass's reach products) and promises nothing about what it leaves behind.
#[verifier::external_body]
pub struct Item { }
#[verifier::external_body]
pub struct PayoffMap { }
pub uninterp spec fn map_len(m: &PayoffMap) -> nat;
impl PayoffMap {
    #[verifier::external_body]
    pub fn with_capacity(n: usize) -> (r: PayoffMap) ensures map_len(&r) == 0 { unimplemented!() }
    // std::collections::HashMap::clear: "Clears the map, removing all key-value pairs"
    #[verifier::external_body]
    pub fn clear(&mut self) ensures map_len(final(self)) == 0 { unimplemented!() }
}
// the real thread_threshold(..., &mut queue, &mut work): see above
#[verifier::external_body]
pub fn __abs_thread_threshold(queue: &mut Vec<Item>, work: &mut Vec<Item>)
    requires old(queue)@.len() == 0, old(work)@.len() == 0,
{ unimplemented!() }
// rayon: `payoffs.par_extend(queue.par_drain(..).map(f))` -- par_drain(..) removes the whole range
// (rayon documentation: "the vector is emptied when the iterator is dropped"), par_extend inserts
// what the tasks produce.  The cache must be empty before (stale payoffs would cut the traversal).
#[verifier::external_body]
pub fn __abs_par_drain_into(payoffs: &mut PayoffMap, queue: &mut Vec<Item>)
    requires map_len(old(payoffs)) == 0,
    ensures final(queue)@.len() == 0,
{ unimplemented!() }

use std::num::NonZeroUsize;
#[verifier::external_body] #[verifier::reject_recursive_types(T)] pub struct Mutex<T> { _p: core::marker::PhantomData<T> }
#[verifier::external_body] pub struct SampledChance { }
#[verifier::external_body] pub struct CachedInfoset { }
#[verifier::external_body] pub struct RegretParams { }
#[verifier::external_body] pub struct Node { }
#[verifier::external_body] pub fn __abs_f64() -> f64 { unimplemented!() }
#[verifier::external_body] pub fn __abs_stop() -> bool { unimplemented!() }
// the two infoset tables of a pass, as opaque role tokens: the updating ("active") player's and the
// sampled ("external") player's; thread_threshold follows the SAMPLED player's draws, the traversal
// enumerates the active player's actions and samples the external player's
#[derive(Clone, Copy, PartialEq, Eq, Structural)]
pub enum __Role { Active, External }
#[verifier::external_body]
pub fn __abs_thread_threshold_ext(sampled: __Role, queue: &mut Vec<Item>, work: &mut Vec<Item>)
    requires
        sampled == __Role::External, // @ob C07.V.single_player_iter.frontier_follows_sampled_player
        old(queue)@.len() == 0, // @ob C07.V.single_player_iter.workspace_fresh
        old(work)@.len() == 0, // @ob C07.V.single_player_iter.workspace_fresh
{ unimplemented!() }
// only the UPDATING player's infosets are advanced (regret matching / discounting) after its pass
#[verifier::external_body]
pub fn __abs_advance(who: __Role) -> (r: f64)
    requires who == __Role::Active,
{ unimplemented!() }
#[verifier::external_body]
pub fn __abs_roles(active: __Role, external: __Role)
    requires active == __Role::Active, external == __Role::External,
{ unimplemented!() }
// ghost flag: the cached chance draws of this pass have been reset ("a fresh draw is made for the
// next pass"); set only by the abstracted `chance_infosets.iter_mut().for_each(.. advance())`
pub struct Draws { pub rearmed: Ghost<bool> }
#[verifier::external_body] pub fn __draws_of_this_pass() -> (d: Draws) ensures !d.rearmed@ { unimplemented!() }
#[verifier::external_body] pub fn __abs_rearm_chance_draws(d: &mut Draws) ensures final(d).rearmed@ { unimplemented!() }
#[verifier::external_body] pub struct Tgt { }
impl Tgt { #[verifier::external_body] pub fn get(&self) -> usize { unimplemented!() } }

// ---- extracted from src/solve/external.rs: struct Workspace ----
pub struct Workspace {
    pub queue: Vec<Item>,
    pub work: Vec<Item>,
    pub payoffs: PayoffMap,
}

// ---- extracted from src/solve/external.rs: impl Workspace<'_> ----
impl Workspace {
    pub open spec fn fresh(self) -> bool { self.queue@.len() == 0 && self.work@.len() == 0 && map_len(&self.payoffs) == 0 }
pub fn with_capacity(capacity: usize) -> (r: Self) 
    ensures r.fresh(), // @ob C07.V.workspace.with_capacity_fresh
{
        Workspace {
            queue: Vec::with_capacity(capacity),
            work: Vec::with_capacity(capacity),
            payoffs: PayoffMap::with_capacity(capacity),
        }
    }
}

// ---- extracted from src/solve/external.rs: fn single_player_iter ----
pub fn single_player_iter<'a, const FIRST: bool>(
    root: &'a Node,
    chance_infosets: &mut [Mutex<SampledChance>],
    player_infosets: [&mut [Mutex<CachedInfoset>]; 2],
    target: NonZeroUsize,
    work: &mut Workspace,
    it: u64,
    params: &RegretParams,
) -> (out: f64) 
    requires
        true,
        old(work).queue@.len() == 0, // @cand queue_empty_between_passes
        old(work).work@.len() == 0, // @cand work_empty_between_passes
        map_len(&old(work).payoffs) == 0, // @cand payoffs_empty_between_passes
    ensures
        true,
        final(work).queue@.len() == 0, // @cand queue_empty_between_passes
        final(work).work@.len() == 0, // @cand work_empty_between_passes
        map_len(&final(work).payoffs) == 0, // @cand payoffs_empty_between_passes
{
let mut __draws = __draws_of_this_pass();

    let active_player_infosets = __Role::Active; let external_player_infosets = __Role::External;
    // compute threashold of `target` nodes for efficient multi threading
    __abs_thread_threshold_ext(external_player_infosets, &mut work.queue, &mut work.work);
    // send threshold to threads for computation
    __abs_roles(active_player_infosets, external_player_infosets); __abs_par_drain_into(&mut work.payoffs, &mut work.queue); // @ob C07.V.single_player_iter.workspace_fresh
    // now actually recurse, having cached results from threaded computation
    __abs_roles(active_player_infosets, external_player_infosets); // @ob C07.V.single_player_iter.traversal_roles

    // update all infosets
    work.work.clear();
    work.payoffs.clear();
    __abs_rearm_chance_draws(&mut __draws);
    { proof { assert(__draws.rearmed@); } // @ob C10.V.single_player_iter.fresh_draw_next_pass
 __abs_advance(active_player_infosets) }
}

// the contract just proved for single_player_iter, used modularly at its two call sites
#[verifier::external_body]
pub fn __abs_single_player_iter(work: &mut Workspace) -> (r: f64)
    requires
        true,
        old(work).queue@.len() == 0, // @cand queue_empty_between_passes
    old(work).work@.len() == 0, // @cand work_empty_between_passes
    map_len(&old(work).payoffs) == 0, // @cand payoffs_empty_between_passes
    ensures
        true,
        final(work).queue@.len() == 0, // @cand queue_empty_between_passes
        final(work).work@.len() == 0, // @cand work_empty_between_passes
        map_len(&final(work).payoffs) == 0, // @cand payoffs_empty_between_passes
{ unimplemented!() }

// ---- extracted from src/solve/external.rs: fn solve_external_multi ----
pub fn solve_external_multi__scope_body(max_iter: u64, target: Tgt)
{
        // initialize workspace
        let mut work = Workspace::with_capacity(target.get());

        // loop through iters, these will send data to to the threads
        for it in 1..=max_iter 
invariant
    true,
    work.queue@.len() == 0, // @cand queue_empty_between_passes
    work.work@.len() == 0, // @cand work_empty_between_passes
    map_len(&work.payoffs) == 0, // @cand payoffs_empty_between_passes
{
            __abs_single_player_iter(&mut work); // @ob C07.V.solve_external_multi.workspace_fresh
            __abs_single_player_iter(&mut work); // @ob C07.V.solve_external_multi.workspace_fresh
            // check to terminate
            if __abs_stop() { break; }
        }
    }


// vacuity canary: must be REJECTED by the verifier (an inconsistent axiom set would accept it)
pub proof fn __canary_must_fail()
    ensures false, // @ob __canary
{
    
}

} // verus!
fn main() {}
