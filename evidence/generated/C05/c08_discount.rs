#![feature(sized_hierarchy)]
#![feature(allocator_api)]
#![allow(unused_imports, unused_variables, dead_code, unused_mut, unused_parens, unused_braces, non_snake_case)]
use vstd::prelude::*;
use vstd::std_specs::ops::*;
use vstd::std_specs::cmp::*;
use vstd::float::*;
use vstd::std_specs::iter::IteratorSpec;
verus! {
// ---- prelude fragment: floats.rs ----
// Floating point, layer 1 ("uninterpreted" mode of DESIGN.md 3.2): every f64 operator instance the
// language can produce is linked to ONE total, deterministic, otherwise unknown function of the
// operand values.  Nothing about IEEE-754 is assumed here.
pub uninterp spec fn fadd(a: f64, b: f64) -> f64;
pub uninterp spec fn fsub(a: f64, b: f64) -> f64;
pub uninterp spec fn fmul(a: f64, b: f64) -> f64;
pub uninterp spec fn fdiv(a: f64, b: f64) -> f64;
pub uninterp spec fn fneg(a: f64) -> f64;
pub uninterp spec fn fcmp(a: f64, b: f64) -> Option<core::cmp::Ordering>;
pub uninterp spec fn feq(a: f64, b: f64) -> bool;
pub open spec fn flt(a: f64, b: f64) -> bool { fcmp(a, b) == Some(core::cmp::Ordering::Less) }
pub open spec fn fgt(a: f64, b: f64) -> bool { fcmp(a, b) == Some(core::cmp::Ordering::Greater) }
pub open spec fn fle(a: f64, b: f64) -> bool { fcmp(a, b) == Some(core::cmp::Ordering::Less) || fcmp(a, b) == Some(core::cmp::Ordering::Equal) }
pub open spec fn fge(a: f64, b: f64) -> bool { fcmp(a, b) == Some(core::cmp::Ordering::Greater) || fcmp(a, b) == Some(core::cmp::Ordering::Equal) }

pub broadcast axiom fn ax_add_vv_req(a: f64, b: f64) ensures #[trigger] a.add_req(b);
pub broadcast axiom fn ax_add_vv(a: f64, b: f64) ensures #[trigger] a.add_spec(b) == fadd(a, b);
pub broadcast axiom fn ax_add_vr_req(a: f64, b: &f64) ensures #[trigger] a.add_req(b);
pub broadcast axiom fn ax_add_vr(a: f64, b: &f64) ensures #[trigger] a.add_spec(b) == fadd(a, *b);
pub broadcast axiom fn ax_add_rv_req(a: &f64, b: f64) ensures #[trigger] a.add_req(b);
pub broadcast axiom fn ax_add_rv(a: &f64, b: f64) ensures #[trigger] a.add_spec(b) == fadd(*a, b);
pub broadcast axiom fn ax_add_rr_req(a: &f64, b: &f64) ensures #[trigger] a.add_req(b);
pub broadcast axiom fn ax_add_rr(a: &f64, b: &f64) ensures #[trigger] a.add_spec(b) == fadd(*a, *b);
pub broadcast axiom fn ax_sub_vv_req(a: f64, b: f64) ensures #[trigger] a.sub_req(b);
pub broadcast axiom fn ax_sub_vv(a: f64, b: f64) ensures #[trigger] a.sub_spec(b) == fsub(a, b);
pub broadcast axiom fn ax_sub_vr_req(a: f64, b: &f64) ensures #[trigger] a.sub_req(b);
pub broadcast axiom fn ax_sub_vr(a: f64, b: &f64) ensures #[trigger] a.sub_spec(b) == fsub(a, *b);
pub broadcast axiom fn ax_sub_rv_req(a: &f64, b: f64) ensures #[trigger] a.sub_req(b);
pub broadcast axiom fn ax_sub_rv(a: &f64, b: f64) ensures #[trigger] a.sub_spec(b) == fsub(*a, b);
pub broadcast axiom fn ax_sub_rr_req(a: &f64, b: &f64) ensures #[trigger] a.sub_req(b);
pub broadcast axiom fn ax_sub_rr(a: &f64, b: &f64) ensures #[trigger] a.sub_spec(b) == fsub(*a, *b);
pub broadcast axiom fn ax_mul_vv_req(a: f64, b: f64) ensures #[trigger] a.mul_req(b);
pub broadcast axiom fn ax_mul_vv(a: f64, b: f64) ensures #[trigger] a.mul_spec(b) == fmul(a, b);
pub broadcast axiom fn ax_mul_vr_req(a: f64, b: &f64) ensures #[trigger] a.mul_req(b);
pub broadcast axiom fn ax_mul_vr(a: f64, b: &f64) ensures #[trigger] a.mul_spec(b) == fmul(a, *b);
pub broadcast axiom fn ax_mul_rv_req(a: &f64, b: f64) ensures #[trigger] a.mul_req(b);
pub broadcast axiom fn ax_mul_rv(a: &f64, b: f64) ensures #[trigger] a.mul_spec(b) == fmul(*a, b);
pub broadcast axiom fn ax_mul_rr_req(a: &f64, b: &f64) ensures #[trigger] a.mul_req(b);
pub broadcast axiom fn ax_mul_rr(a: &f64, b: &f64) ensures #[trigger] a.mul_spec(b) == fmul(*a, *b);
pub broadcast axiom fn ax_div_vv_req(a: f64, b: f64) ensures #[trigger] a.div_req(b);
pub broadcast axiom fn ax_div_vv(a: f64, b: f64) ensures #[trigger] a.div_spec(b) == fdiv(a, b);
pub broadcast axiom fn ax_div_vr_req(a: f64, b: &f64) ensures #[trigger] a.div_req(b);
pub broadcast axiom fn ax_div_vr(a: f64, b: &f64) ensures #[trigger] a.div_spec(b) == fdiv(a, *b);
pub broadcast axiom fn ax_div_rv_req(a: &f64, b: f64) ensures #[trigger] a.div_req(b);
pub broadcast axiom fn ax_div_rv(a: &f64, b: f64) ensures #[trigger] a.div_spec(b) == fdiv(*a, b);
pub broadcast axiom fn ax_div_rr_req(a: &f64, b: &f64) ensures #[trigger] a.div_req(b);
pub broadcast axiom fn ax_div_rr(a: &f64, b: &f64) ensures #[trigger] a.div_spec(b) == fdiv(*a, *b);
pub broadcast axiom fn ax_cmp_v(a: f64, b: f64) ensures #[trigger] a.partial_cmp_spec(&b) == fcmp(a, b);
pub broadcast axiom fn ax_eq_v(a: f64, b: f64) ensures #[trigger] a.eq_spec(&b) == feq(a, b);
pub broadcast axiom fn ax_cmp_r(a: &f64, b: &f64) ensures #[trigger] a.partial_cmp_spec(&b) == fcmp(*a, *b);
pub broadcast axiom fn ax_eq_r(a: &f64, b: &f64) ensures #[trigger] a.eq_spec(&b) == feq(*a, *b);
// IEEE facts about comparison that do not depend on the operands' values (discharged for ALL pairs of
// f64 by the loop-free Kani harness `ieee_cmp_flip`): a < b  <=>  b > a, equality is symmetric, an
// unordered pair is unordered both ways; == agrees with partial_cmp.
pub axiom fn ax_obeys()
    ensures
        forall|a: f64, b: f64| (#[trigger] fcmp(a, b) == Some(core::cmp::Ordering::Less)) == (fcmp(b, a) == Some(core::cmp::Ordering::Greater)),
        forall|a: f64, b: f64| (#[trigger] fcmp(a, b) == Some(core::cmp::Ordering::Equal)) == (fcmp(b, a) == Some(core::cmp::Ordering::Equal)),
        forall|a: f64, b: f64| (#[trigger] fcmp(a, b) is None) == (fcmp(b, a) is None),
        forall|a: f64, b: f64| #[trigger] feq(a, b) == (fcmp(a, b) == Some(core::cmp::Ordering::Equal)),
        // max / min are commutative as far as comparisons can tell (the two results are identical, or +0 / -0,
        // or both NaN): discharged for ALL triples by the loop-free Kani harness `ieee_max_min_commute`
        forall|a: f64, b: f64, c: f64| #[trigger] fcmp(fmaxf(a, b), c) == fcmp(fmaxf(b, a), c),
        forall|a: f64, b: f64, c: f64| #[trigger] fcmp(c, fmaxf(a, b)) == fcmp(c, fmaxf(b, a)),
        forall|a: f64, b: f64, c: f64| #[trigger] fcmp(fminf(a, b), c) == fcmp(fminf(b, a), c),
        forall|a: f64, b: f64, c: f64| #[trigger] fcmp(c, fminf(a, b)) == fcmp(c, fminf(b, a)),
        <f64 as AddSpec<f64>>::obeys_add_spec(),
        <f64 as AddSpec<&f64>>::obeys_add_spec(),
        <&f64 as AddSpec<f64>>::obeys_add_spec(),
        <&f64 as AddSpec<&f64>>::obeys_add_spec(),
        <f64 as SubSpec<f64>>::obeys_sub_spec(),
        <f64 as SubSpec<&f64>>::obeys_sub_spec(),
        <&f64 as SubSpec<f64>>::obeys_sub_spec(),
        <&f64 as SubSpec<&f64>>::obeys_sub_spec(),
        <f64 as MulSpec<f64>>::obeys_mul_spec(),
        <f64 as MulSpec<&f64>>::obeys_mul_spec(),
        <&f64 as MulSpec<f64>>::obeys_mul_spec(),
        <&f64 as MulSpec<&f64>>::obeys_mul_spec(),
        <f64 as DivSpec<f64>>::obeys_div_spec(),
        <f64 as DivSpec<&f64>>::obeys_div_spec(),
        <&f64 as DivSpec<f64>>::obeys_div_spec(),
        <&f64 as DivSpec<&f64>>::obeys_div_spec(),
        <f64 as PartialOrdSpec<f64>>::obeys_partial_cmp_spec(),
        <f64 as PartialEqSpec<f64>>::obeys_eq_spec(),
        <&f64 as PartialOrdSpec<&f64>>::obeys_partial_cmp_spec(),
        <&f64 as PartialEqSpec<&f64>>::obeys_eq_spec(),
;
pub broadcast group fl {
    ax_add_vv_req, ax_add_vv, ax_add_vr_req, ax_add_vr, ax_add_rv_req, ax_add_rv, ax_add_rr_req, ax_add_rr, ax_sub_vv_req, ax_sub_vv, ax_sub_vr_req, ax_sub_vr, ax_sub_rv_req, ax_sub_rv, ax_sub_rr_req, ax_sub_rr, ax_mul_vv_req, ax_mul_vv, ax_mul_vr_req, ax_mul_vr, ax_mul_rv_req, ax_mul_rv, ax_mul_rr_req, ax_mul_rr, ax_div_vv_req, ax_div_vv, ax_div_vr_req, ax_div_vr, ax_div_rv_req, ax_div_rv, ax_div_rr_req, ax_div_rr, ax_cmp_v, ax_eq_v, ax_cmp_r, ax_eq_r
}

// R8: unary minus (this Verus rejects float negation); the wrapper IS the operator.
// (core implements Neg for f64 and for &f64: the wrapper takes either)
pub trait __NegArg: Sized { spec fn negv(self) -> f64; }
impl __NegArg for f64 { open spec fn negv(self) -> f64 { self } }
impl<'a> __NegArg for &'a f64 { open spec fn negv(self) -> f64 { *self } }
#[verifier::external_body]
pub fn __neg<T: __NegArg>(x: T) -> (r: f64)
    ensures r == fneg(x.negv()),
{ unimplemented!() }


// f64 methods used by the extracted code: linked to uninterpreted functions (their IEEE facts, where
// a proof needs one, are separate axioms discharged by loop-free Kani harnesses).
pub uninterp spec fn fmaxf(a: f64, b: f64) -> f64;
pub uninterp spec fn fminf(a: f64, b: f64) -> f64;
pub uninterp spec fn fabsf(a: f64) -> f64;
pub uninterp spec fn fisnan(a: f64) -> bool;
pub uninterp spec fn fisfinite(a: f64) -> bool;
pub uninterp spec fn fisinfinite(a: f64) -> bool;
// IEEE classification facts (discharged for ALL f64 / all pairs by the loop-free Kani harness
// `ieee_classification`): finite <=> neither NaN nor infinite; NaN and infinite exclude each other;
// a pair is unordered exactly when one side is NaN; 0.0 is finite.
pub axiom fn ax_ieee_class()
    ensures
        forall|a: f64| #[trigger] fisfinite(a) == (!fisnan(a) && !fisinfinite(a)),
        forall|a: f64| #[trigger] fisnan(a) ==> !fisinfinite(a),
        forall|a: f64, b: f64| (#[trigger] fcmp(a, b) is None) == (fisnan(a) || fisnan(b)),
        fisfinite(0.0f64),
        // (core::cmp::Ordering has exactly three variants: the Rust enum, opaque to this Verus)
        forall|a: f64, b: f64| #[trigger] fcmp(a, b) is None || fcmp(a, b) == Some(core::cmp::Ordering::Less)
            || fcmp(a, b) == Some(core::cmp::Ordering::Equal) || fcmp(a, b) == Some(core::cmp::Ordering::Greater);
pub uninterp spec fn fpowf(a: f64, b: f64) -> f64;
pub uninterp spec fn ftotalcmp(a: f64, b: f64) -> core::cmp::Ordering;
pub assume_specification [f64::max] (a: f64, b: f64) -> (r: f64) ensures r == fmaxf(a, b);
pub assume_specification [f64::min] (a: f64, b: f64) -> (r: f64) ensures r == fminf(a, b);
pub assume_specification [f64::abs] (a: f64) -> (r: f64) ensures r == fabsf(a);
pub assume_specification [f64::is_nan] (a: f64) -> (r: bool) ensures r == fisnan(a);
pub assume_specification [f64::is_finite] (a: f64) -> (r: bool) ensures r == fisfinite(a);
pub assume_specification [f64::is_infinite] (a: f64) -> (r: bool) ensures r == fisinfinite(a);
// further classification / sign predicates: deterministic functions about which nothing else is known
// (code that switches to one of them no longer verifies against a contract stated with `>`, `is_finite`, ...)
pub uninterp spec fn fisnormal(a: f64) -> bool;
pub uninterp spec fn fissubnormal(a: f64) -> bool;
pub uninterp spec fn fissignpos(a: f64) -> bool;
pub uninterp spec fn fissignneg(a: f64) -> bool;
pub assume_specification [f64::is_normal] (a: f64) -> (r: bool) ensures r == fisnormal(a);
pub assume_specification [f64::is_subnormal] (a: f64) -> (r: bool) ensures r == fissubnormal(a);
pub assume_specification [f64::is_sign_positive] (a: f64) -> (r: bool) ensures r == fissignpos(a);
pub assume_specification [f64::is_sign_negative] (a: f64) -> (r: bool) ensures r == fissignneg(a);
pub assume_specification [f64::powf] (a: f64, b: f64) -> (r: f64) ensures r == fpowf(a, b);
pub assume_specification [f64::total_cmp] (a: &f64, b: &f64) -> (r: core::cmp::Ordering) ensures r == ftotalcmp(*a, *b);

// R9: associated constants this Verus rejects; the wrappers' bodies ARE the constants.
pub uninterp spec fn finf() -> f64;
pub uninterp spec fn fneginf() -> f64;
#[verifier::external_body]
pub fn __inf() -> (r: f64) ensures r == finf() { f64::INFINITY }
#[verifier::external_body]
pub fn __neg_inf() -> (r: f64) ensures r == fneginf() { f64::NEG_INFINITY }
pub assume_specification [core::cmp::Ordering::is_lt] (o: core::cmp::Ordering) -> (r: bool) ensures r == (o == core::cmp::Ordering::Less);
pub assume_specification [core::cmp::Ordering::is_le] (o: core::cmp::Ordering) -> (r: bool) ensures r == (o != core::cmp::Ordering::Greater);
pub assume_specification [core::cmp::Ordering::is_gt] (o: core::cmp::Ordering) -> (r: bool) ensures r == (o == core::cmp::Ordering::Greater);
pub assume_specification [core::cmp::Ordering::is_ge] (o: core::cmp::Ordering) -> (r: bool) ensures r == (o != core::cmp::Ordering::Less);
pub uninterp spec fn fconst_EPSILON() -> f64;
#[verifier::external_body]
pub fn __f64_EPSILON() -> (r: f64) ensures r == fconst_EPSILON() { f64::EPSILON }
pub uninterp spec fn fconst_MAX() -> f64;
#[verifier::external_body]
pub fn __f64_MAX() -> (r: f64) ensures r == fconst_MAX() { f64::MAX }
pub uninterp spec fn fconst_MIN() -> f64;
#[verifier::external_body]
pub fn __f64_MIN() -> (r: f64) ensures r == fconst_MIN() { f64::MIN }
pub uninterp spec fn fconst_MIN_POSITIVE() -> f64;
#[verifier::external_body]
pub fn __f64_MIN_POSITIVE() -> (r: f64) ensures r == fconst_MIN_POSITIVE() { f64::MIN_POSITIVE }
pub uninterp spec fn fconst_NAN() -> f64;
#[verifier::external_body]
pub fn __f64_NAN() -> (r: f64) ensures r == fconst_NAN() { f64::NAN }

// R12: integer-to-float casts (`X as f64`), which this Verus rejects; the wrapper IS the cast.
pub uninterp spec fn u64_to_f64(n: u64) -> f64;
pub uninterp spec fn usize_to_f64(n: usize) -> f64;
pub trait ToF64: Sized {
    spec fn to_f64_spec(self) -> f64;
    fn __to_f64(self) -> (r: f64) ensures r == self.to_f64_spec();
}
impl ToF64 for u64 {
    open spec fn to_f64_spec(self) -> f64 { u64_to_f64(self) }
    #[verifier::external_body]
    fn __to_f64(self) -> (r: f64) { self as f64 }
}
impl ToF64 for usize {
    open spec fn to_f64_spec(self) -> f64 { usize_to_f64(self) }
    #[verifier::external_body]
    fn __to_f64(self) -> (r: f64) { self as f64 }
}
pub fn __as_f64<T: ToF64>(x: T) -> (r: f64) ensures r == x.to_f64_spec() { x.__to_f64() }

// R13: identity on f64 (see rule R13 of the extractor)
pub fn __idf(x: f64) -> (r: f64) ensures r == x { x }

// ---- prelude fragment: ideal.rs ----
// Floating point, layer 2 ("idealised real" mode of DESIGN.md 3.2): machine arithmetic treated as
// mathematical.  rv maps a float to the real it denotes; rounding, overflow, NaN and signed zero are
// ignored.  Used only where the property is a statement of real arithmetic.
pub uninterp spec fn rv(x: f64) -> real;
pub broadcast axiom fn ax_rv_add(a: f64, b: f64) ensures rv(#[trigger] fadd(a, b)) == rv(a) + rv(b);
pub broadcast axiom fn ax_rv_sub(a: f64, b: f64) ensures rv(#[trigger] fsub(a, b)) == rv(a) - rv(b);
pub broadcast axiom fn ax_rv_mul(a: f64, b: f64) ensures rv(#[trigger] fmul(a, b)) == rv(a) * rv(b);
pub broadcast axiom fn ax_rv_div(a: f64, b: f64) ensures rv(b) != 0real ==> rv(#[trigger] fdiv(a, b)) == rv(a) / rv(b);
pub broadcast axiom fn ax_rv_neg(a: f64) ensures rv(#[trigger] fneg(a)) == 0real - rv(a);
pub broadcast axiom fn ax_rv_cmp(a: f64, b: f64)
    ensures #[trigger] fcmp(a, b) == (if rv(a) < rv(b) { Some(core::cmp::Ordering::Less) }
        else if rv(a) == rv(b) { Some(core::cmp::Ordering::Equal) } else { Some(core::cmp::Ordering::Greater) });
pub broadcast axiom fn ax_rv_eq(a: f64, b: f64) ensures #[trigger] feq(a, b) == (rv(a) == rv(b));
pub broadcast axiom fn ax_rv_max(a: f64, b: f64) ensures rv(#[trigger] fmaxf(a, b)) == (if rv(a) >= rv(b) { rv(a) } else { rv(b) });
pub broadcast axiom fn ax_rv_min(a: f64, b: f64) ensures rv(#[trigger] fminf(a, b)) == (if rv(a) <= rv(b) { rv(a) } else { rv(b) });
// (idealised) powf denotes a function of the real values of its arguments
pub uninterp spec fn rpow(x: real, y: real) -> real;
pub broadcast axiom fn ax_rv_powf(a: f64, b: f64) ensures rv(#[trigger] fpowf(a, b)) == rpow(rv(a), rv(b));
pub axiom fn ax_rv_lits()
    ensures rv(0.0f64) == 0real, rv(1.0f64) == 1real, rv(2.0f64) == 2real, rv(0.5f64) * 2real == 1real;
pub broadcast group ideal {
    ax_rv_add, ax_rv_sub, ax_rv_mul, ax_rv_div, ax_rv_neg, ax_rv_cmp, ax_rv_eq, ax_rv_max, ax_rv_min, ax_rv_powf
}
// (idealised) integer-to-float casts are exact
pub broadcast axiom fn ax_rv_u64(n: u64) ensures rv(#[trigger] u64_to_f64(n)) == n as real;
pub broadcast axiom fn ax_rv_usize(n: usize) ensures rv(#[trigger] usize_to_f64(n)) == n as real;
pub broadcast group ideal_casts { ax_rv_u64, ax_rv_usize }

// ---- prelude fragment: libm_stub.rs ----
// R5: libm / logaddexp boundary.  Real-analysis facts are ASSUMPTIONS (listed in the evidence):
// exp > 0, exp(x - y) exp(y) = exp(x), exp(ln x) = x for x > 0, exp 0 = 1, and the documentation of
// the logaddexp crate: ln_add_exp(x, y) = ln(exp x + exp y).
pub uninterp spec fn rexp(x: real) -> real;
pub uninterp spec fn rln(x: real) -> real;
pub axiom fn ax_exp_pos(x: real) ensures rexp(x) > 0real;
pub axiom fn ax_exp_sub(x: real, y: real) ensures rexp(x - y) * rexp(y) == rexp(x);
pub axiom fn ax_exp_ln(x: real) requires x > 0real ensures rexp(rln(x)) == x;
pub axiom fn ax_exp_zero() ensures rexp(0real) == 1real;
pub uninterp spec fn fln(x: f64) -> f64;
pub uninterp spec fn fexp(x: f64) -> f64;
pub uninterp spec fn flae(x: f64, y: f64) -> f64;
pub assume_specification [f64::ln] (x: f64) -> (r: f64) ensures r == fln(x);
pub assume_specification [f64::exp] (x: f64) -> (r: f64) ensures r == fexp(x);
pub broadcast axiom fn ax_rv_ln(x: f64) ensures rv(#[trigger] fln(x)) == rln(rv(x));
pub broadcast axiom fn ax_rv_exp(x: f64) ensures rv(#[trigger] fexp(x)) == rexp(rv(x));
pub broadcast axiom fn ax_rv_lae(x: f64, y: f64) ensures rv(#[trigger] flae(x, y)) == rln(rexp(rv(x)) + rexp(rv(y)));
pub broadcast group ideal_libm { ax_rv_ln, ax_rv_exp, ax_rv_lae }
pub trait LogAddExp {
    fn ln_add_exp(&self, other: f64) -> f64;
}
impl LogAddExp for f64 {
    #[verifier::external_body]
    fn ln_add_exp(&self, other: f64) -> (r: f64)
        ensures r == flae(*self, other)
    { unimplemented!() }
}

pub open spec fn pow_t(t: u64, a: f64) -> real { rexp(rv(a) * rln(t as real)) }
// the documented discount factor t^a / (t^a + 1)
pub open spec fn is_discount(r: f64, t: u64, a: f64) -> bool { rv(r) * (pow_t(t, a) + 1real) == pow_t(t, a) }
// the value gen_discount computes, as a function of its arguments (uninterpreted float operations)
pub open spec fn gd_general(it: u64, d: f64) -> f64 {
    let numer = fmul(d, fln(u64_to_f64(it)));
    let denom = flae(numer, 0.0f64);
    fexp(fsub(numer, denom))
}
pub open spec fn gd_spec(it: u64, d: f64) -> f64 {
    if feq(d, fneginf()) { 0.0f64 } else if feq(d, 0.0f64) { 0.5f64 } else if feq(d, finf()) { 1.0f64 } else { gd_general(it, d) }
}
pub proof fn lemma_gd_general(it: u64, d: f64)
    requires it >= 1,
    ensures is_discount(gd_general(it, d), it, d),
{
    broadcast use fl; broadcast use ideal; broadcast use ideal_casts; broadcast use ideal_libm;
    ax_rv_lits();
    let numer = fmul(d, fln(u64_to_f64(it)));
    let denom = flae(numer, 0.0f64);
    let n = rv(numer);
    ax_exp_zero();
    ax_exp_pos(n);
    ax_exp_ln(rexp(n) + 1real);
    ax_exp_sub(n, rv(denom));
    assert(rv(denom) == rln(rexp(n) + 1real));
    assert(rexp(rv(denom)) == rexp(n) + 1real);
    assert(n == rv(d) * rln(it as real));
    assert(rv(gd_general(it, d)) == rexp(n - rv(denom)));
}
pub axiom fn ax_mutref_cmp()
    ensures <&mut f64 as PartialOrdSpec<&mut f64>>::obeys_partial_cmp_spec(),
        forall|a: &mut f64, b: &mut f64| #[trigger] a.partial_cmp_spec(&b) == fcmp(*a, *b);

// ---- extracted from src/solve/data.rs: struct RegretParams ----
#[derive(Clone, Copy)]
pub struct RegretParams {
    /// The discount factor for positive cumulative regret or `α`.
    ///
    /// Positive cumulative regrets are discounted by `tᵅ/(tᵅ + 1)` every iteration `t`. Setting
    /// alpha closer to infinity implies no discounting, while setting it at negative infinity
    /// means imediate forgetting. Note that any non-positive value is probably not desired.
    pub pos_regret: f64,
    /// The discount factor for negative cumulative regret or `β`
    ///
    /// Negative cumulative regrets are discounted by `tᵝ/(tᵝ + 1)` every iteration `t`. The
    /// values are the same as for positive regrets. Setting this to a non-positive value will
    /// prevent the cumulative regret of negative regret actions from approaching negative
    /// infinity, which can make pruning negative regret actions impossible.
    pub neg_regret: f64,
    /// The average strategy discount factor `γ`
    ///
    /// The average strategy is discounted by `(ᵗ⁄ₜ₊₁)ᵞ` every iteration t, which is equivalent to
    /// weighting each strategy update by `tᵞ`.
    pub strat: f64,
    /// The scale for picking a strategy when all regrets are negative
    ///
    /// If all actions have negative regret, the chosen strategy can be anything. We use the
    /// softmax of the regrets times this weight. Setting it to infinity is the same as always
    /// playing the strategy with the highest regret. Zero is equivalent to playing each action
    /// uniformly. No other values are recommend, but interpolate between those extremes.
    pub no_positive: f64,
}

// ---- extracted from src/solve/data.rs: impl RegretParams ----
impl RegretParams {
pub fn gen_discount(it: u64, discount: f64) -> (res: f64) 
    requires
        it >= 1,
    ensures
        // (the value as a real number: operand order inside the formula is immaterial; the three special
        // exponents give the exact constants)
        rv(res) == rv(gd_spec(it, discount)),
        feq(discount, fneginf()) ==> res == 0.0f64, !feq(discount, fneginf()) && feq(discount, 0.0f64) ==> res == 0.5f64,
        !feq(discount, fneginf()) && !feq(discount, 0.0f64) && feq(discount, finf()) ==> res == 1.0f64,
        // general branch: t^a / (t^a + 1) with t^a := exp(a ln t)
        !feq(discount, fneginf()) && !feq(discount, 0.0f64) && !feq(discount, finf()) ==> is_discount(res, it, discount), // @ob C08.V.gen_discount.value
{
broadcast use fl; broadcast use ideal; broadcast use ideal_casts; broadcast use ideal_libm;
proof { ax_obeys(); ax_rv_lits(); lemma_gd_general(it, discount); }

        if discount == __neg_inf() {
            0.0
        } else if discount == 0.0 {
            0.5
        } else if discount == __inf() {
            1.0
        } else {
            let numer = discount * (__as_f64(it)).ln();
            let denom = numer.ln_add_exp(0.0);
            (numer - denom).exp()
        }
    }
pub fn discount_average_strat(&self, it: u64, avg_strat: &mut [f64]) 
    requires
        it >= 1,
    ensures
        final(avg_strat)@.len() == old(avg_strat)@.len(),
        // gamma == +inf: everything forgotten
        feq(self.strat, finf()) ==> forall|i: int| 0 <= i < old(avg_strat)@.len() ==> rv(#[trigger] final(avg_strat)@[i]) == 0real, // @ob C08.V.discount_average_strat.inf
        // 0 < gamma < inf: every entry times ONE ratio (t / (t + 1))^gamma
        !feq(self.strat, finf()) && fgt(self.strat, 0.0f64) ==> forall|i: int| 0 <= i < old(avg_strat)@.len() ==>
            rv(#[trigger] final(avg_strat)@[i]) == rv(old(avg_strat)@[i]) * rpow((it as real) / (it as real + 1real), rv(self.strat)), // @ob C08.V.discount_average_strat.ratio
        // gamma == 0 (or negative): untouched
        !feq(self.strat, finf()) && !fgt(self.strat, 0.0f64) ==> final(avg_strat)@ == old(avg_strat)@, // @ob C08.V.discount_average_strat.zero
{
broadcast use fl; broadcast use ideal; broadcast use ideal_casts;
proof { ax_obeys(); ax_rv_lits(); }
let ghost s0 = avg_strat@;
let ghost n = avg_strat@.len();

        if __idf(self.strat) == __inf() {
            for avg in it0: avg_strat.iter_mut() 
invariant
    it0.snapshot@.remaining().len() == n, 0 <= it0.index@ <= n,
    forall|i: int| 0 <= i < it0.index@ ==> rv(*final(#[trigger] it0.snapshot@.remaining()[i])) == 0real,
ensures
    forall|i: int| 0 <= i < n ==> rv(*final(#[trigger] it0.snapshot@.remaining()[i])) == 0real,
{
broadcast use fl; broadcast use ideal;
proof { ax_obeys(); ax_rv_lits(); }

                *avg = 0.0;
            }
        } else if __idf(self.strat) > 0.0 {
            let float = __as_f64(it);
            let ratio = (float / (float + 1.0)).powf(self.strat);
            for avg in it1: avg_strat.iter_mut() 
invariant
    it1.snapshot@.remaining().len() == n, 0 <= it1.index@ <= n,
    forall|i: int| 0 <= i < n ==> *(#[trigger] it1.snapshot@.remaining()[i]) == s0[i],
    rv(ratio) == rpow((it as real) / (it as real + 1real), rv(self.strat)),
    forall|i: int| 0 <= i < it1.index@ ==> rv(*final(#[trigger] it1.snapshot@.remaining()[i])) == rv(s0[i]) * rv(ratio),
ensures
    forall|i: int| 0 <= i < n ==> rv(*final(#[trigger] it1.snapshot@.remaining()[i])) == rv(s0[i]) * rv(ratio),
{
broadcast use fl; broadcast use ideal;
proof { ax_obeys(); ax_rv_lits(); }

                *avg = *avg * ( ratio);
            }
        }
    }
pub fn discount_cum_regret(&self, it: u64, cum_reg: &mut [f64])
    
    requires
        it >= 1,
    ensures
        final(cum_reg)@.len() == old(cum_reg)@.len(),
        // positive cumulative regrets are multiplied by the factor of alpha, negative ones by the factor
        // of beta (both for THIS iteration number), zeros stay
        forall|i: int| 0 <= i < old(cum_reg)@.len() ==> rv(#[trigger] final(cum_reg)@[i]) ==
            (if rv(old(cum_reg)@[i]) > 0real { rv(old(cum_reg)@[i]) * rv(gd_spec(it, self.pos_regret)) }
             else if rv(old(cum_reg)@[i]) < 0real { rv(old(cum_reg)@[i]) * rv(gd_spec(it, self.neg_regret)) }
             else { rv(old(cum_reg)@[i]) }), // @ob C08.V.discount_cum_regret
{
broadcast use fl; broadcast use ideal;
proof { ax_obeys(); ax_rv_lits(); ax_mutref_cmp(); }
let ghost s0 = cum_reg@;
let ghost n = cum_reg@.len();

        let pos = Self::gen_discount(it, self.pos_regret);
        let neg = Self::gen_discount(it, self.neg_regret);
        for reg in it0: cum_reg.iter_mut() 
invariant
    it0.snapshot@.remaining().len() == n, 0 <= it0.index@ <= n,
    rv(pos) == rv(gd_spec(it, self.pos_regret)), rv(neg) == rv(gd_spec(it, self.neg_regret)),
    forall|i: int| 0 <= i < n ==> *(#[trigger] it0.snapshot@.remaining()[i]) == s0[i],
    forall|i: int| 0 <= i < it0.index@ ==> rv(*final(#[trigger] it0.snapshot@.remaining()[i])) ==
        (if rv(s0[i]) > 0real { rv(s0[i]) * rv(pos) } else if rv(s0[i]) < 0real { rv(s0[i]) * rv(neg) } else { rv(s0[i]) }),
ensures
    forall|i: int| 0 <= i < n ==> rv(*final(#[trigger] it0.snapshot@.remaining()[i])) ==
        (if rv(s0[i]) > 0real { rv(s0[i]) * rv(pos) } else if rv(s0[i]) < 0real { rv(s0[i]) * rv(neg) } else { rv(s0[i]) }),
{
broadcast use fl; broadcast use ideal;
proof { ax_obeys(); ax_rv_lits(); ax_mutref_cmp(); }

            if reg > &mut 0.0 {
                *reg = *reg * ( pos);
            } else if reg < &mut 0.0 {
                *reg = *reg * ( neg);
            }
        }
    }
}


// vacuity canary: must be REJECTED by the verifier (an inconsistent axiom set would accept it)
pub proof fn __canary_must_fail()
    ensures false, // @ob __canary
{
    broadcast use fl; broadcast use ideal; broadcast use ideal_casts; broadcast use ideal_libm; ax_obeys(); ax_rv_lits(); ax_exp_zero(); ax_exp_pos(0real);
}

} // verus!
fn main() {}
