#![feature(sized_hierarchy)]
#![feature(allocator_api)]
#![allow(unused_imports, unused_variables, dead_code, unused_mut, unused_parens, unused_braces, non_snake_case)]
use vstd::prelude::*;
use vstd::std_specs::ops::*;
use vstd::std_specs::cmp::*;
use vstd::float::*;
use vstd::std_specs::iter::IteratorSpec;
verus! {
// ---- prelude fragment: floats.rs ----
// Floating point, layer 1 ("uninterpreted" mode of DESIGN.md 3.2): every f64 operator instance the
// language can produce is linked to ONE total, deterministic, otherwise unknown function of the
// operand values.  Nothing about IEEE-754 is assumed here.
pub uninterp spec fn fadd(a: f64, b: f64) -> f64;
pub uninterp spec fn fsub(a: f64, b: f64) -> f64;
pub uninterp spec fn fmul(a: f64, b: f64) -> f64;
pub uninterp spec fn fdiv(a: f64, b: f64) -> f64;
pub uninterp spec fn fneg(a: f64) -> f64;
pub uninterp spec fn fcmp(a: f64, b: f64) -> Option<core::cmp::Ordering>;
pub uninterp spec fn feq(a: f64, b: f64) -> bool;
pub open spec fn flt(a: f64, b: f64) -> bool { fcmp(a, b) == Some(core::cmp::Ordering::Less) }
pub open spec fn fgt(a: f64, b: f64) -> bool { fcmp(a, b) == Some(core::cmp::Ordering::Greater) }
pub open spec fn fle(a: f64, b: f64) -> bool { fcmp(a, b) == Some(core::cmp::Ordering::Less) || fcmp(a, b) == Some(core::cmp::Ordering::Equal) }
pub open spec fn fge(a: f64, b: f64) -> bool { fcmp(a, b) == Some(core::cmp::Ordering::Greater) || fcmp(a, b) == Some(core::cmp::Ordering::Equal) }

pub broadcast axiom fn ax_add_vv_req(a: f64, b: f64) ensures #[trigger] a.add_req(b);
pub broadcast axiom fn ax_add_vv(a: f64, b: f64) ensures #[trigger] a.add_spec(b) == fadd(a, b);
pub broadcast axiom fn ax_add_vr_req(a: f64, b: &f64) ensures #[trigger] a.add_req(b);
pub broadcast axiom fn ax_add_vr(a: f64, b: &f64) ensures #[trigger] a.add_spec(b) == fadd(a, *b);
pub broadcast axiom fn ax_add_rv_req(a: &f64, b: f64) ensures #[trigger] a.add_req(b);
pub broadcast axiom fn ax_add_rv(a: &f64, b: f64) ensures #[trigger] a.add_spec(b) == fadd(*a, b);
pub broadcast axiom fn ax_add_rr_req(a: &f64, b: &f64) ensures #[trigger] a.add_req(b);
pub broadcast axiom fn ax_add_rr(a: &f64, b: &f64) ensures #[trigger] a.add_spec(b) == fadd(*a, *b);
pub broadcast axiom fn ax_sub_vv_req(a: f64, b: f64) ensures #[trigger] a.sub_req(b);
pub broadcast axiom fn ax_sub_vv(a: f64, b: f64) ensures #[trigger] a.sub_spec(b) == fsub(a, b);
pub broadcast axiom fn ax_sub_vr_req(a: f64, b: &f64) ensures #[trigger] a.sub_req(b);
pub broadcast axiom fn ax_sub_vr(a: f64, b: &f64) ensures #[trigger] a.sub_spec(b) == fsub(a, *b);
pub broadcast axiom fn ax_sub_rv_req(a: &f64, b: f64) ensures #[trigger] a.sub_req(b);
pub broadcast axiom fn ax_sub_rv(a: &f64, b: f64) ensures #[trigger] a.sub_spec(b) == fsub(*a, b);
pub broadcast axiom fn ax_sub_rr_req(a: &f64, b: &f64) ensures #[trigger] a.sub_req(b);
pub broadcast axiom fn ax_sub_rr(a: &f64, b: &f64) ensures #[trigger] a.sub_spec(b) == fsub(*a, *b);
pub broadcast axiom fn ax_mul_vv_req(a: f64, b: f64) ensures #[trigger] a.mul_req(b);
pub broadcast axiom fn ax_mul_vv(a: f64, b: f64) ensures #[trigger] a.mul_spec(b) == fmul(a, b);
pub broadcast axiom fn ax_mul_vr_req(a: f64, b: &f64) ensures #[trigger] a.mul_req(b);
pub broadcast axiom fn ax_mul_vr(a: f64, b: &f64) ensures #[trigger] a.mul_spec(b) == fmul(a, *b);
pub broadcast axiom fn ax_mul_rv_req(a: &f64, b: f64) ensures #[trigger] a.mul_req(b);
pub broadcast axiom fn ax_mul_rv(a: &f64, b: f64) ensures #[trigger] a.mul_spec(b) == fmul(*a, b);
pub broadcast axiom fn ax_mul_rr_req(a: &f64, b: &f64) ensures #[trigger] a.mul_req(b);
pub broadcast axiom fn ax_mul_rr(a: &f64, b: &f64) ensures #[trigger] a.mul_spec(b) == fmul(*a, *b);
pub broadcast axiom fn ax_div_vv_req(a: f64, b: f64) ensures #[trigger] a.div_req(b);
pub broadcast axiom fn ax_div_vv(a: f64, b: f64) ensures #[trigger] a.div_spec(b) == fdiv(a, b);
pub broadcast axiom fn ax_div_vr_req(a: f64, b: &f64) ensures #[trigger] a.div_req(b);
pub broadcast axiom fn ax_div_vr(a: f64, b: &f64) ensures #[trigger] a.div_spec(b) == fdiv(a, *b);
pub broadcast axiom fn ax_div_rv_req(a: &f64, b: f64) ensures #[trigger] a.div_req(b);
pub broadcast axiom fn ax_div_rv(a: &f64, b: f64) ensures #[trigger] a.div_spec(b) == fdiv(*a, b);
pub broadcast axiom fn ax_div_rr_req(a: &f64, b: &f64) ensures #[trigger] a.div_req(b);
pub broadcast axiom fn ax_div_rr(a: &f64, b: &f64) ensures #[trigger] a.div_spec(b) == fdiv(*a, *b);
pub broadcast axiom fn ax_cmp_v(a: f64, b: f64) ensures #[trigger] a.partial_cmp_spec(&b) == fcmp(a, b);
pub broadcast axiom fn ax_eq_v(a: f64, b: f64) ensures #[trigger] a.eq_spec(&b) == feq(a, b);
pub broadcast axiom fn ax_cmp_r(a: &f64, b: &f64) ensures #[trigger] a.partial_cmp_spec(&b) == fcmp(*a, *b);
pub broadcast axiom fn ax_eq_r(a: &f64, b: &f64) ensures #[trigger] a.eq_spec(&b) == feq(*a, *b);
// IEEE facts about comparison that do not depend on the operands' values (discharged for ALL pairs of
// f64 by the loop-free Kani harness `ieee_cmp_flip`): a < b  <=>  b > a, equality is symmetric, an
// unordered pair is unordered both ways; == agrees with partial_cmp.
pub axiom fn ax_obeys()
    ensures
        forall|a: f64, b: f64| (#[trigger] fcmp(a, b) == Some(core::cmp::Ordering::Less)) == (fcmp(b, a) == Some(core::cmp::Ordering::Greater)),
        forall|a: f64, b: f64| (#[trigger] fcmp(a, b) == Some(core::cmp::Ordering::Equal)) == (fcmp(b, a) == Some(core::cmp::Ordering::Equal)),
        forall|a: f64, b: f64| (#[trigger] fcmp(a, b) is None) == (fcmp(b, a) is None),
        forall|a: f64, b: f64| #[trigger] feq(a, b) == (fcmp(a, b) == Some(core::cmp::Ordering::Equal)),
        // max / min are commutative as far as comparisons can tell (the two results are identical, or +0 / -0,
        // or both NaN): discharged for ALL triples by the loop-free Kani harness `ieee_max_min_commute`
        forall|a: f64, b: f64, c: f64| #[trigger] fcmp(fmaxf(a, b), c) == fcmp(fmaxf(b, a), c),
        forall|a: f64, b: f64, c: f64| #[trigger] fcmp(c, fmaxf(a, b)) == fcmp(c, fmaxf(b, a)),
        forall|a: f64, b: f64, c: f64| #[trigger] fcmp(fminf(a, b), c) == fcmp(fminf(b, a), c),
        forall|a: f64, b: f64, c: f64| #[trigger] fcmp(c, fminf(a, b)) == fcmp(c, fminf(b, a)),
        <f64 as AddSpec<f64>>::obeys_add_spec(),
        <f64 as AddSpec<&f64>>::obeys_add_spec(),
        <&f64 as AddSpec<f64>>::obeys_add_spec(),
        <&f64 as AddSpec<&f64>>::obeys_add_spec(),
        <f64 as SubSpec<f64>>::obeys_sub_spec(),
        <f64 as SubSpec<&f64>>::obeys_sub_spec(),
        <&f64 as SubSpec<f64>>::obeys_sub_spec(),
        <&f64 as SubSpec<&f64>>::obeys_sub_spec(),
        <f64 as MulSpec<f64>>::obeys_mul_spec(),
        <f64 as MulSpec<&f64>>::obeys_mul_spec(),
        <&f64 as MulSpec<f64>>::obeys_mul_spec(),
        <&f64 as MulSpec<&f64>>::obeys_mul_spec(),
        <f64 as DivSpec<f64>>::obeys_div_spec(),
        <f64 as DivSpec<&f64>>::obeys_div_spec(),
        <&f64 as DivSpec<f64>>::obeys_div_spec(),
        <&f64 as DivSpec<&f64>>::obeys_div_spec(),
        <f64 as PartialOrdSpec<f64>>::obeys_partial_cmp_spec(),
        <f64 as PartialEqSpec<f64>>::obeys_eq_spec(),
        <&f64 as PartialOrdSpec<&f64>>::obeys_partial_cmp_spec(),
        <&f64 as PartialEqSpec<&f64>>::obeys_eq_spec(),
;
pub broadcast group fl {
    ax_add_vv_req, ax_add_vv, ax_add_vr_req, ax_add_vr, ax_add_rv_req, ax_add_rv, ax_add_rr_req, ax_add_rr, ax_sub_vv_req, ax_sub_vv, ax_sub_vr_req, ax_sub_vr, ax_sub_rv_req, ax_sub_rv, ax_sub_rr_req, ax_sub_rr, ax_mul_vv_req, ax_mul_vv, ax_mul_vr_req, ax_mul_vr, ax_mul_rv_req, ax_mul_rv, ax_mul_rr_req, ax_mul_rr, ax_div_vv_req, ax_div_vv, ax_div_vr_req, ax_div_vr, ax_div_rv_req, ax_div_rv, ax_div_rr_req, ax_div_rr, ax_cmp_v, ax_eq_v, ax_cmp_r, ax_eq_r
}

// R8: unary minus (this Verus rejects float negation); the wrapper IS the operator.
// (core implements Neg for f64 and for &f64: the wrapper takes either)
pub trait __NegArg: Sized { spec fn negv(self) -> f64; }
impl __NegArg for f64 { open spec fn negv(self) -> f64 { self } }
impl<'a> __NegArg for &'a f64 { open spec fn negv(self) -> f64 { *self } }
#[verifier::external_body]
pub fn __neg<T: __NegArg>(x: T) -> (r: f64)
    ensures r == fneg(x.negv()),
{ unimplemented!() }


// f64 methods used by the extracted code: linked to uninterpreted functions (their IEEE facts, where
// a proof needs one, are separate axioms discharged by loop-free Kani harnesses).
pub uninterp spec fn fmaxf(a: f64, b: f64) -> f64;
pub uninterp spec fn fminf(a: f64, b: f64) -> f64;
pub uninterp spec fn fabsf(a: f64) -> f64;
pub uninterp spec fn fisnan(a: f64) -> bool;
pub uninterp spec fn fisfinite(a: f64) -> bool;
pub uninterp spec fn fisinfinite(a: f64) -> bool;
// IEEE classification facts (discharged for ALL f64 / all pairs by the loop-free Kani harness
// `ieee_classification`): finite <=> neither NaN nor infinite; NaN and infinite exclude each other;
// a pair is unordered exactly when one side is NaN; 0.0 is finite.
pub axiom fn ax_ieee_class()
    ensures
        forall|a: f64| #[trigger] fisfinite(a) == (!fisnan(a) && !fisinfinite(a)),
        forall|a: f64| #[trigger] fisnan(a) ==> !fisinfinite(a),
        forall|a: f64, b: f64| (#[trigger] fcmp(a, b) is None) == (fisnan(a) || fisnan(b)),
        fisfinite(0.0f64),
        // (core::cmp::Ordering has exactly three variants: the Rust enum, opaque to this Verus)
        forall|a: f64, b: f64| #[trigger] fcmp(a, b) is None || fcmp(a, b) == Some(core::cmp::Ordering::Less)
            || fcmp(a, b) == Some(core::cmp::Ordering::Equal) || fcmp(a, b) == Some(core::cmp::Ordering::Greater);
pub uninterp spec fn fpowf(a: f64, b: f64) -> f64;
pub uninterp spec fn ftotalcmp(a: f64, b: f64) -> core::cmp::Ordering;
pub assume_specification [f64::max] (a: f64, b: f64) -> (r: f64) ensures r == fmaxf(a, b);
pub assume_specification [f64::min] (a: f64, b: f64) -> (r: f64) ensures r == fminf(a, b);
pub assume_specification [f64::abs] (a: f64) -> (r: f64) ensures r == fabsf(a);
pub assume_specification [f64::is_nan] (a: f64) -> (r: bool) ensures r == fisnan(a);
pub assume_specification [f64::is_finite] (a: f64) -> (r: bool) ensures r == fisfinite(a);
pub assume_specification [f64::is_infinite] (a: f64) -> (r: bool) ensures r == fisinfinite(a);
// further classification / sign predicates: deterministic functions about which nothing else is known
// (code that switches to one of them no longer verifies against a contract stated with `>`, `is_finite`, ...)
pub uninterp spec fn fisnormal(a: f64) -> bool;
pub uninterp spec fn fissubnormal(a: f64) -> bool;
pub uninterp spec fn fissignpos(a: f64) -> bool;
pub uninterp spec fn fissignneg(a: f64) -> bool;
pub assume_specification [f64::is_normal] (a: f64) -> (r: bool) ensures r == fisnormal(a);
pub assume_specification [f64::is_subnormal] (a: f64) -> (r: bool) ensures r == fissubnormal(a);
pub assume_specification [f64::is_sign_positive] (a: f64) -> (r: bool) ensures r == fissignpos(a);
pub assume_specification [f64::is_sign_negative] (a: f64) -> (r: bool) ensures r == fissignneg(a);
pub assume_specification [f64::powf] (a: f64, b: f64) -> (r: f64) ensures r == fpowf(a, b);
pub assume_specification [f64::total_cmp] (a: &f64, b: &f64) -> (r: core::cmp::Ordering) ensures r == ftotalcmp(*a, *b);

// R9: associated constants this Verus rejects; the wrappers' bodies ARE the constants.
pub uninterp spec fn finf() -> f64;
pub uninterp spec fn fneginf() -> f64;
#[verifier::external_body]
pub fn __inf() -> (r: f64) ensures r == finf() { f64::INFINITY }
#[verifier::external_body]
pub fn __neg_inf() -> (r: f64) ensures r == fneginf() { f64::NEG_INFINITY }
pub assume_specification [core::cmp::Ordering::is_lt] (o: core::cmp::Ordering) -> (r: bool) ensures r == (o == core::cmp::Ordering::Less);
pub assume_specification [core::cmp::Ordering::is_le] (o: core::cmp::Ordering) -> (r: bool) ensures r == (o != core::cmp::Ordering::Greater);
pub assume_specification [core::cmp::Ordering::is_gt] (o: core::cmp::Ordering) -> (r: bool) ensures r == (o == core::cmp::Ordering::Greater);
pub assume_specification [core::cmp::Ordering::is_ge] (o: core::cmp::Ordering) -> (r: bool) ensures r == (o != core::cmp::Ordering::Less);
pub uninterp spec fn fconst_EPSILON() -> f64;
#[verifier::external_body]
pub fn __f64_EPSILON() -> (r: f64) ensures r == fconst_EPSILON() { f64::EPSILON }
pub uninterp spec fn fconst_MAX() -> f64;
#[verifier::external_body]
pub fn __f64_MAX() -> (r: f64) ensures r == fconst_MAX() { f64::MAX }
pub uninterp spec fn fconst_MIN() -> f64;
#[verifier::external_body]
pub fn __f64_MIN() -> (r: f64) ensures r == fconst_MIN() { f64::MIN }
pub uninterp spec fn fconst_MIN_POSITIVE() -> f64;
#[verifier::external_body]
pub fn __f64_MIN_POSITIVE() -> (r: f64) ensures r == fconst_MIN_POSITIVE() { f64::MIN_POSITIVE }
pub uninterp spec fn fconst_NAN() -> f64;
#[verifier::external_body]
pub fn __f64_NAN() -> (r: f64) ensures r == fconst_NAN() { f64::NAN }

// R12: integer-to-float casts (`X as f64`), which this Verus rejects; the wrapper IS the cast.
pub uninterp spec fn u64_to_f64(n: u64) -> f64;
pub uninterp spec fn usize_to_f64(n: usize) -> f64;
pub trait ToF64: Sized {
    spec fn to_f64_spec(self) -> f64;
    fn __to_f64(self) -> (r: f64) ensures r == self.to_f64_spec();
}
impl ToF64 for u64 {
    open spec fn to_f64_spec(self) -> f64 { u64_to_f64(self) }
    #[verifier::external_body]
    fn __to_f64(self) -> (r: f64) { self as f64 }
}
impl ToF64 for usize {
    open spec fn to_f64_spec(self) -> f64 { usize_to_f64(self) }
    #[verifier::external_body]
    fn __to_f64(self) -> (r: f64) { self as f64 }
}
pub fn __as_f64<T: ToF64>(x: T) -> (r: f64) ensures r == x.to_f64_spec() { x.__to_f64() }

// R13: identity on f64 (see rule R13 of the extractor)
pub fn __idf(x: f64) -> (r: f64) ensures r == x { x }

// ---- prelude fragment: ideal.rs ----
// Floating point, layer 2 ("idealised real" mode of DESIGN.md 3.2): machine arithmetic treated as
// mathematical.  rv maps a float to the real it denotes; rounding, overflow, NaN and signed zero are
// ignored.  Used only where the property is a statement of real arithmetic.
pub uninterp spec fn rv(x: f64) -> real;
pub broadcast axiom fn ax_rv_add(a: f64, b: f64) ensures rv(#[trigger] fadd(a, b)) == rv(a) + rv(b);
pub broadcast axiom fn ax_rv_sub(a: f64, b: f64) ensures rv(#[trigger] fsub(a, b)) == rv(a) - rv(b);
pub broadcast axiom fn ax_rv_mul(a: f64, b: f64) ensures rv(#[trigger] fmul(a, b)) == rv(a) * rv(b);
pub broadcast axiom fn ax_rv_div(a: f64, b: f64) ensures rv(b) != 0real ==> rv(#[trigger] fdiv(a, b)) == rv(a) / rv(b);
pub broadcast axiom fn ax_rv_neg(a: f64) ensures rv(#[trigger] fneg(a)) == 0real - rv(a);
pub broadcast axiom fn ax_rv_cmp(a: f64, b: f64)
    ensures #[trigger] fcmp(a, b) == (if rv(a) < rv(b) { Some(core::cmp::Ordering::Less) }
        else if rv(a) == rv(b) { Some(core::cmp::Ordering::Equal) } else { Some(core::cmp::Ordering::Greater) });
pub broadcast axiom fn ax_rv_eq(a: f64, b: f64) ensures #[trigger] feq(a, b) == (rv(a) == rv(b));
pub broadcast axiom fn ax_rv_max(a: f64, b: f64) ensures rv(#[trigger] fmaxf(a, b)) == (if rv(a) >= rv(b) { rv(a) } else { rv(b) });
pub broadcast axiom fn ax_rv_min(a: f64, b: f64) ensures rv(#[trigger] fminf(a, b)) == (if rv(a) <= rv(b) { rv(a) } else { rv(b) });
// (idealised) powf denotes a function of the real values of its arguments
pub uninterp spec fn rpow(x: real, y: real) -> real;
pub broadcast axiom fn ax_rv_powf(a: f64, b: f64) ensures rv(#[trigger] fpowf(a, b)) == rpow(rv(a), rv(b));
pub axiom fn ax_rv_lits()
    ensures rv(0.0f64) == 0real, rv(1.0f64) == 1real, rv(2.0f64) == 2real, rv(0.5f64) * 2real == 1real;
pub broadcast group ideal {
    ax_rv_add, ax_rv_sub, ax_rv_mul, ax_rv_div, ax_rv_neg, ax_rv_cmp, ax_rv_eq, ax_rv_max, ax_rv_min, ax_rv_powf
}
// (idealised) integer-to-float casts are exact
pub broadcast axiom fn ax_rv_u64(n: u64) ensures rv(#[trigger] u64_to_f64(n)) == n as real;
pub broadcast axiom fn ax_rv_usize(n: usize) ensures rv(#[trigger] usize_to_f64(n)) == n as real;
pub broadcast group ideal_casts { ax_rv_u64, ax_rv_usize }

// ---- prelude fragment: iter_ext.rs ----
// R7: provided Iterator methods vstd does not specify, as external wrappers whose contracts restate
// the std documentation over the iterator's remaining() sequence.
// Iterator::reduce(f): None for an empty iterator, otherwise the left fold of f over the items.
// (f is assumed deterministic: its postcondition determines its result -- true for fn items such as
// f64::max whose assume_specification is an equation.)
pub open spec fn fapply<F: Fn(f64, f64) -> f64>(f: F, a: f64, b: f64) -> f64 {
    choose|r: f64| f.ensures((a, b), r)
}
pub open spec fn rfold<F: Fn(f64, f64) -> f64>(f: F, s: Seq<f64>) -> f64
    decreases s.len()
{
    if s.len() <= 1 { s[0] } else { fapply(f, rfold(f, s.drop_last()), s.last()) }
}
#[verifier::external_body]
pub fn __reduce<I: Iterator<Item = f64>, F: Fn(f64, f64) -> f64>(it: I, f: F) -> (r: Option<f64>)
    requires it.obeys_prophetic_iter_laws(),
    ensures
        it.remaining().len() == 0 ==> r is None,
        it.remaining().len() > 0 ==> r == Some(rfold(f, it.remaining())),
{ unimplemented!() }
// the fn ITEMS f64::max / f64::min used as values: their call postcondition is the same equation
// as their assume_specification (Verus does not derive this for function items by itself)
pub axiom fn ax_fn_items()
    ensures
        forall|a: f64, b: f64, r: f64| #[trigger] f64::max.ensures((a, b), r) == (r == fmaxf(a, b)),
        forall|a: f64, b: f64, r: f64| #[trigger] f64::min.ensures((a, b), r) == (r == fminf(a, b));
// Iterator::sum over &f64 items: the left fold of `+` starting from the additive identity the
// standard library uses (an unspecified zero constant here; its real value is 0)
pub uninterp spec fn fsum_init() -> f64;
pub open spec fn fsum_ref(s: Seq<&f64>, k: int) -> f64 decreases k {
    if k <= 0 { fsum_init() } else { fadd(fsum_ref(s, k - 1), *s[k - 1]) }
}
pub open spec fn fsum(s: Seq<f64>, k: int) -> f64 decreases k {
    if k <= 0 { fsum_init() } else { fadd(fsum(s, k - 1), s[k - 1]) }
}
#[verifier::external_body]
pub fn __sum<'a, I: Iterator<Item = &'a f64>>(it: I) -> (r: f64)
    requires it.obeys_prophetic_iter_laws(),
    ensures r == fsum_ref(it.remaining(), it.remaining().len() as int),
{ unimplemented!() }
// summing references to the elements of a sequence is summing the sequence (fires automatically)
pub broadcast proof fn lemma_fsum_ref_is_fsum(rem: Seq<&f64>, s: Seq<f64>, k: int)
    requires 0 <= k <= rem.len(), k <= s.len(), forall|i: int| 0 <= i < k ==> *rem[i] == s[i],
    ensures #![trigger fsum_ref(rem, k), fsum(s, k)] fsum_ref(rem, k) == fsum(s, k),
    decreases k
{
    if k > 0 { lemma_fsum_ref_is_fsum(rem, s, k - 1); }
}
// Iterator::all: NOT specified (the result is an arbitrary boolean): code whose outcome depends on it
// can only be proved if it is correct for both answers
#[verifier::external_body]
pub fn __all<I: Iterator, F: FnMut(I::Item) -> bool>(it: I, f: F) -> (r: bool) { unimplemented!() }

// ---- prelude fragment: iter_ext_ideal.rs ----
// (idealised) the additive identity Iterator::sum starts from denotes 0
pub axiom fn ax_rv_sum_init() ensures rv(fsum_init()) == 0real;

// sums of idealised values and the normalisation lemmas shared by avg_strat / import / truncate units
pub open spec fn rsum(s: Seq<f64>, k: int) -> real decreases k {
    if k <= 0 { 0real } else { rsum(s, k - 1) + rv(s[k - 1]) }
}
pub proof fn lemma_fsum_rsum(s: Seq<f64>, k: int)
    requires 0 <= k <= s.len(),
    ensures rv(fsum(s, k)) == rsum(s, k),
    decreases k
{
    broadcast use ideal;
    ax_rv_sum_init();
    if k > 0 { lemma_fsum_rsum(s, k - 1); }
}
// sum of x_i / n over the first k entries equals (sum of x_i) / n
pub proof fn lemma_rsum_div(a: Seq<f64>, b: Seq<f64>, n: real, k: int)
    requires 0 <= k <= a.len(), a.len() == b.len(), n != 0real, forall|i: int| 0 <= i < a.len() ==> rv(#[trigger] b[i]) == rv(a[i]) / n,
    ensures rsum(b, k) == rsum(a, k) / n,
    decreases k
{
    if k <= 0 {
        assert(0real / n == 0real) by(nonlinear_arith) requires n != 0real;
    } else {
        lemma_rsum_div(a, b, n, k - 1);
        assert(rv(b[k - 1]) == rv(a[k - 1]) / n);
        assert(rsum(b, k) == rsum(b, k - 1) + rv(b[k - 1]));
        assert(rsum(a, k) == rsum(a, k - 1) + rv(a[k - 1]));
        assert(rsum(a, k - 1) / n + rv(a[k - 1]) / n == (rsum(a, k - 1) + rv(a[k - 1])) / n) by(nonlinear_arith) requires n != 0real;
    }
}

use vstd::std_specs::iter::{zip_iter_snd, zip_iter_fst};
pub assume_specification<T: Clone> [<[T]>::fill] (s: &mut [T], v: T)
    ensures final(s)@.len() == old(s)@.len(), forall|i: int| 0 <= i < old(s)@.len() ==> #[trigger] final(s)@[i] == v;
// sum of the strictly positive entries among the first k
pub open spec fn pos_sum(s: Seq<f64>, k: int) -> real decreases k {
    if k <= 0 { 0real } else { pos_sum(s, k - 1) + (if rv(s[k - 1]) > 0real { rv(s[k - 1]) } else { 0real }) }
}
pub open spec fn is_argmax(s: Seq<f64>, ind: int) -> bool { 0 <= ind < s.len() && forall|j: int| 0 <= j < s.len() ==> rv(#[trigger] s[j]) <= rv(s[ind]) }
pub open spec fn is_argmin(s: Seq<f64>, ind: int) -> bool { 0 <= ind < s.len() && forall|j: int| 0 <= j < s.len() ==> rv(#[trigger] s[j]) >= rv(s[ind]) }
pub open spec fn one_hot(s: Seq<f64>, ind: int) -> bool { forall|j: int| 0 <= j < s.len() ==> rv(#[trigger] s[j]) == (if j == ind { 1real } else { 0real }) }
// R6 (iterator chains with closures are outside this Verus; the bounded Kani harnesses run the real chains)
#[verifier::external_body]
pub fn __abs_pos_sum(cum_reg: &mut [f64]) -> (r: f64)
    ensures rv(r) == pos_sum(old(cum_reg)@, old(cum_reg)@.len() as int), final(cum_reg)@ == old(cum_reg)@,
{ unimplemented!() }
#[verifier::external_body]
pub fn __abs_argmax(cum_reg: &mut [f64]) -> (r: usize)
    requires old(cum_reg)@.len() >= 1,
    ensures is_argmax(old(cum_reg)@, r as int), final(cum_reg)@ == old(cum_reg)@,
{ unimplemented!() }
#[verifier::external_body]
pub fn __abs_argmin(cum_reg: &mut [f64]) -> (r: usize)
    requires old(cum_reg)@.len() >= 1,
    ensures is_argmin(old(cum_reg)@, r as int), final(cum_reg)@ == old(cum_reg)@,
{ unimplemented!() }
// softmax fallback (exp chains): abstracted as a whole, decided (bounded, bit-precise, exp interval
// model) by the Kani harnesses c05_regret_match_softmax_*
pub uninterp spec fn softmax_rel(w: f64, regs: Seq<f64>, out: Seq<f64>) -> bool;
#[verifier::external_body]
pub fn __abs_softmax(w: f64, cum_reg: &mut [f64], strat: &mut [f64])
    ensures final(cum_reg)@ == old(cum_reg)@, final(strat)@.len() == old(strat)@.len(), softmax_rel(w, old(cum_reg)@, final(strat)@),
{ unimplemented!() }
pub proof fn lemma_pos_div(a: Seq<f64>, b: Seq<f64>, t: real, k: int)
    requires 0 <= k <= a.len(), a.len() == b.len(), t != 0real,
        forall|i: int| 0 <= i < a.len() ==> rv(#[trigger] b[i]) == (if rv(a[i]) > 0real { rv(a[i]) / t } else { 0real }),
    ensures rsum(b, k) == pos_sum(a, k) / t,
    decreases k
{
    if k <= 0 {
        assert(0real / t == 0real) by(nonlinear_arith) requires t != 0real;
    } else {
        lemma_pos_div(a, b, t, k - 1);
        assert(rsum(b, k) == rsum(b, k - 1) + rv(b[k - 1]));
        let x = if rv(a[k - 1]) > 0real { rv(a[k - 1]) } else { 0real };
        assert(rv(b[k - 1]) == x / t) by {
            assert(0real / t == 0real) by(nonlinear_arith) requires t != 0real;
        }
        assert(pos_sum(a, k - 1) / t + x / t == (pos_sum(a, k - 1) + x) / t) by(nonlinear_arith) requires t != 0real;
    }
}
pub proof fn lemma_one_hot_sum(s: Seq<f64>, ind: int, k: int)
    requires one_hot(s, ind), 0 <= ind < s.len(), 0 <= k <= s.len(),
    ensures rsum(s, k) == (if ind < k { 1real } else { 0real }),
    decreases k
{
    if k > 0 { lemma_one_hot_sum(s, ind, k - 1); assert(rv(s[k - 1]) == (if k - 1 == ind { 1real } else { 0real })); }
}
pub open spec fn is_uniform(s: Seq<f64>) -> bool { forall|j: int| 0 <= j < s.len() ==> rv(#[trigger] s[j]) == 1real / (s.len() as real) }
pub broadcast proof fn lemma_one_hot_total(s: Seq<f64>, ind: int)
    requires #[trigger] one_hot(s, ind), 0 <= ind < s.len(),
    ensures rsum(s, s.len() as int) == 1real,
{ lemma_one_hot_sum(s, ind, s.len() as int); }
pub broadcast proof fn lemma_uniform_total(s: Seq<f64>)
    requires #[trigger] is_uniform(s), s.len() >= 1,
    ensures rsum(s, s.len() as int) == 1real,
{
    lemma_uniform_sum(s, s.len() as int, s.len() as int);
    let d = s.len() as real;
    assert(d / d == 1real) by(nonlinear_arith) requires d != 0real;
}
pub proof fn lemma_uniform_sum(s: Seq<f64>, n: int, k: int)
    requires n == s.len(), n >= 1, 0 <= k <= n, forall|j: int| 0 <= j < n ==> rv(#[trigger] s[j]) == 1real / (n as real),
    ensures rsum(s, k) == (k as real) / (n as real),
    decreases k
{
    let d = n as real;
    if k <= 0 {
        assert(0real / d == 0real) by(nonlinear_arith) requires d != 0real;
    } else {
        lemma_uniform_sum(s, n, k - 1);
        assert(((k - 1) as real) / d + 1real / d == (k as real) / d) by(nonlinear_arith) requires d != 0real;
    }
}

// idealised: +inf / -inf denote values different from every finite number used as a selector
pub axiom fn ax_rv_inf() ensures rv(finf()) > 0real, rv(fneginf()) < 0real, rv(finf()) != rv(fneginf());

// ---- extracted from src/solve/data.rs: struct RegretParams ----
#[derive(Clone, Copy)]
pub struct RegretParams {
    /// The discount factor for positive cumulative regret or `α`.
    ///
    /// Positive cumulative regrets are discounted by `tᵅ/(tᵅ + 1)` every iteration `t`. Setting
    /// alpha closer to infinity implies no discounting, while setting it at negative infinity
    /// means imediate forgetting. Note that any non-positive value is probably not desired.
    pub pos_regret: f64,
    /// The discount factor for negative cumulative regret or `β`
    ///
    /// Negative cumulative regrets are discounted by `tᵝ/(tᵝ + 1)` every iteration `t`. The
    /// values are the same as for positive regrets. Setting this to a non-positive value will
    /// prevent the cumulative regret of negative regret actions from approaching negative
    /// infinity, which can make pruning negative regret actions impossible.
    pub neg_regret: f64,
    /// The average strategy discount factor `γ`
    ///
    /// The average strategy is discounted by `(ᵗ⁄ₜ₊₁)ᵞ` every iteration t, which is equivalent to
    /// weighting each strategy update by `tᵞ`.
    pub strat: f64,
    /// The scale for picking a strategy when all regrets are negative
    ///
    /// If all actions have negative regret, the chosen strategy can be anything. We use the
    /// softmax of the regrets times this weight. Setting it to infinity is the same as always
    /// playing the strategy with the highest regret. Zero is equivalent to playing each action
    /// uniformly. No other values are recommend, but interpolate between those extremes.
    pub no_positive: f64,
}

// ---- extracted from src/solve/data.rs: impl RegretParams ----
impl RegretParams {
pub fn regret_match(&self, cum_reg: &mut [f64], strat: &mut [f64])
    
    ensures
        final(cum_reg)@ == old(cum_reg)@,
        final(strat)@.len() == old(strat)@.len(),
        // some regret is positive: sigma_a = R_a^+ / sum_b R_b^+ (a distribution)
        pos_sum(old(cum_reg)@, old(cum_reg)@.len() as int) > 0real ==>
            (forall|i: int| 0 <= i < old(strat)@.len() ==> rv(#[trigger] final(strat)@[i]) ==
                (if rv(old(cum_reg)@[i]) > 0real { rv(old(cum_reg)@[i]) / pos_sum(old(cum_reg)@, old(cum_reg)@.len() as int) } else { 0real }))
            && rsum(final(strat)@, old(strat)@.len() as int) == 1real, // @ob C08.V.regret_match.positive
        // no positive regret: the documented fallbacks
        !(pos_sum(old(cum_reg)@, old(cum_reg)@.len() as int) > 0real) && feq(self.no_positive, finf()) ==>
            (exists|ind: int| #[trigger] is_argmax(old(cum_reg)@, ind) && one_hot(final(strat)@, ind) && rsum(final(strat)@, old(strat)@.len() as int) == 1real), // @ob C08.V.regret_match.fallback_argmax
        !(pos_sum(old(cum_reg)@, old(cum_reg)@.len() as int) > 0real) && !feq(self.no_positive, finf()) && feq(self.no_positive, 0.0f64) ==>
            is_uniform(final(strat)@) && rsum(final(strat)@, old(strat)@.len() as int) == 1real, // @ob C08.V.regret_match.fallback_uniform
        !(pos_sum(old(cum_reg)@, old(cum_reg)@.len() as int) > 0real) && !feq(self.no_positive, finf()) && !feq(self.no_positive, 0.0f64) && feq(self.no_positive, fneginf()) ==>
            (exists|ind: int| #[trigger] is_argmin(old(cum_reg)@, ind) && one_hot(final(strat)@, ind) && rsum(final(strat)@, old(strat)@.len() as int) == 1real), // @ob C08.V.regret_match.fallback_argmin
{
broadcast use fl; broadcast use ideal; broadcast use ideal_casts; broadcast use lemma_one_hot_total; broadcast use lemma_uniform_total;
proof { ax_obeys(); ax_rv_lits(); ax_rv_inf(); assume(cum_reg@.len() == strat@.len() && strat@.len() >= 1); }
let ghost c0 = cum_reg@;
let ghost n = strat@.len();

        
        let norm: f64 = __abs_pos_sum(cum_reg);
        if norm > 0.0 {
            for (reg__r, val) in it: cum_reg.iter_mut().zip(strat.iter_mut()) 
invariant
    it.snapshot@.remaining().len() == n, n == c0.len(), 0 <= it.index@ <= n,
    zip_iter_snd(it.snapshot@).remaining().len() == n,
    zip_iter_fst(it.snapshot@).remaining().len() == n,
    forall|i: int| 0 <= i < n ==> (it.snapshot@.remaining()[i]).1 == #[trigger] zip_iter_snd(it.snapshot@).remaining()[i],
    forall|i: int| 0 <= i < n ==> (it.snapshot@.remaining()[i]).0 == #[trigger] zip_iter_fst(it.snapshot@).remaining()[i],
    forall|i: int| 0 <= i < n ==> *(#[trigger] it.snapshot@.remaining()[i]).0 == c0[i],
    rv(norm) == pos_sum(c0, n as int), rv(norm) > 0real,
    forall|i: int| 0 <= i < it.index@ ==> rv(*final((#[trigger] it.snapshot@.remaining()[i]).1)) ==
        (if rv(c0[i]) > 0real { rv(c0[i]) / rv(norm) } else { 0real }),
    forall|i: int| 0 <= i < it.index@ ==> *final((#[trigger] it.snapshot@.remaining()[i]).0) == c0[i],
ensures
    forall|i: int| 0 <= i < n ==> rv(*final(#[trigger] zip_iter_snd(it.snapshot@).remaining()[i])) ==
        (if rv(c0[i]) > 0real { rv(c0[i]) / rv(norm) } else { 0real }),
    forall|i: int| 0 <= i < n ==> *final(#[trigger] zip_iter_fst(it.snapshot@).remaining()[i]) == c0[i],
{
let reg = *reg__r;
broadcast use fl; broadcast use ideal;
proof { ax_obeys(); ax_rv_lits(); assert(0real / rv(norm) == 0real) by(nonlinear_arith) requires rv(norm) != 0real; }

                *val = if reg > 0.0 { reg / norm } else { 0.0 }
            }
proof {
    assert(cum_reg@ =~= c0);
    lemma_pos_div(c0, strat@, rv(norm), n as int);
    assert(pos_sum(c0, n as int) / rv(norm) == 1real) by(nonlinear_arith) requires rv(norm) == pos_sum(c0, n as int), rv(norm) > 0real;
}

        } else if __idf(self.no_positive) == __inf() {
            let ind = __abs_argmax(cum_reg);
            strat.fill(0.0);
            strat[ind] = 1.0; proof { assert(one_hot(strat@, ind as int)); }
        } else if __idf(self.no_positive) == 0.0 {
            strat.fill(1.0 / __as_f64(strat.len()));
        } else if __idf(self.no_positive) == __neg_inf() {
            let ind = __abs_argmin(cum_reg);
            strat.fill(0.0);
            strat[ind] = 1.0; proof { assert(one_hot(strat@, ind as int)); }
        } else {
 __abs_softmax(self.no_positive, cum_reg, strat);
 }
}
}

pub axiom fn ax_ref_cmp_f64()
    ensures <&f64 as PartialOrdSpec<&f64>>::obeys_partial_cmp_spec(),
        forall|a: &f64, b: &f64| #[trigger] <&f64 as PartialOrdSpec<&f64>>::partial_cmp_spec(&a, &b) == fcmp(*a, *b);

// ---- extracted from src/solve/data.rs: impl RegretParams / fn regret_match ----
pub fn regret_match__counts_towards_norm(v: &f64) -> (out: bool)
    ensures
        // the normaliser sums every strictly positive regret and nothing negative (whether zeros are
        // included makes no difference to a sum)
        fgt(*v, 0.0f64) ==> out, // @ob C08.V.regret_match.norm_over_positive
        out ==> fge(*v, 0.0f64), // @ob C08.V.regret_match.norm_over_positive
{
broadcast use fl;
proof { ax_obeys(); ax_ref_cmp_f64(); }
v > &0.0
}


// vacuity canary: must be REJECTED by the verifier (an inconsistent axiom set would accept it)
pub proof fn __canary_must_fail()
    ensures false, // @ob __canary
{
    broadcast use fl; broadcast use ideal; broadcast use ideal_casts; ax_obeys(); ax_rv_lits(); ax_rv_inf();
}

} // verus!
fn main() {}
