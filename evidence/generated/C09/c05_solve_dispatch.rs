#![feature(sized_hierarchy)]
#![feature(allocator_api)]
#![allow(unused_imports, unused_variables, dead_code, unused_mut, unused_parens, unused_braces, non_snake_case)]
use vstd::prelude::*;
use vstd::std_specs::ops::*;
use vstd::std_specs::cmp::*;
use vstd::float::*;
use vstd::std_specs::iter::IteratorSpec;
verus! {
// ---- prelude fragment: floats.rs ----
// Floating point, layer 1 ("uninterpreted" mode of DESIGN.md 3.2): every f64 operator instance the
// language can produce is linked to ONE total, deterministic, otherwise unknown function of the
// operand values.  Nothing about IEEE-754 is assumed here.
pub uninterp spec fn fadd(a: f64, b: f64) -> f64;
pub uninterp spec fn fsub(a: f64, b: f64) -> f64;
pub uninterp spec fn fmul(a: f64, b: f64) -> f64;
pub uninterp spec fn fdiv(a: f64, b: f64) -> f64;
pub uninterp spec fn fneg(a: f64) -> f64;
pub uninterp spec fn fcmp(a: f64, b: f64) -> Option<core::cmp::Ordering>;
pub uninterp spec fn feq(a: f64, b: f64) -> bool;
pub open spec fn flt(a: f64, b: f64) -> bool { fcmp(a, b) == Some(core::cmp::Ordering::Less) }
pub open spec fn fgt(a: f64, b: f64) -> bool { fcmp(a, b) == Some(core::cmp::Ordering::Greater) }
pub open spec fn fle(a: f64, b: f64) -> bool { fcmp(a, b) == Some(core::cmp::Ordering::Less) || fcmp(a, b) == Some(core::cmp::Ordering::Equal) }
pub open spec fn fge(a: f64, b: f64) -> bool { fcmp(a, b) == Some(core::cmp::Ordering::Greater) || fcmp(a, b) == Some(core::cmp::Ordering::Equal) }

pub broadcast axiom fn ax_add_vv_req(a: f64, b: f64) ensures #[trigger] a.add_req(b);
pub broadcast axiom fn ax_add_vv(a: f64, b: f64) ensures #[trigger] a.add_spec(b) == fadd(a, b);
pub broadcast axiom fn ax_add_vr_req(a: f64, b: &f64) ensures #[trigger] a.add_req(b);
pub broadcast axiom fn ax_add_vr(a: f64, b: &f64) ensures #[trigger] a.add_spec(b) == fadd(a, *b);
pub broadcast axiom fn ax_add_rv_req(a: &f64, b: f64) ensures #[trigger] a.add_req(b);
pub broadcast axiom fn ax_add_rv(a: &f64, b: f64) ensures #[trigger] a.add_spec(b) == fadd(*a, b);
pub broadcast axiom fn ax_add_rr_req(a: &f64, b: &f64) ensures #[trigger] a.add_req(b);
pub broadcast axiom fn ax_add_rr(a: &f64, b: &f64) ensures #[trigger] a.add_spec(b) == fadd(*a, *b);
pub broadcast axiom fn ax_sub_vv_req(a: f64, b: f64) ensures #[trigger] a.sub_req(b);
pub broadcast axiom fn ax_sub_vv(a: f64, b: f64) ensures #[trigger] a.sub_spec(b) == fsub(a, b);
pub broadcast axiom fn ax_sub_vr_req(a: f64, b: &f64) ensures #[trigger] a.sub_req(b);
pub broadcast axiom fn ax_sub_vr(a: f64, b: &f64) ensures #[trigger] a.sub_spec(b) == fsub(a, *b);
pub broadcast axiom fn ax_sub_rv_req(a: &f64, b: f64) ensures #[trigger] a.sub_req(b);
pub broadcast axiom fn ax_sub_rv(a: &f64, b: f64) ensures #[trigger] a.sub_spec(b) == fsub(*a, b);
pub broadcast axiom fn ax_sub_rr_req(a: &f64, b: &f64) ensures #[trigger] a.sub_req(b);
pub broadcast axiom fn ax_sub_rr(a: &f64, b: &f64) ensures #[trigger] a.sub_spec(b) == fsub(*a, *b);
pub broadcast axiom fn ax_mul_vv_req(a: f64, b: f64) ensures #[trigger] a.mul_req(b);
pub broadcast axiom fn ax_mul_vv(a: f64, b: f64) ensures #[trigger] a.mul_spec(b) == fmul(a, b);
pub broadcast axiom fn ax_mul_vr_req(a: f64, b: &f64) ensures #[trigger] a.mul_req(b);
pub broadcast axiom fn ax_mul_vr(a: f64, b: &f64) ensures #[trigger] a.mul_spec(b) == fmul(a, *b);
pub broadcast axiom fn ax_mul_rv_req(a: &f64, b: f64) ensures #[trigger] a.mul_req(b);
pub broadcast axiom fn ax_mul_rv(a: &f64, b: f64) ensures #[trigger] a.mul_spec(b) == fmul(*a, b);
pub broadcast axiom fn ax_mul_rr_req(a: &f64, b: &f64) ensures #[trigger] a.mul_req(b);
pub broadcast axiom fn ax_mul_rr(a: &f64, b: &f64) ensures #[trigger] a.mul_spec(b) == fmul(*a, *b);
pub broadcast axiom fn ax_div_vv_req(a: f64, b: f64) ensures #[trigger] a.div_req(b);
pub broadcast axiom fn ax_div_vv(a: f64, b: f64) ensures #[trigger] a.div_spec(b) == fdiv(a, b);
pub broadcast axiom fn ax_div_vr_req(a: f64, b: &f64) ensures #[trigger] a.div_req(b);
pub broadcast axiom fn ax_div_vr(a: f64, b: &f64) ensures #[trigger] a.div_spec(b) == fdiv(a, *b);
pub broadcast axiom fn ax_div_rv_req(a: &f64, b: f64) ensures #[trigger] a.div_req(b);
pub broadcast axiom fn ax_div_rv(a: &f64, b: f64) ensures #[trigger] a.div_spec(b) == fdiv(*a, b);
pub broadcast axiom fn ax_div_rr_req(a: &f64, b: &f64) ensures #[trigger] a.div_req(b);
pub broadcast axiom fn ax_div_rr(a: &f64, b: &f64) ensures #[trigger] a.div_spec(b) == fdiv(*a, *b);
pub broadcast axiom fn ax_cmp_v(a: f64, b: f64) ensures #[trigger] a.partial_cmp_spec(&b) == fcmp(a, b);
pub broadcast axiom fn ax_eq_v(a: f64, b: f64) ensures #[trigger] a.eq_spec(&b) == feq(a, b);
pub broadcast axiom fn ax_cmp_r(a: &f64, b: &f64) ensures #[trigger] a.partial_cmp_spec(&b) == fcmp(*a, *b);
pub broadcast axiom fn ax_eq_r(a: &f64, b: &f64) ensures #[trigger] a.eq_spec(&b) == feq(*a, *b);
// IEEE facts about comparison that do not depend on the operands' values (discharged for ALL pairs of
// f64 by the loop-free Kani harness `ieee_cmp_flip`): a < b  <=>  b > a, equality is symmetric, an
// unordered pair is unordered both ways; == agrees with partial_cmp.
pub axiom fn ax_obeys()
    ensures
        forall|a: f64, b: f64| (#[trigger] fcmp(a, b) == Some(core::cmp::Ordering::Less)) == (fcmp(b, a) == Some(core::cmp::Ordering::Greater)),
        forall|a: f64, b: f64| (#[trigger] fcmp(a, b) == Some(core::cmp::Ordering::Equal)) == (fcmp(b, a) == Some(core::cmp::Ordering::Equal)),
        forall|a: f64, b: f64| (#[trigger] fcmp(a, b) is None) == (fcmp(b, a) is None),
        forall|a: f64, b: f64| #[trigger] feq(a, b) == (fcmp(a, b) == Some(core::cmp::Ordering::Equal)),
        // max / min are commutative as far as comparisons can tell (the two results are identical, or +0 / -0,
        // or both NaN): discharged for ALL triples by the loop-free Kani harness `ieee_max_min_commute`
        forall|a: f64, b: f64, c: f64| #[trigger] fcmp(fmaxf(a, b), c) == fcmp(fmaxf(b, a), c),
        forall|a: f64, b: f64, c: f64| #[trigger] fcmp(c, fmaxf(a, b)) == fcmp(c, fmaxf(b, a)),
        forall|a: f64, b: f64, c: f64| #[trigger] fcmp(fminf(a, b), c) == fcmp(fminf(b, a), c),
        forall|a: f64, b: f64, c: f64| #[trigger] fcmp(c, fminf(a, b)) == fcmp(c, fminf(b, a)),
        <f64 as AddSpec<f64>>::obeys_add_spec(),
        <f64 as AddSpec<&f64>>::obeys_add_spec(),
        <&f64 as AddSpec<f64>>::obeys_add_spec(),
        <&f64 as AddSpec<&f64>>::obeys_add_spec(),
        <f64 as SubSpec<f64>>::obeys_sub_spec(),
        <f64 as SubSpec<&f64>>::obeys_sub_spec(),
        <&f64 as SubSpec<f64>>::obeys_sub_spec(),
        <&f64 as SubSpec<&f64>>::obeys_sub_spec(),
        <f64 as MulSpec<f64>>::obeys_mul_spec(),
        <f64 as MulSpec<&f64>>::obeys_mul_spec(),
        <&f64 as MulSpec<f64>>::obeys_mul_spec(),
        <&f64 as MulSpec<&f64>>::obeys_mul_spec(),
        <f64 as DivSpec<f64>>::obeys_div_spec(),
        <f64 as DivSpec<&f64>>::obeys_div_spec(),
        <&f64 as DivSpec<f64>>::obeys_div_spec(),
        <&f64 as DivSpec<&f64>>::obeys_div_spec(),
        <f64 as PartialOrdSpec<f64>>::obeys_partial_cmp_spec(),
        <f64 as PartialEqSpec<f64>>::obeys_eq_spec(),
        <&f64 as PartialOrdSpec<&f64>>::obeys_partial_cmp_spec(),
        <&f64 as PartialEqSpec<&f64>>::obeys_eq_spec(),
;
pub broadcast group fl {
    ax_add_vv_req, ax_add_vv, ax_add_vr_req, ax_add_vr, ax_add_rv_req, ax_add_rv, ax_add_rr_req, ax_add_rr, ax_sub_vv_req, ax_sub_vv, ax_sub_vr_req, ax_sub_vr, ax_sub_rv_req, ax_sub_rv, ax_sub_rr_req, ax_sub_rr, ax_mul_vv_req, ax_mul_vv, ax_mul_vr_req, ax_mul_vr, ax_mul_rv_req, ax_mul_rv, ax_mul_rr_req, ax_mul_rr, ax_div_vv_req, ax_div_vv, ax_div_vr_req, ax_div_vr, ax_div_rv_req, ax_div_rv, ax_div_rr_req, ax_div_rr, ax_cmp_v, ax_eq_v, ax_cmp_r, ax_eq_r
}

// R8: unary minus (this Verus rejects float negation); the wrapper IS the operator.
// (core implements Neg for f64 and for &f64: the wrapper takes either)
pub trait __NegArg: Sized { spec fn negv(self) -> f64; }
impl __NegArg for f64 { open spec fn negv(self) -> f64 { self } }
impl<'a> __NegArg for &'a f64 { open spec fn negv(self) -> f64 { *self } }
#[verifier::external_body]
pub fn __neg<T: __NegArg>(x: T) -> (r: f64)
    ensures r == fneg(x.negv()),
{ unimplemented!() }


// f64 methods used by the extracted code: linked to uninterpreted functions (their IEEE facts, where
// a proof needs one, are separate axioms discharged by loop-free Kani harnesses).
pub uninterp spec fn fmaxf(a: f64, b: f64) -> f64;
pub uninterp spec fn fminf(a: f64, b: f64) -> f64;
pub uninterp spec fn fabsf(a: f64) -> f64;
pub uninterp spec fn fisnan(a: f64) -> bool;
pub uninterp spec fn fisfinite(a: f64) -> bool;
pub uninterp spec fn fisinfinite(a: f64) -> bool;
// IEEE classification facts (discharged for ALL f64 / all pairs by the loop-free Kani harness
// `ieee_classification`): finite <=> neither NaN nor infinite; NaN and infinite exclude each other;
// a pair is unordered exactly when one side is NaN; 0.0 is finite.
pub axiom fn ax_ieee_class()
    ensures
        forall|a: f64| #[trigger] fisfinite(a) == (!fisnan(a) && !fisinfinite(a)),
        forall|a: f64| #[trigger] fisnan(a) ==> !fisinfinite(a),
        forall|a: f64, b: f64| (#[trigger] fcmp(a, b) is None) == (fisnan(a) || fisnan(b)),
        fisfinite(0.0f64),
        // (core::cmp::Ordering has exactly three variants: the Rust enum, opaque to this Verus)
        forall|a: f64, b: f64| #[trigger] fcmp(a, b) is None || fcmp(a, b) == Some(core::cmp::Ordering::Less)
            || fcmp(a, b) == Some(core::cmp::Ordering::Equal) || fcmp(a, b) == Some(core::cmp::Ordering::Greater);
pub uninterp spec fn fpowf(a: f64, b: f64) -> f64;
pub uninterp spec fn ftotalcmp(a: f64, b: f64) -> core::cmp::Ordering;
pub assume_specification [f64::max] (a: f64, b: f64) -> (r: f64) ensures r == fmaxf(a, b);
pub assume_specification [f64::min] (a: f64, b: f64) -> (r: f64) ensures r == fminf(a, b);
pub assume_specification [f64::abs] (a: f64) -> (r: f64) ensures r == fabsf(a);
pub assume_specification [f64::is_nan] (a: f64) -> (r: bool) ensures r == fisnan(a);
pub assume_specification [f64::is_finite] (a: f64) -> (r: bool) ensures r == fisfinite(a);
pub assume_specification [f64::is_infinite] (a: f64) -> (r: bool) ensures r == fisinfinite(a);
// further classification / sign predicates: deterministic functions about which nothing else is known
// (code that switches to one of them no longer verifies against a contract stated with `>`, `is_finite`, ...)
pub uninterp spec fn fisnormal(a: f64) -> bool;
pub uninterp spec fn fissubnormal(a: f64) -> bool;
pub uninterp spec fn fissignpos(a: f64) -> bool;
pub uninterp spec fn fissignneg(a: f64) -> bool;
pub assume_specification [f64::is_normal] (a: f64) -> (r: bool) ensures r == fisnormal(a);
pub assume_specification [f64::is_subnormal] (a: f64) -> (r: bool) ensures r == fissubnormal(a);
pub assume_specification [f64::is_sign_positive] (a: f64) -> (r: bool) ensures r == fissignpos(a);
pub assume_specification [f64::is_sign_negative] (a: f64) -> (r: bool) ensures r == fissignneg(a);
pub assume_specification [f64::powf] (a: f64, b: f64) -> (r: f64) ensures r == fpowf(a, b);
pub assume_specification [f64::total_cmp] (a: &f64, b: &f64) -> (r: core::cmp::Ordering) ensures r == ftotalcmp(*a, *b);

// R9: associated constants this Verus rejects; the wrappers' bodies ARE the constants.
pub uninterp spec fn finf() -> f64;
pub uninterp spec fn fneginf() -> f64;
#[verifier::external_body]
pub fn __inf() -> (r: f64) ensures r == finf() { f64::INFINITY }
#[verifier::external_body]
pub fn __neg_inf() -> (r: f64) ensures r == fneginf() { f64::NEG_INFINITY }
pub assume_specification [core::cmp::Ordering::is_lt] (o: core::cmp::Ordering) -> (r: bool) ensures r == (o == core::cmp::Ordering::Less);
pub assume_specification [core::cmp::Ordering::is_le] (o: core::cmp::Ordering) -> (r: bool) ensures r == (o != core::cmp::Ordering::Greater);
pub assume_specification [core::cmp::Ordering::is_gt] (o: core::cmp::Ordering) -> (r: bool) ensures r == (o == core::cmp::Ordering::Greater);
pub assume_specification [core::cmp::Ordering::is_ge] (o: core::cmp::Ordering) -> (r: bool) ensures r == (o != core::cmp::Ordering::Less);
pub uninterp spec fn fconst_EPSILON() -> f64;
#[verifier::external_body]
pub fn __f64_EPSILON() -> (r: f64) ensures r == fconst_EPSILON() { f64::EPSILON }
pub uninterp spec fn fconst_MAX() -> f64;
#[verifier::external_body]
pub fn __f64_MAX() -> (r: f64) ensures r == fconst_MAX() { f64::MAX }
pub uninterp spec fn fconst_MIN() -> f64;
#[verifier::external_body]
pub fn __f64_MIN() -> (r: f64) ensures r == fconst_MIN() { f64::MIN }
pub uninterp spec fn fconst_MIN_POSITIVE() -> f64;
#[verifier::external_body]
pub fn __f64_MIN_POSITIVE() -> (r: f64) ensures r == fconst_MIN_POSITIVE() { f64::MIN_POSITIVE }
pub uninterp spec fn fconst_NAN() -> f64;
#[verifier::external_body]
pub fn __f64_NAN() -> (r: f64) ensures r == fconst_NAN() { f64::NAN }

// R12: integer-to-float casts (`X as f64`), which this Verus rejects; the wrapper IS the cast.
pub uninterp spec fn u64_to_f64(n: u64) -> f64;
pub uninterp spec fn usize_to_f64(n: usize) -> f64;
pub trait ToF64: Sized {
    spec fn to_f64_spec(self) -> f64;
    fn __to_f64(self) -> (r: f64) ensures r == self.to_f64_spec();
}
impl ToF64 for u64 {
    open spec fn to_f64_spec(self) -> f64 { u64_to_f64(self) }
    #[verifier::external_body]
    fn __to_f64(self) -> (r: f64) { self as f64 }
}
impl ToF64 for usize {
    open spec fn to_f64_spec(self) -> f64 { usize_to_f64(self) }
    #[verifier::external_body]
    fn __to_f64(self) -> (r: f64) { self as f64 }
}
pub fn __as_f64<T: ToF64>(x: T) -> (r: f64) ensures r == x.to_f64_spec() { x.__to_f64() }

// R13: identity on f64 (see rule R13 of the extractor)
pub fn __idf(x: f64) -> (r: f64) ensures r == x { x }

// ---- extracted from src/solve/data.rs: struct RegretParams ----
#[derive(Clone, Copy)]
pub struct RegretParams {
    /// The discount factor for positive cumulative regret or `α`.
    ///
    /// Positive cumulative regrets are discounted by `tᵅ/(tᵅ + 1)` every iteration `t`. Setting
    /// alpha closer to infinity implies no discounting, while setting it at negative infinity
    /// means imediate forgetting. Note that any non-positive value is probably not desired.
    pub pos_regret: f64,
    /// The discount factor for negative cumulative regret or `β`
    ///
    /// Negative cumulative regrets are discounted by `tᵝ/(tᵝ + 1)` every iteration `t`. The
    /// values are the same as for positive regrets. Setting this to a non-positive value will
    /// prevent the cumulative regret of negative regret actions from approaching negative
    /// infinity, which can make pruning negative regret actions impossible.
    pub neg_regret: f64,
    /// The average strategy discount factor `γ`
    ///
    /// The average strategy is discounted by `(ᵗ⁄ₜ₊₁)ᵞ` every iteration t, which is equivalent to
    /// weighting each strategy update by `tᵞ`.
    pub strat: f64,
    /// The scale for picking a strategy when all regrets are negative
    ///
    /// If all actions have negative regret, the chosen strategy can be anything. We use the
    /// softmax of the regrets times this weight. Setting it to infinity is the same as always
    /// playing the strategy with the highest regret. Zero is equivalent to playing each action
    /// uniformly. No other values are recommend, but interpolate between those extremes.
    pub no_positive: f64,
}

// ---- extracted from src/lib.rs: enum SolveMethod ----
#[derive(Clone, Copy)]
pub enum SolveMethod {
    /// This method indicates vanilla counterfactual regret minimization, which does no random
    /// sampling. This can be good for small games, espcially ones with very unlikely chance
    /// outcomes, but otherwise spends a lot of computation exploring unimportant areas of the game
    /// tree.
    Full,
    /// This method indicates chance sampled counterfactual regret minimization, which samples
    /// outcomes at chance nodes, but fully explores player actions. This often performs better
    /// than full exploration, but may produce worse results if there are infrequent but very
    /// relevant chance outcomes.
    ///
    /// Since this is sampled, there's a chance that it terminates early with a small regret bound
    /// that's slighly incorrect because it didn't sample enough chance outcomes.
    Sampled,
    /// This method indicates external sampled counterfactual regret minimization, which alternates
    /// between players, and only fully explores the actions of one player, while sampling the
    /// actions of the other according to their current strategy. This often converges faster than
    /// the other methods because it doesn't explore sections of the game tree with low value.
    ///
    /// Since this is sampled, there's a chance that it terminates early with a small regret bound
    /// that's slighly incorrect because it didn't sample enough chance outcomes.
    External,
}

// ---- extracted from src/error.rs: enum SolveError ----
#[derive(Clone, Copy)]
pub enum SolveError {
    /// Returned when the requested number of threads was too large
    ThreadOverflow,
    /// Returned when a multi-threaded solver couldn't create a thread pool
    ThreadSpawnError,
}


use std::hash::Hash;
// ---- R5 stubs: std::num::NonZeroUsize, std::thread::available_parallelism, rayon's error, the six solver entry points ----
#[derive(Clone, Copy, PartialEq, Eq, Structural)]
pub struct NonZeroUsize { pub v: usize }
impl NonZeroUsize {
    pub fn new(n: usize) -> (r: Option<NonZeroUsize>)
        ensures n == 0 ==> r is None, n != 0 ==> r == Some(NonZeroUsize { v: n }),
    { if n == 0 { None } else { Some(NonZeroUsize { v: n }) } }
    // core: "Multiplies two non-zero integers together. Checks for overflow and returns None on overflow."
    #[verifier::external_body]
    pub fn checked_mul(self, other: NonZeroUsize) -> (r: Option<NonZeroUsize>)
        ensures self.v * other.v > usize::MAX ==> r is None,
                self.v * other.v <= usize::MAX ==> r == Some(NonZeroUsize { v: (self.v * other.v) as usize }),
    { unimplemented!() }
}
pub struct ThreadPoolBuildError { }
pub struct IoError { }
// what std::thread::available_parallelism() answers on this machine (any value, or an error)
pub uninterp spec fn avail_spec() -> Result<NonZeroUsize, IoError>;
pub mod thread {
    use super::*;
    #[verifier::external_body]
    pub fn available_parallelism() -> (r: Result<NonZeroUsize, IoError>)
        ensures r == avail_spec(), r is Ok ==> r->Ok_0.v != 0,
    { unimplemented!() }
}
#[verifier::external_body] pub struct Node { }
pub trait ChanceInfoset { }
pub trait PlayerInfoset { }
pub type SolveInfo = ([f64; 2], [Box<[f64]>; 2]);
pub uninterp spec fn default_params() -> RegretParams;
impl Default for RegretParams {
    #[verifier::external_body]
    fn default() -> (r: Self) ensures r == default_params() { unimplemented!() }
}
// core: Option::or_else "Returns the option if it contains a value, otherwise calls f and returns the result"
pub assume_specification<T, F: FnOnce() -> Option<T>> [Option::<T>::or_else] (o: Option<T>, f: F) -> (r: Option<T>)
    ensures o is Some ==> r == o, o is None ==> f.ensures((), r);
// result of each solver as a function of (budget, threshold, parameters [, thread info])
pub uninterp spec fn single_spec(which: int, max_iter: u64, max_reg: f64, p: RegretParams) -> SolveInfo;
pub uninterp spec fn multi_spec(which: int, max_iter: u64, max_reg: f64, threads: usize, target: usize, p: RegretParams) -> Result<SolveInfo, ThreadPoolBuildError>;
pub mod vanilla {
    use super::*;
    #[verifier::external_body]
    pub fn solve_full_single(start: &Node, chance_info: &[impl ChanceInfoset], player_info: [&[impl PlayerInfoset]; 2], max_iter: u64, max_reg: f64, params: &RegretParams) -> (r: SolveInfo)
        ensures r == single_spec(0, max_iter, max_reg, *params) { unimplemented!() }
    #[verifier::external_body]
    pub fn solve_sampled_single(start: &Node, chance_info: &[impl ChanceInfoset], player_info: [&[impl PlayerInfoset]; 2], max_iter: u64, max_reg: f64, params: &RegretParams) -> (r: SolveInfo)
        ensures r == single_spec(1, max_iter, max_reg, *params) { unimplemented!() }
    #[verifier::external_body]
    pub fn solve_full_multi(start: &Node, chance_info: &[impl ChanceInfoset], player_info: [&[impl PlayerInfoset]; 2], max_iter: u64, max_reg: f64, thread_info: (NonZeroUsize, NonZeroUsize), params: &RegretParams) -> (r: Result<SolveInfo, ThreadPoolBuildError>)
        ensures r == multi_spec(0, max_iter, max_reg, thread_info.0.v, thread_info.1.v, *params) { unimplemented!() }
    #[verifier::external_body]
    pub fn solve_sampled_multi(start: &Node, chance_info: &[impl ChanceInfoset], player_info: [&[impl PlayerInfoset]; 2], max_iter: u64, max_reg: f64, thread_info: (NonZeroUsize, NonZeroUsize), params: &RegretParams) -> (r: Result<SolveInfo, ThreadPoolBuildError>)
        ensures r == multi_spec(1, max_iter, max_reg, thread_info.0.v, thread_info.1.v, *params) { unimplemented!() }
}
pub mod external {
    use super::*;
    #[verifier::external_body]
    pub fn solve_external_single(start: &Node, chance_info: &[impl ChanceInfoset], player_info: [&[impl PlayerInfoset]; 2], max_iter: u64, max_reg: f64, params: &RegretParams) -> (r: SolveInfo)
        ensures r == single_spec(2, max_iter, max_reg, *params) { unimplemented!() }
    #[verifier::external_body]
    pub fn solve_external_multi(start: &Node, chance_info: &[impl ChanceInfoset], player_info: [&[impl PlayerInfoset]; 2], max_iter: u64, max_reg: f64, thread_info: (NonZeroUsize, NonZeroUsize), params: &RegretParams) -> (r: Result<SolveInfo, ThreadPoolBuildError>)
        ensures r == multi_spec(2, max_iter, max_reg, thread_info.0.v, thread_info.1.v, *params) { unimplemented!() }
}
pub open spec fn p_eff(params: Option<RegretParams>) -> RegretParams { match params { Some(p) => p, None => default_params() } }
pub open spec fn which_of(m: SolveMethod) -> int { match m { SolveMethod::Full => 0, SolveMethod::Sampled => 1, SolveMethod::External => 2 } }
// effective thread count: the argument, or the machine's parallelism for 0, or 1 if that is unknown
pub open spec fn eff_threads(num_threads: usize) -> usize {
    if num_threads != 0 { num_threads } else { match avail_spec() { Ok(n) => n.v, Err(_) => 1 } }
}

// vstd attaches a trait-level law to From::from; this impl states its spec-level meaning (ghost)
impl vstd::std_specs::convert::FromSpecImpl<ThreadPoolBuildError> for SolveError {
    open spec fn obeys_from_spec() -> bool { true }
    open spec fn from_spec(v: ThreadPoolBuildError) -> Self { SolveError::ThreadSpawnError }
}

// ---- extracted from src/error.rs: impl From<ThreadPoolBuildError> for SolveError ----
impl From<ThreadPoolBuildError> for SolveError {
fn from(_e: ThreadPoolBuildError) -> (r: Self) 
    ensures r == SolveError::ThreadSpawnError
{
        SolveError::ThreadSpawnError
    }
}

// ---- extracted from src/lib.rs: struct ChanceInfosetData ----
pub struct ChanceInfosetData {
    pub probs: Box<[f64]>,
}

// ---- extracted from src/lib.rs: struct PlayerInfosetData ----
pub struct PlayerInfosetData<I, A> {
    pub infoset: I,
    pub actions: Box<[A]>,
    pub prev_infoset: Option<usize>,
}

impl ChanceInfoset for ChanceInfosetData { }
impl<I, A> PlayerInfoset for PlayerInfosetData<I, A> { }

// ---- extracted from src/lib.rs: struct Game ----
#[verifier::reject_recursive_types(Infoset)]
#[verifier::reject_recursive_types(Action)]
pub struct Game<Infoset, Action> {
    pub chance_infosets: Box<[ChanceInfosetData]>,
    pub player_infosets: [Box<[PlayerInfosetData<Infoset, Action>]>; 2],
    pub single_infosets: [Box<[(Infoset, Action)]>; 2],
    pub root: Node,
}

// ---- extracted from src/lib.rs: struct Strategies ----
#[verifier::reject_recursive_types(Infoset)]
#[verifier::reject_recursive_types(Action)]
pub struct Strategies<'a, Infoset, Action> {
    pub game: &'a Game<Infoset, Action>,
    pub probs: [Box<[f64]>; 2],
}

// ---- extracted from src/lib.rs: struct RegretBound ----
pub struct RegretBound {
    pub regrets: [f64; 2],
}

// ---- extracted from src/lib.rs: impl RegretBound ----
impl RegretBound {
pub fn new(regrets: [f64; 2]) -> (r: Self) 
    ensures r.regrets == regrets
{
        RegretBound { regrets }
    }
}

// ---- extracted from src/lib.rs: impl Game ----
impl<I, A> Game<I, A> {
pub fn solve(
        &self,
        method: SolveMethod,
        max_iter: u64,
        max_reg: f64,
        num_threads: usize,
        params: Option<RegretParams>,
    ) -> (out: Result<(Strategies<I, A>, RegretBound), SolveError>) 
    ensures
        // a returned profile belongs to this game and carries exactly what the chosen solver returned
        out is Ok ==> out->Ok_0.0.game == self, // @ob C05.V.solve.result_plumbing
        // ONE thread never errors and uses the single-threaded variant of the requested method, with
        // the documented default parameters when none are given
        eff_threads(num_threads) == 1 ==> out is Ok
            && (out->Ok_0.1.regrets, out->Ok_0.0.probs) == single_spec(which_of(method), max_iter, max_reg, p_eff(params)), // @ob C05.V.solve.one_thread_never_errors
        // several threads: the documented thread-count error exactly when 3 x threads overflows, and then no solver runs
        eff_threads(num_threads) > 1 && eff_threads(num_threads) * 3 > usize::MAX ==> out == Err::<(Strategies<I, A>, RegretBound), SolveError>(SolveError::ThreadOverflow), // @ob C05.V.solve.thread_overflow
        // otherwise the multi-threaded variant of the requested method with (threads, 3 x threads); its
        // pool-construction error is the only other error
        // (0 threads means the machine's parallelism, or 1 if that is unknown: eff_threads)
        eff_threads(num_threads) > 1 && eff_threads(num_threads) * 3 <= usize::MAX ==>
            match multi_spec(which_of(method), max_iter, max_reg, eff_threads(num_threads), (eff_threads(num_threads) * 3) as usize, p_eff(params)) {
                Ok(info) => out is Ok && (out->Ok_0.1.regrets, out->Ok_0.0.probs) == info,
                // (the error VALUE is `From::from(e)` applied by `?` -- Rust semantics, trusted; the impl of
                // From<ThreadPoolBuildError> is proved above to return ThreadSpawnError)
                Err(_) => out is Err,
            }, // @ob C05.V.solve.multi_dispatch
{
        let first_player = &self.player_infosets[0]; let second_player = &self.player_infosets[1];
        let threads = NonZeroUsize::new(num_threads)
            .or_else(|| -> (o: Option<NonZeroUsize>) ensures o == (match avail_spec() { Ok(n) => Some(n), Err(_) => None }) { thread::available_parallelism().ok() })
            .unwrap_or(NonZeroUsize::new(1).unwrap());
        let params = params.unwrap_or_default();
        let (regrets, probs) = if threads == NonZeroUsize::new(1).unwrap() {
            match method {
                SolveMethod::Full => vanilla::solve_full_single(
                    &self.root,
                    &self.chance_infosets,
                    [first_player, second_player],
                    max_iter,
                    max_reg,
                    &params,
                ),
                SolveMethod::Sampled => vanilla::solve_sampled_single(
                    &self.root,
                    &self.chance_infosets,
                    [first_player, second_player],
                    max_iter,
                    max_reg,
                    &params,
                ),
                SolveMethod::External => external::solve_external_single(
                    &self.root,
                    &self.chance_infosets,
                    [first_player, second_player],
                    max_iter,
                    max_reg,
                    &params,
                ),
            }
        } else {
            // number of tasks to send to num_threads
            let target = threads
                .checked_mul(NonZeroUsize::new(3).unwrap())
                .ok_or(SolveError::ThreadOverflow)?;
            match method {
                SolveMethod::Full => vanilla::solve_full_multi(
                    &self.root,
                    &self.chance_infosets,
                    [first_player, second_player],
                    max_iter,
                    max_reg,
                    (threads, target),
                    &params,
                ),
                SolveMethod::Sampled => vanilla::solve_sampled_multi(
                    &self.root,
                    &self.chance_infosets,
                    [first_player, second_player],
                    max_iter,
                    max_reg,
                    (threads, target),
                    &params,
                ),
                SolveMethod::External => external::solve_external_multi(
                    &self.root,
                    &self.chance_infosets,
                    [first_player, second_player],
                    max_iter,
                    max_reg,
                    (threads, target),
                    &params,
                ),
            }?
        };
        Ok((Strategies { game: self, probs }, RegretBound::new(regrets)))
    }
}


// vacuity canary: must be REJECTED by the verifier (an inconsistent axiom set would accept it)
pub proof fn __canary_must_fail()
    ensures false, // @ob __canary
{
    broadcast use fl; ax_obeys();
}

} // verus!
fn main() {}
