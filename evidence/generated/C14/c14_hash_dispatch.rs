#![feature(sized_hierarchy)]
#![feature(allocator_api)]
#![allow(unused_imports, unused_variables, dead_code, unused_mut, unused_parens, unused_braces, non_snake_case)]
use vstd::prelude::*;
use vstd::std_specs::ops::*;
use vstd::std_specs::cmp::*;
use vstd::float::*;
use vstd::std_specs::iter::IteratorSpec;
verus! {
// ---- prelude fragment: floats.rs ----
// Floating point, layer 1 ("uninterpreted" mode of DESIGN.md 3.2): every f64 operator instance the
// language can produce is linked to ONE total, deterministic, otherwise unknown function of the
// operand values.  Nothing about IEEE-754 is assumed here.
pub uninterp spec fn fadd(a: f64, b: f64) -> f64;
pub uninterp spec fn fsub(a: f64, b: f64) -> f64;
pub uninterp spec fn fmul(a: f64, b: f64) -> f64;
pub uninterp spec fn fdiv(a: f64, b: f64) -> f64;
pub uninterp spec fn fneg(a: f64) -> f64;
pub uninterp spec fn fcmp(a: f64, b: f64) -> Option<core::cmp::Ordering>;
pub uninterp spec fn feq(a: f64, b: f64) -> bool;
pub open spec fn flt(a: f64, b: f64) -> bool { fcmp(a, b) == Some(core::cmp::Ordering::Less) }
pub open spec fn fgt(a: f64, b: f64) -> bool { fcmp(a, b) == Some(core::cmp::Ordering::Greater) }
pub open spec fn fle(a: f64, b: f64) -> bool { fcmp(a, b) == Some(core::cmp::Ordering::Less) || fcmp(a, b) == Some(core::cmp::Ordering::Equal) }
pub open spec fn fge(a: f64, b: f64) -> bool { fcmp(a, b) == Some(core::cmp::Ordering::Greater) || fcmp(a, b) == Some(core::cmp::Ordering::Equal) }

pub broadcast axiom fn ax_add_vv_req(a: f64, b: f64) ensures #[trigger] a.add_req(b);
pub broadcast axiom fn ax_add_vv(a: f64, b: f64) ensures #[trigger] a.add_spec(b) == fadd(a, b);
pub broadcast axiom fn ax_add_vr_req(a: f64, b: &f64) ensures #[trigger] a.add_req(b);
pub broadcast axiom fn ax_add_vr(a: f64, b: &f64) ensures #[trigger] a.add_spec(b) == fadd(a, *b);
pub broadcast axiom fn ax_add_rv_req(a: &f64, b: f64) ensures #[trigger] a.add_req(b);
pub broadcast axiom fn ax_add_rv(a: &f64, b: f64) ensures #[trigger] a.add_spec(b) == fadd(*a, b);
pub broadcast axiom fn ax_add_rr_req(a: &f64, b: &f64) ensures #[trigger] a.add_req(b);
pub broadcast axiom fn ax_add_rr(a: &f64, b: &f64) ensures #[trigger] a.add_spec(b) == fadd(*a, *b);
pub broadcast axiom fn ax_sub_vv_req(a: f64, b: f64) ensures #[trigger] a.sub_req(b);
pub broadcast axiom fn ax_sub_vv(a: f64, b: f64) ensures #[trigger] a.sub_spec(b) == fsub(a, b);
pub broadcast axiom fn ax_sub_vr_req(a: f64, b: &f64) ensures #[trigger] a.sub_req(b);
pub broadcast axiom fn ax_sub_vr(a: f64, b: &f64) ensures #[trigger] a.sub_spec(b) == fsub(a, *b);
pub broadcast axiom fn ax_sub_rv_req(a: &f64, b: f64) ensures #[trigger] a.sub_req(b);
pub broadcast axiom fn ax_sub_rv(a: &f64, b: f64) ensures #[trigger] a.sub_spec(b) == fsub(*a, b);
pub broadcast axiom fn ax_sub_rr_req(a: &f64, b: &f64) ensures #[trigger] a.sub_req(b);
pub broadcast axiom fn ax_sub_rr(a: &f64, b: &f64) ensures #[trigger] a.sub_spec(b) == fsub(*a, *b);
pub broadcast axiom fn ax_mul_vv_req(a: f64, b: f64) ensures #[trigger] a.mul_req(b);
pub broadcast axiom fn ax_mul_vv(a: f64, b: f64) ensures #[trigger] a.mul_spec(b) == fmul(a, b);
pub broadcast axiom fn ax_mul_vr_req(a: f64, b: &f64) ensures #[trigger] a.mul_req(b);
pub broadcast axiom fn ax_mul_vr(a: f64, b: &f64) ensures #[trigger] a.mul_spec(b) == fmul(a, *b);
pub broadcast axiom fn ax_mul_rv_req(a: &f64, b: f64) ensures #[trigger] a.mul_req(b);
pub broadcast axiom fn ax_mul_rv(a: &f64, b: f64) ensures #[trigger] a.mul_spec(b) == fmul(*a, b);
pub broadcast axiom fn ax_mul_rr_req(a: &f64, b: &f64) ensures #[trigger] a.mul_req(b);
pub broadcast axiom fn ax_mul_rr(a: &f64, b: &f64) ensures #[trigger] a.mul_spec(b) == fmul(*a, *b);
pub broadcast axiom fn ax_div_vv_req(a: f64, b: f64) ensures #[trigger] a.div_req(b);
pub broadcast axiom fn ax_div_vv(a: f64, b: f64) ensures #[trigger] a.div_spec(b) == fdiv(a, b);
pub broadcast axiom fn ax_div_vr_req(a: f64, b: &f64) ensures #[trigger] a.div_req(b);
pub broadcast axiom fn ax_div_vr(a: f64, b: &f64) ensures #[trigger] a.div_spec(b) == fdiv(a, *b);
pub broadcast axiom fn ax_div_rv_req(a: &f64, b: f64) ensures #[trigger] a.div_req(b);
pub broadcast axiom fn ax_div_rv(a: &f64, b: f64) ensures #[trigger] a.div_spec(b) == fdiv(*a, b);
pub broadcast axiom fn ax_div_rr_req(a: &f64, b: &f64) ensures #[trigger] a.div_req(b);
pub broadcast axiom fn ax_div_rr(a: &f64, b: &f64) ensures #[trigger] a.div_spec(b) == fdiv(*a, *b);
pub broadcast axiom fn ax_cmp_v(a: f64, b: f64) ensures #[trigger] a.partial_cmp_spec(&b) == fcmp(a, b);
pub broadcast axiom fn ax_eq_v(a: f64, b: f64) ensures #[trigger] a.eq_spec(&b) == feq(a, b);
pub broadcast axiom fn ax_cmp_r(a: &f64, b: &f64) ensures #[trigger] a.partial_cmp_spec(&b) == fcmp(*a, *b);
pub broadcast axiom fn ax_eq_r(a: &f64, b: &f64) ensures #[trigger] a.eq_spec(&b) == feq(*a, *b);
// IEEE facts about comparison that do not depend on the operands' values (discharged for ALL pairs of
// f64 by the loop-free Kani harness `ieee_cmp_flip`): a < b  <=>  b > a, equality is symmetric, an
// unordered pair is unordered both ways; == agrees with partial_cmp.
pub axiom fn ax_obeys()
    ensures
        forall|a: f64, b: f64| (#[trigger] fcmp(a, b) == Some(core::cmp::Ordering::Less)) == (fcmp(b, a) == Some(core::cmp::Ordering::Greater)),
        forall|a: f64, b: f64| (#[trigger] fcmp(a, b) == Some(core::cmp::Ordering::Equal)) == (fcmp(b, a) == Some(core::cmp::Ordering::Equal)),
        forall|a: f64, b: f64| (#[trigger] fcmp(a, b) is None) == (fcmp(b, a) is None),
        forall|a: f64, b: f64| #[trigger] feq(a, b) == (fcmp(a, b) == Some(core::cmp::Ordering::Equal)),
        // max / min are commutative as far as comparisons can tell (the two results are identical, or +0 / -0,
        // or both NaN): discharged for ALL triples by the loop-free Kani harness `ieee_max_min_commute`
        forall|a: f64, b: f64, c: f64| #[trigger] fcmp(fmaxf(a, b), c) == fcmp(fmaxf(b, a), c),
        forall|a: f64, b: f64, c: f64| #[trigger] fcmp(c, fmaxf(a, b)) == fcmp(c, fmaxf(b, a)),
        forall|a: f64, b: f64, c: f64| #[trigger] fcmp(fminf(a, b), c) == fcmp(fminf(b, a), c),
        forall|a: f64, b: f64, c: f64| #[trigger] fcmp(c, fminf(a, b)) == fcmp(c, fminf(b, a)),
        <f64 as AddSpec<f64>>::obeys_add_spec(),
        <f64 as AddSpec<&f64>>::obeys_add_spec(),
        <&f64 as AddSpec<f64>>::obeys_add_spec(),
        <&f64 as AddSpec<&f64>>::obeys_add_spec(),
        <f64 as SubSpec<f64>>::obeys_sub_spec(),
        <f64 as SubSpec<&f64>>::obeys_sub_spec(),
        <&f64 as SubSpec<f64>>::obeys_sub_spec(),
        <&f64 as SubSpec<&f64>>::obeys_sub_spec(),
        <f64 as MulSpec<f64>>::obeys_mul_spec(),
        <f64 as MulSpec<&f64>>::obeys_mul_spec(),
        <&f64 as MulSpec<f64>>::obeys_mul_spec(),
        <&f64 as MulSpec<&f64>>::obeys_mul_spec(),
        <f64 as DivSpec<f64>>::obeys_div_spec(),
        <f64 as DivSpec<&f64>>::obeys_div_spec(),
        <&f64 as DivSpec<f64>>::obeys_div_spec(),
        <&f64 as DivSpec<&f64>>::obeys_div_spec(),
        <f64 as PartialOrdSpec<f64>>::obeys_partial_cmp_spec(),
        <f64 as PartialEqSpec<f64>>::obeys_eq_spec(),
        <&f64 as PartialOrdSpec<&f64>>::obeys_partial_cmp_spec(),
        <&f64 as PartialEqSpec<&f64>>::obeys_eq_spec(),
;
pub broadcast group fl {
    ax_add_vv_req, ax_add_vv, ax_add_vr_req, ax_add_vr, ax_add_rv_req, ax_add_rv, ax_add_rr_req, ax_add_rr, ax_sub_vv_req, ax_sub_vv, ax_sub_vr_req, ax_sub_vr, ax_sub_rv_req, ax_sub_rv, ax_sub_rr_req, ax_sub_rr, ax_mul_vv_req, ax_mul_vv, ax_mul_vr_req, ax_mul_vr, ax_mul_rv_req, ax_mul_rv, ax_mul_rr_req, ax_mul_rr, ax_div_vv_req, ax_div_vv, ax_div_vr_req, ax_div_vr, ax_div_rv_req, ax_div_rv, ax_div_rr_req, ax_div_rr, ax_cmp_v, ax_eq_v, ax_cmp_r, ax_eq_r
}

// R8: unary minus (this Verus rejects float negation); the wrapper IS the operator.
// (core implements Neg for f64 and for &f64: the wrapper takes either)
pub trait __NegArg: Sized { spec fn negv(self) -> f64; }
impl __NegArg for f64 { open spec fn negv(self) -> f64 { self } }
impl<'a> __NegArg for &'a f64 { open spec fn negv(self) -> f64 { *self } }
#[verifier::external_body]
pub fn __neg<T: __NegArg>(x: T) -> (r: f64)
    ensures r == fneg(x.negv()),
{ unimplemented!() }


// f64 methods used by the extracted code: linked to uninterpreted functions (their IEEE facts, where
// a proof needs one, are separate axioms discharged by loop-free Kani harnesses).
pub uninterp spec fn fmaxf(a: f64, b: f64) -> f64;
pub uninterp spec fn fminf(a: f64, b: f64) -> f64;
pub uninterp spec fn fabsf(a: f64) -> f64;
pub uninterp spec fn fisnan(a: f64) -> bool;
pub uninterp spec fn fisfinite(a: f64) -> bool;
pub uninterp spec fn fisinfinite(a: f64) -> bool;
// IEEE classification facts (discharged for ALL f64 / all pairs by the loop-free Kani harness
// `ieee_classification`): finite <=> neither NaN nor infinite; NaN and infinite exclude each other;
// a pair is unordered exactly when one side is NaN; 0.0 is finite.
pub axiom fn ax_ieee_class()
    ensures
        forall|a: f64| #[trigger] fisfinite(a) == (!fisnan(a) && !fisinfinite(a)),
        forall|a: f64| #[trigger] fisnan(a) ==> !fisinfinite(a),
        forall|a: f64, b: f64| (#[trigger] fcmp(a, b) is None) == (fisnan(a) || fisnan(b)),
        fisfinite(0.0f64),
        // (core::cmp::Ordering has exactly three variants: the Rust enum, opaque to this Verus)
        forall|a: f64, b: f64| #[trigger] fcmp(a, b) is None || fcmp(a, b) == Some(core::cmp::Ordering::Less)
            || fcmp(a, b) == Some(core::cmp::Ordering::Equal) || fcmp(a, b) == Some(core::cmp::Ordering::Greater);
pub uninterp spec fn fpowf(a: f64, b: f64) -> f64;
pub uninterp spec fn ftotalcmp(a: f64, b: f64) -> core::cmp::Ordering;
pub assume_specification [f64::max] (a: f64, b: f64) -> (r: f64) ensures r == fmaxf(a, b);
pub assume_specification [f64::min] (a: f64, b: f64) -> (r: f64) ensures r == fminf(a, b);
pub assume_specification [f64::abs] (a: f64) -> (r: f64) ensures r == fabsf(a);
pub assume_specification [f64::is_nan] (a: f64) -> (r: bool) ensures r == fisnan(a);
pub assume_specification [f64::is_finite] (a: f64) -> (r: bool) ensures r == fisfinite(a);
pub assume_specification [f64::is_infinite] (a: f64) -> (r: bool) ensures r == fisinfinite(a);
// further classification / sign predicates: deterministic functions about which nothing else is known
// (code that switches to one of them no longer verifies against a contract stated with `>`, `is_finite`, ...)
pub uninterp spec fn fisnormal(a: f64) -> bool;
pub uninterp spec fn fissubnormal(a: f64) -> bool;
pub uninterp spec fn fissignpos(a: f64) -> bool;
pub uninterp spec fn fissignneg(a: f64) -> bool;
pub assume_specification [f64::is_normal] (a: f64) -> (r: bool) ensures r == fisnormal(a);
pub assume_specification [f64::is_subnormal] (a: f64) -> (r: bool) ensures r == fissubnormal(a);
pub assume_specification [f64::is_sign_positive] (a: f64) -> (r: bool) ensures r == fissignpos(a);
pub assume_specification [f64::is_sign_negative] (a: f64) -> (r: bool) ensures r == fissignneg(a);
pub assume_specification [f64::powf] (a: f64, b: f64) -> (r: f64) ensures r == fpowf(a, b);
pub assume_specification [f64::total_cmp] (a: &f64, b: &f64) -> (r: core::cmp::Ordering) ensures r == ftotalcmp(*a, *b);

// R9: associated constants this Verus rejects; the wrappers' bodies ARE the constants.
pub uninterp spec fn finf() -> f64;
pub uninterp spec fn fneginf() -> f64;
#[verifier::external_body]
pub fn __inf() -> (r: f64) ensures r == finf() { f64::INFINITY }
#[verifier::external_body]
pub fn __neg_inf() -> (r: f64) ensures r == fneginf() { f64::NEG_INFINITY }
pub assume_specification [core::cmp::Ordering::is_lt] (o: core::cmp::Ordering) -> (r: bool) ensures r == (o == core::cmp::Ordering::Less);
pub assume_specification [core::cmp::Ordering::is_le] (o: core::cmp::Ordering) -> (r: bool) ensures r == (o != core::cmp::Ordering::Greater);
pub assume_specification [core::cmp::Ordering::is_gt] (o: core::cmp::Ordering) -> (r: bool) ensures r == (o == core::cmp::Ordering::Greater);
pub assume_specification [core::cmp::Ordering::is_ge] (o: core::cmp::Ordering) -> (r: bool) ensures r == (o != core::cmp::Ordering::Less);
pub uninterp spec fn fconst_EPSILON() -> f64;
#[verifier::external_body]
pub fn __f64_EPSILON() -> (r: f64) ensures r == fconst_EPSILON() { f64::EPSILON }
pub uninterp spec fn fconst_MAX() -> f64;
#[verifier::external_body]
pub fn __f64_MAX() -> (r: f64) ensures r == fconst_MAX() { f64::MAX }
pub uninterp spec fn fconst_MIN() -> f64;
#[verifier::external_body]
pub fn __f64_MIN() -> (r: f64) ensures r == fconst_MIN() { f64::MIN }
pub uninterp spec fn fconst_MIN_POSITIVE() -> f64;
#[verifier::external_body]
pub fn __f64_MIN_POSITIVE() -> (r: f64) ensures r == fconst_MIN_POSITIVE() { f64::MIN_POSITIVE }
pub uninterp spec fn fconst_NAN() -> f64;
#[verifier::external_body]
pub fn __f64_NAN() -> (r: f64) ensures r == fconst_NAN() { f64::NAN }

// R12: integer-to-float casts (`X as f64`), which this Verus rejects; the wrapper IS the cast.
pub uninterp spec fn u64_to_f64(n: u64) -> f64;
pub uninterp spec fn usize_to_f64(n: usize) -> f64;
pub trait ToF64: Sized {
    spec fn to_f64_spec(self) -> f64;
    fn __to_f64(self) -> (r: f64) ensures r == self.to_f64_spec();
}
impl ToF64 for u64 {
    open spec fn to_f64_spec(self) -> f64 { u64_to_f64(self) }
    #[verifier::external_body]
    fn __to_f64(self) -> (r: f64) { self as f64 }
}
impl ToF64 for usize {
    open spec fn to_f64_spec(self) -> f64 { usize_to_f64(self) }
    #[verifier::external_body]
    fn __to_f64(self) -> (r: f64) { self as f64 }
}
pub fn __as_f64<T: ToF64>(x: T) -> (r: f64) ensures r == x.to_f64_spec() { x.__to_f64() }

// R13: identity on f64 (see rule R13 of the extractor)
pub fn __idf(x: f64) -> (r: f64) ensures r == x { x }

// ---- extracted from src/error.rs: enum StratError ----
#[derive(PartialEq, Eq)]
pub enum StratError {
    /// Returned when the game doesn't have a specific infoset
    InvalidInfoset,
    /// Returned when the game doesn't have an action for an infoset
    InvalidAction,
    /// Returned when a probability for an action is negative, nan, or infinite
    InvalidProbability,
    /// Returned when no action in an infoset was assigned positive probability
    UninitializedInfoset,
}

// R5 / TYPE-SUBST: std::borrow::Borrow and std::collections::HashMap as far as the validation
// kernel of strat_into_box uses them, with assumed contracts restating their documentation
// (Borrow: "the borrowed value"; HashMap::get: the value stored under an equal key, if any)
pub trait Borrow<T> {
    spec fn bview(&self) -> T;
    fn borrow(&self) -> (r: &T)
        ensures *r == self.bview();
}
#[verifier::external_body]
#[verifier::reject_recursive_types(K)]
#[verifier::reject_recursive_types(V)]
pub struct HashMap<K, V> { _p: core::marker::PhantomData<(K, V)> }
impl<K, V> HashMap<K, V> {
    pub uninterp spec fn view(&self) -> Map<K, V>;
    #[verifier::external_body]
    pub fn insert(&mut self, k: K, v: V) -> (r: Option<V>)
        ensures final(self)@ == old(self)@.insert(k, v),
    { unimplemented!() }
    #[verifier::external_body]
    pub fn get(&self, k: &K) -> (r: Option<&V>)
        ensures match r { Some(v) => self@.contains_key(*k) && *v == self@[*k], None => !self@.contains_key(*k) },
    { unimplemented!() }
}
// core: `impl PartialEq<&mut B> for &A where A: PartialEq<B>` compares the pointees (twice here: && vs &mut &)
pub axiom fn ax_ref_eq<A: PartialEq>()
    ensures <&&A as PartialEqSpec<&mut &A>>::obeys_eq_spec(),
        forall|a: &&A, b: &mut &A| #[trigger] <&&A as PartialEqSpec<&mut &A>>::eq_spec(&a, &b) == <A as PartialEqSpec<A>>::eq_spec(&**a, &**b);
pub open spec fn a_eq<A: PartialEq>(x: A, y: &A) -> bool { <A as PartialEqSpec<A>>::eq_spec(&x, y) }
// user key types: a clone is the same abstract key (Clone/Eq/Hash coherence, assumed)
pub axiom fn ax_clone_is_equal<A: Clone>() ensures forall|a: &A, b: A| #[trigger] call_ensures(A::clone, (a,), b) ==> *a == b;
// scanning path: the infoset's action list and the position of an action in it (the
// `iter().enumerate().find(|(_, act)| act == &action)` chain: first position holding an equal action)
pub struct InfoActions<A> { pub actions: Box<[A]> }
#[verifier::external_body]
pub fn __abs_position<A>(actions: &Box<[A]>, action: &A) -> (r: Option<usize>)
    ensures match r { Some(i) => i < actions@.len() && actions@[i as int] == *action, None => !actions@.contains(*action) },
{ unimplemented!() }
// a weight the import accepts: >= 0 (so not NaN) and finite
pub open spec fn legal(p: f64) -> bool { fge(p, 0.0f64) && fisfinite(p) }

impl<K, V> HashMap<K, V> {
    // HashMap::get_mut: a mutable reference to the value stored under an equal key, if any
    #[verifier::external_body]
    pub fn get_mut(&mut self, k: &K) -> (r: Option<&mut V>)
        ensures match r {
            Some(v) => old(self)@.contains_key(*k) && *v == old(self)@[*k] && final(self)@ == old(self)@.insert(*k, *final(v)),
            None => !old(self)@.contains_key(*k) && final(self)@ == old(self)@,
        },
    { unimplemented!() }
}
// the two per-(action, weight) loops, each an uninterpreted function of what it is given; their bodies are
// under contract in c14_hash_validate (strat_into_box__multi_entry / __single_entry)
// ---- scanning path: first position in the infoset table / the single-action table holding an equal
// infoset (the `iter().enumerate().find(..)` chains, std code)
pub struct InfoRow<I, A> { pub infoset: I, pub actions: Box<[A]> }
pub open spec fn first_info<I, A>(infos: Seq<InfoRow<I, A>>, key: I, i: int) -> bool {
    0 <= i < infos.len() && infos[i].infoset == key && forall|j: int| 0 <= j < i ==> (#[trigger] infos[j]).infoset != key
}
pub open spec fn first_single<I, A>(singles: Seq<(I, A)>, key: I, i: int) -> bool {
    0 <= i < singles.len() && singles[i].0 == key && forall|j: int| 0 <= j < i ==> (#[trigger] singles[j]).0 != key
}
#[verifier::external_body]
pub fn __abs_find_info<'a, I, A>(infos: &'a [InfoRow<I, A>], infoset: &I) -> (r: Option<(usize, &'a InfoRow<I, A>)>)
    ensures match r { Some(p) => first_info(infos@, *infoset, p.0 as int) && *p.1 == infos@[p.0 as int], None => forall|j: int| 0 <= j < infos@.len() ==> (#[trigger] infos@[j]).infoset != *infoset },
{ unimplemented!() }
#[verifier::external_body]
pub fn __abs_find_single<'a, I, A>(singles: &'a [(I, A)], infoset: &I) -> (r: Option<(usize, &'a (I, A))>)
    ensures match r { Some(p) => first_single(singles@, *infoset, p.0 as int) && *p.1 == singles@[p.0 as int], None => forall|j: int| 0 <= j < singles@.len() ==> (#[trigger] singles@[j]).0 != *infoset },
{ unimplemented!() }
pub uninterp spec fn scan_multi_spec<ACTS, I, A>(actions: ACTS, info: InfoRow<I, A>, info_ind: usize, dense: Seq<f64>) -> Result<Seq<f64>, StratError>;
pub uninterp spec fn scan_single_spec<ACTS, A>(actions: ACTS, act: A, seen: bool) -> Result<bool, StratError>;
#[verifier::external_body]
pub fn __scan_entries_multi<ACTS, I, A>(actions: ACTS, info: &InfoRow<I, A>, info_ind: usize, dense: &mut Box<[f64]>) -> (r: Result<(), StratError>)
    ensures match scan_multi_spec(actions, *info, info_ind, old(dense)@) { Ok(d) => r is Ok && final(dense)@ == d, Err(e) => r == Err::<(), StratError>(e) },
{ unimplemented!() }
#[verifier::external_body]
pub fn __scan_entries_single<ACTS, A>(actions: ACTS, act: &A, ind: usize, seen_singles: &mut Box<[bool]>) -> (r: Result<(), StratError>)
    requires ind < old(seen_singles)@.len(),
    ensures match scan_single_spec(actions, *act, old(seen_singles)@[ind as int]) { Ok(s) => r is Ok && final(seen_singles)@ == old(seen_singles)@.update(ind as int, s), Err(e) => r == Err::<(), StratError>(e) },
{ unimplemented!() }
pub uninterp spec fn multi_spec<ACTS, A>(actions: ACTS, action_inds: Map<A, usize>, dense: Seq<f64>) -> Result<Seq<f64>, StratError>;
pub uninterp spec fn single_spec<ACTS, A>(actions: ACTS, act: &A, seen: bool) -> Result<bool, StratError>;
#[verifier::external_body]
pub fn __entries_multi<ACTS, A>(actions: ACTS, action_inds: &HashMap<A, usize>, dense: &mut Box<[f64]>) -> (r: Result<(), StratError>)
    ensures match multi_spec(actions, action_inds@, old(dense)@) { Ok(d) => r is Ok && final(dense)@ == d, Err(e) => r == Err::<(), StratError>(e) },
{ unimplemented!() }
#[verifier::external_body]
pub fn __entries_single<ACTS, A>(actions: ACTS, act: &mut &A, seen: &mut bool) -> (r: Result<(), StratError>)
    ensures *final(act) == *old(act),
        match single_spec(actions, *old(act), *old(seen)) { Ok(s) => r is Ok && *final(seen) == s, Err(e) => r == Err::<(), StratError>(e) },
{ unimplemented!() }

// ---- extracted from src/lib.rs: impl Game / fn strat_into_box ----
pub fn strat_into_box__entry<'x, I, A, BI: Borrow<I>, ACTS>(binfoset: BI, actions: ACTS, inds: &HashMap<I, HashMap<A, usize>>, singles: &mut HashMap<I, (&'x A, bool)>, dense: &mut Box<[f64]>) -> (out: Result<(), StratError>)
    ensures
        // an entry for a multi-action infoset is validated against THAT infoset's action table and written
        // into the dense vector; the single-action table is not touched
        inds@.contains_key(binfoset.bview()) ==> final(singles)@ == old(singles)@
            && (match multi_spec(actions, inds@[binfoset.bview()]@, old(dense)@) { Ok(d) => out is Ok && final(dense)@ == d, Err(e) => out == Err::<(), StratError>(e) }), // @ob C14.V.hash_import.entry_dispatch
        // otherwise an entry for a single-action infoset is validated against that infoset's only action,
        // only its own `seen` mark may change, and the dense vector is not touched
        !inds@.contains_key(binfoset.bview()) && old(singles)@.contains_key(binfoset.bview()) ==>
            (match single_spec(actions, old(singles)@[binfoset.bview()].0, old(singles)@[binfoset.bview()].1) {
                Ok(s) => out is Ok && final(dense)@ == old(dense)@ && final(singles)@ == old(singles)@.insert(binfoset.bview(), (old(singles)@[binfoset.bview()].0, s)),
                Err(e) => out == Err::<(), StratError>(e),
            }), // @ob C14.V.hash_import.entry_dispatch
        // an infoset the game does not have is rejected
        !inds@.contains_key(binfoset.bview()) && !old(singles)@.contains_key(binfoset.bview()) ==> out == Err::<(), StratError>(StratError::InvalidInfoset), // @ob C14.V.hash_import.rejects_unknown_infoset
{
            let infoset = binfoset.borrow();
            if let Some(action_inds) = inds.get(infoset) {
                __entries_multi(actions, action_inds, dense)?;
            } else if let Some((act, seen)) = singles.get_mut(infoset) {
                __entries_single(actions, act, seen)?;
            } else {
                return Err(StratError::InvalidInfoset);
            }
        
Ok(())
}

// ---- extracted from src/lib.rs: impl Game / fn strat_into_box_slow ----
pub fn strat_into_box_slow__entry<I, A, BI: Borrow<I>, ACTS>(binfoset: BI, actions: ACTS, infos: &[InfoRow<I, A>], action_inds: &Vec<usize>, singles: &[(I, A)], seen_singles: &mut Box<[bool]>, dense: &mut Box<[f64]>) -> (out: Result<(), StratError>)
    requires
        action_inds@.len() == infos@.len(), old(seen_singles)@.len() == singles@.len(),
    ensures
        // the scanning importer dispatches an entry exactly like the hashing one: first the multi-action
        // infosets (the entry is validated against THAT row and its offset), then the single-action ones
        // (only that infoset's own mark may change), otherwise the infoset is rejected
        forall|i: int| first_info(infos@, binfoset.bview(), i) ==> final(seen_singles)@ == old(seen_singles)@
            && (match scan_multi_spec(actions, #[trigger] infos@[i], action_inds@[i], old(dense)@) { Ok(d) => out is Ok && final(dense)@ == d, Err(e) => out == Err::<(), StratError>(e) }), // @ob C14.V.scan_import.entry_dispatch
        (forall|j: int| 0 <= j < infos@.len() ==> (#[trigger] infos@[j]).infoset != binfoset.bview()) ==>
            forall|i: int| first_single(singles@, binfoset.bview(), i) ==>
                (match scan_single_spec(actions, (#[trigger] singles@[i]).1, old(seen_singles)@[i]) {
                    Ok(s) => out is Ok && final(dense)@ == old(dense)@ && final(seen_singles)@ == old(seen_singles)@.update(i, s),
                    Err(e) => out == Err::<(), StratError>(e),
                }), // @ob C14.V.scan_import.entry_dispatch
        (forall|j: int| 0 <= j < infos@.len() ==> (#[trigger] infos@[j]).infoset != binfoset.bview())
            && (forall|j: int| 0 <= j < singles@.len() ==> (#[trigger] singles@[j]).0 != binfoset.bview()) ==> out == Err::<(), StratError>(StratError::InvalidInfoset), // @ob C14.V.scan_import.rejects_unknown_infoset
{
            let infoset = binfoset.borrow();
            if let Some((ind, info)) = __abs_find_info(infos, infoset)
            {
                let info_ind = action_inds[ind];
                __scan_entries_multi(actions, info, info_ind, dense)?;
            } else if let Some((ind, (_, act))) = __abs_find_single(singles, infoset)
            {
                __scan_entries_single(actions, act, ind, seen_singles)?;
            } else {
                return Err(StratError::InvalidInfoset);
            }
        
Ok(())
}


// vacuity canary: must be REJECTED by the verifier (an inconsistent axiom set would accept it)
pub proof fn __canary_must_fail()
    ensures false, // @ob __canary
{
    broadcast use fl; ax_obeys();
}

} // verus!
fn main() {}
