#![feature(sized_hierarchy)]
#![feature(allocator_api)]
#![allow(unused_imports, unused_variables, dead_code, unused_mut, unused_parens, unused_braces, non_snake_case)]
use vstd::prelude::*;
use vstd::std_specs::ops::*;
use vstd::std_specs::cmp::*;
use vstd::float::*;
use vstd::std_specs::iter::IteratorSpec;
verus! {
// ---- extracted from src/error.rs: enum StratError ----
#[derive(PartialEq, Eq, Structural, Clone, Copy)]
pub enum StratError {
    /// Returned when the game doesn't have a specific infoset
    InvalidInfoset,
    /// Returned when the game doesn't have an action for an infoset
    InvalidAction,
    /// Returned when a probability for an action is negative, nan, or infinite
    InvalidProbability,
    /// Returned when no action in an infoset was assigned positive probability
    UninitializedInfoset,
}

pub trait Borrow<T> { }
#[verifier::external_body]
#[verifier::reject_recursive_types(I)]
#[verifier::reject_recursive_types(A)]
pub struct PlayerInfosetData<I, A> { _p: core::marker::PhantomData<(I, A)> }
impl<I, A> PlayerInfosetData<I, A> {
    pub uninterp spec fn na(&self) -> usize;
    // (num_actions == actions.len(): c11_constructors)
    #[verifier::external_body]
    pub fn num_actions(&self) -> (r: usize) ensures r == self.na() { unimplemented!() }
}
// dense offset of infoset k: the number of action slots of the infosets before it
pub open spec fn off<I, A>(infos: Seq<PlayerInfosetData<I, A>>, k: int) -> int decreases k {
    if k <= 0 { 0 } else { off(infos, k - 1) + infos[k - 1].na() }
}
pub proof fn lemma_off_mono<I, A>(infos: Seq<PlayerInfosetData<I, A>>, a: int, b: int)
    requires 0 <= a <= b <= infos.len(),
    ensures off(infos, a) <= off(infos, b),
    decreases b - a
{
    if a < b { lemma_off_mono(infos, a, b - 1); }
}
pub open spec fn offsets_ok<I, A>(inds: Seq<usize>, infos: Seq<PlayerInfosetData<I, A>>) -> bool {
    inds.len() == infos.len() && forall|k: int| 0 <= k < infos.len() ==> #[trigger] inds[k] == off(infos, k)
}
pub uninterp spec fn dense_spec(n: usize) -> Box<[f64]>;
pub uninterp spec fn seen_spec(n: usize) -> Box<[bool]>;
pub uninterp spec fn validate_spec<S, I, A>(strat: S, infos: Seq<PlayerInfosetData<I, A>>, singles: Seq<(I, A)>, dense: Box<[f64]>, seen: Box<[bool]>) -> Result<(Box<[f64]>, Box<[bool]>), StratError>;
pub uninterp spec fn normalise_spec<I, A>(dense: Box<[f64]>, infos: Seq<PlayerInfosetData<I, A>>) -> Result<Box<[f64]>, StratError>;
pub uninterp spec fn all_seen_spec(seen: Box<[bool]>) -> Result<(), StratError>;
#[verifier::external_body]
pub fn __abs_dense(n: usize) -> (r: Box<[f64]>) ensures r == dense_spec(n) { unimplemented!() }
#[verifier::external_body]
pub fn __abs_seen<I, A>(singles: &[(I, A)]) -> (r: Box<[bool]>) ensures r == seen_spec(singles@.len() as usize) { unimplemented!() }
// the validation loop looks every (infoset, action) up by scanning and writes weight w of action a of
// infoset k to dense[action_inds[k] + a]: it relies on the offset table being the prefix sums
#[verifier::external_body]
pub fn __abs_validate<S, I, A>(strat: S, infos: &[PlayerInfosetData<I, A>], singles: &[(I, A)], action_inds: &Vec<usize>, dense: &mut Box<[f64]>, seen: &mut Box<[bool]>) -> (r: Result<(), StratError>)
    requires offsets_ok(action_inds@, infos@), // @ob C14.V.scan_import.offsets_are_prefix_sums
    ensures match validate_spec(strat, infos@, singles@, *old(dense), *old(seen)) {
        Ok(ds) => r is Ok && *final(dense) == ds.0 && *final(seen) == ds.1,
        Err(e) => r is Err && r->Err_0 == e,
    },
{ unimplemented!() }
#[verifier::external_body]
pub fn __abs_normalise<I, A>(dense: &mut Box<[f64]>, infos: &[PlayerInfosetData<I, A>]) -> (r: Result<(), StratError>)
    ensures match normalise_spec(*old(dense), infos@) { Ok(d) => r is Ok && *final(dense) == d, Err(e) => r is Err && r->Err_0 == e },
{ unimplemented!() }
#[verifier::external_body]
pub fn __abs_all_seen(seen: Box<[bool]>) -> (r: Result<(), StratError>) ensures r == all_seen_spec(seen) { unimplemented!() }
pub open spec fn import_seq<S, I, A>(strat: S, infos: Seq<PlayerInfosetData<I, A>>, singles: Seq<(I, A)>) -> Result<Box<[f64]>, StratError> {
    match validate_spec(strat, infos, singles, dense_spec(off(infos, infos.len() as int) as usize), seen_spec(singles.len() as usize)) {
        Err(e) => Err(e),
        Ok(ds) => match normalise_spec(ds.0, infos) {
            Err(e) => Err(e),
            Ok(d) => match all_seen_spec(ds.1) { Err(e) => Err(e), Ok(_) => Ok(d) },
        },
    }
}

pub struct Game<I, A> { _p: core::marker::PhantomData<(I, A)> }
impl<I: Eq, A: Eq> Game<I, A> {

// ---- extracted from src/lib.rs: impl Game / fn strat_into_box_slow ----
pub fn strat_into_box_slow<S>(
        strat: S,
        infos: &[PlayerInfosetData<I, A>],
        singles: &[(I, A)],
    ) -> (out: Result<Box<[f64]>, StratError>) 
    requires
        off(infos@, infos@.len() as int) <= usize::MAX,
    ensures
        out == import_seq(strat, infos@, singles@), // @ob C14.V.scan_import.is_its_phases
{
proof {
    assert forall|a: int, b: int| 0 <= a <= b <= infos@.len() implies off(infos@, a) <= off(infos@, b) by { lemma_off_mono(infos@, a, b); }
}

        let mut action_inds = Vec::with_capacity(infos.len());
        let mut num_inds = 0;
        for info in it: infos 
invariant
    0 <= it.index@ <= infos@.len(),
    action_inds@.len() == it.index@,
    forall|k: int| 0 <= k < it.index@ ==> #[trigger] action_inds@[k] == off(infos@, k),
    num_inds == off(infos@, it.index@ as int),
    off(infos@, infos@.len() as int) <= usize::MAX,
    forall|a: int, b: int| 0 <= a <= b <= infos@.len() ==> off(infos@, a) <= off(infos@, b),
{
proof { assert(*info == infos@[it.index@ as int]); assert(off(infos@, it.index@ + 1) == off(infos@, it.index@ as int) + info.na()); }

            action_inds.push(num_inds);
            num_inds = num_inds + ( info.num_actions());
        }
        let mut dense = __abs_dense(num_inds);
        let mut seen_singles = __abs_seen(singles);

        __abs_validate(strat, infos, singles, &action_inds, &mut dense, &mut seen_singles)?;

        // check that we wrote to every location
        __abs_normalise(&mut dense, infos)?;
        __abs_all_seen(seen_singles)?;

        Ok(dense)
    }

}


// vacuity canary: must be REJECTED by the verifier (an inconsistent axiom set would accept it)
pub proof fn __canary_must_fail()
    ensures false, // @ob __canary
{
    
}

} // verus!
fn main() {}
