#![feature(sized_hierarchy)]
#![feature(allocator_api)]
#![allow(unused_imports, unused_variables, dead_code, unused_mut, unused_parens, unused_braces, non_snake_case)]
use vstd::prelude::*;
use vstd::std_specs::ops::*;
use vstd::std_specs::cmp::*;
use vstd::float::*;
use vstd::std_specs::iter::IteratorSpec;
verus! {
// ---- prelude fragment: floats.rs ----
// Floating point, layer 1 ("uninterpreted" mode of DESIGN.md 3.2): every f64 operator instance the
// language can produce is linked to ONE total, deterministic, otherwise unknown function of the
// operand values.  Nothing about IEEE-754 is assumed here.
pub uninterp spec fn fadd(a: f64, b: f64) -> f64;
pub uninterp spec fn fsub(a: f64, b: f64) -> f64;
pub uninterp spec fn fmul(a: f64, b: f64) -> f64;
pub uninterp spec fn fdiv(a: f64, b: f64) -> f64;
pub uninterp spec fn fneg(a: f64) -> f64;
pub uninterp spec fn fcmp(a: f64, b: f64) -> Option<core::cmp::Ordering>;
pub uninterp spec fn feq(a: f64, b: f64) -> bool;
pub open spec fn flt(a: f64, b: f64) -> bool { fcmp(a, b) == Some(core::cmp::Ordering::Less) }
pub open spec fn fgt(a: f64, b: f64) -> bool { fcmp(a, b) == Some(core::cmp::Ordering::Greater) }
pub open spec fn fle(a: f64, b: f64) -> bool { fcmp(a, b) == Some(core::cmp::Ordering::Less) || fcmp(a, b) == Some(core::cmp::Ordering::Equal) }
pub open spec fn fge(a: f64, b: f64) -> bool { fcmp(a, b) == Some(core::cmp::Ordering::Greater) || fcmp(a, b) == Some(core::cmp::Ordering::Equal) }

pub broadcast axiom fn ax_add_vv_req(a: f64, b: f64) ensures #[trigger] a.add_req(b);
pub broadcast axiom fn ax_add_vv(a: f64, b: f64) ensures #[trigger] a.add_spec(b) == fadd(a, b);
pub broadcast axiom fn ax_add_vr_req(a: f64, b: &f64) ensures #[trigger] a.add_req(b);
pub broadcast axiom fn ax_add_vr(a: f64, b: &f64) ensures #[trigger] a.add_spec(b) == fadd(a, *b);
pub broadcast axiom fn ax_add_rv_req(a: &f64, b: f64) ensures #[trigger] a.add_req(b);
pub broadcast axiom fn ax_add_rv(a: &f64, b: f64) ensures #[trigger] a.add_spec(b) == fadd(*a, b);
pub broadcast axiom fn ax_add_rr_req(a: &f64, b: &f64) ensures #[trigger] a.add_req(b);
pub broadcast axiom fn ax_add_rr(a: &f64, b: &f64) ensures #[trigger] a.add_spec(b) == fadd(*a, *b);
pub broadcast axiom fn ax_sub_vv_req(a: f64, b: f64) ensures #[trigger] a.sub_req(b);
pub broadcast axiom fn ax_sub_vv(a: f64, b: f64) ensures #[trigger] a.sub_spec(b) == fsub(a, b);
pub broadcast axiom fn ax_sub_vr_req(a: f64, b: &f64) ensures #[trigger] a.sub_req(b);
pub broadcast axiom fn ax_sub_vr(a: f64, b: &f64) ensures #[trigger] a.sub_spec(b) == fsub(a, *b);
pub broadcast axiom fn ax_sub_rv_req(a: &f64, b: f64) ensures #[trigger] a.sub_req(b);
pub broadcast axiom fn ax_sub_rv(a: &f64, b: f64) ensures #[trigger] a.sub_spec(b) == fsub(*a, b);
pub broadcast axiom fn ax_sub_rr_req(a: &f64, b: &f64) ensures #[trigger] a.sub_req(b);
pub broadcast axiom fn ax_sub_rr(a: &f64, b: &f64) ensures #[trigger] a.sub_spec(b) == fsub(*a, *b);
pub broadcast axiom fn ax_mul_vv_req(a: f64, b: f64) ensures #[trigger] a.mul_req(b);
pub broadcast axiom fn ax_mul_vv(a: f64, b: f64) ensures #[trigger] a.mul_spec(b) == fmul(a, b);
pub broadcast axiom fn ax_mul_vr_req(a: f64, b: &f64) ensures #[trigger] a.mul_req(b);
pub broadcast axiom fn ax_mul_vr(a: f64, b: &f64) ensures #[trigger] a.mul_spec(b) == fmul(a, *b);
pub broadcast axiom fn ax_mul_rv_req(a: &f64, b: f64) ensures #[trigger] a.mul_req(b);
pub broadcast axiom fn ax_mul_rv(a: &f64, b: f64) ensures #[trigger] a.mul_spec(b) == fmul(*a, b);
pub broadcast axiom fn ax_mul_rr_req(a: &f64, b: &f64) ensures #[trigger] a.mul_req(b);
pub broadcast axiom fn ax_mul_rr(a: &f64, b: &f64) ensures #[trigger] a.mul_spec(b) == fmul(*a, *b);
pub broadcast axiom fn ax_div_vv_req(a: f64, b: f64) ensures #[trigger] a.div_req(b);
pub broadcast axiom fn ax_div_vv(a: f64, b: f64) ensures #[trigger] a.div_spec(b) == fdiv(a, b);
pub broadcast axiom fn ax_div_vr_req(a: f64, b: &f64) ensures #[trigger] a.div_req(b);
pub broadcast axiom fn ax_div_vr(a: f64, b: &f64) ensures #[trigger] a.div_spec(b) == fdiv(a, *b);
pub broadcast axiom fn ax_div_rv_req(a: &f64, b: f64) ensures #[trigger] a.div_req(b);
pub broadcast axiom fn ax_div_rv(a: &f64, b: f64) ensures #[trigger] a.div_spec(b) == fdiv(*a, b);
pub broadcast axiom fn ax_div_rr_req(a: &f64, b: &f64) ensures #[trigger] a.div_req(b);
pub broadcast axiom fn ax_div_rr(a: &f64, b: &f64) ensures #[trigger] a.div_spec(b) == fdiv(*a, *b);
pub broadcast axiom fn ax_cmp_v(a: f64, b: f64) ensures #[trigger] a.partial_cmp_spec(&b) == fcmp(a, b);
pub broadcast axiom fn ax_eq_v(a: f64, b: f64) ensures #[trigger] a.eq_spec(&b) == feq(a, b);
pub broadcast axiom fn ax_cmp_r(a: &f64, b: &f64) ensures #[trigger] a.partial_cmp_spec(&b) == fcmp(*a, *b);
pub broadcast axiom fn ax_eq_r(a: &f64, b: &f64) ensures #[trigger] a.eq_spec(&b) == feq(*a, *b);
// IEEE facts about comparison that do not depend on the operands' values (discharged for ALL pairs of
// f64 by the loop-free Kani harness `ieee_cmp_flip`): a < b  <=>  b > a, equality is symmetric, an
// unordered pair is unordered both ways; == agrees with partial_cmp.
pub axiom fn ax_obeys()
    ensures
        forall|a: f64, b: f64| (#[trigger] fcmp(a, b) == Some(core::cmp::Ordering::Less)) == (fcmp(b, a) == Some(core::cmp::Ordering::Greater)),
        forall|a: f64, b: f64| (#[trigger] fcmp(a, b) == Some(core::cmp::Ordering::Equal)) == (fcmp(b, a) == Some(core::cmp::Ordering::Equal)),
        forall|a: f64, b: f64| (#[trigger] fcmp(a, b) is None) == (fcmp(b, a) is None),
        forall|a: f64, b: f64| #[trigger] feq(a, b) == (fcmp(a, b) == Some(core::cmp::Ordering::Equal)),
        // max / min are commutative as far as comparisons can tell (the two results are identical, or +0 / -0,
        // or both NaN): discharged for ALL triples by the loop-free Kani harness `ieee_max_min_commute`
        forall|a: f64, b: f64, c: f64| #[trigger] fcmp(fmaxf(a, b), c) == fcmp(fmaxf(b, a), c),
        forall|a: f64, b: f64, c: f64| #[trigger] fcmp(c, fmaxf(a, b)) == fcmp(c, fmaxf(b, a)),
        forall|a: f64, b: f64, c: f64| #[trigger] fcmp(fminf(a, b), c) == fcmp(fminf(b, a), c),
        forall|a: f64, b: f64, c: f64| #[trigger] fcmp(c, fminf(a, b)) == fcmp(c, fminf(b, a)),
        <f64 as AddSpec<f64>>::obeys_add_spec(),
        <f64 as AddSpec<&f64>>::obeys_add_spec(),
        <&f64 as AddSpec<f64>>::obeys_add_spec(),
        <&f64 as AddSpec<&f64>>::obeys_add_spec(),
        <f64 as SubSpec<f64>>::obeys_sub_spec(),
        <f64 as SubSpec<&f64>>::obeys_sub_spec(),
        <&f64 as SubSpec<f64>>::obeys_sub_spec(),
        <&f64 as SubSpec<&f64>>::obeys_sub_spec(),
        <f64 as MulSpec<f64>>::obeys_mul_spec(),
        <f64 as MulSpec<&f64>>::obeys_mul_spec(),
        <&f64 as MulSpec<f64>>::obeys_mul_spec(),
        <&f64 as MulSpec<&f64>>::obeys_mul_spec(),
        <f64 as DivSpec<f64>>::obeys_div_spec(),
        <f64 as DivSpec<&f64>>::obeys_div_spec(),
        <&f64 as DivSpec<f64>>::obeys_div_spec(),
        <&f64 as DivSpec<&f64>>::obeys_div_spec(),
        <f64 as PartialOrdSpec<f64>>::obeys_partial_cmp_spec(),
        <f64 as PartialEqSpec<f64>>::obeys_eq_spec(),
        <&f64 as PartialOrdSpec<&f64>>::obeys_partial_cmp_spec(),
        <&f64 as PartialEqSpec<&f64>>::obeys_eq_spec(),
;
pub broadcast group fl {
    ax_add_vv_req, ax_add_vv, ax_add_vr_req, ax_add_vr, ax_add_rv_req, ax_add_rv, ax_add_rr_req, ax_add_rr, ax_sub_vv_req, ax_sub_vv, ax_sub_vr_req, ax_sub_vr, ax_sub_rv_req, ax_sub_rv, ax_sub_rr_req, ax_sub_rr, ax_mul_vv_req, ax_mul_vv, ax_mul_vr_req, ax_mul_vr, ax_mul_rv_req, ax_mul_rv, ax_mul_rr_req, ax_mul_rr, ax_div_vv_req, ax_div_vv, ax_div_vr_req, ax_div_vr, ax_div_rv_req, ax_div_rv, ax_div_rr_req, ax_div_rr, ax_cmp_v, ax_eq_v, ax_cmp_r, ax_eq_r
}

// R8: unary minus (this Verus rejects float negation); the wrapper IS the operator.
// (core implements Neg for f64 and for &f64: the wrapper takes either)
pub trait __NegArg: Sized { spec fn negv(self) -> f64; }
impl __NegArg for f64 { open spec fn negv(self) -> f64 { self } }
impl<'a> __NegArg for &'a f64 { open spec fn negv(self) -> f64 { *self } }
#[verifier::external_body]
pub fn __neg<T: __NegArg>(x: T) -> (r: f64)
    ensures r == fneg(x.negv()),
{ unimplemented!() }


// f64 methods used by the extracted code: linked to uninterpreted functions (their IEEE facts, where
// a proof needs one, are separate axioms discharged by loop-free Kani harnesses).
pub uninterp spec fn fmaxf(a: f64, b: f64) -> f64;
pub uninterp spec fn fminf(a: f64, b: f64) -> f64;
pub uninterp spec fn fabsf(a: f64) -> f64;
pub uninterp spec fn fisnan(a: f64) -> bool;
pub uninterp spec fn fisfinite(a: f64) -> bool;
pub uninterp spec fn fisinfinite(a: f64) -> bool;
// IEEE classification facts (discharged for ALL f64 / all pairs by the loop-free Kani harness
// `ieee_classification`): finite <=> neither NaN nor infinite; NaN and infinite exclude each other;
// a pair is unordered exactly when one side is NaN; 0.0 is finite.
pub axiom fn ax_ieee_class()
    ensures
        forall|a: f64| #[trigger] fisfinite(a) == (!fisnan(a) && !fisinfinite(a)),
        forall|a: f64| #[trigger] fisnan(a) ==> !fisinfinite(a),
        forall|a: f64, b: f64| (#[trigger] fcmp(a, b) is None) == (fisnan(a) || fisnan(b)),
        fisfinite(0.0f64),
        // (core::cmp::Ordering has exactly three variants: the Rust enum, opaque to this Verus)
        forall|a: f64, b: f64| #[trigger] fcmp(a, b) is None || fcmp(a, b) == Some(core::cmp::Ordering::Less)
            || fcmp(a, b) == Some(core::cmp::Ordering::Equal) || fcmp(a, b) == Some(core::cmp::Ordering::Greater);
pub uninterp spec fn fpowf(a: f64, b: f64) -> f64;
pub uninterp spec fn ftotalcmp(a: f64, b: f64) -> core::cmp::Ordering;
pub assume_specification [f64::max] (a: f64, b: f64) -> (r: f64) ensures r == fmaxf(a, b);
pub assume_specification [f64::min] (a: f64, b: f64) -> (r: f64) ensures r == fminf(a, b);
pub assume_specification [f64::abs] (a: f64) -> (r: f64) ensures r == fabsf(a);
pub assume_specification [f64::is_nan] (a: f64) -> (r: bool) ensures r == fisnan(a);
pub assume_specification [f64::is_finite] (a: f64) -> (r: bool) ensures r == fisfinite(a);
pub assume_specification [f64::is_infinite] (a: f64) -> (r: bool) ensures r == fisinfinite(a);
// further classification / sign predicates: deterministic functions about which nothing else is known
// (code that switches to one of them no longer verifies against a contract stated with `>`, `is_finite`, ...)
pub uninterp spec fn fisnormal(a: f64) -> bool;
pub uninterp spec fn fissubnormal(a: f64) -> bool;
pub uninterp spec fn fissignpos(a: f64) -> bool;
pub uninterp spec fn fissignneg(a: f64) -> bool;
pub assume_specification [f64::is_normal] (a: f64) -> (r: bool) ensures r == fisnormal(a);
pub assume_specification [f64::is_subnormal] (a: f64) -> (r: bool) ensures r == fissubnormal(a);
pub assume_specification [f64::is_sign_positive] (a: f64) -> (r: bool) ensures r == fissignpos(a);
pub assume_specification [f64::is_sign_negative] (a: f64) -> (r: bool) ensures r == fissignneg(a);
pub assume_specification [f64::powf] (a: f64, b: f64) -> (r: f64) ensures r == fpowf(a, b);
pub assume_specification [f64::total_cmp] (a: &f64, b: &f64) -> (r: core::cmp::Ordering) ensures r == ftotalcmp(*a, *b);

// R9: associated constants this Verus rejects; the wrappers' bodies ARE the constants.
pub uninterp spec fn finf() -> f64;
pub uninterp spec fn fneginf() -> f64;
#[verifier::external_body]
pub fn __inf() -> (r: f64) ensures r == finf() { f64::INFINITY }
#[verifier::external_body]
pub fn __neg_inf() -> (r: f64) ensures r == fneginf() { f64::NEG_INFINITY }
pub assume_specification [core::cmp::Ordering::is_lt] (o: core::cmp::Ordering) -> (r: bool) ensures r == (o == core::cmp::Ordering::Less);
pub assume_specification [core::cmp::Ordering::is_le] (o: core::cmp::Ordering) -> (r: bool) ensures r == (o != core::cmp::Ordering::Greater);
pub assume_specification [core::cmp::Ordering::is_gt] (o: core::cmp::Ordering) -> (r: bool) ensures r == (o == core::cmp::Ordering::Greater);
pub assume_specification [core::cmp::Ordering::is_ge] (o: core::cmp::Ordering) -> (r: bool) ensures r == (o != core::cmp::Ordering::Less);
pub uninterp spec fn fconst_EPSILON() -> f64;
#[verifier::external_body]
pub fn __f64_EPSILON() -> (r: f64) ensures r == fconst_EPSILON() { f64::EPSILON }
pub uninterp spec fn fconst_MAX() -> f64;
#[verifier::external_body]
pub fn __f64_MAX() -> (r: f64) ensures r == fconst_MAX() { f64::MAX }
pub uninterp spec fn fconst_MIN() -> f64;
#[verifier::external_body]
pub fn __f64_MIN() -> (r: f64) ensures r == fconst_MIN() { f64::MIN }
pub uninterp spec fn fconst_MIN_POSITIVE() -> f64;
#[verifier::external_body]
pub fn __f64_MIN_POSITIVE() -> (r: f64) ensures r == fconst_MIN_POSITIVE() { f64::MIN_POSITIVE }
pub uninterp spec fn fconst_NAN() -> f64;
#[verifier::external_body]
pub fn __f64_NAN() -> (r: f64) ensures r == fconst_NAN() { f64::NAN }

// R12: integer-to-float casts (`X as f64`), which this Verus rejects; the wrapper IS the cast.
pub uninterp spec fn u64_to_f64(n: u64) -> f64;
pub uninterp spec fn usize_to_f64(n: usize) -> f64;
pub trait ToF64: Sized {
    spec fn to_f64_spec(self) -> f64;
    fn __to_f64(self) -> (r: f64) ensures r == self.to_f64_spec();
}
impl ToF64 for u64 {
    open spec fn to_f64_spec(self) -> f64 { u64_to_f64(self) }
    #[verifier::external_body]
    fn __to_f64(self) -> (r: f64) { self as f64 }
}
impl ToF64 for usize {
    open spec fn to_f64_spec(self) -> f64 { usize_to_f64(self) }
    #[verifier::external_body]
    fn __to_f64(self) -> (r: f64) { self as f64 }
}
pub fn __as_f64<T: ToF64>(x: T) -> (r: f64) ensures r == x.to_f64_spec() { x.__to_f64() }

// R13: identity on f64 (see rule R13 of the extractor)
pub fn __idf(x: f64) -> (r: f64) ensures r == x { x }

// R5 / TYPE-SUBST: std::borrow::Borrow and std::collections::HashMap as far as the validation
// kernel of strat_into_box uses them, with assumed contracts restating their documentation
// (Borrow: "the borrowed value"; HashMap::get: the value stored under an equal key, if any)
pub trait Borrow<T> {
    spec fn bview(&self) -> T;
    fn borrow(&self) -> (r: &T)
        ensures *r == self.bview();
}
#[verifier::external_body]
#[verifier::reject_recursive_types(K)]
#[verifier::reject_recursive_types(V)]
pub struct HashMap<K, V> { _p: core::marker::PhantomData<(K, V)> }
impl<K, V> HashMap<K, V> {
    pub uninterp spec fn view(&self) -> Map<K, V>;
    #[verifier::external_body]
    pub fn insert(&mut self, k: K, v: V) -> (r: Option<V>)
        ensures final(self)@ == old(self)@.insert(k, v),
    { unimplemented!() }
    #[verifier::external_body]
    pub fn get(&self, k: &K) -> (r: Option<&V>)
        ensures match r { Some(v) => self@.contains_key(*k) && *v == self@[*k], None => !self@.contains_key(*k) },
    { unimplemented!() }
}
// core: `impl PartialEq<&mut B> for &A where A: PartialEq<B>` compares the pointees (twice here: && vs &mut &)
pub axiom fn ax_ref_eq<A: PartialEq>()
    ensures <&&A as PartialEqSpec<&mut &A>>::obeys_eq_spec(),
        forall|a: &&A, b: &mut &A| #[trigger] <&&A as PartialEqSpec<&mut &A>>::eq_spec(&a, &b) == <A as PartialEqSpec<A>>::eq_spec(&**a, &**b);
pub open spec fn a_eq<A: PartialEq>(x: A, y: &A) -> bool { <A as PartialEqSpec<A>>::eq_spec(&x, y) }
// user key types: a clone is the same abstract key (Clone/Eq/Hash coherence, assumed)
pub axiom fn ax_clone_is_equal<A: Clone>() ensures forall|a: &A, b: A| #[trigger] call_ensures(A::clone, (a,), b) ==> *a == b;
// scanning path: the infoset's action list and the position of an action in it (the
// `iter().enumerate().find(|(_, act)| act == &action)` chain: first position holding an equal action)
pub struct InfoActions<A> { pub actions: Box<[A]> }
#[verifier::external_body]
pub fn __abs_position<A>(actions: &Box<[A]>, action: &A) -> (r: Option<usize>)
    ensures match r { Some(i) => i < actions@.len() && actions@[i as int] == *action, None => !actions@.contains(*action) },
{ unimplemented!() }
// a weight the import accepts: >= 0 (so not NaN) and finite
pub open spec fn legal(p: f64) -> bool { fge(p, 0.0f64) && fisfinite(p) }

impl<K, V> HashMap<K, V> {
    #[verifier::external_body]
    pub fn with_capacity(n: usize) -> (r: Self) ensures r@ == Map::<K, V>::empty() { unimplemented!() }
}
// the action table of one infoset: every action mapped to base + its position
pub open spec fn table_ok<A>(m: Map<A, usize>, acts: Seq<A>, base: int, k: int) -> bool {
    (forall|a: A| m.contains_key(a) <==> exists|j: int| 0 <= j < k && #[trigger] acts[j] == a)
    && (forall|j: int| 0 <= j < k ==> #[trigger] m[acts[j]] == base + j)
}
pub open spec fn distinct<A>(acts: Seq<A>) -> bool { forall|i: int, j: int| 0 <= i < j < acts.len() ==> acts[i] != acts[j] }

// ---- extracted from src/lib.rs: struct PlayerInfosetData ----
pub struct PlayerInfosetData<I, A> {
    pub infoset: I,
    pub actions: Box<[A]>,
    pub prev_infoset: Option<usize>,
}

// ---- extracted from src/lib.rs: impl PlayerInfosetData ----
impl<I, A> PlayerInfosetData<I, A> {
pub fn num_actions(&self) -> (r: usize) 
    ensures r == self.actions@.len(), // @ob C14.V.hash_import.num_actions
{
        self.actions.len()
    }
}

// ---- extracted from src/lib.rs: impl Game / fn strat_into_box ----
pub fn strat_into_box__index_infoset<I: Clone, A: Clone>(info: &PlayerInfosetData<I, A>, inds: &mut HashMap<I, HashMap<A, usize>>, mut num_inds: usize) -> (out: usize)
    requires
        num_inds + info.actions@.len() <= usize::MAX,
        distinct(info.actions@),
    ensures
        // the infoset's actions get the next block of dense indices, in the infoset's own action order
        // (the layout of the dense strategy vector everywhere else), and the running index moves past it
        out == num_inds + info.actions@.len(), // @ob C14.V.hash_import.infoset_table
        exists|m: HashMap<A, usize>| final(inds)@ == old(inds)@.insert(info.infoset, m)
            && #[trigger] table_ok(m@, info.actions@, num_inds as int, info.actions@.len() as int), // @ob C14.V.hash_import.infoset_table
{
proof { ax_clone_is_equal::<A>(); ax_clone_is_equal::<I>(); }
let ghost base = num_inds as int;
let ghost acts = info.actions@;

            let mut actions: HashMap<A, usize> = HashMap::with_capacity(info.num_actions());
            for action in it: info.actions.iter() 
invariant
    acts == info.actions@, distinct(acts), base + acts.len() <= usize::MAX,
    0 <= it.index@ <= acts.len(), num_inds == base + it.index@,
    table_ok(actions@, acts, base, it.index@ as int),
{
proof { ax_clone_is_equal::<A>(); }
let ghost k = it.index@ as int;
let ghost m0 = actions@;

                actions.insert(action.clone(), num_inds);
                num_inds = num_inds + ( 1);
            
proof {
    assert(actions@ == m0.insert(acts[k], (base + k) as usize));
    assert forall|a: A| actions@.contains_key(a) <==> exists|j: int| 0 <= j < k + 1 && #[trigger] acts[j] == a by {
        if actions@.contains_key(a) {
            if a == acts[k] { assert(acts[k] == a); } else { assert(m0.contains_key(a)); let j = choose|j: int| 0 <= j < k && #[trigger] acts[j] == a; assert(acts[j] == a); }
        }
        if exists|j: int| 0 <= j < k + 1 && #[trigger] acts[j] == a {
            let j = choose|j: int| 0 <= j < k + 1 && #[trigger] acts[j] == a;
            if j < k { assert(acts[j] == a); assert(m0.contains_key(a)); }
        }
    }
    assert forall|j: int| 0 <= j < k + 1 implies #[trigger] actions@[acts[j]] == base + j by {
        if j < k { assert(acts[j] != acts[k]); assert(m0[acts[j]] == base + j); }
    }
}
}
            inds.insert(info.infoset.clone(), actions);
        
num_inds
}


// vacuity canary: must be REJECTED by the verifier (an inconsistent axiom set would accept it)
pub proof fn __canary_must_fail()
    ensures false, // @ob __canary
{
    broadcast use fl; ax_obeys();
}

} // verus!
fn main() {}
