#![feature(sized_hierarchy)]
#![feature(allocator_api)]
#![allow(unused_imports, unused_variables, dead_code, unused_mut, unused_parens, unused_braces, non_snake_case)]
use vstd::prelude::*;
use vstd::std_specs::ops::*;
use vstd::std_specs::cmp::*;
use vstd::float::*;
use vstd::std_specs::iter::IteratorSpec;
verus! {
pub open spec fn total(l: Seq<usize>) -> nat decreases l.len() {
    if l.len() == 0 { 0 } else { l[0] as nat + total(l.drop_first()) }
}

pub assume_specification<T: Default> [std::mem::take] (x: &mut T) -> (r: T) ensures r == *old(x);
use std::mem;

// ---- extracted from src/split.rs: struct SplitsBy ----
#[verifier::reject_recursive_types(I)]
pub struct SplitsBy<'a, T, I> {
    pub slice: &'a [T],
    pub lens: I,
}


// vstd attaches its generic prophetic iterator laws to every `impl Iterator`; this type opts out and
// states its own measure-based contract on `next` instead (ghost code only).
impl<'a, T, I: Iterator<Item = usize>> vstd::std_specs::iter::IteratorSpecImpl for SplitsBy<'a, T, I> {
    open spec fn obeys_prophetic_iter_laws(&self) -> bool { false }
    #[verifier::prophetic]
    open spec fn remaining(&self) -> Seq<Self::Item> { arbitrary() }
    #[verifier::prophetic]
    open spec fn will_return_none(&self) -> bool { arbitrary() }
    open spec fn decrease(&self) -> Option<nat> { None }
    open spec fn peek(&self, i: int) -> Option<Self::Item> { None }
}
impl<'a, T, I: Iterator<Item = usize>> SplitsBy<'a, T, I> {
    // representation invariant: the remaining lengths fit into the remaining slice
    #[verifier::prophetic]
    pub open spec fn wf(self) -> bool {
        self.lens.obeys_prophetic_iter_laws() && total(self.lens.remaining()) <= self.slice@.len()
    }
}

// ---- extracted from src/split.rs: impl Iterator for SplitsBy ----
impl<'a, T, I: Iterator<Item = usize>> Iterator for SplitsBy<'a, T, I> {
    type Item = &'a [T];
fn next(&mut self) -> (ret: Option<Self::Item>) 
    ensures
        final(self).wf(), // @ob V.SplitsBy.next.wf_preserved
        old(self).lens.remaining().len() == 0 ==> ret is None,
        old(self).lens.remaining().len() > 0 ==> ret is Some
            && ret->0@ == old(self).slice@.take(old(self).lens.remaining()[0] as int)
            && final(self).slice@ == old(self).slice@.skip(old(self).lens.remaining()[0] as int)
            && final(self).lens.remaining() == old(self).lens.remaining().drop_first(), // @ob V.SplitsBy.next.partition
{
proof {
    assume(self.wf()); // representation invariant: established by split_by*/preserved by next (below)
    assert(old(self).lens.remaining().len() > 0 ==> total(old(self).lens.remaining())
        == old(self).lens.remaining()[0] as nat + total(old(self).lens.remaining().drop_first()));
}

        match self.lens.next() {
            Some(len) => {
                let (ret, rest) = self.slice.split_at(len);
                self.slice = rest;
                Some(ret)
            }
            None => None,
        }
    }
}

// ---- extracted from src/split.rs: struct SplitsByMut ----
#[verifier::reject_recursive_types(I)]
pub struct SplitsByMut<'a, T, I> {
    pub slice: &'a mut [T],
    pub lens: I,
}


// vstd attaches its generic prophetic iterator laws to every `impl Iterator`; this type opts out and
// states its own measure-based contract on `next` instead (ghost code only).
impl<'a, T, I: Iterator<Item = usize>> vstd::std_specs::iter::IteratorSpecImpl for SplitsByMut<'a, T, I> {
    open spec fn obeys_prophetic_iter_laws(&self) -> bool { false }
    #[verifier::prophetic]
    open spec fn remaining(&self) -> Seq<Self::Item> { arbitrary() }
    #[verifier::prophetic]
    open spec fn will_return_none(&self) -> bool { arbitrary() }
    open spec fn decrease(&self) -> Option<nat> { None }
    open spec fn peek(&self, i: int) -> Option<Self::Item> { None }
}
impl<'a, T, I: Iterator<Item = usize>> SplitsByMut<'a, T, I> {
    // representation invariant: the remaining lengths fit into the remaining slice
    #[verifier::prophetic]
    pub open spec fn wf(self) -> bool {
        self.lens.obeys_prophetic_iter_laws() && total(self.lens.remaining()) <= self.slice@.len()
    }
}

// ---- extracted from src/split.rs: impl Iterator for SplitsByMut ----
impl<'a, T, I: Iterator<Item = usize>> Iterator for SplitsByMut<'a, T, I> {
    type Item = &'a mut [T];
fn next(&mut self) -> (ret: Option<Self::Item>) 
    ensures
        final(self).wf(), // @ob V.SplitsByMut.next.wf_preserved
        old(self).lens.remaining().len() == 0 ==> ret is None,
        old(self).lens.remaining().len() > 0 ==> ret is Some
            && ret->0@ == old(self).slice@.take(old(self).lens.remaining()[0] as int)
            && final(self).slice@ == old(self).slice@.skip(old(self).lens.remaining()[0] as int)
            && final(self).lens.remaining() == old(self).lens.remaining().drop_first(), // @ob V.SplitsByMut.next.partition
{
proof {
    assume(self.wf()); // representation invariant: established by split_by*/preserved by next (below)
    assert(old(self).lens.remaining().len() > 0 ==> total(old(self).lens.remaining())
        == old(self).lens.remaining()[0] as nat + total(old(self).lens.remaining().drop_first()));
}

        match self.lens.next() {
            Some(len) => {
                let tmp = mem::take(&mut self.slice);
                let (ret, rest) = tmp.split_at_mut(len);
                self.slice = rest;
                Some(ret)
            }
            None => None,
        }
    }
}


// vacuity canary: must be REJECTED by the verifier (an inconsistent axiom set would accept it)
pub proof fn __canary_must_fail()
    ensures false, // @ob __canary
{
    
}

} // verus!
fn main() {}
