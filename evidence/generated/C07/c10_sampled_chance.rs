#![feature(sized_hierarchy)]
#![feature(allocator_api)]
#![allow(unused_imports, unused_variables, dead_code, unused_mut, unused_parens, unused_braces, non_snake_case)]
use vstd::prelude::*;
use vstd::std_specs::ops::*;
use vstd::std_specs::cmp::*;
use vstd::float::*;
use vstd::std_specs::iter::IteratorSpec;
verus! {
// ---- prelude fragment: rand_stub.rs ----
// R5: the parts of rand / rand_distr that the extracted functions touch, with ASSUMED contracts
// restating their documentation (external crates cannot be linked in single-file mode).
pub trait Rng {
    // the next uniform variate in [0,1) this generator will produce
    spec fn next_f64(&self) -> f64;
    fn gen(&mut self) -> (r: f64) ensures r == old(self).next_f64();
}
pub trait Distribution<T> {
    fn sample<R>(&self, rnd: &mut R) -> T where R: Rng + ?Sized;
}
// rand_distr::WeightedAliasIndex<f64>: documented as sampling index i with probability
// proportional to weights[i] (TRUSTED: statistical correctness is not decided here).
#[verifier::external_body]
#[verifier::reject_recursive_types(W)]
pub struct WeightedAliasIndex<W> { _p: core::marker::PhantomData<W> }
#[verifier::external_body]
#[derive(Debug)]
pub struct WeightedError { }
#[verifier::external_body]
pub struct ThreadRng { }
#[verifier::external_body]
pub fn thread_rng() -> ThreadRng { unimplemented!() }
impl Rng for ThreadRng {
    uninterp spec fn next_f64(&self) -> f64;
    #[verifier::external_body]
    fn gen(&mut self) -> (r: f64) { unimplemented!() }
}
// the weights an alias table was built from
pub uninterp spec fn alias_weights<W>(w: &WeightedAliasIndex<W>) -> Seq<W>;
// ghost draw counter: how many times `sample` has been called on this table is not tracked by the
// type; instead `sample`'s contract exposes the only facts callers rely on
impl<W> WeightedAliasIndex<W> {
    #[verifier::external_body]
    pub fn new(weights: Vec<W>) -> (r: Result<Self, WeightedError>)
        requires weights@.len() > 0,
        ensures r is Ok, alias_weights(&r->Ok_0) == weights@,
    { unimplemented!() }
    #[verifier::external_body]
    pub fn sample(&self, rng: &mut ThreadRng) -> (r: usize)
        ensures r < alias_weights(self).len(), r < usize::MAX,
    { unimplemented!() }
}

// ---- prelude fragment: std_vec.rs ----
// R5: assumed contracts on std collection helpers vstd does not specify.
// to_vec on a slice of Copy scalars (f64, bool, usize): an element-wise copy.
pub assume_specification<T> [<[T]>::to_vec] (s: &[T]) -> (r: Vec<T>)
    where T: Clone,
    ensures r@ == s@;
// Vec::extend appends the items the iterator yields (std documentation); only the length fact is used.
pub assume_specification<T, A: core::alloc::Allocator, I: IntoIterator<Item = T>> [<Vec<T, A> as Extend<T>>::extend::<I>] (v: &mut Vec<T, A>, it: I)
    ensures final(v)@.len() >= old(v)@.len(), final(v)@.take(old(v)@.len() as int) == old(v)@;

// ---- extracted from src/solve/data.rs: struct SampledChance ----
pub struct SampledChance {
    pub index: WeightedAliasIndex<f64>,
    pub cached: usize,
}

// ---- extracted from src/solve/data.rs: impl SampledChance ----
impl SampledChance {
pub fn new(probs: &[f64]) -> (r: Self) 
    requires
        probs@.len() > 0,
    ensures
        alias_weights(&r.index) == probs@, // @ob C10.V.sampled_chance.declared_weights
        r.cached == 0, // @ob C10.V.sampled_chance.starts_undrawn
{
        SampledChance {
            index: WeightedAliasIndex::new(probs.to_vec()).unwrap(),
            cached: 0,
        }
    }
pub fn sample(&mut self) -> (r: usize) 
    ensures
        // already drawn this pass: no new draw, same outcome
        old(self).cached != 0 ==> r == old(self).cached - 1 && final(self).cached == old(self).cached, // @ob C10.V.sampled_chance.cache_hit
        // not drawn yet: exactly the sampler's result is stored as r + 1
        old(self).cached == 0 ==> final(self).cached == r + 1 && r < alias_weights(&old(self).index).len(), // @ob C10.V.sampled_chance.cache_fill
        final(self).cached != 0,
        final(self).index == old(self).index,
{
        if self.cached == 0 {
            let res = self.index.sample(&mut thread_rng());
            self.cached = res + 1;
            res
        } else {
            self.cached - 1
        }
    }
pub fn reset(&mut self) 
    ensures
        final(self).cached == 0, final(self).index == old(self).index, // @ob C10.V.sampled_chance.reset
{
        self.cached = 0;
    }
}


// vacuity canary: must be REJECTED by the verifier (an inconsistent axiom set would accept it)
pub proof fn __canary_must_fail()
    ensures false, // @ob __canary
{
    
}

} // verus!
fn main() {}
