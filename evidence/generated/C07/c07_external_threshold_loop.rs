#![feature(sized_hierarchy)]
#![feature(allocator_api)]
#![allow(unused_imports, unused_variables, dead_code, unused_mut, unused_parens, unused_braces, non_snake_case)]
use vstd::prelude::*;
use vstd::std_specs::ops::*;
use vstd::std_specs::cmp::*;
use vstd::float::*;
use vstd::std_specs::iter::IteratorSpec;
verus! {
// ---- extracted from src/lib.rs: enum PlayerNum ----
#[derive(Copy, Clone)]
pub enum PlayerNum {
    /// The first player
    One,
    /// The second player
    Two,
}

// ---- extracted from src/lib.rs: enum Node ----
pub enum Node {
    /// A terminal node, the game is over the payoff to player one
    Terminal(f64),
    /// A chance node, the game advances independent of player action
    Chance(Chance),
    /// a node in the tree where the player can choose between different actions
    Player(Player),
}

// ---- extracted from src/lib.rs: struct Chance ----
pub struct Chance {
    pub outcomes: Box<[Node]>,
    pub infoset: usize,
}

// ---- extracted from src/lib.rs: struct Player ----
pub struct Player {
    pub num: PlayerNum,
    pub infoset: usize,
    pub actions: Box<[Node]>,
}

#[derive(Debug)]
pub struct PoisonError { }
pub struct Mutex<T> { pub inner: T }
impl<T> Mutex<T> {
    #[verifier::external_body]
    pub fn get_mut(&mut self) -> (r: Result<&mut T, PoisonError>)
        ensures r is Ok, *(r->Ok_0) == old(self).inner, final(self).inner == *final(r->Ok_0),
    { unimplemented!() }
}
pub struct SampledChance { pub cached: usize, pub n: Ghost<nat> }
pub struct CachedInfoset { pub cached: usize, pub n: Ghost<nat> }
impl SampledChance {
    pub uninterp spec fn fresh(&self) -> usize;
    pub open spec fn drawn(&self) -> usize { if self.cached != 0 { (self.cached - 1) as usize } else { self.fresh() } }
    // contract proved by c10_external_next (C10.V.external.chance_next)
    #[verifier::external_body]
    pub fn next<'a>(&mut self, chance: &'a Chance) -> (r: &'a Node)
        requires old(self).n@ == chance.outcomes@.len(),
        ensures old(self).drawn() < chance.outcomes@.len(), *r == chance.outcomes@[old(self).drawn() as int],
            final(self).cached == old(self).drawn() + 1, final(self).n == old(self).n,
    { unimplemented!() }
}
impl CachedInfoset {
    pub uninterp spec fn fresh(&self) -> usize;
    pub open spec fn drawn(&self) -> usize { if self.cached != 0 { (self.cached - 1) as usize } else { self.fresh() } }
    // contract proved by c10_external_next (C10.V.external.player_next)
    #[verifier::external_body]
    pub fn next<'a>(&mut self, player: &'a Player) -> (r: &'a Node)
        requires old(self).n@ == player.actions@.len(),
        ensures old(self).drawn() < player.actions@.len(), *r == player.actions@[old(self).drawn() as int],
            final(self).cached == old(self).drawn() + 1, final(self).n == old(self).n,
    { unimplemented!() }
}
pub open spec fn is_active(num: PlayerNum, first: bool) -> bool { match num { PlayerNum::One => first, PlayerNum::Two => !first } }
// b is the node the walk moves to from a, given the draws recorded in the two tables
pub open spec fn sampled_step(a: Node, b: Node, first: bool, ch: Seq<Mutex<SampledChance>>, ex: Seq<Mutex<CachedInfoset>>) -> bool {
    match a {
        Node::Terminal(_) => false,
        Node::Chance(c) => c.infoset < ch.len() && ch[c.infoset as int].inner.cached != 0
            && ch[c.infoset as int].inner.cached - 1 < c.outcomes@.len() && b == c.outcomes@[ch[c.infoset as int].inner.cached - 1],
        Node::Player(p) => !is_active(p.num, first) && p.infoset < ex.len() && ex[p.infoset as int].inner.cached != 0
            && ex[p.infoset as int].inner.cached - 1 < p.actions@.len() && b == p.actions@[ex[p.infoset as int].inner.cached - 1],
    }
}
pub open spec fn sampled_path(path: Seq<Node>, first: bool, ch: Seq<Mutex<SampledChance>>, ex: Seq<Mutex<CachedInfoset>>) -> bool {
    forall|i: int| 0 <= i < path.len() - 1 ==> sampled_step(#[trigger] path[i], path[i + 1], first, ch, ex)
}
// draws already made are kept, nothing else about an infoset changes
pub open spec fn draws_kept(c0: Seq<Mutex<SampledChance>>, c1: Seq<Mutex<SampledChance>>, e0: Seq<Mutex<CachedInfoset>>, e1: Seq<Mutex<CachedInfoset>>) -> bool {
    c1.len() == c0.len() && e1.len() == e0.len()
    && (forall|j: int| 0 <= j < c0.len() ==> (#[trigger] c1[j]).inner.n == c0[j].inner.n && (c0[j].inner.cached != 0 ==> c1[j].inner.cached == c0[j].inner.cached))
    && (forall|j: int| 0 <= j < e0.len() ==> (#[trigger] e1[j]).inner.n == e0[j].inner.n && (e0[j].inner.cached != 0 ==> e1[j].inner.cached == e0[j].inner.cached))
}
pub open spec fn wf_tables(node: Node, ch: Seq<Mutex<SampledChance>>, ex: Seq<Mutex<CachedInfoset>>) -> bool
    decreases node
{
    match node {
        Node::Terminal(_) => true,
        Node::Chance(c) => c.infoset < ch.len() && ch[c.infoset as int].inner.n@ == c.outcomes@.len()
            && forall|i: int| 0 <= i < c.outcomes@.len() ==> wf_tables(#[trigger] c.outcomes@[i], ch, ex),
        Node::Player(p) => p.infoset < ex.len() && ex[p.infoset as int].inner.n@ == p.actions@.len()
            && forall|i: int| 0 <= i < p.actions@.len() ==> wf_tables(#[trigger] p.actions@[i], ch, ex),
    }
}
pub proof fn lemma_wf_kept(node: Node, c0: Seq<Mutex<SampledChance>>, c1: Seq<Mutex<SampledChance>>, e0: Seq<Mutex<CachedInfoset>>, e1: Seq<Mutex<CachedInfoset>>)
    requires wf_tables(node, c0, e0), draws_kept(c0, c1, e0, e1),
    ensures wf_tables(node, c1, e1),
    decreases node
{
    match node {
        Node::Terminal(_) => {}
        Node::Chance(c) => { assert forall|i: int| 0 <= i < c.outcomes@.len() implies wf_tables(#[trigger] c.outcomes@[i], c1, e1) by { lemma_wf_kept(c.outcomes@[i], c0, c1, e0, e1); } }
        Node::Player(p) => { assert forall|i: int| 0 <= i < p.actions@.len() implies wf_tables(#[trigger] p.actions@[i], c1, e1) by { lemma_wf_kept(p.actions@[i], c0, c1, e0, e1); } }
    }
}


use std::mem;
pub struct NonZeroUsize { pub v: usize }
impl NonZeroUsize { pub fn get(self) -> (r: usize) ensures r == self.v { self.v } }
impl Clone for NonZeroUsize { fn clone(&self) -> (r: Self) ensures r == *self { NonZeroUsize { v: self.v } } }
impl Copy for NonZeroUsize { }

// next_nodes by the contract proved for its real text in c07_external_next_nodes
#[verifier::external_body]
pub fn next_nodes<'a, const FIRST: bool>(node0: &'a Node, chance_infosets: &mut [Mutex<SampledChance>], external_player_infosets: &mut [Mutex<CachedInfoset>]) -> (r: Option<&'a [Node]>)
requires
    wf_tables(*node0, old(chance_infosets)@, old(external_player_infosets)@),
ensures
    // every draw already made in this pass is kept (at most one sample per infoset per pass)
    draws_kept(old(chance_infosets)@, final(chance_infosets)@, old(external_player_infosets)@, final(external_player_infosets)@),
    // the walk follows exactly the sampled outcome / the other player's sampled action from the
    // start node, and ends at the first terminal (nothing to expand) or the first node of the pass's
    // own player (whose children are the next frontier entries)
    exists|path: Seq<Node>| path.len() >= 1 && path[0] == *node0
        && #[trigger] sampled_path(path, FIRST, final(chance_infosets)@, final(external_player_infosets)@)
        && match path.last() {
            Node::Terminal(_) => r is None,
            Node::Chance(_) => false,
            Node::Player(p) => is_active(p.num, FIRST) && r is Some && r->0@ == p.actions@,
        },
{ unimplemented!() }

// Vec::<&Node>::extend(&[Node]): appends a reference to every element, in order (std, assumed)
#[verifier::external_body]
pub fn __extend_refs<'a>(work: &mut Vec<&'a Node>, nexts: &'a [Node])
    ensures final(work)@.len() == old(work)@.len() + nexts@.len(),
        final(work)@.take(old(work)@.len() as int) == old(work)@,
        forall|k: int| 0 <= k < nexts@.len() ==> *(#[trigger] final(work)@[old(work)@.len() + k]) == nexts@[k],
{ unimplemented!() }
#[verifier::external_body]
pub proof fn ax_vec_len<'a>(v: &Vec<&'a Node>) ensures v@.len() * 8 <= isize::MAX { }

// ---- ANY additive functional of the SAMPLED traversal (see c06_threshold_loop): it is constant along
// a sampled step (chance outcome drawn for the infoset / the other player's drawn action) and is the sum
// over all actions at a node of the pass's own player; unconstrained at terminals.  The draws are made
// lazily while the frontier is built, so the functional is indexed by the tables (ch, ex) that record them.
pub uninterp spec fn vfe(n: Node, first: bool, ch: Seq<Mutex<SampledChance>>, ex: Seq<Mutex<CachedInfoset>>) -> int;
pub open spec fn asum(p: Player, k: int, first: bool, ch: Seq<Mutex<SampledChance>>, ex: Seq<Mutex<CachedInfoset>>) -> int
    decreases k
{
    if k <= 0 { 0 } else { asum(p, k - 1, first, ch, ex) + vfe(p.actions@[k - 1], first, ch, ex) }
}
#[verifier::external_body]
pub proof fn ax_additive_sampled()
    ensures
        forall|a: Node, b: Node, first: bool, ch: Seq<Mutex<SampledChance>>, ex: Seq<Mutex<CachedInfoset>>|
            #[trigger] sampled_step(a, b, first, ch, ex) ==> vfe(a, first, ch, ex) == vfe(b, first, ch, ex),
        forall|p: Player, first: bool, ch: Seq<Mutex<SampledChance>>, ex: Seq<Mutex<CachedInfoset>>|
            is_active(p.num, first) ==> #[trigger] vfe(Node::Player(p), first, ch, ex) == asum(p, p.actions@.len() as int, first, ch, ex),
        forall|n: Node, first: bool, ch: Seq<Mutex<SampledChance>>, ex: Seq<Mutex<CachedInfoset>>| #[trigger] vfe(n, first, ch, ex) >= 0,
{ }
pub open spec fn rsum(q: Seq<&Node>, first: bool, ch: Seq<Mutex<SampledChance>>, ex: Seq<Mutex<CachedInfoset>>) -> int
    decreases q.len()
{
    if q.len() == 0 { 0 } else { rsum(q.drop_last(), first, ch, ex) + vfe(*q.last(), first, ch, ex) }
}
pub open spec fn total(queue: Seq<&Node>, work: Seq<&Node>, first: bool, ch: Seq<Mutex<SampledChance>>, ex: Seq<Mutex<CachedInfoset>>) -> int {
    rsum(queue, first, ch, ex) + rsum(work, first, ch, ex)
}
// the bound holds for the tables as they are and for every way the pass may still complete them
pub open spec fn conserved(root: Node, queue: Seq<&Node>, work: Seq<&Node>, first: bool, c0: Seq<Mutex<SampledChance>>, e0: Seq<Mutex<CachedInfoset>>) -> bool {
    forall|c: Seq<Mutex<SampledChance>>, e: Seq<Mutex<CachedInfoset>>| #[trigger] draws_kept(c0, c, e0, e)
        ==> total(queue, work, first, c, e) <= vfe(root, first, c, e)
}
pub open spec fn all_wf(q: Seq<&Node>, ch: Seq<Mutex<SampledChance>>, ex: Seq<Mutex<CachedInfoset>>) -> bool {
    forall|i: int| 0 <= i < q.len() ==> wf_tables(*(#[trigger] q[i]), ch, ex)
}
// what one expansion step did, read off next_nodes' contract and the extend that follows it
pub open spec fn walk_ok(path: Seq<Node>, n: Node, w0: Seq<&Node>, w1: Seq<&Node>, first: bool) -> bool {
    path.len() >= 1 && path[0] == n && match path.last() {
        Node::Terminal(_) => w1 == w0,
        Node::Chance(_) => false,
        // all children of the own player's node enter the frontier -- or none (then the pass from the root visits them)
        Node::Player(p) => is_active(p.num, first) && (w1 == w0 || (w1.len() == w0.len() + p.actions@.len() && w1.take(w0.len() as int) == w0
            && forall|k: int| 0 <= k < p.actions@.len() ==> *(#[trigger] w1[w0.len() + k]) == p.actions@[k])),
    }
}
pub proof fn lemma_kept_refl(c: Seq<Mutex<SampledChance>>, e: Seq<Mutex<CachedInfoset>>)
    ensures draws_kept(c, c, e, e)
{ }
pub proof fn lemma_kept_trans(c0: Seq<Mutex<SampledChance>>, c1: Seq<Mutex<SampledChance>>, c2: Seq<Mutex<SampledChance>>,
                              e0: Seq<Mutex<CachedInfoset>>, e1: Seq<Mutex<CachedInfoset>>, e2: Seq<Mutex<CachedInfoset>>)
    requires draws_kept(c0, c1, e0, e1), draws_kept(c1, c2, e1, e2)
    ensures draws_kept(c0, c2, e0, e2)
{
    assert forall|j: int| 0 <= j < c0.len() implies (#[trigger] c2[j]).inner.n == c0[j].inner.n && (c0[j].inner.cached != 0 ==> c2[j].inner.cached == c0[j].inner.cached) by {
        assert(c1[j].inner.n == c0[j].inner.n);
    }
    assert forall|j: int| 0 <= j < e0.len() implies (#[trigger] e2[j]).inner.n == e0[j].inner.n && (e0[j].inner.cached != 0 ==> e2[j].inner.cached == e0[j].inner.cached) by {
        assert(e1[j].inner.n == e0[j].inner.n);
    }
}
pub proof fn lemma_step_mono(a: Node, b: Node, first: bool, c0: Seq<Mutex<SampledChance>>, c1: Seq<Mutex<SampledChance>>, e0: Seq<Mutex<CachedInfoset>>, e1: Seq<Mutex<CachedInfoset>>)
    requires sampled_step(a, b, first, c0, e0), draws_kept(c0, c1, e0, e1)
    ensures sampled_step(a, b, first, c1, e1)
{
    match a {
        Node::Terminal(_) => {}
        Node::Chance(c) => { assert(c1[c.infoset as int].inner.cached == c0[c.infoset as int].inner.cached); }
        Node::Player(p) => { assert(e1[p.infoset as int].inner.cached == e0[p.infoset as int].inner.cached); }
    }
}
// along a sampled path (under tables that may since have been completed) the functional is constant
pub proof fn lemma_path_const(path: Seq<Node>, first: bool, c0: Seq<Mutex<SampledChance>>, c1: Seq<Mutex<SampledChance>>, e0: Seq<Mutex<CachedInfoset>>, e1: Seq<Mutex<CachedInfoset>>)
    requires path.len() >= 1, sampled_path(path, first, c0, e0), draws_kept(c0, c1, e0, e1)
    ensures vfe(path[0], first, c1, e1) == vfe(path.last(), first, c1, e1)
    decreases path.len()
{
    if path.len() > 1 {
        let pp = path.drop_last();
        assert forall|i: int| 0 <= i < pp.len() - 1 implies sampled_step(#[trigger] pp[i], pp[i + 1], first, c0, e0) by {
            assert(sampled_step(path[i], path[i + 1], first, c0, e0));
        }
        lemma_path_const(pp, first, c0, c1, e0, e1);
        let i = path.len() - 2;
        assert(sampled_step(path[i], path[i + 1], first, c0, e0));
        lemma_step_mono(path[i], path[i + 1], first, c0, c1, e0, e1);
        ax_additive_sampled();
    }
}
pub proof fn lemma_path_wf(path: Seq<Node>, first: bool, c: Seq<Mutex<SampledChance>>, e: Seq<Mutex<CachedInfoset>>)
    requires path.len() >= 1, sampled_path(path, first, c, e), wf_tables(path[0], c, e)
    ensures wf_tables(path.last(), c, e)
    decreases path.len()
{
    if path.len() > 1 {
        let pp = path.drop_last();
        assert forall|i: int| 0 <= i < pp.len() - 1 implies sampled_step(#[trigger] pp[i], pp[i + 1], first, c, e) by {
            assert(sampled_step(path[i], path[i + 1], first, c, e));
        }
        lemma_path_wf(pp, first, c, e);
        let i = path.len() - 2;
        assert(sampled_step(path[i], path[i + 1], first, c, e));
    }
}
pub proof fn lemma_rsum_push(q: Seq<&Node>, n: &Node, first: bool, c: Seq<Mutex<SampledChance>>, e: Seq<Mutex<CachedInfoset>>)
    ensures rsum(q.push(n), first, c, e) == rsum(q, first, c, e) + vfe(*n, first, c, e)
{ assert(q.push(n).drop_last() =~= q); }
pub proof fn lemma_rsum_nonneg(q: Seq<&Node>, first: bool, c: Seq<Mutex<SampledChance>>, e: Seq<Mutex<CachedInfoset>>)
    ensures rsum(q, first, c, e) >= 0
    decreases q.len()
{ ax_additive_sampled(); if q.len() > 0 { lemma_rsum_nonneg(q.drop_last(), first, c, e); } }
pub proof fn lemma_rsum_ext(w0: Seq<&Node>, w1: Seq<&Node>, p: Player, n: int, first: bool, c: Seq<Mutex<SampledChance>>, e: Seq<Mutex<CachedInfoset>>)
    requires 0 <= n <= p.actions@.len(), w1.len() == w0.len() + n, w1.take(w0.len() as int) == w0,
        forall|k: int| 0 <= k < n ==> *(#[trigger] w1[w0.len() + k]) == p.actions@[k],
    ensures rsum(w1, first, c, e) == rsum(w0, first, c, e) + asum(p, n, first, c, e)
    decreases n
{
    if n == 0 { assert(w1 =~= w0); }
    else {
        let w1p = w1.drop_last();
        assert(w1p.take(w0.len() as int) =~= w0);
        assert(forall|k: int| 0 <= k < n - 1 ==> (#[trigger] w1p[w0.len() + k]) == w1[w0.len() + k]);
        lemma_rsum_ext(w0, w1p, p, n - 1, first, c, e);
        assert(w1.last() == w1[w0.len() + (n - 1)]);
    }
}

// ---- extracted from src/solve/external.rs: fn thread_threshold ----
#[verifier::exec_allows_no_decreases_clause]
pub fn thread_threshold<'a, const FIRST: bool>(
    root: &'a Node,
    chance_infosets: &mut [Mutex<SampledChance>],
    external_player_infosets: &mut [Mutex<CachedInfoset>],
    target: NonZeroUsize,
    queue: &mut Vec<&'a Node>,
    work: &mut Vec<&'a Node>,
) 
    requires
        old(queue)@.len() == 0, old(work)@.len() == 0,
        wf_tables(*root, old(chance_infosets)@, old(external_player_infosets)@),
    ensures
        // every draw made before or while the frontier was built is kept (one sample per infoset per pass)
        draws_kept(old(chance_infosets)@, final(chance_infosets)@, old(external_player_infosets)@, final(external_player_infosets)@), // @ob C07.V.external_thread_threshold.draws_kept
        // what is handed to the workers are tasks of the SAMPLED tree of this pass and no part of it is in
        // them twice: every non-negative additive functional of the sampled traversal totals over the
        // frontier to at most its value at the root (less is harmless: what is not in the frontier is
        // traversed by the pass from the root) -- nothing twice, nothing outside the sampled tree
        total(final(queue)@, final(work)@, FIRST, final(chance_infosets)@, final(external_player_infosets)@)
            <= vfe(*root, FIRST, final(chance_infosets)@, final(external_player_infosets)@), // @ob C07.V.external_thread_threshold.frontier_is_a_cut
{
proof { ax_additive_sampled(); }
let ghost cs = chance_infosets@;
let ghost es = external_player_infosets@;

    queue.push(root);
    proof {
    assert(queue@ =~= Seq::<&Node>::empty().push(root));
    ax_vec_len(queue); ax_vec_len(work);
    lemma_kept_refl(cs, es);
    assert forall|c: Seq<Mutex<SampledChance>>, e: Seq<Mutex<CachedInfoset>>| #[trigger] draws_kept(cs, c, es, e)
        implies total(queue@, work@, FIRST, c, e) <= vfe(*root, FIRST, c, e) by {
        lemma_rsum_push(Seq::<&Node>::empty(), root, FIRST, c, e);
        assert(rsum(Seq::<&Node>::empty(), FIRST, c, e) == 0);
        assert(rsum(work@, FIRST, c, e) == 0);
    }
}
while !(queue.is_empty() && work.is_empty()) && queue.len() + work.len() < target.get() 
invariant
    cs == old(chance_infosets)@, es == old(external_player_infosets)@,
    draws_kept(cs, chance_infosets@, es, external_player_infosets@),
    all_wf(queue@, chance_infosets@, external_player_infosets@), all_wf(work@, chance_infosets@, external_player_infosets@),
    queue@.len() * 8 <= isize::MAX, work@.len() * 8 <= isize::MAX,
    conserved(*root, queue@, work@, FIRST, chance_infosets@, external_player_infosets@), // @ob C07.V.external_thread_threshold.frontier_is_a_cut
{
proof { ax_additive_sampled(); }
let ghost q0 = queue@;
let ghost w0 = work@;
let ghost cb = chance_infosets@;
let ghost eb = external_player_infosets@;

        if let Some(node) = queue.pop() {
            if let Some(nexts) =
                next_nodes::<FIRST>(node, chance_infosets, external_player_infosets)
            {
                __extend_refs(work, nexts);
            }
        } else {
            mem::swap(queue, work);
        }
    
proof {
    ax_vec_len(queue); ax_vec_len(work);
    let c1 = chance_infosets@; let e1 = external_player_infosets@;
    if q0.len() > 0 {
        let n = q0.last();
        assert(queue@ =~= q0.drop_last());
        assert(wf_tables(*n, cb, eb));
        assert(draws_kept(cb, c1, eb, e1));
        lemma_kept_trans(cs, cb, c1, es, eb, e1);
        assert(exists|path: Seq<Node>| #[trigger] sampled_path(path, FIRST, c1, e1) && walk_ok(path, *n, w0, work@, FIRST));
        let path = choose|path: Seq<Node>| #[trigger] sampled_path(path, FIRST, c1, e1) && walk_ok(path, *n, w0, work@, FIRST);
        lemma_wf_kept(*n, cb, c1, eb, e1);
        lemma_path_wf(path, FIRST, c1, e1);
        assert forall|i: int| 0 <= i < queue@.len() implies wf_tables(*(#[trigger] queue@[i]), c1, e1) by {
            assert(queue@[i] == q0[i]);
            lemma_wf_kept(*q0[i], cb, c1, eb, e1);
        }
        assert forall|i: int| 0 <= i < work@.len() implies wf_tables(*(#[trigger] work@[i]), c1, e1) by {
            if i < w0.len() {
                assert(work@[i] == work@.take(w0.len() as int)[i]);
                lemma_wf_kept(*w0[i], cb, c1, eb, e1);
            } else {
                assert(work@[i] == work@[w0.len() + (i - w0.len())]);
            }
        }
        assert forall|c: Seq<Mutex<SampledChance>>, e: Seq<Mutex<CachedInfoset>>| #[trigger] draws_kept(c1, c, e1, e)
            implies total(queue@, work@, FIRST, c, e) <= vfe(*root, FIRST, c, e) by {
            lemma_kept_trans(cb, c1, c, eb, e1, e);
            assert(total(q0, w0, FIRST, c, e) <= vfe(*root, FIRST, c, e));
            lemma_path_const(path, FIRST, c1, c, e1, e);
            match path.last() {
                Node::Terminal(_) => { }
                Node::Chance(_) => {}
                Node::Player(p) => { if work@ != w0 { lemma_rsum_ext(w0, work@, p, p.actions@.len() as int, FIRST, c, e); } }
            }
        }
    } else {
        assert(queue@ == w0 && work@ == q0);
        assert(c1 == cb && e1 == eb);
    }
}
}
proof { lemma_kept_refl(chance_infosets@, external_player_infosets@); }

}


// vacuity canary: must be REJECTED by the verifier (an inconsistent axiom set would accept it)
pub proof fn __canary_must_fail()
    ensures false, // @ob __canary
{
    
}

} // verus!
fn main() {}
