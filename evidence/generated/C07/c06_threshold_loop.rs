#![feature(sized_hierarchy)]
#![feature(allocator_api)]
#![allow(unused_imports, unused_variables, dead_code, unused_mut, unused_parens, unused_braces, non_snake_case)]
use vstd::prelude::*;
use vstd::std_specs::ops::*;
use vstd::std_specs::cmp::*;
use vstd::float::*;
use vstd::std_specs::iter::IteratorSpec;
verus! {
// ---- prelude fragment: floats.rs ----
// Floating point, layer 1 ("uninterpreted" mode of DESIGN.md 3.2): every f64 operator instance the
// language can produce is linked to ONE total, deterministic, otherwise unknown function of the
// operand values.  Nothing about IEEE-754 is assumed here.
pub uninterp spec fn fadd(a: f64, b: f64) -> f64;
pub uninterp spec fn fsub(a: f64, b: f64) -> f64;
pub uninterp spec fn fmul(a: f64, b: f64) -> f64;
pub uninterp spec fn fdiv(a: f64, b: f64) -> f64;
pub uninterp spec fn fneg(a: f64) -> f64;
pub uninterp spec fn fcmp(a: f64, b: f64) -> Option<core::cmp::Ordering>;
pub uninterp spec fn feq(a: f64, b: f64) -> bool;
pub open spec fn flt(a: f64, b: f64) -> bool { fcmp(a, b) == Some(core::cmp::Ordering::Less) }
pub open spec fn fgt(a: f64, b: f64) -> bool { fcmp(a, b) == Some(core::cmp::Ordering::Greater) }
pub open spec fn fle(a: f64, b: f64) -> bool { fcmp(a, b) == Some(core::cmp::Ordering::Less) || fcmp(a, b) == Some(core::cmp::Ordering::Equal) }
pub open spec fn fge(a: f64, b: f64) -> bool { fcmp(a, b) == Some(core::cmp::Ordering::Greater) || fcmp(a, b) == Some(core::cmp::Ordering::Equal) }

pub broadcast axiom fn ax_add_vv_req(a: f64, b: f64) ensures #[trigger] a.add_req(b);
pub broadcast axiom fn ax_add_vv(a: f64, b: f64) ensures #[trigger] a.add_spec(b) == fadd(a, b);
pub broadcast axiom fn ax_add_vr_req(a: f64, b: &f64) ensures #[trigger] a.add_req(b);
pub broadcast axiom fn ax_add_vr(a: f64, b: &f64) ensures #[trigger] a.add_spec(b) == fadd(a, *b);
pub broadcast axiom fn ax_add_rv_req(a: &f64, b: f64) ensures #[trigger] a.add_req(b);
pub broadcast axiom fn ax_add_rv(a: &f64, b: f64) ensures #[trigger] a.add_spec(b) == fadd(*a, b);
pub broadcast axiom fn ax_add_rr_req(a: &f64, b: &f64) ensures #[trigger] a.add_req(b);
pub broadcast axiom fn ax_add_rr(a: &f64, b: &f64) ensures #[trigger] a.add_spec(b) == fadd(*a, *b);
pub broadcast axiom fn ax_sub_vv_req(a: f64, b: f64) ensures #[trigger] a.sub_req(b);
pub broadcast axiom fn ax_sub_vv(a: f64, b: f64) ensures #[trigger] a.sub_spec(b) == fsub(a, b);
pub broadcast axiom fn ax_sub_vr_req(a: f64, b: &f64) ensures #[trigger] a.sub_req(b);
pub broadcast axiom fn ax_sub_vr(a: f64, b: &f64) ensures #[trigger] a.sub_spec(b) == fsub(a, *b);
pub broadcast axiom fn ax_sub_rv_req(a: &f64, b: f64) ensures #[trigger] a.sub_req(b);
pub broadcast axiom fn ax_sub_rv(a: &f64, b: f64) ensures #[trigger] a.sub_spec(b) == fsub(*a, b);
pub broadcast axiom fn ax_sub_rr_req(a: &f64, b: &f64) ensures #[trigger] a.sub_req(b);
pub broadcast axiom fn ax_sub_rr(a: &f64, b: &f64) ensures #[trigger] a.sub_spec(b) == fsub(*a, *b);
pub broadcast axiom fn ax_mul_vv_req(a: f64, b: f64) ensures #[trigger] a.mul_req(b);
pub broadcast axiom fn ax_mul_vv(a: f64, b: f64) ensures #[trigger] a.mul_spec(b) == fmul(a, b);
pub broadcast axiom fn ax_mul_vr_req(a: f64, b: &f64) ensures #[trigger] a.mul_req(b);
pub broadcast axiom fn ax_mul_vr(a: f64, b: &f64) ensures #[trigger] a.mul_spec(b) == fmul(a, *b);
pub broadcast axiom fn ax_mul_rv_req(a: &f64, b: f64) ensures #[trigger] a.mul_req(b);
pub broadcast axiom fn ax_mul_rv(a: &f64, b: f64) ensures #[trigger] a.mul_spec(b) == fmul(*a, b);
pub broadcast axiom fn ax_mul_rr_req(a: &f64, b: &f64) ensures #[trigger] a.mul_req(b);
pub broadcast axiom fn ax_mul_rr(a: &f64, b: &f64) ensures #[trigger] a.mul_spec(b) == fmul(*a, *b);
pub broadcast axiom fn ax_div_vv_req(a: f64, b: f64) ensures #[trigger] a.div_req(b);
pub broadcast axiom fn ax_div_vv(a: f64, b: f64) ensures #[trigger] a.div_spec(b) == fdiv(a, b);
pub broadcast axiom fn ax_div_vr_req(a: f64, b: &f64) ensures #[trigger] a.div_req(b);
pub broadcast axiom fn ax_div_vr(a: f64, b: &f64) ensures #[trigger] a.div_spec(b) == fdiv(a, *b);
pub broadcast axiom fn ax_div_rv_req(a: &f64, b: f64) ensures #[trigger] a.div_req(b);
pub broadcast axiom fn ax_div_rv(a: &f64, b: f64) ensures #[trigger] a.div_spec(b) == fdiv(*a, b);
pub broadcast axiom fn ax_div_rr_req(a: &f64, b: &f64) ensures #[trigger] a.div_req(b);
pub broadcast axiom fn ax_div_rr(a: &f64, b: &f64) ensures #[trigger] a.div_spec(b) == fdiv(*a, *b);
pub broadcast axiom fn ax_cmp_v(a: f64, b: f64) ensures #[trigger] a.partial_cmp_spec(&b) == fcmp(a, b);
pub broadcast axiom fn ax_eq_v(a: f64, b: f64) ensures #[trigger] a.eq_spec(&b) == feq(a, b);
pub broadcast axiom fn ax_cmp_r(a: &f64, b: &f64) ensures #[trigger] a.partial_cmp_spec(&b) == fcmp(*a, *b);
pub broadcast axiom fn ax_eq_r(a: &f64, b: &f64) ensures #[trigger] a.eq_spec(&b) == feq(*a, *b);
// IEEE facts about comparison that do not depend on the operands' values (discharged for ALL pairs of
// f64 by the loop-free Kani harness `ieee_cmp_flip`): a < b  <=>  b > a, equality is symmetric, an
// unordered pair is unordered both ways; == agrees with partial_cmp.
pub axiom fn ax_obeys()
    ensures
        forall|a: f64, b: f64| (#[trigger] fcmp(a, b) == Some(core::cmp::Ordering::Less)) == (fcmp(b, a) == Some(core::cmp::Ordering::Greater)),
        forall|a: f64, b: f64| (#[trigger] fcmp(a, b) == Some(core::cmp::Ordering::Equal)) == (fcmp(b, a) == Some(core::cmp::Ordering::Equal)),
        forall|a: f64, b: f64| (#[trigger] fcmp(a, b) is None) == (fcmp(b, a) is None),
        forall|a: f64, b: f64| #[trigger] feq(a, b) == (fcmp(a, b) == Some(core::cmp::Ordering::Equal)),
        // max / min are commutative as far as comparisons can tell (the two results are identical, or +0 / -0,
        // or both NaN): discharged for ALL triples by the loop-free Kani harness `ieee_max_min_commute`
        forall|a: f64, b: f64, c: f64| #[trigger] fcmp(fmaxf(a, b), c) == fcmp(fmaxf(b, a), c),
        forall|a: f64, b: f64, c: f64| #[trigger] fcmp(c, fmaxf(a, b)) == fcmp(c, fmaxf(b, a)),
        forall|a: f64, b: f64, c: f64| #[trigger] fcmp(fminf(a, b), c) == fcmp(fminf(b, a), c),
        forall|a: f64, b: f64, c: f64| #[trigger] fcmp(c, fminf(a, b)) == fcmp(c, fminf(b, a)),
        <f64 as AddSpec<f64>>::obeys_add_spec(),
        <f64 as AddSpec<&f64>>::obeys_add_spec(),
        <&f64 as AddSpec<f64>>::obeys_add_spec(),
        <&f64 as AddSpec<&f64>>::obeys_add_spec(),
        <f64 as SubSpec<f64>>::obeys_sub_spec(),
        <f64 as SubSpec<&f64>>::obeys_sub_spec(),
        <&f64 as SubSpec<f64>>::obeys_sub_spec(),
        <&f64 as SubSpec<&f64>>::obeys_sub_spec(),
        <f64 as MulSpec<f64>>::obeys_mul_spec(),
        <f64 as MulSpec<&f64>>::obeys_mul_spec(),
        <&f64 as MulSpec<f64>>::obeys_mul_spec(),
        <&f64 as MulSpec<&f64>>::obeys_mul_spec(),
        <f64 as DivSpec<f64>>::obeys_div_spec(),
        <f64 as DivSpec<&f64>>::obeys_div_spec(),
        <&f64 as DivSpec<f64>>::obeys_div_spec(),
        <&f64 as DivSpec<&f64>>::obeys_div_spec(),
        <f64 as PartialOrdSpec<f64>>::obeys_partial_cmp_spec(),
        <f64 as PartialEqSpec<f64>>::obeys_eq_spec(),
        <&f64 as PartialOrdSpec<&f64>>::obeys_partial_cmp_spec(),
        <&f64 as PartialEqSpec<&f64>>::obeys_eq_spec(),
;
pub broadcast group fl {
    ax_add_vv_req, ax_add_vv, ax_add_vr_req, ax_add_vr, ax_add_rv_req, ax_add_rv, ax_add_rr_req, ax_add_rr, ax_sub_vv_req, ax_sub_vv, ax_sub_vr_req, ax_sub_vr, ax_sub_rv_req, ax_sub_rv, ax_sub_rr_req, ax_sub_rr, ax_mul_vv_req, ax_mul_vv, ax_mul_vr_req, ax_mul_vr, ax_mul_rv_req, ax_mul_rv, ax_mul_rr_req, ax_mul_rr, ax_div_vv_req, ax_div_vv, ax_div_vr_req, ax_div_vr, ax_div_rv_req, ax_div_rv, ax_div_rr_req, ax_div_rr, ax_cmp_v, ax_eq_v, ax_cmp_r, ax_eq_r
}

// R8: unary minus (this Verus rejects float negation); the wrapper IS the operator.
// (core implements Neg for f64 and for &f64: the wrapper takes either)
pub trait __NegArg: Sized { spec fn negv(self) -> f64; }
impl __NegArg for f64 { open spec fn negv(self) -> f64 { self } }
impl<'a> __NegArg for &'a f64 { open spec fn negv(self) -> f64 { *self } }
#[verifier::external_body]
pub fn __neg<T: __NegArg>(x: T) -> (r: f64)
    ensures r == fneg(x.negv()),
{ unimplemented!() }


// f64 methods used by the extracted code: linked to uninterpreted functions (their IEEE facts, where
// a proof needs one, are separate axioms discharged by loop-free Kani harnesses).
pub uninterp spec fn fmaxf(a: f64, b: f64) -> f64;
pub uninterp spec fn fminf(a: f64, b: f64) -> f64;
pub uninterp spec fn fabsf(a: f64) -> f64;
pub uninterp spec fn fisnan(a: f64) -> bool;
pub uninterp spec fn fisfinite(a: f64) -> bool;
pub uninterp spec fn fisinfinite(a: f64) -> bool;
// IEEE classification facts (discharged for ALL f64 / all pairs by the loop-free Kani harness
// `ieee_classification`): finite <=> neither NaN nor infinite; NaN and infinite exclude each other;
// a pair is unordered exactly when one side is NaN; 0.0 is finite.
pub axiom fn ax_ieee_class()
    ensures
        forall|a: f64| #[trigger] fisfinite(a) == (!fisnan(a) && !fisinfinite(a)),
        forall|a: f64| #[trigger] fisnan(a) ==> !fisinfinite(a),
        forall|a: f64, b: f64| (#[trigger] fcmp(a, b) is None) == (fisnan(a) || fisnan(b)),
        fisfinite(0.0f64),
        // (core::cmp::Ordering has exactly three variants: the Rust enum, opaque to this Verus)
        forall|a: f64, b: f64| #[trigger] fcmp(a, b) is None || fcmp(a, b) == Some(core::cmp::Ordering::Less)
            || fcmp(a, b) == Some(core::cmp::Ordering::Equal) || fcmp(a, b) == Some(core::cmp::Ordering::Greater);
pub uninterp spec fn fpowf(a: f64, b: f64) -> f64;
pub uninterp spec fn ftotalcmp(a: f64, b: f64) -> core::cmp::Ordering;
pub assume_specification [f64::max] (a: f64, b: f64) -> (r: f64) ensures r == fmaxf(a, b);
pub assume_specification [f64::min] (a: f64, b: f64) -> (r: f64) ensures r == fminf(a, b);
pub assume_specification [f64::abs] (a: f64) -> (r: f64) ensures r == fabsf(a);
pub assume_specification [f64::is_nan] (a: f64) -> (r: bool) ensures r == fisnan(a);
pub assume_specification [f64::is_finite] (a: f64) -> (r: bool) ensures r == fisfinite(a);
pub assume_specification [f64::is_infinite] (a: f64) -> (r: bool) ensures r == fisinfinite(a);
// further classification / sign predicates: deterministic functions about which nothing else is known
// (code that switches to one of them no longer verifies against a contract stated with `>`, `is_finite`, ...)
pub uninterp spec fn fisnormal(a: f64) -> bool;
pub uninterp spec fn fissubnormal(a: f64) -> bool;
pub uninterp spec fn fissignpos(a: f64) -> bool;
pub uninterp spec fn fissignneg(a: f64) -> bool;
pub assume_specification [f64::is_normal] (a: f64) -> (r: bool) ensures r == fisnormal(a);
pub assume_specification [f64::is_subnormal] (a: f64) -> (r: bool) ensures r == fissubnormal(a);
pub assume_specification [f64::is_sign_positive] (a: f64) -> (r: bool) ensures r == fissignpos(a);
pub assume_specification [f64::is_sign_negative] (a: f64) -> (r: bool) ensures r == fissignneg(a);
pub assume_specification [f64::powf] (a: f64, b: f64) -> (r: f64) ensures r == fpowf(a, b);
pub assume_specification [f64::total_cmp] (a: &f64, b: &f64) -> (r: core::cmp::Ordering) ensures r == ftotalcmp(*a, *b);

// R9: associated constants this Verus rejects; the wrappers' bodies ARE the constants.
pub uninterp spec fn finf() -> f64;
pub uninterp spec fn fneginf() -> f64;
#[verifier::external_body]
pub fn __inf() -> (r: f64) ensures r == finf() { f64::INFINITY }
#[verifier::external_body]
pub fn __neg_inf() -> (r: f64) ensures r == fneginf() { f64::NEG_INFINITY }
pub assume_specification [core::cmp::Ordering::is_lt] (o: core::cmp::Ordering) -> (r: bool) ensures r == (o == core::cmp::Ordering::Less);
pub assume_specification [core::cmp::Ordering::is_le] (o: core::cmp::Ordering) -> (r: bool) ensures r == (o != core::cmp::Ordering::Greater);
pub assume_specification [core::cmp::Ordering::is_gt] (o: core::cmp::Ordering) -> (r: bool) ensures r == (o == core::cmp::Ordering::Greater);
pub assume_specification [core::cmp::Ordering::is_ge] (o: core::cmp::Ordering) -> (r: bool) ensures r == (o != core::cmp::Ordering::Less);
pub uninterp spec fn fconst_EPSILON() -> f64;
#[verifier::external_body]
pub fn __f64_EPSILON() -> (r: f64) ensures r == fconst_EPSILON() { f64::EPSILON }
pub uninterp spec fn fconst_MAX() -> f64;
#[verifier::external_body]
pub fn __f64_MAX() -> (r: f64) ensures r == fconst_MAX() { f64::MAX }
pub uninterp spec fn fconst_MIN() -> f64;
#[verifier::external_body]
pub fn __f64_MIN() -> (r: f64) ensures r == fconst_MIN() { f64::MIN }
pub uninterp spec fn fconst_MIN_POSITIVE() -> f64;
#[verifier::external_body]
pub fn __f64_MIN_POSITIVE() -> (r: f64) ensures r == fconst_MIN_POSITIVE() { f64::MIN_POSITIVE }
pub uninterp spec fn fconst_NAN() -> f64;
#[verifier::external_body]
pub fn __f64_NAN() -> (r: f64) ensures r == fconst_NAN() { f64::NAN }

// R12: integer-to-float casts (`X as f64`), which this Verus rejects; the wrapper IS the cast.
pub uninterp spec fn u64_to_f64(n: u64) -> f64;
pub uninterp spec fn usize_to_f64(n: usize) -> f64;
pub trait ToF64: Sized {
    spec fn to_f64_spec(self) -> f64;
    fn __to_f64(self) -> (r: f64) ensures r == self.to_f64_spec();
}
impl ToF64 for u64 {
    open spec fn to_f64_spec(self) -> f64 { u64_to_f64(self) }
    #[verifier::external_body]
    fn __to_f64(self) -> (r: f64) { self as f64 }
}
impl ToF64 for usize {
    open spec fn to_f64_spec(self) -> f64 { usize_to_f64(self) }
    #[verifier::external_body]
    fn __to_f64(self) -> (r: f64) { self as f64 }
}
pub fn __as_f64<T: ToF64>(x: T) -> (r: f64) ensures r == x.to_f64_spec() { x.__to_f64() }

// R13: identity on f64 (see rule R13 of the extractor)
pub fn __idf(x: f64) -> (r: f64) ensures r == x { x }

// ---- prelude fragment: ideal.rs ----
// Floating point, layer 2 ("idealised real" mode of DESIGN.md 3.2): machine arithmetic treated as
// mathematical.  rv maps a float to the real it denotes; rounding, overflow, NaN and signed zero are
// ignored.  Used only where the property is a statement of real arithmetic.
pub uninterp spec fn rv(x: f64) -> real;
pub broadcast axiom fn ax_rv_add(a: f64, b: f64) ensures rv(#[trigger] fadd(a, b)) == rv(a) + rv(b);
pub broadcast axiom fn ax_rv_sub(a: f64, b: f64) ensures rv(#[trigger] fsub(a, b)) == rv(a) - rv(b);
pub broadcast axiom fn ax_rv_mul(a: f64, b: f64) ensures rv(#[trigger] fmul(a, b)) == rv(a) * rv(b);
pub broadcast axiom fn ax_rv_div(a: f64, b: f64) ensures rv(b) != 0real ==> rv(#[trigger] fdiv(a, b)) == rv(a) / rv(b);
pub broadcast axiom fn ax_rv_neg(a: f64) ensures rv(#[trigger] fneg(a)) == 0real - rv(a);
pub broadcast axiom fn ax_rv_cmp(a: f64, b: f64)
    ensures #[trigger] fcmp(a, b) == (if rv(a) < rv(b) { Some(core::cmp::Ordering::Less) }
        else if rv(a) == rv(b) { Some(core::cmp::Ordering::Equal) } else { Some(core::cmp::Ordering::Greater) });
pub broadcast axiom fn ax_rv_eq(a: f64, b: f64) ensures #[trigger] feq(a, b) == (rv(a) == rv(b));
pub broadcast axiom fn ax_rv_max(a: f64, b: f64) ensures rv(#[trigger] fmaxf(a, b)) == (if rv(a) >= rv(b) { rv(a) } else { rv(b) });
pub broadcast axiom fn ax_rv_min(a: f64, b: f64) ensures rv(#[trigger] fminf(a, b)) == (if rv(a) <= rv(b) { rv(a) } else { rv(b) });
// (idealised) powf denotes a function of the real values of its arguments
pub uninterp spec fn rpow(x: real, y: real) -> real;
pub broadcast axiom fn ax_rv_powf(a: f64, b: f64) ensures rv(#[trigger] fpowf(a, b)) == rpow(rv(a), rv(b));
pub axiom fn ax_rv_lits()
    ensures rv(0.0f64) == 0real, rv(1.0f64) == 1real, rv(2.0f64) == 2real, rv(0.5f64) * 2real == 1real;
pub broadcast group ideal {
    ax_rv_add, ax_rv_sub, ax_rv_mul, ax_rv_div, ax_rv_neg, ax_rv_cmp, ax_rv_eq, ax_rv_max, ax_rv_min, ax_rv_powf
}
// (idealised) integer-to-float casts are exact
pub broadcast axiom fn ax_rv_u64(n: u64) ensures rv(#[trigger] u64_to_f64(n)) == n as real;
pub broadcast axiom fn ax_rv_usize(n: usize) ensures rv(#[trigger] usize_to_f64(n)) == n as real;
pub broadcast group ideal_casts { ax_rv_u64, ax_rv_usize }

// ---- extracted from src/lib.rs: enum PlayerNum ----
#[derive(Copy, Clone)]
pub enum PlayerNum {
    /// The first player
    One,
    /// The second player
    Two,
}

// ---- extracted from src/lib.rs: enum Node ----
pub enum Node {
    /// A terminal node, the game is over the payoff to player one
    Terminal(f64),
    /// A chance node, the game advances independent of player action
    Chance(Chance),
    /// a node in the tree where the player can choose between different actions
    Player(Player),
}

// ---- extracted from src/lib.rs: struct Chance ----
pub struct Chance {
    pub outcomes: Box<[Node]>,
    pub infoset: usize,
}

// ---- extracted from src/lib.rs: struct Player ----
pub struct Player {
    pub num: PlayerNum,
    pub infoset: usize,
    pub actions: Box<[Node]>,
}

// ---- extracted from src/solve/vanilla.rs: struct MutexRegretInfoset ----
pub struct MutexRegretInfoset {
    pub cum_regret: Box<[AtomicF64]>,
    pub cum_strat: Mutex<Box<[f64]>>,
    pub strat: Box<[f64]>,
}

pub open spec fn pnext_ok(num: PlayerNum, p_player: [f64; 2], prob: f64, p_next: [f64; 2]) -> bool {
    match num {
        PlayerNum::One => rv(p_next[0]) == rv(p_player[0]) * rv(prob) && p_next[1] == p_player[1],
        PlayerNum::Two => p_next[0] == p_player[0] && rv(p_next[1]) == rv(p_player[1]) * rv(prob),
    }
}
// a selection of action positions, strictly increasing (no action twice, order kept)
pub open spec fn sel_ok(idx: Seq<int>, n: int) -> bool {
    (forall|j: int| 0 <= j < idx.len() ==> 0 <= #[trigger] idx[j] < n)
    && (forall|i: int, j: int| 0 <= i < j < idx.len() ==> idx[i] < idx[j])
}
// the entries added to the frontier are those of the selected actions: the child, the unchanged chance
// reach, and the reach vector of ITS path
pub open spec fn added_ok<'a>(w0: Seq<(&'a Node, f64, [f64; 2])>, w1: Seq<(&'a Node, f64, [f64; 2])>, idx: Seq<int>, player: &'a Player, st: Seq<f64>, p_chance: f64, p_player: [f64; 2]) -> bool {
    w1.len() == w0.len() + idx.len() && w1.take(w0.len() as int) == w0
    && forall|j: int| 0 <= j < idx.len() ==> (#[trigger] w1[w0.len() + j]).0 == &player.actions@[idx[j]]
        && w1[w0.len() + j].1 == p_chance && pnext_ok(player.num, p_player, st[idx[j]], w1[w0.len() + j].2)
}


use std::mem;
pub type Item<'a> = (&'a Node, f64, [f64; 2]);
#[verifier::external_body] pub struct AtomicF64 { }
#[verifier::external_body]
#[verifier::reject_recursive_types(T)]
pub struct Mutex<T> { t: core::marker::PhantomData<T> }
#[verifier::external_body] pub struct ChanceTables { }
// std::num::NonZeroUsize as far as the loop uses it
pub struct NonZeroUsize { pub v: usize }
impl NonZeroUsize { pub fn get(self) -> (r: usize) ensures r == self.v { self.v } }
impl Clone for NonZeroUsize { fn clone(&self) -> (r: Self) ensures r == *self { NonZeroUsize { v: self.v } } }
impl Copy for NonZeroUsize { }

// ---- what the frontier is measured with: ANY additive functional of the traversal -----------------
// vf(n, pc, p1, p2): an arbitrary integer-valued functional of "the traversal of the subtree below n
// entered with chance reach pc and player reaches p1, p2" (e.g. how often a given infoset update or a
// given leaf is performed).  It is uninterpreted; all that is assumed (ax_additive) is that it
// decomposes over the children the SEQUENTIAL traversal visits: at a chance node the outcomes the
// infoset's next_nodes yields in this pass (all of them, or the one sampled), each with the chance
// reach multiplied by its probability; at a decision node every action, with the acting player's
// reach multiplied by the current strategy's probability.  Terminals are unconstrained.
pub uninterp spec fn vf(n: Node, pc: real, p1: real, p2: real) -> int;
pub uninterp spec fn outcomes_of(ch: Chance) -> Seq<(f64, Node)>;
pub uninterp spec fn cur_strat(num: PlayerNum, infoset: int) -> Seq<f64>;

pub open spec fn csum(ch: Chance, pc: real, p1: real, p2: real, k: int) -> int
    decreases k
{
    if k <= 0 { 0 } else { csum(ch, pc, p1, p2, k - 1) + vf(outcomes_of(ch)[k - 1].1, pc * rv(outcomes_of(ch)[k - 1].0), p1, p2) }
}
pub open spec fn psum(pl: Player, pc: real, p1: real, p2: real, k: int) -> int
    decreases k
{
    if k <= 0 { 0 } else {
        psum(pl, pc, p1, p2, k - 1) + (match pl.num {
            PlayerNum::One => vf(pl.actions@[k - 1], pc, p1 * rv(cur_strat(pl.num, pl.infoset as int)[k - 1]), p2),
            PlayerNum::Two => vf(pl.actions@[k - 1], pc, p1, p2 * rv(cur_strat(pl.num, pl.infoset as int)[k - 1])),
        })
    }
}
#[verifier::external_body]
pub proof fn ax_additive()
    ensures
        forall|ch: Chance, pc: real, p1: real, p2: real| #[trigger] vf(Node::Chance(ch), pc, p1, p2) == csum(ch, pc, p1, p2, outcomes_of(ch).len() as int),
        forall|pl: Player, pc: real, p1: real, p2: real| #[trigger] vf(Node::Player(pl), pc, p1, p2) == psum(pl, pc, p1, p2, pl.actions@.len() as int),
        forall|n: Node, pc: real, p1: real, p2: real| #[trigger] vf(n, pc, p1, p2) >= 0,
{ }

pub open spec fn ival(e: Item) -> int { vf(*e.0, rv(e.1), rv(e.2[0]), rv(e.2[1])) }
pub open spec fn tsum(q: Seq<Item>) -> int
    decreases q.len()
{
    if q.len() == 0 { 0 } else { tsum(q.drop_last()) + ival(q.last()) }
}
pub open spec fn all_terminal(q: Seq<Item>) -> bool { forall|i: int| 0 <= i < q.len() ==> (*(#[trigger] q[i]).0) is Terminal }

// the tables the tree was built against: every decision node's infoset exists and its current strategy
// has one entry per action (Game::from_root, C11); the outcomes a chance infoset hands out are
// children of the node
pub open spec fn wf(n: Node, infos: [Seq<MutexRegretInfoset>; 2]) -> bool
    decreases n
{
    match n {
        Node::Terminal(_) => true,
        Node::Chance(ch) => (forall|i: int| 0 <= i < ch.outcomes@.len() ==> wf(#[trigger] ch.outcomes@[i], infos))
            && (forall|k: int| 0 <= k < outcomes_of(ch).len() ==> ch.outcomes@.contains(#[trigger] outcomes_of(ch)[k].1)),
        Node::Player(pl) => {
            let tab = match pl.num { PlayerNum::One => infos[0], PlayerNum::Two => infos[1] };
            pl.infoset < tab.len() && tab[pl.infoset as int].strat@ == cur_strat(pl.num, pl.infoset as int)
            && cur_strat(pl.num, pl.infoset as int).len() == pl.actions@.len()
            && forall|i: int| 0 <= i < pl.actions@.len() ==> wf(#[trigger] pl.actions@[i], infos)
        }
    }
}
pub open spec fn all_wf(q: Seq<Item>, infos: [Seq<MutexRegretInfoset>; 2]) -> bool { forall|i: int| 0 <= i < q.len() ==> wf(*(#[trigger] q[i]).0, infos) }
pub open spec fn tabs(pi: [&mut [MutexRegretInfoset]; 2]) -> [Seq<MutexRegretInfoset>; 2] { [pi[0]@, pi[1]@] }

pub proof fn lemma_tsum_push(q: Seq<Item>, e: Item)
    ensures tsum(q.push(e)) == tsum(q) + ival(e)
{ assert(q.push(e).drop_last() =~= q); }

pub proof fn lemma_tsum_pop(q: Seq<Item>)
    requires q.len() > 0
    ensures tsum(q) == tsum(q.drop_last()) + ival(q.last())
{ }

// a list that grew by n entries whose values are given entry-wise
pub proof fn lemma_tsum_ext(w0: Seq<Item>, w1: Seq<Item>, n: int, f: spec_fn(int) -> int, g: spec_fn(int) -> int)
    requires
        n >= 0, w1.len() == w0.len() + n, w1.take(w0.len() as int) == w0,
        forall|k: int| 0 <= k < n ==> ival(#[trigger] w1[w0.len() + k]) == f(k),
        g(0) == 0, forall|k: int| 0 < k <= n ==> #[trigger] g(k) == g(k - 1) + f(k - 1),
    ensures tsum(w1) == tsum(w0) + g(n)
    decreases n
{
    if n == 0 { assert(w1 =~= w0); }
    else {
        let w1p = w1.drop_last();
        assert(w1p.take(w0.len() as int) =~= w0);
        assert(forall|k: int| 0 <= k < n - 1 ==> (#[trigger] w1p[w0.len() + k]) == w1[w0.len() + k]);
        lemma_tsum_ext(w0, w1p, n - 1, f, g);
        assert(w1.last() == w1[w0.len() + (n - 1)]);
    }
}

pub proof fn lemma_tsum_nonneg(q: Seq<Item>)
    ensures tsum(q) >= 0
    decreases q.len()
{ ax_additive(); if q.len() > 0 { lemma_tsum_nonneg(q.drop_last()); } }
// partial sums of non-negative terms grow
pub proof fn lemma_g_mono(f: spec_fn(int) -> int, g: spec_fn(int) -> int, n: int, a: int, b: int)
    requires 0 <= a <= b <= n, forall|k: int| 0 <= k < n ==> #[trigger] f(k) >= 0,
        forall|k: int| 0 < k <= n ==> #[trigger] g(k) == g(k - 1) + f(k - 1),
    ensures g(a) <= g(b)
    decreases b - a
{ if a < b { lemma_g_mono(f, g, n, a, b - 1); } }
pub open spec fn sel_bound(idx: Seq<int>) -> int { if idx.len() == 0 { 0 } else { idx.last() + 1 } }
// a list that grew by the entries of a SELECTION of positions (strictly increasing), whose values are
// given position-wise and are non-negative: it grew by at most the full sum
pub proof fn lemma_tsum_sel(w0: Seq<Item>, w1: Seq<Item>, idx: Seq<int>, n: int, f: spec_fn(int) -> int, g: spec_fn(int) -> int)
    requires
        n >= 0, sel_ok(idx, n), w1.len() == w0.len() + idx.len(), w1.take(w0.len() as int) == w0,
        forall|j: int| 0 <= j < idx.len() ==> ival(#[trigger] w1[w0.len() + j]) == f(idx[j]),
        forall|k: int| 0 <= k < n ==> #[trigger] f(k) >= 0,
        g(0) == 0, forall|k: int| 0 < k <= n ==> #[trigger] g(k) == g(k - 1) + f(k - 1),
    ensures tsum(w1) <= tsum(w0) + g(sel_bound(idx)), 0 <= sel_bound(idx) <= n, tsum(w1) <= tsum(w0) + g(n),
    decreases idx.len()
{
    if idx.len() == 0 { assert(w1 =~= w0); lemma_g_mono(f, g, n, 0, n); }
    else {
        let w1p = w1.drop_last();
        let ip = idx.drop_last();
        let m = idx.len() - 1;
        assert(w1p.take(w0.len() as int) =~= w0);
        assert(forall|j: int| 0 <= j < ip.len() ==> (#[trigger] w1p[w0.len() + j]) == w1[w0.len() + j]);
        assert(forall|j: int| 0 <= j < ip.len() ==> #[trigger] ip[j] == idx[j]);
        lemma_tsum_sel(w0, w1p, ip, n, f, g);
        assert(w1.last() == w1[w0.len() + m]);
        let last = idx[m];
        assert(sel_bound(ip) <= last) by { if ip.len() > 0 { assert(ip.last() == idx[m - 1]); assert(idx[m - 1] < idx[m]); } }
        lemma_g_mono(f, g, n, sel_bound(ip), last);
        assert(g(last + 1) == g(last) + f(last));
        lemma_g_mono(f, g, n, last + 1, n);
    }
}

// ---- the two expanding arms, by the contracts proved for their real text in c06_threshold_player_step
#[verifier::external_body]
pub fn __chance_arm<'a>(chance_infosets: &ChanceTables, chance: &'a Chance, p_chance: f64, p_player: [f64; 2], work: &mut Vec<Item<'a>>)
    ensures
        final(work)@.len() == old(work)@.len() + outcomes_of(*chance).len(),
        final(work)@.take(old(work)@.len() as int) == old(work)@,
        forall|k: int| 0 <= k < outcomes_of(*chance).len() ==> *(#[trigger] final(work)@[old(work)@.len() + k]).0 == outcomes_of(*chance)[k].1
            && final(work)@[old(work)@.len() + k].2 == p_player
            && rv(final(work)@[old(work)@.len() + k].1) == rv(p_chance) * rv(outcomes_of(*chance)[k].0),
{ unimplemented!() }
#[verifier::external_body]
pub fn __player_arm<'a, 'b>(player: &'a Player, p_chance: f64, p_player: [f64; 2], player_infosets: &mut [&'b mut [MutexRegretInfoset]; 2], work: &mut Vec<Item<'a>>)
    requires
        player.infoset < (match player.num { PlayerNum::One => old(player_infosets)[0]@, PlayerNum::Two => old(player_infosets)[1]@ }).len(),
        (match player.num { PlayerNum::One => old(player_infosets)[0]@, PlayerNum::Two => old(player_infosets)[1]@ })[player.infoset as int].strat@.len() == player.actions@.len(),
    ensures
        tabs(*final(player_infosets)) == tabs(*old(player_infosets)),
        exists|idx: Seq<int>| #[trigger] sel_ok(idx, player.actions@.len() as int)
            && added_ok(old(work)@, final(work)@, idx, player, (match player.num { PlayerNum::One => old(player_infosets)[0]@, PlayerNum::Two => old(player_infosets)[1]@ })[player.infoset as int].strat@, p_chance, p_player),
{ unimplemented!() }
// documented allocation limit of Vec (never more than isize::MAX bytes; an Item is 32 bytes)
#[verifier::external_body]
pub proof fn ax_vec_len<'a>(v: &Vec<Item<'a>>) ensures v@.len() * 32 <= isize::MAX { }

// ---- extracted from src/solve/vanilla.rs: fn thread_threshold ----
#[verifier::exec_allows_no_decreases_clause]
pub fn thread_threshold<'a>(
    root: &'a Node,
    chance_infosets: &ChanceTables,
    mut player_infosets: [&mut [MutexRegretInfoset]; 2],
    target: NonZeroUsize,
    queue: &mut Vec<(&'a Node, f64, [f64; 2])>,
    work: &mut Vec<(&'a Node, f64, [f64; 2])>,
) 
    requires
        old(queue)@.len() == 0, old(work)@.len() == 0,
        wf(*root, tabs(player_infosets)),
    ensures
        // what is handed to the workers (queue; work is discarded by the caller) are tasks of the tree the
        // sequential traversal visits, with the reach values of that traversal, and NO part of the tree is
        // in them twice (no entry twice, none below another): every non-negative additive functional of
        // the traversal totals over the frontier to at most its value at the root. (Less is harmless:
        // what is not in the frontier is traversed by the pass from the root.)
        tsum(final(queue)@) + tsum(final(work)@) <= vf(*root, 1real, 1real, 1real), // @ob C06.V.thread_threshold.frontier_is_a_cut
{
broadcast use fl; broadcast use ideal;
proof { ax_obeys(); ax_rv_lits(); ax_additive(); }
let ghost infos = tabs(player_infosets);

    queue.push((root, 1.0, [1.0; 2]));
    proof {
    let e0 = queue@.last();
    assert(queue@ =~= Seq::<Item>::empty().push(e0));
    lemma_tsum_push(Seq::<Item>::empty(), e0);
    assert(e0.0 == root && rv(e0.1) == 1real && rv(e0.2[0]) == 1real && rv(e0.2[1]) == 1real);
    assert(tsum(Seq::<Item>::empty()) == 0);
    assert(tsum(work@) == 0);
    ax_vec_len(queue); ax_vec_len(work);
}
while !(queue.is_empty() && work.is_empty()) && queue.len() + work.len() < target.get() 
invariant
    infos == tabs(player_infosets),
    all_wf(queue@, infos), all_wf(work@, infos),
    queue@.len() * 32 <= isize::MAX, work@.len() * 32 <= isize::MAX,
    tsum(queue@) + tsum(work@) <= vf(*root, 1real, 1real, 1real), // @ob C06.V.thread_threshold.frontier_is_a_cut
{
broadcast use fl; broadcast use ideal;
proof { ax_obeys(); ax_rv_lits(); ax_additive(); }
let ghost q0 = queue@;
let ghost w0 = work@;

        match queue.pop() {
            Some((Node::Terminal(_), _, _)) => {}
            Some((Node::Chance(chance), p_chance, p_player)) => { __chance_arm(chance_infosets, chance, p_chance, p_player, work); }
            Some((Node::Player(player), p_chance, p_player)) => { __player_arm(player, p_chance, p_player, &mut player_infosets, work); }
            None => {
                mem::swap(queue, work);
            }
        }
    
proof {
    ax_vec_len(queue); ax_vec_len(work);
    lemma_tsum_nonneg(w0); lemma_tsum_nonneg(q0); lemma_tsum_nonneg(work@); lemma_tsum_nonneg(queue@);
    if q0.len() > 0 {
        let e = q0.last();
        lemma_tsum_pop(q0);
        assert(queue@ =~= q0.drop_last());
        assert(wf(*e.0, infos));
        match *e.0 {
            Node::Terminal(_) => { }
            Node::Chance(ch) => {
                let n = outcomes_of(ch).len() as int;
                let pc = rv(e.1); let p1 = rv(e.2[0]); let p2 = rv(e.2[1]);
                assert forall|k: int| 0 <= k < n implies wf(*(#[trigger] work@[w0.len() + k]).0, infos) by {
                    let nd = outcomes_of(ch)[k].1;
                    assert(ch.outcomes@.contains(nd));
                    let j = choose|j: int| 0 <= j < ch.outcomes@.len() && ch.outcomes@[j] == nd;
                    assert(wf(ch.outcomes@[j], infos));
                }
                assert forall|i: int| 0 <= i < work@.len() implies wf(*(#[trigger] work@[i]).0, infos) by {
                    if i < w0.len() { assert(work@[i] == work@.take(w0.len() as int)[i]); } else { assert(work@[i] == work@[w0.len() + (i - w0.len())]); }
                }
                lemma_tsum_ext(w0, work@, n,
                    |k: int| vf(outcomes_of(ch)[k].1, pc * rv(outcomes_of(ch)[k].0), p1, p2),
                    |k: int| csum(ch, pc, p1, p2, k));
            }
            Node::Player(pl) => {
                let n = pl.actions@.len() as int;
                let pc = rv(e.1); let p1 = rv(e.2[0]); let p2 = rv(e.2[1]);
                let st = cur_strat(pl.num, pl.infoset as int);
                let idx = choose|idx: Seq<int>| #[trigger] sel_ok(idx, n) && added_ok(w0, work@, idx, &pl, st, e.1, e.2);
                assert forall|i: int| 0 <= i < work@.len() implies wf(*(#[trigger] work@[i]).0, infos) by {
                    if i < w0.len() { assert(work@[i] == work@.take(w0.len() as int)[i]); } else { assert(work@[i] == work@[w0.len() + (i - w0.len())]); }
                }
                lemma_tsum_sel(w0, work@, idx, n,
                    |k: int| match pl.num {
                        PlayerNum::One => vf(pl.actions@[k], pc, p1 * rv(st[k]), p2),
                        PlayerNum::Two => vf(pl.actions@[k], pc, p1, p2 * rv(st[k])),
                    },
                    |k: int| psum(pl, pc, p1, p2, k));
            }
        }
    } else {
        assert(queue@ == w0 && work@ == q0);
    }
}
}
}


// vacuity canary: must be REJECTED by the verifier (an inconsistent axiom set would accept it)
pub proof fn __canary_must_fail()
    ensures false, // @ob __canary
{
    broadcast use fl; broadcast use ideal; ax_obeys(); ax_rv_lits();
}

} // verus!
fn main() {}
