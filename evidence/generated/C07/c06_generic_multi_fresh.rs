#![feature(sized_hierarchy)]
#![feature(allocator_api)]
#![allow(unused_imports, unused_variables, dead_code, unused_mut, unused_parens, unused_braces, non_snake_case)]
use vstd::prelude::*;
use vstd::std_specs::ops::*;
use vstd::std_specs::cmp::*;
use vstd::float::*;
use vstd::std_specs::iter::IteratorSpec;
verus! {
// ---- prelude fragment: workspace.rs ----
// R5/R6 for the workspace-freshness slices (C06/C07).  The frontier queue, the next-level work list
// and the payoff cache are modelled by their LENGTHS only (ghost-free: real Vec / an opaque map).
// thread_threshold's contract at its call sites: it REQUIRES a fresh workspace (the anchor's
// sentence: the frontier "must describe the current iteration only" -- entries left from an earlier
// pass carry that pass's reach products) and promises nothing about what it leaves behind.
#[verifier::external_body]
pub struct Item { }
#[verifier::external_body]
pub struct PayoffMap { }
pub uninterp spec fn map_len(m: &PayoffMap) -> nat;
impl PayoffMap {
    #[verifier::external_body]
    pub fn with_capacity(n: usize) -> (r: PayoffMap) ensures map_len(&r) == 0 { unimplemented!() }
    // std::collections::HashMap::clear: "Clears the map, removing all key-value pairs"
    #[verifier::external_body]
    pub fn clear(&mut self) ensures map_len(final(self)) == 0 { unimplemented!() }
}
// the real thread_threshold(..., &mut queue, &mut work): see above
#[verifier::external_body]
pub fn __abs_thread_threshold(queue: &mut Vec<Item>, work: &mut Vec<Item>)
    requires old(queue)@.len() == 0, old(work)@.len() == 0,
{ unimplemented!() }
// rayon: `payoffs.par_extend(queue.par_drain(..).map(f))` -- par_drain(..) removes the whole range
// (rayon documentation: "the vector is emptied when the iterator is dropped"), par_extend inserts
// what the tasks produce.  The cache must be empty before (stale payoffs would cut the traversal).
#[verifier::external_body]
pub fn __abs_par_drain_into(payoffs: &mut PayoffMap, queue: &mut Vec<Item>)
    requires map_len(old(payoffs)) == 0,
    ensures final(queue)@.len() == 0,
{ unimplemented!() }

// ghost flag: the cached chance draws of this iteration have been reset (a fresh draw next pass)
pub struct Draws { pub rearmed: Ghost<bool> }
#[verifier::external_body] pub fn __draws_of_this_pass() -> (d: Draws) ensures !d.rearmed@ { unimplemented!() }
#[verifier::external_body] pub fn __abs_rearm_chance_draws(d: &mut Draws) ensures final(d).rearmed@ { unimplemented!() }

#[verifier::external_body] pub struct Tgt { }
impl Tgt { #[verifier::external_body] pub fn get(&self) -> usize { unimplemented!() } }

// ---- extracted from src/solve/vanilla.rs: fn solve_generic_multi ----
pub fn solve_generic_multi__scope_body(iter: u64, target: Tgt)
{
        let mut queue: Vec<Item> = Vec::with_capacity(target.get());
        let mut work: Vec<Item> = Vec::with_capacity(target.get());
        let mut payoffs = PayoffMap::with_capacity(target.get());
        for it in 1..=iter 
invariant
    queue@.len() == 0, // @cand queue_empty_at_head
    work@.len() == 0, // @cand work_empty_at_head
    map_len(&payoffs) == 0, // @cand payoffs_empty_at_head
{
let mut __draws = __draws_of_this_pass();

            // compute threadding threshold
            
            __abs_thread_threshold(&mut queue, &mut work); // @ob C06.V.solve_generic_multi.workspace_fresh
            // send threshold to threads for computation
            
            __abs_par_drain_into(&mut payoffs, &mut queue); // @ob C06.V.solve_generic_multi.workspace_fresh
            // search full from there
            
            // the frontier and cached payoffs only describe this iteration
            work.clear();
            payoffs.clear();
            __abs_rearm_chance_draws(&mut __draws);
            
            
            if __abs_stop() { break; }
        
proof { assert(__draws.rearmed@); } // @ob C10.V.solve_generic_multi.fresh_draw_next_pass
}
    }

#[verifier::external_body] pub fn __abs_stop() -> bool { unimplemented!() }


// vacuity canary: must be REJECTED by the verifier (an inconsistent axiom set would accept it)
pub proof fn __canary_must_fail()
    ensures false, // @ob __canary
{
    
}

} // verus!
fn main() {}
