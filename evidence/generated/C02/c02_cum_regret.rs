#![feature(sized_hierarchy)]
#![feature(allocator_api)]
#![allow(unused_imports, unused_variables, dead_code, unused_mut, unused_parens, unused_braces, non_snake_case)]
use vstd::prelude::*;
use vstd::std_specs::ops::*;
use vstd::std_specs::cmp::*;
use vstd::float::*;
use vstd::std_specs::iter::IteratorSpec;
verus! {
// ---- prelude fragment: floats.rs ----
// Floating point, layer 1 ("uninterpreted" mode of DESIGN.md 3.2): every f64 operator instance the
// language can produce is linked to ONE total, deterministic, otherwise unknown function of the
// operand values.  Nothing about IEEE-754 is assumed here.
pub uninterp spec fn fadd(a: f64, b: f64) -> f64;
pub uninterp spec fn fsub(a: f64, b: f64) -> f64;
pub uninterp spec fn fmul(a: f64, b: f64) -> f64;
pub uninterp spec fn fdiv(a: f64, b: f64) -> f64;
pub uninterp spec fn fneg(a: f64) -> f64;
pub uninterp spec fn fcmp(a: f64, b: f64) -> Option<core::cmp::Ordering>;
pub uninterp spec fn feq(a: f64, b: f64) -> bool;
pub open spec fn flt(a: f64, b: f64) -> bool { fcmp(a, b) == Some(core::cmp::Ordering::Less) }
pub open spec fn fgt(a: f64, b: f64) -> bool { fcmp(a, b) == Some(core::cmp::Ordering::Greater) }
pub open spec fn fle(a: f64, b: f64) -> bool { fcmp(a, b) == Some(core::cmp::Ordering::Less) || fcmp(a, b) == Some(core::cmp::Ordering::Equal) }
pub open spec fn fge(a: f64, b: f64) -> bool { fcmp(a, b) == Some(core::cmp::Ordering::Greater) || fcmp(a, b) == Some(core::cmp::Ordering::Equal) }

pub broadcast axiom fn ax_add_vv_req(a: f64, b: f64) ensures #[trigger] a.add_req(b);
pub broadcast axiom fn ax_add_vv(a: f64, b: f64) ensures #[trigger] a.add_spec(b) == fadd(a, b);
pub broadcast axiom fn ax_add_vr_req(a: f64, b: &f64) ensures #[trigger] a.add_req(b);
pub broadcast axiom fn ax_add_vr(a: f64, b: &f64) ensures #[trigger] a.add_spec(b) == fadd(a, *b);
pub broadcast axiom fn ax_add_rv_req(a: &f64, b: f64) ensures #[trigger] a.add_req(b);
pub broadcast axiom fn ax_add_rv(a: &f64, b: f64) ensures #[trigger] a.add_spec(b) == fadd(*a, b);
pub broadcast axiom fn ax_add_rr_req(a: &f64, b: &f64) ensures #[trigger] a.add_req(b);
pub broadcast axiom fn ax_add_rr(a: &f64, b: &f64) ensures #[trigger] a.add_spec(b) == fadd(*a, *b);
pub broadcast axiom fn ax_sub_vv_req(a: f64, b: f64) ensures #[trigger] a.sub_req(b);
pub broadcast axiom fn ax_sub_vv(a: f64, b: f64) ensures #[trigger] a.sub_spec(b) == fsub(a, b);
pub broadcast axiom fn ax_sub_vr_req(a: f64, b: &f64) ensures #[trigger] a.sub_req(b);
pub broadcast axiom fn ax_sub_vr(a: f64, b: &f64) ensures #[trigger] a.sub_spec(b) == fsub(a, *b);
pub broadcast axiom fn ax_sub_rv_req(a: &f64, b: f64) ensures #[trigger] a.sub_req(b);
pub broadcast axiom fn ax_sub_rv(a: &f64, b: f64) ensures #[trigger] a.sub_spec(b) == fsub(*a, b);
pub broadcast axiom fn ax_sub_rr_req(a: &f64, b: &f64) ensures #[trigger] a.sub_req(b);
pub broadcast axiom fn ax_sub_rr(a: &f64, b: &f64) ensures #[trigger] a.sub_spec(b) == fsub(*a, *b);
pub broadcast axiom fn ax_mul_vv_req(a: f64, b: f64) ensures #[trigger] a.mul_req(b);
pub broadcast axiom fn ax_mul_vv(a: f64, b: f64) ensures #[trigger] a.mul_spec(b) == fmul(a, b);
pub broadcast axiom fn ax_mul_vr_req(a: f64, b: &f64) ensures #[trigger] a.mul_req(b);
pub broadcast axiom fn ax_mul_vr(a: f64, b: &f64) ensures #[trigger] a.mul_spec(b) == fmul(a, *b);
pub broadcast axiom fn ax_mul_rv_req(a: &f64, b: f64) ensures #[trigger] a.mul_req(b);
pub broadcast axiom fn ax_mul_rv(a: &f64, b: f64) ensures #[trigger] a.mul_spec(b) == fmul(*a, b);
pub broadcast axiom fn ax_mul_rr_req(a: &f64, b: &f64) ensures #[trigger] a.mul_req(b);
pub broadcast axiom fn ax_mul_rr(a: &f64, b: &f64) ensures #[trigger] a.mul_spec(b) == fmul(*a, *b);
pub broadcast axiom fn ax_div_vv_req(a: f64, b: f64) ensures #[trigger] a.div_req(b);
pub broadcast axiom fn ax_div_vv(a: f64, b: f64) ensures #[trigger] a.div_spec(b) == fdiv(a, b);
pub broadcast axiom fn ax_div_vr_req(a: f64, b: &f64) ensures #[trigger] a.div_req(b);
pub broadcast axiom fn ax_div_vr(a: f64, b: &f64) ensures #[trigger] a.div_spec(b) == fdiv(a, *b);
pub broadcast axiom fn ax_div_rv_req(a: &f64, b: f64) ensures #[trigger] a.div_req(b);
pub broadcast axiom fn ax_div_rv(a: &f64, b: f64) ensures #[trigger] a.div_spec(b) == fdiv(*a, b);
pub broadcast axiom fn ax_div_rr_req(a: &f64, b: &f64) ensures #[trigger] a.div_req(b);
pub broadcast axiom fn ax_div_rr(a: &f64, b: &f64) ensures #[trigger] a.div_spec(b) == fdiv(*a, *b);
pub broadcast axiom fn ax_cmp_v(a: f64, b: f64) ensures #[trigger] a.partial_cmp_spec(&b) == fcmp(a, b);
pub broadcast axiom fn ax_eq_v(a: f64, b: f64) ensures #[trigger] a.eq_spec(&b) == feq(a, b);
pub broadcast axiom fn ax_cmp_r(a: &f64, b: &f64) ensures #[trigger] a.partial_cmp_spec(&b) == fcmp(*a, *b);
pub broadcast axiom fn ax_eq_r(a: &f64, b: &f64) ensures #[trigger] a.eq_spec(&b) == feq(*a, *b);
// IEEE facts about comparison that do not depend on the operands' values (discharged for ALL pairs of
// f64 by the loop-free Kani harness `ieee_cmp_flip`): a < b  <=>  b > a, equality is symmetric, an
// unordered pair is unordered both ways; == agrees with partial_cmp.
pub axiom fn ax_obeys()
    ensures
        forall|a: f64, b: f64| (#[trigger] fcmp(a, b) == Some(core::cmp::Ordering::Less)) == (fcmp(b, a) == Some(core::cmp::Ordering::Greater)),
        forall|a: f64, b: f64| (#[trigger] fcmp(a, b) == Some(core::cmp::Ordering::Equal)) == (fcmp(b, a) == Some(core::cmp::Ordering::Equal)),
        forall|a: f64, b: f64| (#[trigger] fcmp(a, b) is None) == (fcmp(b, a) is None),
        forall|a: f64, b: f64| #[trigger] feq(a, b) == (fcmp(a, b) == Some(core::cmp::Ordering::Equal)),
        // max / min are commutative as far as comparisons can tell (the two results are identical, or +0 / -0,
        // or both NaN): discharged for ALL triples by the loop-free Kani harness `ieee_max_min_commute`
        forall|a: f64, b: f64, c: f64| #[trigger] fcmp(fmaxf(a, b), c) == fcmp(fmaxf(b, a), c),
        forall|a: f64, b: f64, c: f64| #[trigger] fcmp(c, fmaxf(a, b)) == fcmp(c, fmaxf(b, a)),
        forall|a: f64, b: f64, c: f64| #[trigger] fcmp(fminf(a, b), c) == fcmp(fminf(b, a), c),
        forall|a: f64, b: f64, c: f64| #[trigger] fcmp(c, fminf(a, b)) == fcmp(c, fminf(b, a)),
        <f64 as AddSpec<f64>>::obeys_add_spec(),
        <f64 as AddSpec<&f64>>::obeys_add_spec(),
        <&f64 as AddSpec<f64>>::obeys_add_spec(),
        <&f64 as AddSpec<&f64>>::obeys_add_spec(),
        <f64 as SubSpec<f64>>::obeys_sub_spec(),
        <f64 as SubSpec<&f64>>::obeys_sub_spec(),
        <&f64 as SubSpec<f64>>::obeys_sub_spec(),
        <&f64 as SubSpec<&f64>>::obeys_sub_spec(),
        <f64 as MulSpec<f64>>::obeys_mul_spec(),
        <f64 as MulSpec<&f64>>::obeys_mul_spec(),
        <&f64 as MulSpec<f64>>::obeys_mul_spec(),
        <&f64 as MulSpec<&f64>>::obeys_mul_spec(),
        <f64 as DivSpec<f64>>::obeys_div_spec(),
        <f64 as DivSpec<&f64>>::obeys_div_spec(),
        <&f64 as DivSpec<f64>>::obeys_div_spec(),
        <&f64 as DivSpec<&f64>>::obeys_div_spec(),
        <f64 as PartialOrdSpec<f64>>::obeys_partial_cmp_spec(),
        <f64 as PartialEqSpec<f64>>::obeys_eq_spec(),
        <&f64 as PartialOrdSpec<&f64>>::obeys_partial_cmp_spec(),
        <&f64 as PartialEqSpec<&f64>>::obeys_eq_spec(),
;
pub broadcast group fl {
    ax_add_vv_req, ax_add_vv, ax_add_vr_req, ax_add_vr, ax_add_rv_req, ax_add_rv, ax_add_rr_req, ax_add_rr, ax_sub_vv_req, ax_sub_vv, ax_sub_vr_req, ax_sub_vr, ax_sub_rv_req, ax_sub_rv, ax_sub_rr_req, ax_sub_rr, ax_mul_vv_req, ax_mul_vv, ax_mul_vr_req, ax_mul_vr, ax_mul_rv_req, ax_mul_rv, ax_mul_rr_req, ax_mul_rr, ax_div_vv_req, ax_div_vv, ax_div_vr_req, ax_div_vr, ax_div_rv_req, ax_div_rv, ax_div_rr_req, ax_div_rr, ax_cmp_v, ax_eq_v, ax_cmp_r, ax_eq_r
}

// R8: unary minus (this Verus rejects float negation); the wrapper IS the operator.
// (core implements Neg for f64 and for &f64: the wrapper takes either)
pub trait __NegArg: Sized { spec fn negv(self) -> f64; }
impl __NegArg for f64 { open spec fn negv(self) -> f64 { self } }
impl<'a> __NegArg for &'a f64 { open spec fn negv(self) -> f64 { *self } }
#[verifier::external_body]
pub fn __neg<T: __NegArg>(x: T) -> (r: f64)
    ensures r == fneg(x.negv()),
{ unimplemented!() }


// f64 methods used by the extracted code: linked to uninterpreted functions (their IEEE facts, where
// a proof needs one, are separate axioms discharged by loop-free Kani harnesses).
pub uninterp spec fn fmaxf(a: f64, b: f64) -> f64;
pub uninterp spec fn fminf(a: f64, b: f64) -> f64;
pub uninterp spec fn fabsf(a: f64) -> f64;
pub uninterp spec fn fisnan(a: f64) -> bool;
pub uninterp spec fn fisfinite(a: f64) -> bool;
pub uninterp spec fn fisinfinite(a: f64) -> bool;
// IEEE classification facts (discharged for ALL f64 / all pairs by the loop-free Kani harness
// `ieee_classification`): finite <=> neither NaN nor infinite; NaN and infinite exclude each other;
// a pair is unordered exactly when one side is NaN; 0.0 is finite.
pub axiom fn ax_ieee_class()
    ensures
        forall|a: f64| #[trigger] fisfinite(a) == (!fisnan(a) && !fisinfinite(a)),
        forall|a: f64| #[trigger] fisnan(a) ==> !fisinfinite(a),
        forall|a: f64, b: f64| (#[trigger] fcmp(a, b) is None) == (fisnan(a) || fisnan(b)),
        fisfinite(0.0f64),
        // (core::cmp::Ordering has exactly three variants: the Rust enum, opaque to this Verus)
        forall|a: f64, b: f64| #[trigger] fcmp(a, b) is None || fcmp(a, b) == Some(core::cmp::Ordering::Less)
            || fcmp(a, b) == Some(core::cmp::Ordering::Equal) || fcmp(a, b) == Some(core::cmp::Ordering::Greater);
pub uninterp spec fn fpowf(a: f64, b: f64) -> f64;
pub uninterp spec fn ftotalcmp(a: f64, b: f64) -> core::cmp::Ordering;
pub assume_specification [f64::max] (a: f64, b: f64) -> (r: f64) ensures r == fmaxf(a, b);
pub assume_specification [f64::min] (a: f64, b: f64) -> (r: f64) ensures r == fminf(a, b);
pub assume_specification [f64::abs] (a: f64) -> (r: f64) ensures r == fabsf(a);
pub assume_specification [f64::is_nan] (a: f64) -> (r: bool) ensures r == fisnan(a);
pub assume_specification [f64::is_finite] (a: f64) -> (r: bool) ensures r == fisfinite(a);
pub assume_specification [f64::is_infinite] (a: f64) -> (r: bool) ensures r == fisinfinite(a);
// further classification / sign predicates: deterministic functions about which nothing else is known
// (code that switches to one of them no longer verifies against a contract stated with `>`, `is_finite`, ...)
pub uninterp spec fn fisnormal(a: f64) -> bool;
pub uninterp spec fn fissubnormal(a: f64) -> bool;
pub uninterp spec fn fissignpos(a: f64) -> bool;
pub uninterp spec fn fissignneg(a: f64) -> bool;
pub assume_specification [f64::is_normal] (a: f64) -> (r: bool) ensures r == fisnormal(a);
pub assume_specification [f64::is_subnormal] (a: f64) -> (r: bool) ensures r == fissubnormal(a);
pub assume_specification [f64::is_sign_positive] (a: f64) -> (r: bool) ensures r == fissignpos(a);
pub assume_specification [f64::is_sign_negative] (a: f64) -> (r: bool) ensures r == fissignneg(a);
pub assume_specification [f64::powf] (a: f64, b: f64) -> (r: f64) ensures r == fpowf(a, b);
pub assume_specification [f64::total_cmp] (a: &f64, b: &f64) -> (r: core::cmp::Ordering) ensures r == ftotalcmp(*a, *b);

// R9: associated constants this Verus rejects; the wrappers' bodies ARE the constants.
pub uninterp spec fn finf() -> f64;
pub uninterp spec fn fneginf() -> f64;
#[verifier::external_body]
pub fn __inf() -> (r: f64) ensures r == finf() { f64::INFINITY }
#[verifier::external_body]
pub fn __neg_inf() -> (r: f64) ensures r == fneginf() { f64::NEG_INFINITY }
pub assume_specification [core::cmp::Ordering::is_lt] (o: core::cmp::Ordering) -> (r: bool) ensures r == (o == core::cmp::Ordering::Less);
pub assume_specification [core::cmp::Ordering::is_le] (o: core::cmp::Ordering) -> (r: bool) ensures r == (o != core::cmp::Ordering::Greater);
pub assume_specification [core::cmp::Ordering::is_gt] (o: core::cmp::Ordering) -> (r: bool) ensures r == (o == core::cmp::Ordering::Greater);
pub assume_specification [core::cmp::Ordering::is_ge] (o: core::cmp::Ordering) -> (r: bool) ensures r == (o != core::cmp::Ordering::Less);
pub uninterp spec fn fconst_EPSILON() -> f64;
#[verifier::external_body]
pub fn __f64_EPSILON() -> (r: f64) ensures r == fconst_EPSILON() { f64::EPSILON }
pub uninterp spec fn fconst_MAX() -> f64;
#[verifier::external_body]
pub fn __f64_MAX() -> (r: f64) ensures r == fconst_MAX() { f64::MAX }
pub uninterp spec fn fconst_MIN() -> f64;
#[verifier::external_body]
pub fn __f64_MIN() -> (r: f64) ensures r == fconst_MIN() { f64::MIN }
pub uninterp spec fn fconst_MIN_POSITIVE() -> f64;
#[verifier::external_body]
pub fn __f64_MIN_POSITIVE() -> (r: f64) ensures r == fconst_MIN_POSITIVE() { f64::MIN_POSITIVE }
pub uninterp spec fn fconst_NAN() -> f64;
#[verifier::external_body]
pub fn __f64_NAN() -> (r: f64) ensures r == fconst_NAN() { f64::NAN }

// R12: integer-to-float casts (`X as f64`), which this Verus rejects; the wrapper IS the cast.
pub uninterp spec fn u64_to_f64(n: u64) -> f64;
pub uninterp spec fn usize_to_f64(n: usize) -> f64;
pub trait ToF64: Sized {
    spec fn to_f64_spec(self) -> f64;
    fn __to_f64(self) -> (r: f64) ensures r == self.to_f64_spec();
}
impl ToF64 for u64 {
    open spec fn to_f64_spec(self) -> f64 { u64_to_f64(self) }
    #[verifier::external_body]
    fn __to_f64(self) -> (r: f64) { self as f64 }
}
impl ToF64 for usize {
    open spec fn to_f64_spec(self) -> f64 { usize_to_f64(self) }
    #[verifier::external_body]
    fn __to_f64(self) -> (r: f64) { self as f64 }
}
pub fn __as_f64<T: ToF64>(x: T) -> (r: f64) ensures r == x.to_f64_spec() { x.__to_f64() }

// R13: identity on f64 (see rule R13 of the extractor)
pub fn __idf(x: f64) -> (r: f64) ensures r == x { x }

// ---- prelude fragment: ideal.rs ----
// Floating point, layer 2 ("idealised real" mode of DESIGN.md 3.2): machine arithmetic treated as
// mathematical.  rv maps a float to the real it denotes; rounding, overflow, NaN and signed zero are
// ignored.  Used only where the property is a statement of real arithmetic.
pub uninterp spec fn rv(x: f64) -> real;
pub broadcast axiom fn ax_rv_add(a: f64, b: f64) ensures rv(#[trigger] fadd(a, b)) == rv(a) + rv(b);
pub broadcast axiom fn ax_rv_sub(a: f64, b: f64) ensures rv(#[trigger] fsub(a, b)) == rv(a) - rv(b);
pub broadcast axiom fn ax_rv_mul(a: f64, b: f64) ensures rv(#[trigger] fmul(a, b)) == rv(a) * rv(b);
pub broadcast axiom fn ax_rv_div(a: f64, b: f64) ensures rv(b) != 0real ==> rv(#[trigger] fdiv(a, b)) == rv(a) / rv(b);
pub broadcast axiom fn ax_rv_neg(a: f64) ensures rv(#[trigger] fneg(a)) == 0real - rv(a);
pub broadcast axiom fn ax_rv_cmp(a: f64, b: f64)
    ensures #[trigger] fcmp(a, b) == (if rv(a) < rv(b) { Some(core::cmp::Ordering::Less) }
        else if rv(a) == rv(b) { Some(core::cmp::Ordering::Equal) } else { Some(core::cmp::Ordering::Greater) });
pub broadcast axiom fn ax_rv_eq(a: f64, b: f64) ensures #[trigger] feq(a, b) == (rv(a) == rv(b));
pub broadcast axiom fn ax_rv_max(a: f64, b: f64) ensures rv(#[trigger] fmaxf(a, b)) == (if rv(a) >= rv(b) { rv(a) } else { rv(b) });
pub broadcast axiom fn ax_rv_min(a: f64, b: f64) ensures rv(#[trigger] fminf(a, b)) == (if rv(a) <= rv(b) { rv(a) } else { rv(b) });
// (idealised) powf denotes a function of the real values of its arguments
pub uninterp spec fn rpow(x: real, y: real) -> real;
pub broadcast axiom fn ax_rv_powf(a: f64, b: f64) ensures rv(#[trigger] fpowf(a, b)) == rpow(rv(a), rv(b));
pub axiom fn ax_rv_lits()
    ensures rv(0.0f64) == 0real, rv(1.0f64) == 1real, rv(2.0f64) == 2real, rv(0.5f64) * 2real == 1real;
pub broadcast group ideal {
    ax_rv_add, ax_rv_sub, ax_rv_mul, ax_rv_div, ax_rv_neg, ax_rv_cmp, ax_rv_eq, ax_rv_max, ax_rv_min, ax_rv_powf
}
// (idealised) integer-to-float casts are exact
pub broadcast axiom fn ax_rv_u64(n: u64) ensures rv(#[trigger] u64_to_f64(n)) == n as real;
pub broadcast axiom fn ax_rv_usize(n: usize) ensures rv(#[trigger] usize_to_f64(n)) == n as real;
pub broadcast group ideal_casts { ax_rv_u64, ax_rv_usize }

pub open spec fn is_max_of(s: Seq<f64>, m: f64) -> bool {
    (exists|i: int| 0 <= i < s.len() && #[trigger] s[i] == m) && forall|j: int| 0 <= j < s.len() ==> rv(#[trigger] s[j]) <= rv(m)
}
#[verifier::external_body]
pub fn __abs_reduce_max(cum_reg: &mut [f64]) -> (r: Option<f64>)
    ensures final(cum_reg)@ == old(cum_reg)@,
        old(cum_reg)@.len() == 0 ==> r is None,
        old(cum_reg)@.len() > 0 ==> r is Some && is_max_of(old(cum_reg)@, r->0),
{ unimplemented!() }
pub open spec fn rmax(a: real, b: real) -> real { if a >= b { a } else { b } }
pub open spec fn rdiv(x: real, d: real) -> real { x / d }
pub broadcast proof fn lemma_rdiv_nonneg(x: real, d: real)
    requires x >= 0real, d > 0real,
    ensures #[trigger] rdiv(x, d) >= 0real, x == 0real ==> rdiv(x, d) == 0real,
{
    assert(x / d >= 0real) by(nonlinear_arith) requires x >= 0real, d > 0real;
    if x == 0real { assert(0real / d == 0real) by(nonlinear_arith) requires d > 0real; }
}

// ---- extracted from src/solve/data.rs: struct RegretParams ----
#[derive(Clone, Copy)]
pub struct RegretParams {
    /// The discount factor for positive cumulative regret or `α`.
    ///
    /// Positive cumulative regrets are discounted by `tᵅ/(tᵅ + 1)` every iteration `t`. Setting
    /// alpha closer to infinity implies no discounting, while setting it at negative infinity
    /// means imediate forgetting. Note that any non-positive value is probably not desired.
    pub pos_regret: f64,
    /// The discount factor for negative cumulative regret or `β`
    ///
    /// Negative cumulative regrets are discounted by `tᵝ/(tᵝ + 1)` every iteration `t`. The
    /// values are the same as for positive regrets. Setting this to a non-positive value will
    /// prevent the cumulative regret of negative regret actions from approaching negative
    /// infinity, which can make pruning negative regret actions impossible.
    pub neg_regret: f64,
    /// The average strategy discount factor `γ`
    ///
    /// The average strategy is discounted by `(ᵗ⁄ₜ₊₁)ᵞ` every iteration t, which is equivalent to
    /// weighting each strategy update by `tᵞ`.
    pub strat: f64,
    /// The scale for picking a strategy when all regrets are negative
    ///
    /// If all actions have negative regret, the chosen strategy can be anything. We use the
    /// softmax of the regrets times this weight. Setting it to infinity is the same as always
    /// playing the strategy with the highest regret. Zero is equivalent to playing each action
    /// uniformly. No other values are recommend, but interpolate between those extremes.
    pub no_positive: f64,
}

// ---- extracted from src/solve/data.rs: impl RegretParams ----
impl RegretParams {
pub fn cum_regret(&self, it: u64, cum_reg: &mut [f64]) -> (r: f64)
    
    requires
        it >= 1,
    ensures
        final(cum_reg)@ == old(cum_reg)@,
        // the per-infoset bound of the CFR theorem: 2 max(max_a R_a, 0) / T -- never negative, and 0 for an
        // infoset without regrets
        old(cum_reg)@.len() == 0 ==> rv(r) == 0real, // @ob C02.V.cum_regret.formula
        forall|m: f64| is_max_of(old(cum_reg)@, m) ==> rv(r) == rdiv(2real * rmax(rv(m), 0real), it as real), // @ob C02.V.cum_regret.formula
        rv(r) >= 0real, // @ob C02.V.cum_regret.nonneg
{
broadcast use fl; broadcast use ideal; broadcast use ideal_casts; broadcast use lemma_rdiv_nonneg;
proof {
    ax_obeys(); ax_rv_lits();
    assert(rdiv(0real, it as real) == 0real);
    assert(forall|m: f64| rdiv(2real * rmax(rv(m), 0real), it as real) >= 0real) by {
        assert forall|m: f64| #[trigger] rdiv(2real * rmax(rv(m), 0real), it as real) >= 0real by { }
    }
}

        2.0 * f64::max(
            __abs_reduce_max(cum_reg)
                .unwrap_or(0.0),
            0.0,
        ) / __as_f64(it)
    }
}


// vacuity canary: must be REJECTED by the verifier (an inconsistent axiom set would accept it)
pub proof fn __canary_must_fail()
    ensures false, // @ob __canary
{
    broadcast use fl; broadcast use ideal; broadcast use ideal_casts; ax_obeys(); ax_rv_lits();
}

} // verus!
fn main() {}
