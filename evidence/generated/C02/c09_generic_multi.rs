#![feature(sized_hierarchy)]
#![feature(allocator_api)]
#![allow(unused_imports, unused_variables, dead_code, unused_mut, unused_parens, unused_braces, non_snake_case)]
use vstd::prelude::*;
use vstd::std_specs::ops::*;
use vstd::std_specs::cmp::*;
use vstd::float::*;
use vstd::std_specs::iter::IteratorSpec;
verus! {
// ---- prelude fragment: floats.rs ----
// Floating point, layer 1 ("uninterpreted" mode of DESIGN.md 3.2): every f64 operator instance the
// language can produce is linked to ONE total, deterministic, otherwise unknown function of the
// operand values.  Nothing about IEEE-754 is assumed here.
pub uninterp spec fn fadd(a: f64, b: f64) -> f64;
pub uninterp spec fn fsub(a: f64, b: f64) -> f64;
pub uninterp spec fn fmul(a: f64, b: f64) -> f64;
pub uninterp spec fn fdiv(a: f64, b: f64) -> f64;
pub uninterp spec fn fneg(a: f64) -> f64;
pub uninterp spec fn fcmp(a: f64, b: f64) -> Option<core::cmp::Ordering>;
pub uninterp spec fn feq(a: f64, b: f64) -> bool;
pub open spec fn flt(a: f64, b: f64) -> bool { fcmp(a, b) == Some(core::cmp::Ordering::Less) }
pub open spec fn fgt(a: f64, b: f64) -> bool { fcmp(a, b) == Some(core::cmp::Ordering::Greater) }
pub open spec fn fle(a: f64, b: f64) -> bool { fcmp(a, b) == Some(core::cmp::Ordering::Less) || fcmp(a, b) == Some(core::cmp::Ordering::Equal) }
pub open spec fn fge(a: f64, b: f64) -> bool { fcmp(a, b) == Some(core::cmp::Ordering::Greater) || fcmp(a, b) == Some(core::cmp::Ordering::Equal) }

pub broadcast axiom fn ax_add_vv_req(a: f64, b: f64) ensures #[trigger] a.add_req(b);
pub broadcast axiom fn ax_add_vv(a: f64, b: f64) ensures #[trigger] a.add_spec(b) == fadd(a, b);
pub broadcast axiom fn ax_add_vr_req(a: f64, b: &f64) ensures #[trigger] a.add_req(b);
pub broadcast axiom fn ax_add_vr(a: f64, b: &f64) ensures #[trigger] a.add_spec(b) == fadd(a, *b);
pub broadcast axiom fn ax_add_rv_req(a: &f64, b: f64) ensures #[trigger] a.add_req(b);
pub broadcast axiom fn ax_add_rv(a: &f64, b: f64) ensures #[trigger] a.add_spec(b) == fadd(*a, b);
pub broadcast axiom fn ax_add_rr_req(a: &f64, b: &f64) ensures #[trigger] a.add_req(b);
pub broadcast axiom fn ax_add_rr(a: &f64, b: &f64) ensures #[trigger] a.add_spec(b) == fadd(*a, *b);
pub broadcast axiom fn ax_sub_vv_req(a: f64, b: f64) ensures #[trigger] a.sub_req(b);
pub broadcast axiom fn ax_sub_vv(a: f64, b: f64) ensures #[trigger] a.sub_spec(b) == fsub(a, b);
pub broadcast axiom fn ax_sub_vr_req(a: f64, b: &f64) ensures #[trigger] a.sub_req(b);
pub broadcast axiom fn ax_sub_vr(a: f64, b: &f64) ensures #[trigger] a.sub_spec(b) == fsub(a, *b);
pub broadcast axiom fn ax_sub_rv_req(a: &f64, b: f64) ensures #[trigger] a.sub_req(b);
pub broadcast axiom fn ax_sub_rv(a: &f64, b: f64) ensures #[trigger] a.sub_spec(b) == fsub(*a, b);
pub broadcast axiom fn ax_sub_rr_req(a: &f64, b: &f64) ensures #[trigger] a.sub_req(b);
pub broadcast axiom fn ax_sub_rr(a: &f64, b: &f64) ensures #[trigger] a.sub_spec(b) == fsub(*a, *b);
pub broadcast axiom fn ax_mul_vv_req(a: f64, b: f64) ensures #[trigger] a.mul_req(b);
pub broadcast axiom fn ax_mul_vv(a: f64, b: f64) ensures #[trigger] a.mul_spec(b) == fmul(a, b);
pub broadcast axiom fn ax_mul_vr_req(a: f64, b: &f64) ensures #[trigger] a.mul_req(b);
pub broadcast axiom fn ax_mul_vr(a: f64, b: &f64) ensures #[trigger] a.mul_spec(b) == fmul(a, *b);
pub broadcast axiom fn ax_mul_rv_req(a: &f64, b: f64) ensures #[trigger] a.mul_req(b);
pub broadcast axiom fn ax_mul_rv(a: &f64, b: f64) ensures #[trigger] a.mul_spec(b) == fmul(*a, b);
pub broadcast axiom fn ax_mul_rr_req(a: &f64, b: &f64) ensures #[trigger] a.mul_req(b);
pub broadcast axiom fn ax_mul_rr(a: &f64, b: &f64) ensures #[trigger] a.mul_spec(b) == fmul(*a, *b);
pub broadcast axiom fn ax_div_vv_req(a: f64, b: f64) ensures #[trigger] a.div_req(b);
pub broadcast axiom fn ax_div_vv(a: f64, b: f64) ensures #[trigger] a.div_spec(b) == fdiv(a, b);
pub broadcast axiom fn ax_div_vr_req(a: f64, b: &f64) ensures #[trigger] a.div_req(b);
pub broadcast axiom fn ax_div_vr(a: f64, b: &f64) ensures #[trigger] a.div_spec(b) == fdiv(a, *b);
pub broadcast axiom fn ax_div_rv_req(a: &f64, b: f64) ensures #[trigger] a.div_req(b);
pub broadcast axiom fn ax_div_rv(a: &f64, b: f64) ensures #[trigger] a.div_spec(b) == fdiv(*a, b);
pub broadcast axiom fn ax_div_rr_req(a: &f64, b: &f64) ensures #[trigger] a.div_req(b);
pub broadcast axiom fn ax_div_rr(a: &f64, b: &f64) ensures #[trigger] a.div_spec(b) == fdiv(*a, *b);
pub broadcast axiom fn ax_cmp_v(a: f64, b: f64) ensures #[trigger] a.partial_cmp_spec(&b) == fcmp(a, b);
pub broadcast axiom fn ax_eq_v(a: f64, b: f64) ensures #[trigger] a.eq_spec(&b) == feq(a, b);
pub broadcast axiom fn ax_cmp_r(a: &f64, b: &f64) ensures #[trigger] a.partial_cmp_spec(&b) == fcmp(*a, *b);
pub broadcast axiom fn ax_eq_r(a: &f64, b: &f64) ensures #[trigger] a.eq_spec(&b) == feq(*a, *b);
// IEEE facts about comparison that do not depend on the operands' values (discharged for ALL pairs of
// f64 by the loop-free Kani harness `ieee_cmp_flip`): a < b  <=>  b > a, equality is symmetric, an
// unordered pair is unordered both ways; == agrees with partial_cmp.
pub axiom fn ax_obeys()
    ensures
        forall|a: f64, b: f64| (#[trigger] fcmp(a, b) == Some(core::cmp::Ordering::Less)) == (fcmp(b, a) == Some(core::cmp::Ordering::Greater)),
        forall|a: f64, b: f64| (#[trigger] fcmp(a, b) == Some(core::cmp::Ordering::Equal)) == (fcmp(b, a) == Some(core::cmp::Ordering::Equal)),
        forall|a: f64, b: f64| (#[trigger] fcmp(a, b) is None) == (fcmp(b, a) is None),
        forall|a: f64, b: f64| #[trigger] feq(a, b) == (fcmp(a, b) == Some(core::cmp::Ordering::Equal)),
        // max / min are commutative as far as comparisons can tell (the two results are identical, or +0 / -0,
        // or both NaN): discharged for ALL triples by the loop-free Kani harness `ieee_max_min_commute`
        forall|a: f64, b: f64, c: f64| #[trigger] fcmp(fmaxf(a, b), c) == fcmp(fmaxf(b, a), c),
        forall|a: f64, b: f64, c: f64| #[trigger] fcmp(c, fmaxf(a, b)) == fcmp(c, fmaxf(b, a)),
        forall|a: f64, b: f64, c: f64| #[trigger] fcmp(fminf(a, b), c) == fcmp(fminf(b, a), c),
        forall|a: f64, b: f64, c: f64| #[trigger] fcmp(c, fminf(a, b)) == fcmp(c, fminf(b, a)),
        <f64 as AddSpec<f64>>::obeys_add_spec(),
        <f64 as AddSpec<&f64>>::obeys_add_spec(),
        <&f64 as AddSpec<f64>>::obeys_add_spec(),
        <&f64 as AddSpec<&f64>>::obeys_add_spec(),
        <f64 as SubSpec<f64>>::obeys_sub_spec(),
        <f64 as SubSpec<&f64>>::obeys_sub_spec(),
        <&f64 as SubSpec<f64>>::obeys_sub_spec(),
        <&f64 as SubSpec<&f64>>::obeys_sub_spec(),
        <f64 as MulSpec<f64>>::obeys_mul_spec(),
        <f64 as MulSpec<&f64>>::obeys_mul_spec(),
        <&f64 as MulSpec<f64>>::obeys_mul_spec(),
        <&f64 as MulSpec<&f64>>::obeys_mul_spec(),
        <f64 as DivSpec<f64>>::obeys_div_spec(),
        <f64 as DivSpec<&f64>>::obeys_div_spec(),
        <&f64 as DivSpec<f64>>::obeys_div_spec(),
        <&f64 as DivSpec<&f64>>::obeys_div_spec(),
        <f64 as PartialOrdSpec<f64>>::obeys_partial_cmp_spec(),
        <f64 as PartialEqSpec<f64>>::obeys_eq_spec(),
        <&f64 as PartialOrdSpec<&f64>>::obeys_partial_cmp_spec(),
        <&f64 as PartialEqSpec<&f64>>::obeys_eq_spec(),
;
pub broadcast group fl {
    ax_add_vv_req, ax_add_vv, ax_add_vr_req, ax_add_vr, ax_add_rv_req, ax_add_rv, ax_add_rr_req, ax_add_rr, ax_sub_vv_req, ax_sub_vv, ax_sub_vr_req, ax_sub_vr, ax_sub_rv_req, ax_sub_rv, ax_sub_rr_req, ax_sub_rr, ax_mul_vv_req, ax_mul_vv, ax_mul_vr_req, ax_mul_vr, ax_mul_rv_req, ax_mul_rv, ax_mul_rr_req, ax_mul_rr, ax_div_vv_req, ax_div_vv, ax_div_vr_req, ax_div_vr, ax_div_rv_req, ax_div_rv, ax_div_rr_req, ax_div_rr, ax_cmp_v, ax_eq_v, ax_cmp_r, ax_eq_r
}

// R8: unary minus (this Verus rejects float negation); the wrapper IS the operator.
// (core implements Neg for f64 and for &f64: the wrapper takes either)
pub trait __NegArg: Sized { spec fn negv(self) -> f64; }
impl __NegArg for f64 { open spec fn negv(self) -> f64 { self } }
impl<'a> __NegArg for &'a f64 { open spec fn negv(self) -> f64 { *self } }
#[verifier::external_body]
pub fn __neg<T: __NegArg>(x: T) -> (r: f64)
    ensures r == fneg(x.negv()),
{ unimplemented!() }


// f64 methods used by the extracted code: linked to uninterpreted functions (their IEEE facts, where
// a proof needs one, are separate axioms discharged by loop-free Kani harnesses).
pub uninterp spec fn fmaxf(a: f64, b: f64) -> f64;
pub uninterp spec fn fminf(a: f64, b: f64) -> f64;
pub uninterp spec fn fabsf(a: f64) -> f64;
pub uninterp spec fn fisnan(a: f64) -> bool;
pub uninterp spec fn fisfinite(a: f64) -> bool;
pub uninterp spec fn fisinfinite(a: f64) -> bool;
// IEEE classification facts (discharged for ALL f64 / all pairs by the loop-free Kani harness
// `ieee_classification`): finite <=> neither NaN nor infinite; NaN and infinite exclude each other;
// a pair is unordered exactly when one side is NaN; 0.0 is finite.
pub axiom fn ax_ieee_class()
    ensures
        forall|a: f64| #[trigger] fisfinite(a) == (!fisnan(a) && !fisinfinite(a)),
        forall|a: f64| #[trigger] fisnan(a) ==> !fisinfinite(a),
        forall|a: f64, b: f64| (#[trigger] fcmp(a, b) is None) == (fisnan(a) || fisnan(b)),
        fisfinite(0.0f64),
        // (core::cmp::Ordering has exactly three variants: the Rust enum, opaque to this Verus)
        forall|a: f64, b: f64| #[trigger] fcmp(a, b) is None || fcmp(a, b) == Some(core::cmp::Ordering::Less)
            || fcmp(a, b) == Some(core::cmp::Ordering::Equal) || fcmp(a, b) == Some(core::cmp::Ordering::Greater);
pub uninterp spec fn fpowf(a: f64, b: f64) -> f64;
pub uninterp spec fn ftotalcmp(a: f64, b: f64) -> core::cmp::Ordering;
pub assume_specification [f64::max] (a: f64, b: f64) -> (r: f64) ensures r == fmaxf(a, b);
pub assume_specification [f64::min] (a: f64, b: f64) -> (r: f64) ensures r == fminf(a, b);
pub assume_specification [f64::abs] (a: f64) -> (r: f64) ensures r == fabsf(a);
pub assume_specification [f64::is_nan] (a: f64) -> (r: bool) ensures r == fisnan(a);
pub assume_specification [f64::is_finite] (a: f64) -> (r: bool) ensures r == fisfinite(a);
pub assume_specification [f64::is_infinite] (a: f64) -> (r: bool) ensures r == fisinfinite(a);
// further classification / sign predicates: deterministic functions about which nothing else is known
// (code that switches to one of them no longer verifies against a contract stated with `>`, `is_finite`, ...)
pub uninterp spec fn fisnormal(a: f64) -> bool;
pub uninterp spec fn fissubnormal(a: f64) -> bool;
pub uninterp spec fn fissignpos(a: f64) -> bool;
pub uninterp spec fn fissignneg(a: f64) -> bool;
pub assume_specification [f64::is_normal] (a: f64) -> (r: bool) ensures r == fisnormal(a);
pub assume_specification [f64::is_subnormal] (a: f64) -> (r: bool) ensures r == fissubnormal(a);
pub assume_specification [f64::is_sign_positive] (a: f64) -> (r: bool) ensures r == fissignpos(a);
pub assume_specification [f64::is_sign_negative] (a: f64) -> (r: bool) ensures r == fissignneg(a);
pub assume_specification [f64::powf] (a: f64, b: f64) -> (r: f64) ensures r == fpowf(a, b);
pub assume_specification [f64::total_cmp] (a: &f64, b: &f64) -> (r: core::cmp::Ordering) ensures r == ftotalcmp(*a, *b);

// R9: associated constants this Verus rejects; the wrappers' bodies ARE the constants.
pub uninterp spec fn finf() -> f64;
pub uninterp spec fn fneginf() -> f64;
#[verifier::external_body]
pub fn __inf() -> (r: f64) ensures r == finf() { f64::INFINITY }
#[verifier::external_body]
pub fn __neg_inf() -> (r: f64) ensures r == fneginf() { f64::NEG_INFINITY }
pub assume_specification [core::cmp::Ordering::is_lt] (o: core::cmp::Ordering) -> (r: bool) ensures r == (o == core::cmp::Ordering::Less);
pub assume_specification [core::cmp::Ordering::is_le] (o: core::cmp::Ordering) -> (r: bool) ensures r == (o != core::cmp::Ordering::Greater);
pub assume_specification [core::cmp::Ordering::is_gt] (o: core::cmp::Ordering) -> (r: bool) ensures r == (o == core::cmp::Ordering::Greater);
pub assume_specification [core::cmp::Ordering::is_ge] (o: core::cmp::Ordering) -> (r: bool) ensures r == (o != core::cmp::Ordering::Less);
pub uninterp spec fn fconst_EPSILON() -> f64;
#[verifier::external_body]
pub fn __f64_EPSILON() -> (r: f64) ensures r == fconst_EPSILON() { f64::EPSILON }
pub uninterp spec fn fconst_MAX() -> f64;
#[verifier::external_body]
pub fn __f64_MAX() -> (r: f64) ensures r == fconst_MAX() { f64::MAX }
pub uninterp spec fn fconst_MIN() -> f64;
#[verifier::external_body]
pub fn __f64_MIN() -> (r: f64) ensures r == fconst_MIN() { f64::MIN }
pub uninterp spec fn fconst_MIN_POSITIVE() -> f64;
#[verifier::external_body]
pub fn __f64_MIN_POSITIVE() -> (r: f64) ensures r == fconst_MIN_POSITIVE() { f64::MIN_POSITIVE }
pub uninterp spec fn fconst_NAN() -> f64;
#[verifier::external_body]
pub fn __f64_NAN() -> (r: f64) ensures r == fconst_NAN() { f64::NAN }

// R12: integer-to-float casts (`X as f64`), which this Verus rejects; the wrapper IS the cast.
pub uninterp spec fn u64_to_f64(n: u64) -> f64;
pub uninterp spec fn usize_to_f64(n: usize) -> f64;
pub trait ToF64: Sized {
    spec fn to_f64_spec(self) -> f64;
    fn __to_f64(self) -> (r: f64) ensures r == self.to_f64_spec();
}
impl ToF64 for u64 {
    open spec fn to_f64_spec(self) -> f64 { u64_to_f64(self) }
    #[verifier::external_body]
    fn __to_f64(self) -> (r: f64) { self as f64 }
}
impl ToF64 for usize {
    open spec fn to_f64_spec(self) -> f64 { usize_to_f64(self) }
    #[verifier::external_body]
    fn __to_f64(self) -> (r: f64) { self as f64 }
}
pub fn __as_f64<T: ToF64>(x: T) -> (r: f64) ensures r == x.to_f64_spec() { x.__to_f64() }

// R13: identity on f64 (see rule R13 of the extractor)
pub fn __idf(x: f64) -> (r: f64) ensures r == x { x }

// ---- prelude fragment: slice_state.rs ----
// R6: abstraction of the sliced-away iteration body.  The solver state (cumulative regrets,
// cumulative strategies, cached draws) is an opaque ghost value; one execution of the abstracted
// statements of iteration `it` maps state s to step_state(s, it) -- an uninterpreted function, so
// what is proved holds for EVERY deterministic body (for the sampled methods: under fixed draws,
// which is the premise of the property).  regs_of(s) are the two per-player bounds the body reports.
pub struct St { pub g: Ghost<int> }
pub uninterp spec fn step_state(s: int, it: u64) -> int;
pub uninterp spec fn regs_of(s: int) -> (f64, f64);
pub open spec fn state_after(s0: int, k: nat) -> int decreases k {
    if k == 0 { s0 } else { step_state(state_after(s0, (k - 1) as nat), k as u64) }
}
// "the total regret bound after this iteration is strictly below r"
pub open spec fn below(s: int, r: f64) -> bool { flt(fmaxf(regs_of(s).0, regs_of(s).1), r) }
#[verifier::external_body]
pub fn __init_state() -> (st: St) { unimplemented!() }
// one execution of the abstracted statements; writes the bounds into `regs`
#[verifier::external_body]
pub fn __abs_iteration(st: &mut St, it: u64, regs: &mut [f64; 2])
    ensures final(st).g@ == step_state(old(st).g@, it),
            (final(regs)[0], final(regs)[1]) == regs_of(final(st).g@),
{ unimplemented!() }
pub uninterp spec fn strats_of(s: int) -> [Box<[f64]>; 2];
#[verifier::external_body]
pub fn __abs_final_strats(st: &St) -> (r: [Box<[f64]>; 2])
    ensures r == strats_of(st.g@),
{ unimplemented!() }
// the (arbitrary) initial solver state
pub uninterp spec fn __s0() -> int;

#[verifier::external_body] pub struct RegretParams { }

// ---- extracted from src/solve/vanilla.rs: fn solve_generic_multi ----
pub fn solve_generic_multi__scope_body(iter: u64, max_reg: f64, regs: &mut [f64; 2], params: &RegretParams)
    requires
        old(regs)[0] == finf() && old(regs)[1] == finf(),
    ensures
        exists|k: nat| k <= iter
            && (forall|j: nat| 1 <= j < k ==> !below(state_after(__s0(), j), max_reg))
            && (k < iter ==> k >= 1 && below(state_after(__s0(), k), max_reg))
            && (k == 0 ==> final(regs)[0] == finf() && final(regs)[1] == finf())
            && (k > 0 ==> (final(regs)[0], final(regs)[1]) == regs_of(state_after(__s0(), k))), // @ob C09.V.first_below.returns_state_k
{
broadcast use fl;
proof { ax_obeys(); }
let mut __st = __init_state();
proof { assume(__st.g@ == __s0()); }
let ghost s0 = __st.g@;
let ghost mut k: nat = 0;

        
        
        
        for it in r: 1..=iter 
invariant_except_break
    k == r.index@,
    forall|j: nat| 1 <= j <= k ==> !below(state_after(s0, j), max_reg),
invariant
    __st.g@ == state_after(s0, k),
    k <= iter,
    k == 0 ==> regs[0] == finf() && regs[1] == finf(),
    k > 0 ==> (regs[0], regs[1]) == regs_of(__st.g@),
ensures
    forall|j: nat| 1 <= j < k ==> !below(state_after(s0, j), max_reg), // @ob C09.V.first_below.no_earlier_stop
    k < iter ==> k >= 1 && below(state_after(s0, k), max_reg), // @ob C09.V.first_below.stops_only_below
{
broadcast use fl;
proof { ax_obeys(); k = k + 1; }

            // compute threadding threshold
            
            
            // send threshold to threads for computation
            
            
            // search full from there
            
            // the frontier and cached payoffs only describe this iteration
            
            
            
            __abs_iteration(&mut __st, it, regs);
            let reg_one = regs[0]; let reg_two = regs[1];
            if f64::max(reg_one, reg_two) < max_reg {
                break;
            }
        }
    }


// vacuity canary: must be REJECTED by the verifier (an inconsistent axiom set would accept it)
pub proof fn __canary_must_fail()
    ensures false, // @ob __canary
{
    broadcast use fl; ax_obeys();
}

} // verus!
fn main() {}
