#![feature(sized_hierarchy)]
#![feature(allocator_api)]
#![allow(unused_imports, unused_variables, dead_code, unused_mut, unused_parens, unused_braces, non_snake_case)]
use vstd::prelude::*;
use vstd::std_specs::ops::*;
use vstd::std_specs::cmp::*;
use vstd::float::*;
use vstd::std_specs::iter::IteratorSpec;
verus! {
// ---- prelude fragment: floats.rs ----
// Floating point, layer 1 ("uninterpreted" mode of DESIGN.md 3.2): every f64 operator instance the
// language can produce is linked to ONE total, deterministic, otherwise unknown function of the
// operand values.  Nothing about IEEE-754 is assumed here.
pub uninterp spec fn fadd(a: f64, b: f64) -> f64;
pub uninterp spec fn fsub(a: f64, b: f64) -> f64;
pub uninterp spec fn fmul(a: f64, b: f64) -> f64;
pub uninterp spec fn fdiv(a: f64, b: f64) -> f64;
pub uninterp spec fn fneg(a: f64) -> f64;
pub uninterp spec fn fcmp(a: f64, b: f64) -> Option<core::cmp::Ordering>;
pub uninterp spec fn feq(a: f64, b: f64) -> bool;
pub open spec fn flt(a: f64, b: f64) -> bool { fcmp(a, b) == Some(core::cmp::Ordering::Less) }
pub open spec fn fgt(a: f64, b: f64) -> bool { fcmp(a, b) == Some(core::cmp::Ordering::Greater) }
pub open spec fn fle(a: f64, b: f64) -> bool { fcmp(a, b) == Some(core::cmp::Ordering::Less) || fcmp(a, b) == Some(core::cmp::Ordering::Equal) }
pub open spec fn fge(a: f64, b: f64) -> bool { fcmp(a, b) == Some(core::cmp::Ordering::Greater) || fcmp(a, b) == Some(core::cmp::Ordering::Equal) }

pub broadcast axiom fn ax_add_vv_req(a: f64, b: f64) ensures #[trigger] a.add_req(b);
pub broadcast axiom fn ax_add_vv(a: f64, b: f64) ensures #[trigger] a.add_spec(b) == fadd(a, b);
pub broadcast axiom fn ax_add_vr_req(a: f64, b: &f64) ensures #[trigger] a.add_req(b);
pub broadcast axiom fn ax_add_vr(a: f64, b: &f64) ensures #[trigger] a.add_spec(b) == fadd(a, *b);
pub broadcast axiom fn ax_add_rv_req(a: &f64, b: f64) ensures #[trigger] a.add_req(b);
pub broadcast axiom fn ax_add_rv(a: &f64, b: f64) ensures #[trigger] a.add_spec(b) == fadd(*a, b);
pub broadcast axiom fn ax_add_rr_req(a: &f64, b: &f64) ensures #[trigger] a.add_req(b);
pub broadcast axiom fn ax_add_rr(a: &f64, b: &f64) ensures #[trigger] a.add_spec(b) == fadd(*a, *b);
pub broadcast axiom fn ax_sub_vv_req(a: f64, b: f64) ensures #[trigger] a.sub_req(b);
pub broadcast axiom fn ax_sub_vv(a: f64, b: f64) ensures #[trigger] a.sub_spec(b) == fsub(a, b);
pub broadcast axiom fn ax_sub_vr_req(a: f64, b: &f64) ensures #[trigger] a.sub_req(b);
pub broadcast axiom fn ax_sub_vr(a: f64, b: &f64) ensures #[trigger] a.sub_spec(b) == fsub(a, *b);
pub broadcast axiom fn ax_sub_rv_req(a: &f64, b: f64) ensures #[trigger] a.sub_req(b);
pub broadcast axiom fn ax_sub_rv(a: &f64, b: f64) ensures #[trigger] a.sub_spec(b) == fsub(*a, b);
pub broadcast axiom fn ax_sub_rr_req(a: &f64, b: &f64) ensures #[trigger] a.sub_req(b);
pub broadcast axiom fn ax_sub_rr(a: &f64, b: &f64) ensures #[trigger] a.sub_spec(b) == fsub(*a, *b);
pub broadcast axiom fn ax_mul_vv_req(a: f64, b: f64) ensures #[trigger] a.mul_req(b);
pub broadcast axiom fn ax_mul_vv(a: f64, b: f64) ensures #[trigger] a.mul_spec(b) == fmul(a, b);
pub broadcast axiom fn ax_mul_vr_req(a: f64, b: &f64) ensures #[trigger] a.mul_req(b);
pub broadcast axiom fn ax_mul_vr(a: f64, b: &f64) ensures #[trigger] a.mul_spec(b) == fmul(a, *b);
pub broadcast axiom fn ax_mul_rv_req(a: &f64, b: f64) ensures #[trigger] a.mul_req(b);
pub broadcast axiom fn ax_mul_rv(a: &f64, b: f64) ensures #[trigger] a.mul_spec(b) == fmul(*a, b);
pub broadcast axiom fn ax_mul_rr_req(a: &f64, b: &f64) ensures #[trigger] a.mul_req(b);
pub broadcast axiom fn ax_mul_rr(a: &f64, b: &f64) ensures #[trigger] a.mul_spec(b) == fmul(*a, *b);
pub broadcast axiom fn ax_div_vv_req(a: f64, b: f64) ensures #[trigger] a.div_req(b);
pub broadcast axiom fn ax_div_vv(a: f64, b: f64) ensures #[trigger] a.div_spec(b) == fdiv(a, b);
pub broadcast axiom fn ax_div_vr_req(a: f64, b: &f64) ensures #[trigger] a.div_req(b);
pub broadcast axiom fn ax_div_vr(a: f64, b: &f64) ensures #[trigger] a.div_spec(b) == fdiv(a, *b);
pub broadcast axiom fn ax_div_rv_req(a: &f64, b: f64) ensures #[trigger] a.div_req(b);
pub broadcast axiom fn ax_div_rv(a: &f64, b: f64) ensures #[trigger] a.div_spec(b) == fdiv(*a, b);
pub broadcast axiom fn ax_div_rr_req(a: &f64, b: &f64) ensures #[trigger] a.div_req(b);
pub broadcast axiom fn ax_div_rr(a: &f64, b: &f64) ensures #[trigger] a.div_spec(b) == fdiv(*a, *b);
pub broadcast axiom fn ax_cmp_v(a: f64, b: f64) ensures #[trigger] a.partial_cmp_spec(&b) == fcmp(a, b);
pub broadcast axiom fn ax_eq_v(a: f64, b: f64) ensures #[trigger] a.eq_spec(&b) == feq(a, b);
pub broadcast axiom fn ax_cmp_r(a: &f64, b: &f64) ensures #[trigger] a.partial_cmp_spec(&b) == fcmp(*a, *b);
pub broadcast axiom fn ax_eq_r(a: &f64, b: &f64) ensures #[trigger] a.eq_spec(&b) == feq(*a, *b);
// IEEE facts about comparison that do not depend on the operands' values (discharged for ALL pairs of
// f64 by the loop-free Kani harness `ieee_cmp_flip`): a < b  <=>  b > a, equality is symmetric, an
// unordered pair is unordered both ways; == agrees with partial_cmp.
pub axiom fn ax_obeys()
    ensures
        forall|a: f64, b: f64| (#[trigger] fcmp(a, b) == Some(core::cmp::Ordering::Less)) == (fcmp(b, a) == Some(core::cmp::Ordering::Greater)),
        forall|a: f64, b: f64| (#[trigger] fcmp(a, b) == Some(core::cmp::Ordering::Equal)) == (fcmp(b, a) == Some(core::cmp::Ordering::Equal)),
        forall|a: f64, b: f64| (#[trigger] fcmp(a, b) is None) == (fcmp(b, a) is None),
        forall|a: f64, b: f64| #[trigger] feq(a, b) == (fcmp(a, b) == Some(core::cmp::Ordering::Equal)),
        // max / min are commutative as far as comparisons can tell (the two results are identical, or +0 / -0,
        // or both NaN): discharged for ALL triples by the loop-free Kani harness `ieee_max_min_commute`
        forall|a: f64, b: f64, c: f64| #[trigger] fcmp(fmaxf(a, b), c) == fcmp(fmaxf(b, a), c),
        forall|a: f64, b: f64, c: f64| #[trigger] fcmp(c, fmaxf(a, b)) == fcmp(c, fmaxf(b, a)),
        forall|a: f64, b: f64, c: f64| #[trigger] fcmp(fminf(a, b), c) == fcmp(fminf(b, a), c),
        forall|a: f64, b: f64, c: f64| #[trigger] fcmp(c, fminf(a, b)) == fcmp(c, fminf(b, a)),
        <f64 as AddSpec<f64>>::obeys_add_spec(),
        <f64 as AddSpec<&f64>>::obeys_add_spec(),
        <&f64 as AddSpec<f64>>::obeys_add_spec(),
        <&f64 as AddSpec<&f64>>::obeys_add_spec(),
        <f64 as SubSpec<f64>>::obeys_sub_spec(),
        <f64 as SubSpec<&f64>>::obeys_sub_spec(),
        <&f64 as SubSpec<f64>>::obeys_sub_spec(),
        <&f64 as SubSpec<&f64>>::obeys_sub_spec(),
        <f64 as MulSpec<f64>>::obeys_mul_spec(),
        <f64 as MulSpec<&f64>>::obeys_mul_spec(),
        <&f64 as MulSpec<f64>>::obeys_mul_spec(),
        <&f64 as MulSpec<&f64>>::obeys_mul_spec(),
        <f64 as DivSpec<f64>>::obeys_div_spec(),
        <f64 as DivSpec<&f64>>::obeys_div_spec(),
        <&f64 as DivSpec<f64>>::obeys_div_spec(),
        <&f64 as DivSpec<&f64>>::obeys_div_spec(),
        <f64 as PartialOrdSpec<f64>>::obeys_partial_cmp_spec(),
        <f64 as PartialEqSpec<f64>>::obeys_eq_spec(),
        <&f64 as PartialOrdSpec<&f64>>::obeys_partial_cmp_spec(),
        <&f64 as PartialEqSpec<&f64>>::obeys_eq_spec(),
;
pub broadcast group fl {
    ax_add_vv_req, ax_add_vv, ax_add_vr_req, ax_add_vr, ax_add_rv_req, ax_add_rv, ax_add_rr_req, ax_add_rr, ax_sub_vv_req, ax_sub_vv, ax_sub_vr_req, ax_sub_vr, ax_sub_rv_req, ax_sub_rv, ax_sub_rr_req, ax_sub_rr, ax_mul_vv_req, ax_mul_vv, ax_mul_vr_req, ax_mul_vr, ax_mul_rv_req, ax_mul_rv, ax_mul_rr_req, ax_mul_rr, ax_div_vv_req, ax_div_vv, ax_div_vr_req, ax_div_vr, ax_div_rv_req, ax_div_rv, ax_div_rr_req, ax_div_rr, ax_cmp_v, ax_eq_v, ax_cmp_r, ax_eq_r
}

// R8: unary minus (this Verus rejects float negation); the wrapper IS the operator.
// (core implements Neg for f64 and for &f64: the wrapper takes either)
pub trait __NegArg: Sized { spec fn negv(self) -> f64; }
impl __NegArg for f64 { open spec fn negv(self) -> f64 { self } }
impl<'a> __NegArg for &'a f64 { open spec fn negv(self) -> f64 { *self } }
#[verifier::external_body]
pub fn __neg<T: __NegArg>(x: T) -> (r: f64)
    ensures r == fneg(x.negv()),
{ unimplemented!() }


// f64 methods used by the extracted code: linked to uninterpreted functions (their IEEE facts, where
// a proof needs one, are separate axioms discharged by loop-free Kani harnesses).
pub uninterp spec fn fmaxf(a: f64, b: f64) -> f64;
pub uninterp spec fn fminf(a: f64, b: f64) -> f64;
pub uninterp spec fn fabsf(a: f64) -> f64;
pub uninterp spec fn fisnan(a: f64) -> bool;
pub uninterp spec fn fisfinite(a: f64) -> bool;
pub uninterp spec fn fisinfinite(a: f64) -> bool;
// IEEE classification facts (discharged for ALL f64 / all pairs by the loop-free Kani harness
// `ieee_classification`): finite <=> neither NaN nor infinite; NaN and infinite exclude each other;
// a pair is unordered exactly when one side is NaN; 0.0 is finite.
pub axiom fn ax_ieee_class()
    ensures
        forall|a: f64| #[trigger] fisfinite(a) == (!fisnan(a) && !fisinfinite(a)),
        forall|a: f64| #[trigger] fisnan(a) ==> !fisinfinite(a),
        forall|a: f64, b: f64| (#[trigger] fcmp(a, b) is None) == (fisnan(a) || fisnan(b)),
        fisfinite(0.0f64),
        // (core::cmp::Ordering has exactly three variants: the Rust enum, opaque to this Verus)
        forall|a: f64, b: f64| #[trigger] fcmp(a, b) is None || fcmp(a, b) == Some(core::cmp::Ordering::Less)
            || fcmp(a, b) == Some(core::cmp::Ordering::Equal) || fcmp(a, b) == Some(core::cmp::Ordering::Greater);
pub uninterp spec fn fpowf(a: f64, b: f64) -> f64;
pub uninterp spec fn ftotalcmp(a: f64, b: f64) -> core::cmp::Ordering;
pub assume_specification [f64::max] (a: f64, b: f64) -> (r: f64) ensures r == fmaxf(a, b);
pub assume_specification [f64::min] (a: f64, b: f64) -> (r: f64) ensures r == fminf(a, b);
pub assume_specification [f64::abs] (a: f64) -> (r: f64) ensures r == fabsf(a);
pub assume_specification [f64::is_nan] (a: f64) -> (r: bool) ensures r == fisnan(a);
pub assume_specification [f64::is_finite] (a: f64) -> (r: bool) ensures r == fisfinite(a);
pub assume_specification [f64::is_infinite] (a: f64) -> (r: bool) ensures r == fisinfinite(a);
// further classification / sign predicates: deterministic functions about which nothing else is known
// (code that switches to one of them no longer verifies against a contract stated with `>`, `is_finite`, ...)
pub uninterp spec fn fisnormal(a: f64) -> bool;
pub uninterp spec fn fissubnormal(a: f64) -> bool;
pub uninterp spec fn fissignpos(a: f64) -> bool;
pub uninterp spec fn fissignneg(a: f64) -> bool;
pub assume_specification [f64::is_normal] (a: f64) -> (r: bool) ensures r == fisnormal(a);
pub assume_specification [f64::is_subnormal] (a: f64) -> (r: bool) ensures r == fissubnormal(a);
pub assume_specification [f64::is_sign_positive] (a: f64) -> (r: bool) ensures r == fissignpos(a);
pub assume_specification [f64::is_sign_negative] (a: f64) -> (r: bool) ensures r == fissignneg(a);
pub assume_specification [f64::powf] (a: f64, b: f64) -> (r: f64) ensures r == fpowf(a, b);
pub assume_specification [f64::total_cmp] (a: &f64, b: &f64) -> (r: core::cmp::Ordering) ensures r == ftotalcmp(*a, *b);

// R9: associated constants this Verus rejects; the wrappers' bodies ARE the constants.
pub uninterp spec fn finf() -> f64;
pub uninterp spec fn fneginf() -> f64;
#[verifier::external_body]
pub fn __inf() -> (r: f64) ensures r == finf() { f64::INFINITY }
#[verifier::external_body]
pub fn __neg_inf() -> (r: f64) ensures r == fneginf() { f64::NEG_INFINITY }
pub assume_specification [core::cmp::Ordering::is_lt] (o: core::cmp::Ordering) -> (r: bool) ensures r == (o == core::cmp::Ordering::Less);
pub assume_specification [core::cmp::Ordering::is_le] (o: core::cmp::Ordering) -> (r: bool) ensures r == (o != core::cmp::Ordering::Greater);
pub assume_specification [core::cmp::Ordering::is_gt] (o: core::cmp::Ordering) -> (r: bool) ensures r == (o == core::cmp::Ordering::Greater);
pub assume_specification [core::cmp::Ordering::is_ge] (o: core::cmp::Ordering) -> (r: bool) ensures r == (o != core::cmp::Ordering::Less);
pub uninterp spec fn fconst_EPSILON() -> f64;
#[verifier::external_body]
pub fn __f64_EPSILON() -> (r: f64) ensures r == fconst_EPSILON() { f64::EPSILON }
pub uninterp spec fn fconst_MAX() -> f64;
#[verifier::external_body]
pub fn __f64_MAX() -> (r: f64) ensures r == fconst_MAX() { f64::MAX }
pub uninterp spec fn fconst_MIN() -> f64;
#[verifier::external_body]
pub fn __f64_MIN() -> (r: f64) ensures r == fconst_MIN() { f64::MIN }
pub uninterp spec fn fconst_MIN_POSITIVE() -> f64;
#[verifier::external_body]
pub fn __f64_MIN_POSITIVE() -> (r: f64) ensures r == fconst_MIN_POSITIVE() { f64::MIN_POSITIVE }
pub uninterp spec fn fconst_NAN() -> f64;
#[verifier::external_body]
pub fn __f64_NAN() -> (r: f64) ensures r == fconst_NAN() { f64::NAN }

// R12: integer-to-float casts (`X as f64`), which this Verus rejects; the wrapper IS the cast.
pub uninterp spec fn u64_to_f64(n: u64) -> f64;
pub uninterp spec fn usize_to_f64(n: usize) -> f64;
pub trait ToF64: Sized {
    spec fn to_f64_spec(self) -> f64;
    fn __to_f64(self) -> (r: f64) ensures r == self.to_f64_spec();
}
impl ToF64 for u64 {
    open spec fn to_f64_spec(self) -> f64 { u64_to_f64(self) }
    #[verifier::external_body]
    fn __to_f64(self) -> (r: f64) { self as f64 }
}
impl ToF64 for usize {
    open spec fn to_f64_spec(self) -> f64 { usize_to_f64(self) }
    #[verifier::external_body]
    fn __to_f64(self) -> (r: f64) { self as f64 }
}
pub fn __as_f64<T: ToF64>(x: T) -> (r: f64) ensures r == x.to_f64_spec() { x.__to_f64() }

// R13: identity on f64 (see rule R13 of the extractor)
pub fn __idf(x: f64) -> (r: f64) ensures r == x { x }

// ---- prelude fragment: ideal.rs ----
// Floating point, layer 2 ("idealised real" mode of DESIGN.md 3.2): machine arithmetic treated as
// mathematical.  rv maps a float to the real it denotes; rounding, overflow, NaN and signed zero are
// ignored.  Used only where the property is a statement of real arithmetic.
pub uninterp spec fn rv(x: f64) -> real;
pub broadcast axiom fn ax_rv_add(a: f64, b: f64) ensures rv(#[trigger] fadd(a, b)) == rv(a) + rv(b);
pub broadcast axiom fn ax_rv_sub(a: f64, b: f64) ensures rv(#[trigger] fsub(a, b)) == rv(a) - rv(b);
pub broadcast axiom fn ax_rv_mul(a: f64, b: f64) ensures rv(#[trigger] fmul(a, b)) == rv(a) * rv(b);
pub broadcast axiom fn ax_rv_div(a: f64, b: f64) ensures rv(b) != 0real ==> rv(#[trigger] fdiv(a, b)) == rv(a) / rv(b);
pub broadcast axiom fn ax_rv_neg(a: f64) ensures rv(#[trigger] fneg(a)) == 0real - rv(a);
pub broadcast axiom fn ax_rv_cmp(a: f64, b: f64)
    ensures #[trigger] fcmp(a, b) == (if rv(a) < rv(b) { Some(core::cmp::Ordering::Less) }
        else if rv(a) == rv(b) { Some(core::cmp::Ordering::Equal) } else { Some(core::cmp::Ordering::Greater) });
pub broadcast axiom fn ax_rv_eq(a: f64, b: f64) ensures #[trigger] feq(a, b) == (rv(a) == rv(b));
pub broadcast axiom fn ax_rv_max(a: f64, b: f64) ensures rv(#[trigger] fmaxf(a, b)) == (if rv(a) >= rv(b) { rv(a) } else { rv(b) });
pub broadcast axiom fn ax_rv_min(a: f64, b: f64) ensures rv(#[trigger] fminf(a, b)) == (if rv(a) <= rv(b) { rv(a) } else { rv(b) });
// (idealised) powf denotes a function of the real values of its arguments
pub uninterp spec fn rpow(x: real, y: real) -> real;
pub broadcast axiom fn ax_rv_powf(a: f64, b: f64) ensures rv(#[trigger] fpowf(a, b)) == rpow(rv(a), rv(b));
pub axiom fn ax_rv_lits()
    ensures rv(0.0f64) == 0real, rv(1.0f64) == 1real, rv(2.0f64) == 2real, rv(0.5f64) * 2real == 1real;
pub broadcast group ideal {
    ax_rv_add, ax_rv_sub, ax_rv_mul, ax_rv_div, ax_rv_neg, ax_rv_cmp, ax_rv_eq, ax_rv_max, ax_rv_min, ax_rv_powf
}
// (idealised) integer-to-float casts are exact
pub broadcast axiom fn ax_rv_u64(n: u64) ensures rv(#[trigger] u64_to_f64(n)) == n as real;
pub broadcast axiom fn ax_rv_usize(n: usize) ensures rv(#[trigger] usize_to_f64(n)) == n as real;
pub broadcast group ideal_casts { ax_rv_u64, ax_rv_usize }

use vstd::std_specs::iter::{zip_iter_snd, zip_iter_fst};

// ---- extracted from src/lib.rs: enum PlayerNum ----
#[derive(Copy, Clone)]
pub enum PlayerNum {
    /// The first player
    One,
    /// The second player
    Two,
}

// PlayerNum::ind / ind_mut use slice patterns in a `match` (rejected by this Verus); they are kept
// external with the two-case spec, and that spec is discharged against the real bodies by the
// loop-free Kani harness `playernum_ind` (so it is cited, not assumed).
impl PlayerNum {
    #[verifier::external_body]
    pub fn ind<'a, T>(&self, arr: &'a [T; 2]) -> (r: &'a T)
        ensures *r == (match *self { PlayerNum::One => arr[0], PlayerNum::Two => arr[1] })
    { unimplemented!() }

    #[verifier::external_body]
    pub fn ind_mut<'a, T>(&self, arr: &'a mut [T; 2]) -> (r: &'a mut T)
        ensures
            *r == (match *self { PlayerNum::One => old(arr)[0], PlayerNum::Two => old(arr)[1] }),
            match *self {
                PlayerNum::One => final(arr)[0] == *final(r) && final(arr)[1] == old(arr)[1],
                PlayerNum::Two => final(arr)[1] == *final(r) && final(arr)[0] == old(arr)[0],
            },
    { unimplemented!() }
}

// ---- extracted from src/lib.rs: enum Node ----
pub enum Node {
    /// A terminal node, the game is over the payoff to player one
    Terminal(f64),
    /// A chance node, the game advances independent of player action
    Chance(Chance),
    /// a node in the tree where the player can choose between different actions
    Player(Player),
}

// ---- extracted from src/lib.rs: struct Chance ----
pub struct Chance {
    pub outcomes: Box<[Node]>,
    pub infoset: usize,
}

// ---- extracted from src/lib.rs: struct Player ----
pub struct Player {
    pub num: PlayerNum,
    pub infoset: usize,
    pub actions: Box<[Node]>,
}

pub trait Add {
    #[verifier::prophetic]
    spec fn added(self, other: f64) -> bool;
    fn add(self, other: f64)
        ensures self.added(other);
}
// counterfactual weight of the acting player's regrets: opponent reach x chance reach, negated for
// player two (payoffs are player one's)
pub open spec fn mult_spec(num: PlayerNum, p_chance: f64, p_player: [f64; 2]) -> real {
    match num { PlayerNum::One => rv(p_chance) * rv(p_player[1]), PlayerNum::Two => 0real - rv(p_player[0]) * rv(p_chance) }
}
// reach vector handed to the continuation of action a: only the acting player's entry is multiplied by sigma_a
pub open spec fn pnext_ok(num: PlayerNum, p_player: [f64; 2], prob: f64, p_next: [f64; 2]) -> bool {
    match num {
        PlayerNum::One => rv(p_next[0]) == rv(p_player[0]) * rv(prob) && p_next[1] == p_player[1],
        PlayerNum::Two => p_next[0] == p_player[0] && rv(p_next[1]) == rv(p_player[1]) * rv(prob),
    }
}
// the continuation was called on `node` with a reach vector in which ONLY the acting player's entry is
// multiplied by the action's probability, and returned u
pub open spec fn called_ok<F: Fn(&Node, [f64; 2]) -> f64>(rec: F, node: Node, num: PlayerNum, p_player: [f64; 2], prob: f64, u: f64) -> bool {
    exists|pn: [f64; 2]| pnext_ok(num, p_player, prob, pn) && #[trigger] rec.ensures((&node, pn), u)
}
pub open spec fn exp_one(strat: Seq<f64>, us: Seq<f64>, k: int) -> real decreases k {
    if k <= 0 { 0real } else { exp_one(strat, us, k - 1) + rv(strat[k - 1]) * rv(us[k - 1]) }
}
pub open spec fn exp_cf(strat: Seq<f64>, us: Seq<f64>, mult: real, k: int) -> real decreases k {
    if k <= 0 { 0real } else { exp_cf(strat, us, mult, k - 1) + rv(us[k - 1]) * mult * rv(strat[k - 1]) }
}
pub proof fn lemma_exp_prefix(st: Seq<f64>, a: Seq<f64>, b: Seq<f64>, m: real, k: int)
    requires 0 <= k <= a.len(), k <= b.len(), forall|i: int| 0 <= i < k ==> a[i] == b[i],
    ensures exp_one(st, a, k) == exp_one(st, b, k), exp_cf(st, a, m, k) == exp_cf(st, b, m, k),
    decreases k
{
    if k > 0 { lemma_exp_prefix(st, a, b, m, k - 1); }
}

// ---- extracted from src/solve/vanilla.rs: impl Add for &mut f64 ----
impl Add for &mut f64 {
    #[verifier::prophetic]
    open spec fn added(self, other: f64) -> bool { rv(*final(self)) == rv(*self) + rv(other) }
fn add(self, other: f64) {
broadcast use fl; broadcast use ideal;
proof { ax_obeys(); ax_rv_lits(); }

        *self = *self + ( other);
    }
}

// ---- extracted from src/solve/vanilla.rs: fn recurse_player ----
pub fn recurse_player<F: Fn(&Node, [f64; 2]) -> f64>(
    player: &Player,
    p_chance: f64,
    p_player: [f64; 2],
    strat: &[f64],
    cum_regret: &mut [f64],
    rec: F,
) -> (out: (f64, f64)) 
    ensures
        final(cum_regret)@.len() == old(cum_regret)@.len(),
        exists|us: Seq<f64>| us.len() == player.actions@.len()
            // u_a is what the continuation returned for action a, called with the reach vector in which
            // ONLY the acting player's entry is multiplied by sigma_a
            && (forall|a: int| 0 <= a < us.len() ==> #[trigger] called_ok(rec, player.actions@[a], player.num, p_player, strat@[a], us[a]))
            // every action's cumulative regret receives u_a times the counterfactual weight
            && (forall|a: int| 0 <= a < us.len() ==> rv(#[trigger] final(cum_regret)@[a]) == rv(old(cum_regret)@[a]) + rv(us[a]) * mult_spec(player.num, p_chance, p_player))
            // returned: (sum_a sigma_a u_a, sum_a u_a mult sigma_a)
            && rv(out.0) == exp_one(strat@, us, us.len() as int)
            && rv(out.1) == exp_cf(strat@, us, mult_spec(player.num, p_chance, p_player), us.len() as int), // @ob C08.V.recurse_player.update
{
broadcast use fl; broadcast use ideal;
proof {
    ax_obeys(); ax_rv_lits();
    assume(player.actions@.len() == strat@.len() && strat@.len() == cum_regret@.len());
    assume(forall|n: &Node, p: [f64; 2]| rec.requires((n, p)));
}
let ghost n = cum_regret@.len();
let ghost st = strat@;
let ghost c0 = cum_regret@;
let ghost acts = player.actions@;
let ghost mut us: Seq<f64> = Seq::empty();

    let mult = match (player.num, p_player) {
        (PlayerNum::One, __a0) => { let two = __a0[1]; p_chance * two },
        (PlayerNum::Two, __a1) => { let one = __a1[0]; __neg(one) * p_chance },
    };

    let mut expected_one = 0.0;
    let mut expected = 0.0;
    proof {
    assert((0real - rv(p_player[0])) * rv(p_chance) == 0real - rv(p_player[0]) * rv(p_chance)) by(nonlinear_arith);
    assert(rv(p_chance) * (0real - rv(p_player[0])) == 0real - rv(p_player[0]) * rv(p_chance)) by(nonlinear_arith);
    assert(rv(p_player[1]) * rv(p_chance) == rv(p_chance) * rv(p_player[1])) by(nonlinear_arith);
    assert(rv(mult) == mult_spec(player.num, p_chance, p_player));
}
let ghost ms = mult_spec(player.num, p_chance, p_player);
for ((next, prob), cum_reg) in it: player
        .actions
        .iter()
        .zip(strat.iter())
        .zip(cum_regret.iter_mut())
    
invariant
    it.snapshot@.remaining().len() == n, n == acts.len(), n == st.len(), n == c0.len(),
    0 <= it.index@ <= n, us.len() == it.index@,
    rv(mult) == ms, ms == mult_spec(player.num, p_chance, p_player),
    zip_iter_snd(it.snapshot@).remaining().len() == n,
    forall|i: int| 0 <= i < n ==> (it.snapshot@.remaining()[i]).1 == #[trigger] zip_iter_snd(it.snapshot@).remaining()[i],
    forall|i: int| 0 <= i < n ==> *((#[trigger] it.snapshot@.remaining()[i]).0).0 == acts[i]
        && *((it.snapshot@.remaining()[i]).0).1 == st[i] && *(it.snapshot@.remaining()[i]).1 == c0[i],
    forall|nd: &Node, p: [f64; 2]| rec.requires((nd, p)),
    forall|i: int| 0 <= i < it.index@ ==> #[trigger] called_ok(rec, acts[i], player.num, p_player, st[i], us[i]),
    forall|i: int| 0 <= i < it.index@ ==> rv(*final((#[trigger] it.snapshot@.remaining()[i]).1)) == rv(c0[i]) + rv(us[i]) * ms,
    rv(expected_one) == exp_one(st, us, it.index@ as int),
    rv(expected) == exp_cf(st, us, ms, it.index@ as int),
ensures
    forall|i: int| 0 <= i < n ==> rv(*final(#[trigger] zip_iter_snd(it.snapshot@).remaining()[i])) == rv(c0[i]) + rv(us[i]) * ms,
{
broadcast use fl; broadcast use ideal;
proof { ax_obeys(); ax_rv_lits(); }
let ghost us0 = us;

        let mut p_next = p_player;
        *player.num.ind_mut(&mut p_next) = *player.num.ind_mut(&mut p_next) * ( prob);
        let util_one = rec(next, p_next);
        let util = util_one * mult;
        expected_one = expected_one + ( prob * util_one);
        expected = expected + ( util * prob);
        cum_reg.add(util);
    
proof {
    assert(rv(util_one) * rv(*prob) == rv(*prob) * rv(util_one)) by(nonlinear_arith);
    assert(rv(util) * rv(*prob) == rv(*prob) * rv(util)) by(nonlinear_arith);
    assert(rv(mult) * rv(util_one) == rv(util_one) * rv(mult)) by(nonlinear_arith);
    us = us0.push(util_one);
    assert(forall|i: int| 0 <= i < us0.len() ==> us[i] == us0[i]);
    lemma_exp_prefix(st, us0, us, ms, us0.len() as int);
    assert(pnext_ok(player.num, p_player, *prob, p_next));
    assert(rec.ensures((next, p_next), util_one));
    assert(called_ok(rec, *next, player.num, p_player, *prob, util_one));
    assert(rv(util) * rv(*prob) == rv(util_one) * ms * rv(*prob)) by(nonlinear_arith) requires rv(util) == rv(util_one) * ms;
}
}
proof {
    let w = us;
    assert(w.len() == player.actions@.len() && acts == player.actions@ && st == strat@);
    assert(forall|a: int| 0 <= a < w.len() ==> #[trigger] called_ok(rec, player.actions@[a], player.num, p_player, strat@[a], w[a]));
    assert(forall|a: int| 0 <= a < w.len() ==> rv(#[trigger] cum_regret@[a]) == rv(c0[a]) + rv(w[a]) * ms);
}

    (expected_one, expected)
}


// vacuity canary: must be REJECTED by the verifier (an inconsistent axiom set would accept it)
pub proof fn __canary_must_fail()
    ensures false, // @ob __canary
{
    broadcast use fl; broadcast use ideal; ax_obeys(); ax_rv_lits();
}

} // verus!
fn main() {}
