#![feature(sized_hierarchy)]
#![feature(allocator_api)]
#![allow(unused_imports, unused_variables, dead_code, unused_mut, unused_parens, unused_braces, non_snake_case)]
use vstd::prelude::*;
use vstd::std_specs::ops::*;
use vstd::std_specs::cmp::*;
use vstd::float::*;
use vstd::std_specs::iter::IteratorSpec;
verus! {
// ---- prelude fragment: floats.rs ----
// Floating point, layer 1 ("uninterpreted" mode of DESIGN.md 3.2): every f64 operator instance the
// language can produce is linked to ONE total, deterministic, otherwise unknown function of the
// operand values.  Nothing about IEEE-754 is assumed here.
pub uninterp spec fn fadd(a: f64, b: f64) -> f64;
pub uninterp spec fn fsub(a: f64, b: f64) -> f64;
pub uninterp spec fn fmul(a: f64, b: f64) -> f64;
pub uninterp spec fn fdiv(a: f64, b: f64) -> f64;
pub uninterp spec fn fneg(a: f64) -> f64;
pub uninterp spec fn fcmp(a: f64, b: f64) -> Option<core::cmp::Ordering>;
pub uninterp spec fn feq(a: f64, b: f64) -> bool;
pub open spec fn flt(a: f64, b: f64) -> bool { fcmp(a, b) == Some(core::cmp::Ordering::Less) }
pub open spec fn fgt(a: f64, b: f64) -> bool { fcmp(a, b) == Some(core::cmp::Ordering::Greater) }
pub open spec fn fle(a: f64, b: f64) -> bool { fcmp(a, b) == Some(core::cmp::Ordering::Less) || fcmp(a, b) == Some(core::cmp::Ordering::Equal) }
pub open spec fn fge(a: f64, b: f64) -> bool { fcmp(a, b) == Some(core::cmp::Ordering::Greater) || fcmp(a, b) == Some(core::cmp::Ordering::Equal) }

pub broadcast axiom fn ax_add_vv_req(a: f64, b: f64) ensures #[trigger] a.add_req(b);
pub broadcast axiom fn ax_add_vv(a: f64, b: f64) ensures #[trigger] a.add_spec(b) == fadd(a, b);
pub broadcast axiom fn ax_add_vr_req(a: f64, b: &f64) ensures #[trigger] a.add_req(b);
pub broadcast axiom fn ax_add_vr(a: f64, b: &f64) ensures #[trigger] a.add_spec(b) == fadd(a, *b);
pub broadcast axiom fn ax_add_rv_req(a: &f64, b: f64) ensures #[trigger] a.add_req(b);
pub broadcast axiom fn ax_add_rv(a: &f64, b: f64) ensures #[trigger] a.add_spec(b) == fadd(*a, b);
pub broadcast axiom fn ax_add_rr_req(a: &f64, b: &f64) ensures #[trigger] a.add_req(b);
pub broadcast axiom fn ax_add_rr(a: &f64, b: &f64) ensures #[trigger] a.add_spec(b) == fadd(*a, *b);
pub broadcast axiom fn ax_sub_vv_req(a: f64, b: f64) ensures #[trigger] a.sub_req(b);
pub broadcast axiom fn ax_sub_vv(a: f64, b: f64) ensures #[trigger] a.sub_spec(b) == fsub(a, b);
pub broadcast axiom fn ax_sub_vr_req(a: f64, b: &f64) ensures #[trigger] a.sub_req(b);
pub broadcast axiom fn ax_sub_vr(a: f64, b: &f64) ensures #[trigger] a.sub_spec(b) == fsub(a, *b);
pub broadcast axiom fn ax_sub_rv_req(a: &f64, b: f64) ensures #[trigger] a.sub_req(b);
pub broadcast axiom fn ax_sub_rv(a: &f64, b: f64) ensures #[trigger] a.sub_spec(b) == fsub(*a, b);
pub broadcast axiom fn ax_sub_rr_req(a: &f64, b: &f64) ensures #[trigger] a.sub_req(b);
pub broadcast axiom fn ax_sub_rr(a: &f64, b: &f64) ensures #[trigger] a.sub_spec(b) == fsub(*a, *b);
pub broadcast axiom fn ax_mul_vv_req(a: f64, b: f64) ensures #[trigger] a.mul_req(b);
pub broadcast axiom fn ax_mul_vv(a: f64, b: f64) ensures #[trigger] a.mul_spec(b) == fmul(a, b);
pub broadcast axiom fn ax_mul_vr_req(a: f64, b: &f64) ensures #[trigger] a.mul_req(b);
pub broadcast axiom fn ax_mul_vr(a: f64, b: &f64) ensures #[trigger] a.mul_spec(b) == fmul(a, *b);
pub broadcast axiom fn ax_mul_rv_req(a: &f64, b: f64) ensures #[trigger] a.mul_req(b);
pub broadcast axiom fn ax_mul_rv(a: &f64, b: f64) ensures #[trigger] a.mul_spec(b) == fmul(*a, b);
pub broadcast axiom fn ax_mul_rr_req(a: &f64, b: &f64) ensures #[trigger] a.mul_req(b);
pub broadcast axiom fn ax_mul_rr(a: &f64, b: &f64) ensures #[trigger] a.mul_spec(b) == fmul(*a, *b);
pub broadcast axiom fn ax_div_vv_req(a: f64, b: f64) ensures #[trigger] a.div_req(b);
pub broadcast axiom fn ax_div_vv(a: f64, b: f64) ensures #[trigger] a.div_spec(b) == fdiv(a, b);
pub broadcast axiom fn ax_div_vr_req(a: f64, b: &f64) ensures #[trigger] a.div_req(b);
pub broadcast axiom fn ax_div_vr(a: f64, b: &f64) ensures #[trigger] a.div_spec(b) == fdiv(a, *b);
pub broadcast axiom fn ax_div_rv_req(a: &f64, b: f64) ensures #[trigger] a.div_req(b);
pub broadcast axiom fn ax_div_rv(a: &f64, b: f64) ensures #[trigger] a.div_spec(b) == fdiv(*a, b);
pub broadcast axiom fn ax_div_rr_req(a: &f64, b: &f64) ensures #[trigger] a.div_req(b);
pub broadcast axiom fn ax_div_rr(a: &f64, b: &f64) ensures #[trigger] a.div_spec(b) == fdiv(*a, *b);
pub broadcast axiom fn ax_cmp_v(a: f64, b: f64) ensures #[trigger] a.partial_cmp_spec(&b) == fcmp(a, b);
pub broadcast axiom fn ax_eq_v(a: f64, b: f64) ensures #[trigger] a.eq_spec(&b) == feq(a, b);
pub broadcast axiom fn ax_cmp_r(a: &f64, b: &f64) ensures #[trigger] a.partial_cmp_spec(&b) == fcmp(*a, *b);
pub broadcast axiom fn ax_eq_r(a: &f64, b: &f64) ensures #[trigger] a.eq_spec(&b) == feq(*a, *b);
pub axiom fn ax_obeys()
    ensures
        <f64 as AddSpec<f64>>::obeys_add_spec(),
        <f64 as AddSpec<&f64>>::obeys_add_spec(),
        <&f64 as AddSpec<f64>>::obeys_add_spec(),
        <&f64 as AddSpec<&f64>>::obeys_add_spec(),
        <f64 as SubSpec<f64>>::obeys_sub_spec(),
        <f64 as SubSpec<&f64>>::obeys_sub_spec(),
        <&f64 as SubSpec<f64>>::obeys_sub_spec(),
        <&f64 as SubSpec<&f64>>::obeys_sub_spec(),
        <f64 as MulSpec<f64>>::obeys_mul_spec(),
        <f64 as MulSpec<&f64>>::obeys_mul_spec(),
        <&f64 as MulSpec<f64>>::obeys_mul_spec(),
        <&f64 as MulSpec<&f64>>::obeys_mul_spec(),
        <f64 as DivSpec<f64>>::obeys_div_spec(),
        <f64 as DivSpec<&f64>>::obeys_div_spec(),
        <&f64 as DivSpec<f64>>::obeys_div_spec(),
        <&f64 as DivSpec<&f64>>::obeys_div_spec(),
        <f64 as PartialOrdSpec<f64>>::obeys_partial_cmp_spec(),
        <f64 as PartialEqSpec<f64>>::obeys_eq_spec(),
        <&f64 as PartialOrdSpec<&f64>>::obeys_partial_cmp_spec(),
        <&f64 as PartialEqSpec<&f64>>::obeys_eq_spec(),
;
pub broadcast group fl {
    ax_add_vv_req, ax_add_vv, ax_add_vr_req, ax_add_vr, ax_add_rv_req, ax_add_rv, ax_add_rr_req, ax_add_rr, ax_sub_vv_req, ax_sub_vv, ax_sub_vr_req, ax_sub_vr, ax_sub_rv_req, ax_sub_rv, ax_sub_rr_req, ax_sub_rr, ax_mul_vv_req, ax_mul_vv, ax_mul_vr_req, ax_mul_vr, ax_mul_rv_req, ax_mul_rv, ax_mul_rr_req, ax_mul_rr, ax_div_vv_req, ax_div_vv, ax_div_vr_req, ax_div_vr, ax_div_rv_req, ax_div_rv, ax_div_rr_req, ax_div_rr, ax_cmp_v, ax_eq_v, ax_cmp_r, ax_eq_r
}

// R8: unary minus (this Verus rejects float negation); the wrapper IS the operator.
#[verifier::external_body]
pub fn __neg(x: f64) -> (r: f64)
    ensures r == fneg(x),
{ -x }


// f64 methods used by the extracted code: linked to uninterpreted functions (their IEEE facts, where
// a proof needs one, are separate axioms discharged by loop-free Kani harnesses).
pub uninterp spec fn fmaxf(a: f64, b: f64) -> f64;
pub uninterp spec fn fminf(a: f64, b: f64) -> f64;
pub uninterp spec fn fabsf(a: f64) -> f64;
pub uninterp spec fn fisnan(a: f64) -> bool;
pub uninterp spec fn fisfinite(a: f64) -> bool;
pub uninterp spec fn fpowf(a: f64, b: f64) -> f64;
pub uninterp spec fn ftotalcmp(a: f64, b: f64) -> core::cmp::Ordering;
pub assume_specification [f64::max] (a: f64, b: f64) -> (r: f64) ensures r == fmaxf(a, b);
pub assume_specification [f64::min] (a: f64, b: f64) -> (r: f64) ensures r == fminf(a, b);
pub assume_specification [f64::abs] (a: f64) -> (r: f64) ensures r == fabsf(a);
pub assume_specification [f64::is_nan] (a: f64) -> (r: bool) ensures r == fisnan(a);
pub assume_specification [f64::is_finite] (a: f64) -> (r: bool) ensures r == fisfinite(a);
pub assume_specification [f64::powf] (a: f64, b: f64) -> (r: f64) ensures r == fpowf(a, b);
pub assume_specification [f64::total_cmp] (a: &f64, b: &f64) -> (r: core::cmp::Ordering) ensures r == ftotalcmp(*a, *b);

// R9: associated constants this Verus rejects; the wrappers' bodies ARE the constants.
pub uninterp spec fn finf() -> f64;
pub uninterp spec fn fneginf() -> f64;
#[verifier::external_body]
pub fn __inf() -> (r: f64) ensures r == finf() { f64::INFINITY }
#[verifier::external_body]
pub fn __neg_inf() -> (r: f64) ensures r == fneginf() { f64::NEG_INFINITY }
pub assume_specification [core::cmp::Ordering::is_lt] (o: core::cmp::Ordering) -> (r: bool) ensures r == (o == core::cmp::Ordering::Less);
pub assume_specification [core::cmp::Ordering::is_le] (o: core::cmp::Ordering) -> (r: bool) ensures r == (o != core::cmp::Ordering::Greater);
pub assume_specification [core::cmp::Ordering::is_gt] (o: core::cmp::Ordering) -> (r: bool) ensures r == (o == core::cmp::Ordering::Greater);
pub assume_specification [core::cmp::Ordering::is_ge] (o: core::cmp::Ordering) -> (r: bool) ensures r == (o != core::cmp::Ordering::Less);
pub uninterp spec fn fconst_EPSILON() -> f64;
#[verifier::external_body]
pub fn __f64_EPSILON() -> (r: f64) ensures r == fconst_EPSILON() { f64::EPSILON }
pub uninterp spec fn fconst_MAX() -> f64;
#[verifier::external_body]
pub fn __f64_MAX() -> (r: f64) ensures r == fconst_MAX() { f64::MAX }
pub uninterp spec fn fconst_MIN() -> f64;
#[verifier::external_body]
pub fn __f64_MIN() -> (r: f64) ensures r == fconst_MIN() { f64::MIN }
pub uninterp spec fn fconst_MIN_POSITIVE() -> f64;
#[verifier::external_body]
pub fn __f64_MIN_POSITIVE() -> (r: f64) ensures r == fconst_MIN_POSITIVE() { f64::MIN_POSITIVE }
pub uninterp spec fn fconst_NAN() -> f64;
#[verifier::external_body]
pub fn __f64_NAN() -> (r: f64) ensures r == fconst_NAN() { f64::NAN }

// R12: integer-to-float casts (`X as f64`), which this Verus rejects; the wrapper IS the cast.
pub uninterp spec fn u64_to_f64(n: u64) -> f64;
pub uninterp spec fn usize_to_f64(n: usize) -> f64;
pub trait ToF64: Sized {
    spec fn to_f64_spec(self) -> f64;
    fn __to_f64(self) -> (r: f64) ensures r == self.to_f64_spec();
}
impl ToF64 for u64 {
    open spec fn to_f64_spec(self) -> f64 { u64_to_f64(self) }
    #[verifier::external_body]
    fn __to_f64(self) -> (r: f64) { self as f64 }
}
impl ToF64 for usize {
    open spec fn to_f64_spec(self) -> f64 { usize_to_f64(self) }
    #[verifier::external_body]
    fn __to_f64(self) -> (r: f64) { self as f64 }
}
pub fn __as_f64<T: ToF64>(x: T) -> (r: f64) ensures r == x.to_f64_spec() { x.__to_f64() }

// R13: identity on f64 (see rule R13 of the extractor)
pub fn __idf(x: f64) -> (r: f64) ensures r == x { x }

use vstd::std_specs::iter::{zip_iter_snd, zip_iter_fst};

// ---- extracted from src/lib.rs: enum PlayerNum ----
#[derive(Copy, Clone)]
pub enum PlayerNum {
    /// The first player
    One,
    /// The second player
    Two,
}

// PlayerNum::ind / ind_mut use slice patterns in a `match` (rejected by this Verus); they are kept
// external with the two-case spec, and that spec is discharged against the real bodies by the
// loop-free Kani harness `playernum_ind` (so it is cited, not assumed).
impl PlayerNum {
    #[verifier::external_body]
    pub fn ind<'a, T>(&self, arr: &'a [T; 2]) -> (r: &'a T)
        ensures *r == (match *self { PlayerNum::One => arr[0], PlayerNum::Two => arr[1] })
    { unimplemented!() }

    #[verifier::external_body]
    pub fn ind_mut<'a, T>(&self, arr: &'a mut [T; 2]) -> (r: &'a mut T)
        ensures
            *r == (match *self { PlayerNum::One => old(arr)[0], PlayerNum::Two => old(arr)[1] }),
            match *self {
                PlayerNum::One => final(arr)[0] == *final(r) && final(arr)[1] == old(arr)[1],
                PlayerNum::Two => final(arr)[1] == *final(r) && final(arr)[0] == old(arr)[0],
            },
    { unimplemented!() }
}

// ---- extracted from src/lib.rs: enum Node ----
pub enum Node {
    /// A terminal node, the game is over the payoff to player one
    Terminal(f64),
    /// A chance node, the game advances independent of player action
    Chance(Chance),
    /// a node in the tree where the player can choose between different actions
    Player(Player),
}

// ---- extracted from src/lib.rs: struct Chance ----
pub struct Chance {
    pub outcomes: Box<[Node]>,
    pub infoset: usize,
}

// ---- extracted from src/lib.rs: struct Player ----
pub struct Player {
    pub num: PlayerNum,
    pub infoset: usize,
    pub actions: Box<[Node]>,
}

pub trait Add {
    #[verifier::prophetic]
    spec fn added(self, other: f64) -> bool;
    fn add(self, other: f64)
        ensures self.added(other);
}
// counterfactual weight of the acting player's regrets: opponent reach x chance reach, negated for
// player two (payoffs are player one's)
pub open spec fn mult_spec(num: PlayerNum, p_chance: f64, p_player: [f64; 2]) -> f64 {
    match num { PlayerNum::One => fmul(p_chance, p_player[1]), PlayerNum::Two => fmul(fneg(p_player[0]), p_chance) }
}
// reach vector handed to the continuation of action a: only the acting player's entry is multiplied by sigma_a
pub open spec fn pnext_spec(num: PlayerNum, p_player: [f64; 2], prob: f64) -> [f64; 2] {
    match num { PlayerNum::One => [fmul(p_player[0], prob), p_player[1]], PlayerNum::Two => [p_player[0], fmul(p_player[1], prob)] }
}
pub open spec fn exp_one(strat: Seq<f64>, us: Seq<f64>, k: int) -> f64 decreases k {
    if k <= 0 { 0.0f64 } else { fadd(exp_one(strat, us, k - 1), fmul(strat[k - 1], us[k - 1])) }
}
pub open spec fn exp_cf(strat: Seq<f64>, us: Seq<f64>, mult: f64, k: int) -> f64 decreases k {
    if k <= 0 { 0.0f64 } else { fadd(exp_cf(strat, us, mult, k - 1), fmul(fmul(us[k - 1], mult), strat[k - 1])) }
}
pub proof fn lemma_exp_prefix(st: Seq<f64>, a: Seq<f64>, b: Seq<f64>, m: f64, k: int)
    requires 0 <= k <= a.len(), k <= b.len(), forall|i: int| 0 <= i < k ==> a[i] == b[i],
    ensures exp_one(st, a, k) == exp_one(st, b, k), exp_cf(st, a, m, k) == exp_cf(st, b, m, k),
    decreases k
{
    if k > 0 { lemma_exp_prefix(st, a, b, m, k - 1); }
}

// ---- extracted from src/solve/vanilla.rs: impl Add for &mut f64 ----
impl Add for &mut f64 {
    #[verifier::prophetic]
    open spec fn added(self, other: f64) -> bool { *final(self) == fadd(*self, other) }
fn add(self, other: f64) {
broadcast use fl;
proof { ax_obeys(); }

        *self = *self + ( other);
    }
}

// ---- extracted from src/solve/vanilla.rs: fn recurse_player ----
pub fn recurse_player<F: Fn(&Node, [f64; 2]) -> f64>(
    player: &Player,
    p_chance: f64,
    p_player: [f64; 2],
    strat: &[f64],
    cum_regret: &mut [f64],
    rec: F,
) -> (out: (f64, f64)) 
    ensures
        final(cum_regret)@.len() == old(cum_regret)@.len(),
        exists|us: Seq<f64>| us.len() == player.actions@.len()
            // u_a is what the continuation returned for action a, called with the reach vector in which
            // ONLY the acting player's entry is multiplied by sigma_a
            && (forall|a: int| 0 <= a < us.len() ==> rec.ensures((&#[trigger] player.actions@[a], pnext_spec(player.num, p_player, strat@[a])), us[a]))
            // every action's cumulative regret receives u_a times the counterfactual weight
            && (forall|a: int| 0 <= a < us.len() ==> #[trigger] final(cum_regret)@[a] == fadd(old(cum_regret)@[a], fmul(us[a], mult_spec(player.num, p_chance, p_player))))
            // returned: (sum_a sigma_a u_a, sum_a u_a mult sigma_a)
            && out.0 == exp_one(strat@, us, us.len() as int)
            && out.1 == exp_cf(strat@, us, mult_spec(player.num, p_chance, p_player), us.len() as int), // @ob C08.V.recurse_player.update
{
broadcast use fl;
proof {
    ax_obeys();
    assume(player.actions@.len() == strat@.len() && strat@.len() == cum_regret@.len());
    assume(forall|n: &Node, p: [f64; 2]| rec.requires((n, p)));
}
let ghost n = cum_regret@.len();
let ghost st = strat@;
let ghost c0 = cum_regret@;
let ghost acts = player.actions@;
let ghost mut us: Seq<f64> = Seq::empty();

    let mult = match (player.num, p_player) {
        (PlayerNum::One, __a0) => { let two = __a0[1]; p_chance * two },
        (PlayerNum::Two, __a1) => { let one = __a1[0]; __neg(one) * p_chance },
    };

    let mut expected_one = 0.0;
    let mut expected = 0.0;
    proof { assert(mult == mult_spec(player.num, p_chance, p_player)); }
for ((next, prob), cum_reg) in it: player
        .actions
        .iter()
        .zip(strat.iter())
        .zip(cum_regret.iter_mut())
    
invariant
    it.snapshot@.remaining().len() == n, n == acts.len(), n == st.len(), n == c0.len(),
    0 <= it.index@ <= n, us.len() == it.index@,
    mult == mult_spec(player.num, p_chance, p_player),
    zip_iter_snd(it.snapshot@).remaining().len() == n,
    forall|i: int| 0 <= i < n ==> (it.snapshot@.remaining()[i]).1 == #[trigger] zip_iter_snd(it.snapshot@).remaining()[i],
    forall|i: int| 0 <= i < n ==> *((#[trigger] it.snapshot@.remaining()[i]).0).0 == acts[i]
        && *((it.snapshot@.remaining()[i]).0).1 == st[i] && *(it.snapshot@.remaining()[i]).1 == c0[i],
    forall|nd: &Node, p: [f64; 2]| rec.requires((nd, p)),
    forall|i: int| 0 <= i < it.index@ ==> rec.ensures((&#[trigger] acts[i], pnext_spec(player.num, p_player, st[i])), us[i]),
    forall|i: int| 0 <= i < it.index@ ==> *final((#[trigger] it.snapshot@.remaining()[i]).1) == fadd(c0[i], fmul(us[i], mult)),
    expected_one == exp_one(st, us, it.index@ as int),
    expected == exp_cf(st, us, mult, it.index@ as int),
ensures
    forall|i: int| 0 <= i < n ==> *final(#[trigger] zip_iter_snd(it.snapshot@).remaining()[i]) == fadd(c0[i], fmul(us[i], mult)),
{
broadcast use fl;
proof { ax_obeys(); }
let ghost us0 = us;

        let mut p_next = p_player;
        *player.num.ind_mut(&mut p_next) = *player.num.ind_mut(&mut p_next) * ( prob);
        let util_one = rec(next, p_next);
        let util = util_one * mult;
        expected_one = expected_one + ( prob * util_one);
        expected = expected + ( util * prob);
        cum_reg.add(util);
    
proof {
    us = us0.push(util_one);
    assert(forall|i: int| 0 <= i < us0.len() ==> us[i] == us0[i]);
    lemma_exp_prefix(st, us0, us, mult, us0.len() as int);
    assert(p_next == pnext_spec(player.num, p_player, *prob));
}
}
proof {
    let w = us;
    assert(w.len() == player.actions@.len() && acts == player.actions@ && st == strat@);
    assert(forall|a: int| 0 <= a < w.len() ==> rec.ensures((&#[trigger] player.actions@[a], pnext_spec(player.num, p_player, strat@[a])), w[a]));
    assert(forall|a: int| 0 <= a < w.len() ==> #[trigger] cum_regret@[a] == fadd(c0[a], fmul(w[a], mult)));
}

    (expected_one, expected)
}


// vacuity canary: must be REJECTED by the verifier (an inconsistent axiom set would accept it)
pub proof fn __canary_must_fail()
    ensures false, // @ob __canary
{
    broadcast use fl; ax_obeys();
}

} // verus!
fn main() {}
