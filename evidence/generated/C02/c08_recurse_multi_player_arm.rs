#![feature(sized_hierarchy)]
#![feature(allocator_api)]
#![allow(unused_imports, unused_variables, dead_code, unused_mut, unused_parens, unused_braces, non_snake_case)]
use vstd::prelude::*;
use vstd::std_specs::ops::*;
use vstd::std_specs::cmp::*;
use vstd::float::*;
use vstd::std_specs::iter::IteratorSpec;
verus! {
// ---- prelude fragment: floats.rs ----
// Floating point, layer 1 ("uninterpreted" mode of DESIGN.md 3.2): every f64 operator instance the
// language can produce is linked to ONE total, deterministic, otherwise unknown function of the
// operand values.  Nothing about IEEE-754 is assumed here.
pub uninterp spec fn fadd(a: f64, b: f64) -> f64;
pub uninterp spec fn fsub(a: f64, b: f64) -> f64;
pub uninterp spec fn fmul(a: f64, b: f64) -> f64;
pub uninterp spec fn fdiv(a: f64, b: f64) -> f64;
pub uninterp spec fn fneg(a: f64) -> f64;
pub uninterp spec fn fcmp(a: f64, b: f64) -> Option<core::cmp::Ordering>;
pub uninterp spec fn feq(a: f64, b: f64) -> bool;
pub open spec fn flt(a: f64, b: f64) -> bool { fcmp(a, b) == Some(core::cmp::Ordering::Less) }
pub open spec fn fgt(a: f64, b: f64) -> bool { fcmp(a, b) == Some(core::cmp::Ordering::Greater) }
pub open spec fn fle(a: f64, b: f64) -> bool { fcmp(a, b) == Some(core::cmp::Ordering::Less) || fcmp(a, b) == Some(core::cmp::Ordering::Equal) }
pub open spec fn fge(a: f64, b: f64) -> bool { fcmp(a, b) == Some(core::cmp::Ordering::Greater) || fcmp(a, b) == Some(core::cmp::Ordering::Equal) }

pub broadcast axiom fn ax_add_vv_req(a: f64, b: f64) ensures #[trigger] a.add_req(b);
pub broadcast axiom fn ax_add_vv(a: f64, b: f64) ensures #[trigger] a.add_spec(b) == fadd(a, b);
pub broadcast axiom fn ax_add_vr_req(a: f64, b: &f64) ensures #[trigger] a.add_req(b);
pub broadcast axiom fn ax_add_vr(a: f64, b: &f64) ensures #[trigger] a.add_spec(b) == fadd(a, *b);
pub broadcast axiom fn ax_add_rv_req(a: &f64, b: f64) ensures #[trigger] a.add_req(b);
pub broadcast axiom fn ax_add_rv(a: &f64, b: f64) ensures #[trigger] a.add_spec(b) == fadd(*a, b);
pub broadcast axiom fn ax_add_rr_req(a: &f64, b: &f64) ensures #[trigger] a.add_req(b);
pub broadcast axiom fn ax_add_rr(a: &f64, b: &f64) ensures #[trigger] a.add_spec(b) == fadd(*a, *b);
pub broadcast axiom fn ax_sub_vv_req(a: f64, b: f64) ensures #[trigger] a.sub_req(b);
pub broadcast axiom fn ax_sub_vv(a: f64, b: f64) ensures #[trigger] a.sub_spec(b) == fsub(a, b);
pub broadcast axiom fn ax_sub_vr_req(a: f64, b: &f64) ensures #[trigger] a.sub_req(b);
pub broadcast axiom fn ax_sub_vr(a: f64, b: &f64) ensures #[trigger] a.sub_spec(b) == fsub(a, *b);
pub broadcast axiom fn ax_sub_rv_req(a: &f64, b: f64) ensures #[trigger] a.sub_req(b);
pub broadcast axiom fn ax_sub_rv(a: &f64, b: f64) ensures #[trigger] a.sub_spec(b) == fsub(*a, b);
pub broadcast axiom fn ax_sub_rr_req(a: &f64, b: &f64) ensures #[trigger] a.sub_req(b);
pub broadcast axiom fn ax_sub_rr(a: &f64, b: &f64) ensures #[trigger] a.sub_spec(b) == fsub(*a, *b);
pub broadcast axiom fn ax_mul_vv_req(a: f64, b: f64) ensures #[trigger] a.mul_req(b);
pub broadcast axiom fn ax_mul_vv(a: f64, b: f64) ensures #[trigger] a.mul_spec(b) == fmul(a, b);
pub broadcast axiom fn ax_mul_vr_req(a: f64, b: &f64) ensures #[trigger] a.mul_req(b);
pub broadcast axiom fn ax_mul_vr(a: f64, b: &f64) ensures #[trigger] a.mul_spec(b) == fmul(a, *b);
pub broadcast axiom fn ax_mul_rv_req(a: &f64, b: f64) ensures #[trigger] a.mul_req(b);
pub broadcast axiom fn ax_mul_rv(a: &f64, b: f64) ensures #[trigger] a.mul_spec(b) == fmul(*a, b);
pub broadcast axiom fn ax_mul_rr_req(a: &f64, b: &f64) ensures #[trigger] a.mul_req(b);
pub broadcast axiom fn ax_mul_rr(a: &f64, b: &f64) ensures #[trigger] a.mul_spec(b) == fmul(*a, *b);
pub broadcast axiom fn ax_div_vv_req(a: f64, b: f64) ensures #[trigger] a.div_req(b);
pub broadcast axiom fn ax_div_vv(a: f64, b: f64) ensures #[trigger] a.div_spec(b) == fdiv(a, b);
pub broadcast axiom fn ax_div_vr_req(a: f64, b: &f64) ensures #[trigger] a.div_req(b);
pub broadcast axiom fn ax_div_vr(a: f64, b: &f64) ensures #[trigger] a.div_spec(b) == fdiv(a, *b);
pub broadcast axiom fn ax_div_rv_req(a: &f64, b: f64) ensures #[trigger] a.div_req(b);
pub broadcast axiom fn ax_div_rv(a: &f64, b: f64) ensures #[trigger] a.div_spec(b) == fdiv(*a, b);
pub broadcast axiom fn ax_div_rr_req(a: &f64, b: &f64) ensures #[trigger] a.div_req(b);
pub broadcast axiom fn ax_div_rr(a: &f64, b: &f64) ensures #[trigger] a.div_spec(b) == fdiv(*a, *b);
pub broadcast axiom fn ax_cmp_v(a: f64, b: f64) ensures #[trigger] a.partial_cmp_spec(&b) == fcmp(a, b);
pub broadcast axiom fn ax_eq_v(a: f64, b: f64) ensures #[trigger] a.eq_spec(&b) == feq(a, b);
pub broadcast axiom fn ax_cmp_r(a: &f64, b: &f64) ensures #[trigger] a.partial_cmp_spec(&b) == fcmp(*a, *b);
pub broadcast axiom fn ax_eq_r(a: &f64, b: &f64) ensures #[trigger] a.eq_spec(&b) == feq(*a, *b);
// IEEE facts about comparison that do not depend on the operands' values (discharged for ALL pairs of
// f64 by the loop-free Kani harness `ieee_cmp_flip`): a < b  <=>  b > a, equality is symmetric, an
// unordered pair is unordered both ways; == agrees with partial_cmp.
pub axiom fn ax_obeys()
    ensures
        forall|a: f64, b: f64| (#[trigger] fcmp(a, b) == Some(core::cmp::Ordering::Less)) == (fcmp(b, a) == Some(core::cmp::Ordering::Greater)),
        forall|a: f64, b: f64| (#[trigger] fcmp(a, b) == Some(core::cmp::Ordering::Equal)) == (fcmp(b, a) == Some(core::cmp::Ordering::Equal)),
        forall|a: f64, b: f64| (#[trigger] fcmp(a, b) is None) == (fcmp(b, a) is None),
        forall|a: f64, b: f64| #[trigger] feq(a, b) == (fcmp(a, b) == Some(core::cmp::Ordering::Equal)),
        // max / min are commutative as far as comparisons can tell (the two results are identical, or +0 / -0,
        // or both NaN): discharged for ALL triples by the loop-free Kani harness `ieee_max_min_commute`
        forall|a: f64, b: f64, c: f64| #[trigger] fcmp(fmaxf(a, b), c) == fcmp(fmaxf(b, a), c),
        forall|a: f64, b: f64, c: f64| #[trigger] fcmp(c, fmaxf(a, b)) == fcmp(c, fmaxf(b, a)),
        forall|a: f64, b: f64, c: f64| #[trigger] fcmp(fminf(a, b), c) == fcmp(fminf(b, a), c),
        forall|a: f64, b: f64, c: f64| #[trigger] fcmp(c, fminf(a, b)) == fcmp(c, fminf(b, a)),
        <f64 as AddSpec<f64>>::obeys_add_spec(),
        <f64 as AddSpec<&f64>>::obeys_add_spec(),
        <&f64 as AddSpec<f64>>::obeys_add_spec(),
        <&f64 as AddSpec<&f64>>::obeys_add_spec(),
        <f64 as SubSpec<f64>>::obeys_sub_spec(),
        <f64 as SubSpec<&f64>>::obeys_sub_spec(),
        <&f64 as SubSpec<f64>>::obeys_sub_spec(),
        <&f64 as SubSpec<&f64>>::obeys_sub_spec(),
        <f64 as MulSpec<f64>>::obeys_mul_spec(),
        <f64 as MulSpec<&f64>>::obeys_mul_spec(),
        <&f64 as MulSpec<f64>>::obeys_mul_spec(),
        <&f64 as MulSpec<&f64>>::obeys_mul_spec(),
        <f64 as DivSpec<f64>>::obeys_div_spec(),
        <f64 as DivSpec<&f64>>::obeys_div_spec(),
        <&f64 as DivSpec<f64>>::obeys_div_spec(),
        <&f64 as DivSpec<&f64>>::obeys_div_spec(),
        <f64 as PartialOrdSpec<f64>>::obeys_partial_cmp_spec(),
        <f64 as PartialEqSpec<f64>>::obeys_eq_spec(),
        <&f64 as PartialOrdSpec<&f64>>::obeys_partial_cmp_spec(),
        <&f64 as PartialEqSpec<&f64>>::obeys_eq_spec(),
;
pub broadcast group fl {
    ax_add_vv_req, ax_add_vv, ax_add_vr_req, ax_add_vr, ax_add_rv_req, ax_add_rv, ax_add_rr_req, ax_add_rr, ax_sub_vv_req, ax_sub_vv, ax_sub_vr_req, ax_sub_vr, ax_sub_rv_req, ax_sub_rv, ax_sub_rr_req, ax_sub_rr, ax_mul_vv_req, ax_mul_vv, ax_mul_vr_req, ax_mul_vr, ax_mul_rv_req, ax_mul_rv, ax_mul_rr_req, ax_mul_rr, ax_div_vv_req, ax_div_vv, ax_div_vr_req, ax_div_vr, ax_div_rv_req, ax_div_rv, ax_div_rr_req, ax_div_rr, ax_cmp_v, ax_eq_v, ax_cmp_r, ax_eq_r
}

// R8: unary minus (this Verus rejects float negation); the wrapper IS the operator.
// (core implements Neg for f64 and for &f64: the wrapper takes either)
pub trait __NegArg: Sized { spec fn negv(self) -> f64; }
impl __NegArg for f64 { open spec fn negv(self) -> f64 { self } }
impl<'a> __NegArg for &'a f64 { open spec fn negv(self) -> f64 { *self } }
#[verifier::external_body]
pub fn __neg<T: __NegArg>(x: T) -> (r: f64)
    ensures r == fneg(x.negv()),
{ unimplemented!() }


// f64 methods used by the extracted code: linked to uninterpreted functions (their IEEE facts, where
// a proof needs one, are separate axioms discharged by loop-free Kani harnesses).
pub uninterp spec fn fmaxf(a: f64, b: f64) -> f64;
pub uninterp spec fn fminf(a: f64, b: f64) -> f64;
pub uninterp spec fn fabsf(a: f64) -> f64;
pub uninterp spec fn fisnan(a: f64) -> bool;
pub uninterp spec fn fisfinite(a: f64) -> bool;
pub uninterp spec fn fisinfinite(a: f64) -> bool;
// IEEE classification facts (discharged for ALL f64 / all pairs by the loop-free Kani harness
// `ieee_classification`): finite <=> neither NaN nor infinite; NaN and infinite exclude each other;
// a pair is unordered exactly when one side is NaN; 0.0 is finite.
pub axiom fn ax_ieee_class()
    ensures
        forall|a: f64| #[trigger] fisfinite(a) == (!fisnan(a) && !fisinfinite(a)),
        forall|a: f64| #[trigger] fisnan(a) ==> !fisinfinite(a),
        forall|a: f64, b: f64| (#[trigger] fcmp(a, b) is None) == (fisnan(a) || fisnan(b)),
        fisfinite(0.0f64),
        // (core::cmp::Ordering has exactly three variants: the Rust enum, opaque to this Verus)
        forall|a: f64, b: f64| #[trigger] fcmp(a, b) is None || fcmp(a, b) == Some(core::cmp::Ordering::Less)
            || fcmp(a, b) == Some(core::cmp::Ordering::Equal) || fcmp(a, b) == Some(core::cmp::Ordering::Greater);
pub uninterp spec fn fpowf(a: f64, b: f64) -> f64;
pub uninterp spec fn ftotalcmp(a: f64, b: f64) -> core::cmp::Ordering;
pub assume_specification [f64::max] (a: f64, b: f64) -> (r: f64) ensures r == fmaxf(a, b);
pub assume_specification [f64::min] (a: f64, b: f64) -> (r: f64) ensures r == fminf(a, b);
pub assume_specification [f64::abs] (a: f64) -> (r: f64) ensures r == fabsf(a);
pub assume_specification [f64::is_nan] (a: f64) -> (r: bool) ensures r == fisnan(a);
pub assume_specification [f64::is_finite] (a: f64) -> (r: bool) ensures r == fisfinite(a);
pub assume_specification [f64::is_infinite] (a: f64) -> (r: bool) ensures r == fisinfinite(a);
// further classification / sign predicates: deterministic functions about which nothing else is known
// (code that switches to one of them no longer verifies against a contract stated with `>`, `is_finite`, ...)
pub uninterp spec fn fisnormal(a: f64) -> bool;
pub uninterp spec fn fissubnormal(a: f64) -> bool;
pub uninterp spec fn fissignpos(a: f64) -> bool;
pub uninterp spec fn fissignneg(a: f64) -> bool;
pub assume_specification [f64::is_normal] (a: f64) -> (r: bool) ensures r == fisnormal(a);
pub assume_specification [f64::is_subnormal] (a: f64) -> (r: bool) ensures r == fissubnormal(a);
pub assume_specification [f64::is_sign_positive] (a: f64) -> (r: bool) ensures r == fissignpos(a);
pub assume_specification [f64::is_sign_negative] (a: f64) -> (r: bool) ensures r == fissignneg(a);
pub assume_specification [f64::powf] (a: f64, b: f64) -> (r: f64) ensures r == fpowf(a, b);
pub assume_specification [f64::total_cmp] (a: &f64, b: &f64) -> (r: core::cmp::Ordering) ensures r == ftotalcmp(*a, *b);

// R9: associated constants this Verus rejects; the wrappers' bodies ARE the constants.
pub uninterp spec fn finf() -> f64;
pub uninterp spec fn fneginf() -> f64;
#[verifier::external_body]
pub fn __inf() -> (r: f64) ensures r == finf() { f64::INFINITY }
#[verifier::external_body]
pub fn __neg_inf() -> (r: f64) ensures r == fneginf() { f64::NEG_INFINITY }
pub assume_specification [core::cmp::Ordering::is_lt] (o: core::cmp::Ordering) -> (r: bool) ensures r == (o == core::cmp::Ordering::Less);
pub assume_specification [core::cmp::Ordering::is_le] (o: core::cmp::Ordering) -> (r: bool) ensures r == (o != core::cmp::Ordering::Greater);
pub assume_specification [core::cmp::Ordering::is_gt] (o: core::cmp::Ordering) -> (r: bool) ensures r == (o == core::cmp::Ordering::Greater);
pub assume_specification [core::cmp::Ordering::is_ge] (o: core::cmp::Ordering) -> (r: bool) ensures r == (o != core::cmp::Ordering::Less);
pub uninterp spec fn fconst_EPSILON() -> f64;
#[verifier::external_body]
pub fn __f64_EPSILON() -> (r: f64) ensures r == fconst_EPSILON() { f64::EPSILON }
pub uninterp spec fn fconst_MAX() -> f64;
#[verifier::external_body]
pub fn __f64_MAX() -> (r: f64) ensures r == fconst_MAX() { f64::MAX }
pub uninterp spec fn fconst_MIN() -> f64;
#[verifier::external_body]
pub fn __f64_MIN() -> (r: f64) ensures r == fconst_MIN() { f64::MIN }
pub uninterp spec fn fconst_MIN_POSITIVE() -> f64;
#[verifier::external_body]
pub fn __f64_MIN_POSITIVE() -> (r: f64) ensures r == fconst_MIN_POSITIVE() { f64::MIN_POSITIVE }
pub uninterp spec fn fconst_NAN() -> f64;
#[verifier::external_body]
pub fn __f64_NAN() -> (r: f64) ensures r == fconst_NAN() { f64::NAN }

// R12: integer-to-float casts (`X as f64`), which this Verus rejects; the wrapper IS the cast.
pub uninterp spec fn u64_to_f64(n: u64) -> f64;
pub uninterp spec fn usize_to_f64(n: usize) -> f64;
pub trait ToF64: Sized {
    spec fn to_f64_spec(self) -> f64;
    fn __to_f64(self) -> (r: f64) ensures r == self.to_f64_spec();
}
impl ToF64 for u64 {
    open spec fn to_f64_spec(self) -> f64 { u64_to_f64(self) }
    #[verifier::external_body]
    fn __to_f64(self) -> (r: f64) { self as f64 }
}
impl ToF64 for usize {
    open spec fn to_f64_spec(self) -> f64 { usize_to_f64(self) }
    #[verifier::external_body]
    fn __to_f64(self) -> (r: f64) { self as f64 }
}
pub fn __as_f64<T: ToF64>(x: T) -> (r: f64) ensures r == x.to_f64_spec() { x.__to_f64() }

// R13: identity on f64 (see rule R13 of the extractor)
pub fn __idf(x: f64) -> (r: f64) ensures r == x { x }

// ---- prelude fragment: ideal.rs ----
// Floating point, layer 2 ("idealised real" mode of DESIGN.md 3.2): machine arithmetic treated as
// mathematical.  rv maps a float to the real it denotes; rounding, overflow, NaN and signed zero are
// ignored.  Used only where the property is a statement of real arithmetic.
pub uninterp spec fn rv(x: f64) -> real;
pub broadcast axiom fn ax_rv_add(a: f64, b: f64) ensures rv(#[trigger] fadd(a, b)) == rv(a) + rv(b);
pub broadcast axiom fn ax_rv_sub(a: f64, b: f64) ensures rv(#[trigger] fsub(a, b)) == rv(a) - rv(b);
pub broadcast axiom fn ax_rv_mul(a: f64, b: f64) ensures rv(#[trigger] fmul(a, b)) == rv(a) * rv(b);
pub broadcast axiom fn ax_rv_div(a: f64, b: f64) ensures rv(b) != 0real ==> rv(#[trigger] fdiv(a, b)) == rv(a) / rv(b);
pub broadcast axiom fn ax_rv_neg(a: f64) ensures rv(#[trigger] fneg(a)) == 0real - rv(a);
pub broadcast axiom fn ax_rv_cmp(a: f64, b: f64)
    ensures #[trigger] fcmp(a, b) == (if rv(a) < rv(b) { Some(core::cmp::Ordering::Less) }
        else if rv(a) == rv(b) { Some(core::cmp::Ordering::Equal) } else { Some(core::cmp::Ordering::Greater) });
pub broadcast axiom fn ax_rv_eq(a: f64, b: f64) ensures #[trigger] feq(a, b) == (rv(a) == rv(b));
pub broadcast axiom fn ax_rv_max(a: f64, b: f64) ensures rv(#[trigger] fmaxf(a, b)) == (if rv(a) >= rv(b) { rv(a) } else { rv(b) });
pub broadcast axiom fn ax_rv_min(a: f64, b: f64) ensures rv(#[trigger] fminf(a, b)) == (if rv(a) <= rv(b) { rv(a) } else { rv(b) });
// (idealised) powf denotes a function of the real values of its arguments
pub uninterp spec fn rpow(x: real, y: real) -> real;
pub broadcast axiom fn ax_rv_powf(a: f64, b: f64) ensures rv(#[trigger] fpowf(a, b)) == rpow(rv(a), rv(b));
pub axiom fn ax_rv_lits()
    ensures rv(0.0f64) == 0real, rv(1.0f64) == 1real, rv(2.0f64) == 2real, rv(0.5f64) * 2real == 1real;
pub broadcast group ideal {
    ax_rv_add, ax_rv_sub, ax_rv_mul, ax_rv_div, ax_rv_neg, ax_rv_cmp, ax_rv_eq, ax_rv_max, ax_rv_min, ax_rv_powf
}
// (idealised) integer-to-float casts are exact
pub broadcast axiom fn ax_rv_u64(n: u64) ensures rv(#[trigger] u64_to_f64(n)) == n as real;
pub broadcast axiom fn ax_rv_usize(n: usize) ensures rv(#[trigger] usize_to_f64(n)) == n as real;
pub broadcast group ideal_casts { ax_rv_u64, ax_rv_usize }

// ---- extracted from src/lib.rs: enum PlayerNum ----
#[derive(Copy, Clone)]
pub enum PlayerNum {
    /// The first player
    One,
    /// The second player
    Two,
}

// PlayerNum::ind / ind_mut use slice patterns in a `match` (rejected by this Verus); they are kept
// external with the two-case spec, and that spec is discharged against the real bodies by the
// loop-free Kani harness `playernum_ind` (so it is cited, not assumed).
impl PlayerNum {
    #[verifier::external_body]
    pub fn ind<'a, T>(&self, arr: &'a [T; 2]) -> (r: &'a T)
        ensures *r == (match *self { PlayerNum::One => arr[0], PlayerNum::Two => arr[1] })
    { unimplemented!() }

    #[verifier::external_body]
    pub fn ind_mut<'a, T>(&self, arr: &'a mut [T; 2]) -> (r: &'a mut T)
        ensures
            *r == (match *self { PlayerNum::One => old(arr)[0], PlayerNum::Two => old(arr)[1] }),
            match *self {
                PlayerNum::One => final(arr)[0] == *final(r) && final(arr)[1] == old(arr)[1],
                PlayerNum::Two => final(arr)[1] == *final(r) && final(arr)[0] == old(arr)[0],
            },
    { unimplemented!() }
}

// ---- extracted from src/lib.rs: enum Node ----
pub enum Node {
    /// A terminal node, the game is over the payoff to player one
    Terminal(f64),
    /// A chance node, the game advances independent of player action
    Chance(Chance),
    /// a node in the tree where the player can choose between different actions
    Player(Player),
}

// ---- extracted from src/lib.rs: struct Chance ----
pub struct Chance {
    pub outcomes: Box<[Node]>,
    pub infoset: usize,
}

// ---- extracted from src/lib.rs: struct Player ----
pub struct Player {
    pub num: PlayerNum,
    pub infoset: usize,
    pub actions: Box<[Node]>,
}

#[verifier::external_body] pub struct AtomicF64 { }
impl AtomicF64 { pub uninterp spec fn id(&self) -> int; }
#[verifier::external_body]
#[verifier::reject_recursive_types(T)]
pub struct Mutex<T> { t: core::marker::PhantomData<T> }
pub enum Ordering { Relaxed }

// ---- extracted from src/solve/vanilla.rs: struct MutexRegretInfoset ----
pub struct MutexRegretInfoset {
    pub cum_regret: Box<[AtomicF64]>,
    pub cum_strat: Mutex<Box<[f64]>>,
    pub strat: Box<[f64]>,
}

// value of the traversal of the subtree below `n` entered with the given reaches (recursive calls of
// recurse_single are bound to it: R5)
pub uninterp spec fn sub_spec(n: Node, p_chance: f64, p_player: [f64; 2]) -> f64;
// counterfactual weight of the acting player's regrets: opponent reach x chance reach, negated for
// player two (payoffs are player one's)
pub open spec fn mult_spec(num: PlayerNum, p_chance: f64, p_player: [f64; 2]) -> real {
    match num { PlayerNum::One => rv(p_chance) * rv(p_player[1]), PlayerNum::Two => 0real - rv(p_player[0]) * rv(p_chance) }
}
pub open spec fn own_reach(num: PlayerNum, p_player: [f64; 2]) -> f64 { match num { PlayerNum::One => p_player[0], PlayerNum::Two => p_player[1] } }
// reach vector handed to the continuation of action a: only the acting player's entry is multiplied by sigma_a
pub open spec fn pnext_ok(num: PlayerNum, p_player: [f64; 2], prob: f64, p_next: [f64; 2]) -> bool {
    match num {
        PlayerNum::One => rv(p_next[0]) == rv(p_player[0]) * rv(prob) && p_next[1] == p_player[1],
        PlayerNum::Two => p_next[0] == p_player[0] && rv(p_next[1]) == rv(p_player[1]) * rv(prob),
    }
}
// u is the value of the subtree below `node`, entered with the SAME chance reach and a reach vector
// in which only the acting player's entry is multiplied by the action's probability
pub open spec fn child_value(node: Node, num: PlayerNum, p_chance: f64, p_player: [f64; 2], prob: f64, u: f64) -> bool {
    exists|pn: [f64; 2]| pnext_ok(num, p_player, prob, pn) && u == #[trigger] sub_spec(node, p_chance, pn)
}
pub open spec fn exp_one(strat: Seq<f64>, us: Seq<f64>, k: int) -> real decreases k {
    if k <= 0 { 0real } else { exp_one(strat, us, k - 1) + rv(strat[k - 1]) * rv(us[k - 1]) }
}
pub open spec fn exp_cf(strat: Seq<f64>, us: Seq<f64>, mult: real, k: int) -> real decreases k {
    if k <= 0 { 0real } else { exp_cf(strat, us, mult, k - 1) + rv(us[k - 1]) * mult * rv(strat[k - 1]) }
}

pub enum Ev {
    // average strategy of infoset `0` += `1` x its current strategy
    Ucs(MutexRegretInfoset, f64),
    // cumulative regret cell `0` += `1`   /   -= `1`
    Add(int, f64),
    Sub(int, f64),
}
#[verifier::external_body] pub struct ChanceTables { }
#[verifier::external_body] pub struct Cache { }
// R16: logged forms of the three effectful calls
#[verifier::external_body]
pub fn __update_cum_strat(info: &MutexRegretInfoset, prob: f64, log: &mut Ghost<Seq<Ev>>)
    ensures final(log)@ == old(log)@.push(Ev::Ucs(*info, prob)),
{ unimplemented!() }
#[verifier::external_body]
pub fn __fetch_sub(cell: &AtomicF64, v: f64, o: Ordering, log: &mut Ghost<Seq<Ev>>)
    ensures final(log)@ == old(log)@.push(Ev::Sub(cell.id(), v)),
{ unimplemented!() }
pub open spec fn rp_ok(us: Seq<f64>, adds: Seq<f64>, player: Player, p_chance: f64, p_player: [f64; 2], strat: Seq<f64>, cells: Seq<AtomicF64>, l_old: Seq<Ev>, l_new: Seq<Ev>, out: (f64, f64)) -> bool {
    us.len() == player.actions@.len() && adds.len() == us.len()
    && (forall|a: int| 0 <= a < us.len() ==> #[trigger] child_value(player.actions@[a], player.num, p_chance, p_player, strat[a], us[a]))
    && (forall|a: int| 0 <= a < us.len() ==> rv(#[trigger] adds[a]) == rv(us[a]) * mult_spec(player.num, p_chance, p_player))
    && l_new == l_old + Seq::new(us.len(), |a: int| Ev::Add(cells[a].id(), adds[a]))
    && rv(out.0) == exp_one(strat, us, us.len() as int)
    && rv(out.1) == exp_cf(strat, us, mult_spec(player.num, p_chance, p_player), us.len() as int)
}
#[verifier::external_body]
pub fn __recurse_player<F: Fn(&Node, [f64; 2]) -> f64>(log: &mut Ghost<Seq<Ev>>, player: &Player, p_chance: f64, p_player: [f64; 2], strat: &[f64], cum_regret: &[AtomicF64], rec: F) -> (out: (f64, f64))
    requires
        forall|n: &Node, pn: [f64; 2]| #[trigger] rec.requires((n, pn)),
        forall|n: &Node, pn: [f64; 2], o: f64| #[trigger] rec.ensures((n, pn), o) ==> o == sub_spec(*n, p_chance, pn),
    ensures
        exists|us: Seq<f64>, adds: Seq<f64>| #[trigger] rp_ok(us, adds, *player, p_chance, p_player, strat@, cum_regret@, old(log)@, final(log)@, out),
{ unimplemented!() }
#[verifier::external_body]
pub fn __rec(node: &Node, chance_infosets: &ChanceTables, player_infosets: [&[MutexRegretInfoset]; 2], p_chance: f64, p_player: [f64; 2], cached: &Cache) -> (r: f64)
    ensures r == sub_spec(*node, p_chance, p_player),
{ unimplemented!() }
// the events one visit of a decision node appends, given the children's values us
pub open spec fn ve_ok(us: Seq<f64>, adds: Seq<f64>, sub: f64, pl: Player, p_chance: f64, p_player: [f64; 2], info: MutexRegretInfoset, res: f64, evs: Seq<Ev>) -> bool {
    let m = mult_spec(pl.num, p_chance, p_player);
    let n = pl.actions@.len() as int;
    us.len() == n && adds.len() == n
        && (forall|a: int| 0 <= a < n ==> #[trigger] child_value(pl.actions@[a], pl.num, p_chance, p_player, info.strat@[a], us[a]))
        && (forall|a: int| 0 <= a < n ==> rv(#[trigger] adds[a]) == rv(us[a]) * m)
        && rv(sub) == exp_cf(info.strat@, us, m, n)
        && rv(res) == exp_one(info.strat@, us, n)
        // average strategy += own reach x strategy; then regret_a += mult x u_a; then regret_a -= sum_b u_b mult sigma_b
        && evs == seq![Ev::Ucs(info, own_reach(pl.num, p_player))]
            + Seq::new(n as nat, |a: int| Ev::Add(info.cum_regret@[a].id(), adds[a]))
            + Seq::new(n as nat, |a: int| Ev::Sub(info.cum_regret@[a].id(), sub))
}
pub open spec fn visit_events(pl: Player, p_chance: f64, p_player: [f64; 2], info: MutexRegretInfoset, res: f64, evs: Seq<Ev>) -> bool {
    exists|us: Seq<f64>, adds: Seq<f64>, sub: f64| #[trigger] ve_ok(us, adds, sub, pl, p_chance, p_player, info, res, evs)
}

// ---- extracted from src/solve/vanilla.rs: fn recurse_multi ----
pub fn recurse_multi__player_arm(player: &Player, chance_infosets: &ChanceTables, player_infosets: [&[MutexRegretInfoset]; 2], p_chance: f64, p_player: [f64; 2], cached: &Cache, log: &mut Ghost<Seq<Ev>>) -> (out: f64)
    requires
        player.infoset < (match player.num { PlayerNum::One => player_infosets[0]@, PlayerNum::Two => player_infosets[1]@ }).len(),
        ({ let i = (match player.num { PlayerNum::One => player_infosets[0]@, PlayerNum::Two => player_infosets[1]@ })[player.infoset as int];
           i.strat@.len() == player.actions@.len() && i.cum_regret@.len() == player.actions@.len() }),
    ensures
        // exactly these updates, on the acting player's infoset of this node, each once
        exists|evs: Seq<Ev>| final(log)@ == old(log)@ + evs && visit_events(*player, p_chance, p_player,
            (match player.num { PlayerNum::One => player_infosets[0]@, PlayerNum::Two => player_infosets[1]@ })[player.infoset as int], out, evs), // @ob C08.V.recurse_multi.player_arm
{
broadcast use fl; broadcast use ideal;
proof { ax_obeys(); ax_rv_lits(); }
let ghost l0 = log@;
let ghost inf = (match player.num { PlayerNum::One => player_infosets[0]@, PlayerNum::Two => player_infosets[1]@ })[player.infoset as int];
let ghost n = player.actions@.len() as int;

                // get infoset
                let info = &player.num.ind(&player_infosets)[player.infoset];
                __update_cum_strat(info, *player.num.ind(&p_player), log); let ghost lu = log@;
                let (res, sub) = __recurse_player(log, 
                    player,
                    p_chance,
                    p_player,
                    &info.strat,
                    &*info.cum_regret,
                    |next: &Node, p_next: [f64; 2]| -> (o: f64) ensures o == sub_spec(*next, p_chance, p_next) {
                        __rec(next,
                            chance_infosets,
                            player_infosets,
                            p_chance,
                            p_next,
                            cached,
                        )
                    },
                );
                let ghost l1 = log@;
for val in it: info.cum_regret.iter() 
invariant
    0 <= it.index@ <= n, n == inf.cum_regret@.len(), *info == inf,
    log@ == l1 + Seq::new(it.index@ as nat, |a: int| Ev::Sub(inf.cum_regret@[a].id(), sub)),
{
let ghost k = it.index@ as int;
let ghost lb = log@;

                    __fetch_sub(val, sub, Ordering::Relaxed, log);
                
proof {
    assert(*val == inf.cum_regret@[k]);
    assert(log@ =~= l1 + Seq::new((k + 1) as nat, |a: int| Ev::Sub(inf.cum_regret@[a].id(), sub)));
}
}
let ghost l2 = log@;

                proof {
    assert(*info == inf);
    let (us, adds) = choose|us: Seq<f64>, adds: Seq<f64>| #[trigger] rp_ok(us, adds, *player, p_chance, p_player, inf.strat@, inf.cum_regret@, lu, l1, (res, sub));
    let evs = seq![Ev::Ucs(inf, own_reach(player.num, p_player))]
        + Seq::new(n as nat, |a: int| Ev::Add(inf.cum_regret@[a].id(), adds[a]))
        + Seq::new(n as nat, |a: int| Ev::Sub(inf.cum_regret@[a].id(), sub));
    assert(log@ =~= l0 + evs);
    assert(ve_ok(us, adds, sub, *player, p_chance, p_player, inf, res, evs));
}
res
            }


// vacuity canary: must be REJECTED by the verifier (an inconsistent axiom set would accept it)
pub proof fn __canary_must_fail()
    ensures false, // @ob __canary
{
    broadcast use fl; broadcast use ideal; ax_obeys(); ax_rv_lits();
}

} // verus!
fn main() {}
