#![feature(sized_hierarchy)]
#![feature(allocator_api)]
#![allow(unused_imports, unused_variables, dead_code, unused_mut, unused_parens, unused_braces, non_snake_case)]
use vstd::prelude::*;
use vstd::std_specs::ops::*;
use vstd::std_specs::cmp::*;
use vstd::float::*;
use vstd::std_specs::iter::IteratorSpec;
verus! {
// ---- prelude fragment: floats.rs ----
// Floating point, layer 1 ("uninterpreted" mode of DESIGN.md 3.2): every f64 operator instance the
// language can produce is linked to ONE total, deterministic, otherwise unknown function of the
// operand values.  Nothing about IEEE-754 is assumed here.
pub uninterp spec fn fadd(a: f64, b: f64) -> f64;
pub uninterp spec fn fsub(a: f64, b: f64) -> f64;
pub uninterp spec fn fmul(a: f64, b: f64) -> f64;
pub uninterp spec fn fdiv(a: f64, b: f64) -> f64;
pub uninterp spec fn fneg(a: f64) -> f64;
pub uninterp spec fn fcmp(a: f64, b: f64) -> Option<core::cmp::Ordering>;
pub uninterp spec fn feq(a: f64, b: f64) -> bool;
pub open spec fn flt(a: f64, b: f64) -> bool { fcmp(a, b) == Some(core::cmp::Ordering::Less) }
pub open spec fn fgt(a: f64, b: f64) -> bool { fcmp(a, b) == Some(core::cmp::Ordering::Greater) }
pub open spec fn fle(a: f64, b: f64) -> bool { fcmp(a, b) == Some(core::cmp::Ordering::Less) || fcmp(a, b) == Some(core::cmp::Ordering::Equal) }
pub open spec fn fge(a: f64, b: f64) -> bool { fcmp(a, b) == Some(core::cmp::Ordering::Greater) || fcmp(a, b) == Some(core::cmp::Ordering::Equal) }

pub broadcast axiom fn ax_add_vv_req(a: f64, b: f64) ensures #[trigger] a.add_req(b);
pub broadcast axiom fn ax_add_vv(a: f64, b: f64) ensures #[trigger] a.add_spec(b) == fadd(a, b);
pub broadcast axiom fn ax_add_vr_req(a: f64, b: &f64) ensures #[trigger] a.add_req(b);
pub broadcast axiom fn ax_add_vr(a: f64, b: &f64) ensures #[trigger] a.add_spec(b) == fadd(a, *b);
pub broadcast axiom fn ax_add_rv_req(a: &f64, b: f64) ensures #[trigger] a.add_req(b);
pub broadcast axiom fn ax_add_rv(a: &f64, b: f64) ensures #[trigger] a.add_spec(b) == fadd(*a, b);
pub broadcast axiom fn ax_add_rr_req(a: &f64, b: &f64) ensures #[trigger] a.add_req(b);
pub broadcast axiom fn ax_add_rr(a: &f64, b: &f64) ensures #[trigger] a.add_spec(b) == fadd(*a, *b);
pub broadcast axiom fn ax_sub_vv_req(a: f64, b: f64) ensures #[trigger] a.sub_req(b);
pub broadcast axiom fn ax_sub_vv(a: f64, b: f64) ensures #[trigger] a.sub_spec(b) == fsub(a, b);
pub broadcast axiom fn ax_sub_vr_req(a: f64, b: &f64) ensures #[trigger] a.sub_req(b);
pub broadcast axiom fn ax_sub_vr(a: f64, b: &f64) ensures #[trigger] a.sub_spec(b) == fsub(a, *b);
pub broadcast axiom fn ax_sub_rv_req(a: &f64, b: f64) ensures #[trigger] a.sub_req(b);
pub broadcast axiom fn ax_sub_rv(a: &f64, b: f64) ensures #[trigger] a.sub_spec(b) == fsub(*a, b);
pub broadcast axiom fn ax_sub_rr_req(a: &f64, b: &f64) ensures #[trigger] a.sub_req(b);
pub broadcast axiom fn ax_sub_rr(a: &f64, b: &f64) ensures #[trigger] a.sub_spec(b) == fsub(*a, *b);
pub broadcast axiom fn ax_mul_vv_req(a: f64, b: f64) ensures #[trigger] a.mul_req(b);
pub broadcast axiom fn ax_mul_vv(a: f64, b: f64) ensures #[trigger] a.mul_spec(b) == fmul(a, b);
pub broadcast axiom fn ax_mul_vr_req(a: f64, b: &f64) ensures #[trigger] a.mul_req(b);
pub broadcast axiom fn ax_mul_vr(a: f64, b: &f64) ensures #[trigger] a.mul_spec(b) == fmul(a, *b);
pub broadcast axiom fn ax_mul_rv_req(a: &f64, b: f64) ensures #[trigger] a.mul_req(b);
pub broadcast axiom fn ax_mul_rv(a: &f64, b: f64) ensures #[trigger] a.mul_spec(b) == fmul(*a, b);
pub broadcast axiom fn ax_mul_rr_req(a: &f64, b: &f64) ensures #[trigger] a.mul_req(b);
pub broadcast axiom fn ax_mul_rr(a: &f64, b: &f64) ensures #[trigger] a.mul_spec(b) == fmul(*a, *b);
pub broadcast axiom fn ax_div_vv_req(a: f64, b: f64) ensures #[trigger] a.div_req(b);
pub broadcast axiom fn ax_div_vv(a: f64, b: f64) ensures #[trigger] a.div_spec(b) == fdiv(a, b);
pub broadcast axiom fn ax_div_vr_req(a: f64, b: &f64) ensures #[trigger] a.div_req(b);
pub broadcast axiom fn ax_div_vr(a: f64, b: &f64) ensures #[trigger] a.div_spec(b) == fdiv(a, *b);
pub broadcast axiom fn ax_div_rv_req(a: &f64, b: f64) ensures #[trigger] a.div_req(b);
pub broadcast axiom fn ax_div_rv(a: &f64, b: f64) ensures #[trigger] a.div_spec(b) == fdiv(*a, b);
pub broadcast axiom fn ax_div_rr_req(a: &f64, b: &f64) ensures #[trigger] a.div_req(b);
pub broadcast axiom fn ax_div_rr(a: &f64, b: &f64) ensures #[trigger] a.div_spec(b) == fdiv(*a, *b);
pub broadcast axiom fn ax_cmp_v(a: f64, b: f64) ensures #[trigger] a.partial_cmp_spec(&b) == fcmp(a, b);
pub broadcast axiom fn ax_eq_v(a: f64, b: f64) ensures #[trigger] a.eq_spec(&b) == feq(a, b);
pub broadcast axiom fn ax_cmp_r(a: &f64, b: &f64) ensures #[trigger] a.partial_cmp_spec(&b) == fcmp(*a, *b);
pub broadcast axiom fn ax_eq_r(a: &f64, b: &f64) ensures #[trigger] a.eq_spec(&b) == feq(*a, *b);
// IEEE facts about comparison that do not depend on the operands' values (discharged for ALL pairs of
// f64 by the loop-free Kani harness `ieee_cmp_flip`): a < b  <=>  b > a, equality is symmetric, an
// unordered pair is unordered both ways; == agrees with partial_cmp.
pub axiom fn ax_obeys()
    ensures
        forall|a: f64, b: f64| (#[trigger] fcmp(a, b) == Some(core::cmp::Ordering::Less)) == (fcmp(b, a) == Some(core::cmp::Ordering::Greater)),
        forall|a: f64, b: f64| (#[trigger] fcmp(a, b) == Some(core::cmp::Ordering::Equal)) == (fcmp(b, a) == Some(core::cmp::Ordering::Equal)),
        forall|a: f64, b: f64| (#[trigger] fcmp(a, b) is None) == (fcmp(b, a) is None),
        forall|a: f64, b: f64| #[trigger] feq(a, b) == (fcmp(a, b) == Some(core::cmp::Ordering::Equal)),
        // max / min are commutative as far as comparisons can tell (the two results are identical, or +0 / -0,
        // or both NaN): discharged for ALL triples by the loop-free Kani harness `ieee_max_min_commute`
        forall|a: f64, b: f64, c: f64| #[trigger] fcmp(fmaxf(a, b), c) == fcmp(fmaxf(b, a), c),
        forall|a: f64, b: f64, c: f64| #[trigger] fcmp(c, fmaxf(a, b)) == fcmp(c, fmaxf(b, a)),
        forall|a: f64, b: f64, c: f64| #[trigger] fcmp(fminf(a, b), c) == fcmp(fminf(b, a), c),
        forall|a: f64, b: f64, c: f64| #[trigger] fcmp(c, fminf(a, b)) == fcmp(c, fminf(b, a)),
        <f64 as AddSpec<f64>>::obeys_add_spec(),
        <f64 as AddSpec<&f64>>::obeys_add_spec(),
        <&f64 as AddSpec<f64>>::obeys_add_spec(),
        <&f64 as AddSpec<&f64>>::obeys_add_spec(),
        <f64 as SubSpec<f64>>::obeys_sub_spec(),
        <f64 as SubSpec<&f64>>::obeys_sub_spec(),
        <&f64 as SubSpec<f64>>::obeys_sub_spec(),
        <&f64 as SubSpec<&f64>>::obeys_sub_spec(),
        <f64 as MulSpec<f64>>::obeys_mul_spec(),
        <f64 as MulSpec<&f64>>::obeys_mul_spec(),
        <&f64 as MulSpec<f64>>::obeys_mul_spec(),
        <&f64 as MulSpec<&f64>>::obeys_mul_spec(),
        <f64 as DivSpec<f64>>::obeys_div_spec(),
        <f64 as DivSpec<&f64>>::obeys_div_spec(),
        <&f64 as DivSpec<f64>>::obeys_div_spec(),
        <&f64 as DivSpec<&f64>>::obeys_div_spec(),
        <f64 as PartialOrdSpec<f64>>::obeys_partial_cmp_spec(),
        <f64 as PartialEqSpec<f64>>::obeys_eq_spec(),
        <&f64 as PartialOrdSpec<&f64>>::obeys_partial_cmp_spec(),
        <&f64 as PartialEqSpec<&f64>>::obeys_eq_spec(),
;
pub broadcast group fl {
    ax_add_vv_req, ax_add_vv, ax_add_vr_req, ax_add_vr, ax_add_rv_req, ax_add_rv, ax_add_rr_req, ax_add_rr, ax_sub_vv_req, ax_sub_vv, ax_sub_vr_req, ax_sub_vr, ax_sub_rv_req, ax_sub_rv, ax_sub_rr_req, ax_sub_rr, ax_mul_vv_req, ax_mul_vv, ax_mul_vr_req, ax_mul_vr, ax_mul_rv_req, ax_mul_rv, ax_mul_rr_req, ax_mul_rr, ax_div_vv_req, ax_div_vv, ax_div_vr_req, ax_div_vr, ax_div_rv_req, ax_div_rv, ax_div_rr_req, ax_div_rr, ax_cmp_v, ax_eq_v, ax_cmp_r, ax_eq_r
}

// R8: unary minus (this Verus rejects float negation); the wrapper IS the operator.
// (core implements Neg for f64 and for &f64: the wrapper takes either)
pub trait __NegArg: Sized { spec fn negv(self) -> f64; }
impl __NegArg for f64 { open spec fn negv(self) -> f64 { self } }
impl<'a> __NegArg for &'a f64 { open spec fn negv(self) -> f64 { *self } }
#[verifier::external_body]
pub fn __neg<T: __NegArg>(x: T) -> (r: f64)
    ensures r == fneg(x.negv()),
{ unimplemented!() }


// f64 methods used by the extracted code: linked to uninterpreted functions (their IEEE facts, where
// a proof needs one, are separate axioms discharged by loop-free Kani harnesses).
pub uninterp spec fn fmaxf(a: f64, b: f64) -> f64;
pub uninterp spec fn fminf(a: f64, b: f64) -> f64;
pub uninterp spec fn fabsf(a: f64) -> f64;
pub uninterp spec fn fisnan(a: f64) -> bool;
pub uninterp spec fn fisfinite(a: f64) -> bool;
pub uninterp spec fn fisinfinite(a: f64) -> bool;
// IEEE classification facts (discharged for ALL f64 / all pairs by the loop-free Kani harness
// `ieee_classification`): finite <=> neither NaN nor infinite; NaN and infinite exclude each other;
// a pair is unordered exactly when one side is NaN; 0.0 is finite.
pub axiom fn ax_ieee_class()
    ensures
        forall|a: f64| #[trigger] fisfinite(a) == (!fisnan(a) && !fisinfinite(a)),
        forall|a: f64| #[trigger] fisnan(a) ==> !fisinfinite(a),
        forall|a: f64, b: f64| (#[trigger] fcmp(a, b) is None) == (fisnan(a) || fisnan(b)),
        fisfinite(0.0f64),
        // (core::cmp::Ordering has exactly three variants: the Rust enum, opaque to this Verus)
        forall|a: f64, b: f64| #[trigger] fcmp(a, b) is None || fcmp(a, b) == Some(core::cmp::Ordering::Less)
            || fcmp(a, b) == Some(core::cmp::Ordering::Equal) || fcmp(a, b) == Some(core::cmp::Ordering::Greater);
pub uninterp spec fn fpowf(a: f64, b: f64) -> f64;
pub uninterp spec fn ftotalcmp(a: f64, b: f64) -> core::cmp::Ordering;
pub assume_specification [f64::max] (a: f64, b: f64) -> (r: f64) ensures r == fmaxf(a, b);
pub assume_specification [f64::min] (a: f64, b: f64) -> (r: f64) ensures r == fminf(a, b);
pub assume_specification [f64::abs] (a: f64) -> (r: f64) ensures r == fabsf(a);
pub assume_specification [f64::is_nan] (a: f64) -> (r: bool) ensures r == fisnan(a);
pub assume_specification [f64::is_finite] (a: f64) -> (r: bool) ensures r == fisfinite(a);
pub assume_specification [f64::is_infinite] (a: f64) -> (r: bool) ensures r == fisinfinite(a);
// further classification / sign predicates: deterministic functions about which nothing else is known
// (code that switches to one of them no longer verifies against a contract stated with `>`, `is_finite`, ...)
pub uninterp spec fn fisnormal(a: f64) -> bool;
pub uninterp spec fn fissubnormal(a: f64) -> bool;
pub uninterp spec fn fissignpos(a: f64) -> bool;
pub uninterp spec fn fissignneg(a: f64) -> bool;
pub assume_specification [f64::is_normal] (a: f64) -> (r: bool) ensures r == fisnormal(a);
pub assume_specification [f64::is_subnormal] (a: f64) -> (r: bool) ensures r == fissubnormal(a);
pub assume_specification [f64::is_sign_positive] (a: f64) -> (r: bool) ensures r == fissignpos(a);
pub assume_specification [f64::is_sign_negative] (a: f64) -> (r: bool) ensures r == fissignneg(a);
pub assume_specification [f64::powf] (a: f64, b: f64) -> (r: f64) ensures r == fpowf(a, b);
pub assume_specification [f64::total_cmp] (a: &f64, b: &f64) -> (r: core::cmp::Ordering) ensures r == ftotalcmp(*a, *b);

// R9: associated constants this Verus rejects; the wrappers' bodies ARE the constants.
pub uninterp spec fn finf() -> f64;
pub uninterp spec fn fneginf() -> f64;
#[verifier::external_body]
pub fn __inf() -> (r: f64) ensures r == finf() { f64::INFINITY }
#[verifier::external_body]
pub fn __neg_inf() -> (r: f64) ensures r == fneginf() { f64::NEG_INFINITY }
pub assume_specification [core::cmp::Ordering::is_lt] (o: core::cmp::Ordering) -> (r: bool) ensures r == (o == core::cmp::Ordering::Less);
pub assume_specification [core::cmp::Ordering::is_le] (o: core::cmp::Ordering) -> (r: bool) ensures r == (o != core::cmp::Ordering::Greater);
pub assume_specification [core::cmp::Ordering::is_gt] (o: core::cmp::Ordering) -> (r: bool) ensures r == (o == core::cmp::Ordering::Greater);
pub assume_specification [core::cmp::Ordering::is_ge] (o: core::cmp::Ordering) -> (r: bool) ensures r == (o != core::cmp::Ordering::Less);
pub uninterp spec fn fconst_EPSILON() -> f64;
#[verifier::external_body]
pub fn __f64_EPSILON() -> (r: f64) ensures r == fconst_EPSILON() { f64::EPSILON }
pub uninterp spec fn fconst_MAX() -> f64;
#[verifier::external_body]
pub fn __f64_MAX() -> (r: f64) ensures r == fconst_MAX() { f64::MAX }
pub uninterp spec fn fconst_MIN() -> f64;
#[verifier::external_body]
pub fn __f64_MIN() -> (r: f64) ensures r == fconst_MIN() { f64::MIN }
pub uninterp spec fn fconst_MIN_POSITIVE() -> f64;
#[verifier::external_body]
pub fn __f64_MIN_POSITIVE() -> (r: f64) ensures r == fconst_MIN_POSITIVE() { f64::MIN_POSITIVE }
pub uninterp spec fn fconst_NAN() -> f64;
#[verifier::external_body]
pub fn __f64_NAN() -> (r: f64) ensures r == fconst_NAN() { f64::NAN }

// R12: integer-to-float casts (`X as f64`), which this Verus rejects; the wrapper IS the cast.
pub uninterp spec fn u64_to_f64(n: u64) -> f64;
pub uninterp spec fn usize_to_f64(n: usize) -> f64;
pub trait ToF64: Sized {
    spec fn to_f64_spec(self) -> f64;
    fn __to_f64(self) -> (r: f64) ensures r == self.to_f64_spec();
}
impl ToF64 for u64 {
    open spec fn to_f64_spec(self) -> f64 { u64_to_f64(self) }
    #[verifier::external_body]
    fn __to_f64(self) -> (r: f64) { self as f64 }
}
impl ToF64 for usize {
    open spec fn to_f64_spec(self) -> f64 { usize_to_f64(self) }
    #[verifier::external_body]
    fn __to_f64(self) -> (r: f64) { self as f64 }
}
pub fn __as_f64<T: ToF64>(x: T) -> (r: f64) ensures r == x.to_f64_spec() { x.__to_f64() }

// R13: identity on f64 (see rule R13 of the extractor)
pub fn __idf(x: f64) -> (r: f64) ensures r == x { x }

// ---- extracted from src/solve/data.rs: struct RegretParams ----
#[derive(Clone, Copy)]
pub struct RegretParams {
    /// The discount factor for positive cumulative regret or `α`.
    ///
    /// Positive cumulative regrets are discounted by `tᵅ/(tᵅ + 1)` every iteration `t`. Setting
    /// alpha closer to infinity implies no discounting, while setting it at negative infinity
    /// means imediate forgetting. Note that any non-positive value is probably not desired.
    pub pos_regret: f64,
    /// The discount factor for negative cumulative regret or `β`
    ///
    /// Negative cumulative regrets are discounted by `tᵝ/(tᵝ + 1)` every iteration `t`. The
    /// values are the same as for positive regrets. Setting this to a non-positive value will
    /// prevent the cumulative regret of negative regret actions from approaching negative
    /// infinity, which can make pruning negative regret actions impossible.
    pub neg_regret: f64,
    /// The average strategy discount factor `γ`
    ///
    /// The average strategy is discounted by `(ᵗ⁄ₜ₊₁)ᵞ` every iteration t, which is equivalent to
    /// weighting each strategy update by `tᵞ`.
    pub strat: f64,
    /// The scale for picking a strategy when all regrets are negative
    ///
    /// If all actions have negative regret, the chosen strategy can be anything. We use the
    /// softmax of the regrets times this weight. Setting it to infinity is the same as always
    /// playing the strategy with the highest regret. Zero is equivalent to playing each action
    /// uniformly. No other values are recommend, but interpolate between those extremes.
    pub no_positive: f64,
}

// R5: the four update helpers of RegretParams seen from their callers: each is a PURE function of its
// arguments with a frame (regret_match and cum_regret do not modify the regrets).  These contracts
// are discharged per helper by Kani harnesses on the real bodies (c08_regret_match_*,
// c08_discount_cum_regret, c08_discount_average_strat, c02_cum_regret_formula: formula + frame,
// bounded to slices of length <= 3), so they are cited at the bounded level, assumed beyond it.
pub uninterp spec fn rm_spec(p: RegretParams, cum_reg: Seq<f64>) -> Seq<f64>;
pub uninterp spec fn dcr_spec(p: RegretParams, it: u64, cum_reg: Seq<f64>) -> Seq<f64>;
pub uninterp spec fn das_spec(p: RegretParams, it: u64, avg: Seq<f64>) -> Seq<f64>;
pub uninterp spec fn cr_spec(p: RegretParams, it: u64, cum_reg: Seq<f64>) -> f64;
impl RegretParams {
    #[verifier::external_body]
    pub fn regret_match(&self, cum_reg: &mut [f64], strat: &mut [f64])
        ensures final(strat)@ == rm_spec(*self, old(cum_reg)@), final(cum_reg)@ == old(cum_reg)@,
    { unimplemented!() }
    #[verifier::external_body]
    pub fn discount_cum_regret(&self, it: u64, cum_reg: &mut [f64])
        ensures final(cum_reg)@ == dcr_spec(*self, it, old(cum_reg)@),
    { unimplemented!() }
    #[verifier::external_body]
    pub fn discount_average_strat(&self, it: u64, avg_strat: &mut [f64])
        ensures final(avg_strat)@ == das_spec(*self, it, old(avg_strat)@),
    { unimplemented!() }
    #[verifier::external_body]
    pub fn cum_regret(&self, it: u64, cum_reg: &mut [f64]) -> (r: f64)
        ensures r == cr_spec(*self, it, old(cum_reg)@), final(cum_reg)@ == old(cum_reg)@,
    { unimplemented!() }
}

// ---- extracted from src/solve/data.rs: struct RegretInfoset ----
pub struct RegretInfoset {
    pub cum_regret: Box<[f64]>,
    pub cum_strat: Box<[f64]>,
    pub strat: Box<[f64]>,
}

pub trait PlayerRecurse {
    fn update_cum_strat(&mut self, prob: f64);
    fn advance(&mut self, it: u64, params: &RegretParams) -> f64;
}
pub struct Player { }
pub struct Node { }
pub trait ActiveInfo {
    // callers pass the loop variable of `for it in 1..=max_iter`
    fn advance<const FIRST: bool>(&mut self, it: u64, params: &RegretParams) -> f64
        requires it >= 1;
}

// ---- extracted from src/solve/vanilla.rs: impl PlayerRecurse for RegretInfoset ----
impl PlayerRecurse for RegretInfoset {
fn advance(&mut self, it: u64, params: &RegretParams) -> (r: f64) 
    ensures
        // textbook order: the next strategy is matched on the regrets BEFORE discounting ...
        final(self).strat@ == rm_spec(*params, old(self).cum_regret@), // @ob C08.V.advance.match_before_discount
        // ... then regrets and average strategy are discounted with the caller's iteration number ...
        final(self).cum_regret@ == dcr_spec(*params, it, old(self).cum_regret@), // @ob C08.V.advance.discount_regrets
        final(self).cum_strat@ == das_spec(*params, it, old(self).cum_strat@), // @ob C08.V.advance.discount_average
        // ... and the reported bound is that of the regrets AFTER discounting, same iteration number
        r == cr_spec(*params, it, final(self).cum_regret@), // @ob C02.V.advance.reports_bound
{
        params.regret_match(&mut *self.cum_regret, &mut self.strat);
        params.discount_cum_regret(it, &mut *self.cum_regret);
        params.discount_average_strat(it, &mut self.cum_strat);
        params.cum_regret(it, &mut *self.cum_regret)
    }
}

// R5: std::sync::Mutex as far as `advance` uses it: get_mut() on an exclusively borrowed mutex
// returns the protected value (lock poisoning -- the Err case -- is not modelled: assumed Ok)
#[derive(Debug)]
pub struct PoisonError { }
pub struct Mutex<T> { pub inner: T }
impl<T> Mutex<T> {
    #[verifier::external_body]
    pub fn get_mut(&mut self) -> (r: Result<&mut T, PoisonError>)
        ensures r is Ok, *(r->Ok_0) == old(self).inner, final(self).inner == *final(r->Ok_0),
    { unimplemented!() }
}
pub trait MutexPlayerRecurse {
    fn advance(&mut self, it: u64, params: &RegretParams) -> f64;
}

// ---- extracted from src/solve/vanilla.rs: struct MutexRegretInfoset ----
pub struct MutexRegretInfoset {
    pub cum_regret: Box<[f64]>,
    pub cum_strat: Mutex<Box<[f64]>>,
    pub strat: Box<[f64]>,
}

// ---- extracted from src/solve/vanilla.rs: impl MutexPlayerRecurse for MutexRegretInfoset ----
impl MutexPlayerRecurse for MutexRegretInfoset {
fn advance(&mut self, it: u64, params: &RegretParams) -> (r: f64) 
    ensures
        final(self).strat@ == rm_spec(*params, old(self).cum_regret@), // @ob C08.V.advance.match_before_discount
        final(self).cum_regret@ == dcr_spec(*params, it, old(self).cum_regret@), // @ob C08.V.advance.discount_regrets
        final(self).cum_strat.inner@ == das_spec(*params, it, old(self).cum_strat.inner@), // @ob C08.V.advance.discount_average
        r == cr_spec(*params, it, final(self).cum_regret@), // @ob C02.V.advance.reports_bound
{
        params.regret_match(&mut *self.cum_regret, &mut self.strat);
        params.discount_cum_regret(it, &mut *self.cum_regret);
        params.discount_average_strat(it, self.cum_strat.get_mut().unwrap());
        params.cum_regret(it, &mut *self.cum_regret)
    }
}

// ---- extracted from src/solve/external.rs: struct CachedInfoset ----
pub struct CachedInfoset {
    pub reg: RegretInfoset,
    pub cached: usize,
}

// ---- extracted from src/solve/external.rs: impl ActiveInfo for CachedInfoset ----
impl ActiveInfo for CachedInfoset {
fn advance<const FIRST: bool>(&mut self, it: u64, params: &RegretParams) -> (r: f64) 
    ensures
        // textbook order: the next strategy is matched on the regrets BEFORE discounting ...
        final(self).reg.strat@ == rm_spec(*params, old(self).reg.cum_regret@), // @ob C08.V.advance.match_before_discount
        // ... then regrets and average strategy are discounted with the caller's iteration number ...
        final(self).reg.cum_regret@ == dcr_spec(*params, it, old(self).reg.cum_regret@), // @ob C08.V.advance.discount_regrets
        final(self).reg.cum_strat@ == das_spec(*params, (if FIRST { (it - 1) as u64 } else { it }), old(self).reg.cum_strat@), // @ob C08.V.advance.discount_average
        // ... and the reported bound is that of the regrets AFTER discounting, same iteration number
        r == cr_spec(*params, it, final(self).reg.cum_regret@), // @ob C02.V.advance.reports_bound
        final(self).cached == 0, // @ob C10.V.cached_infoset.advance_resets_draw
{
        self.cached = 0;
        params.regret_match(&mut *self.reg.cum_regret, &mut self.reg.strat);
        params.discount_cum_regret(it, &mut *self.reg.cum_regret);
        // NOTE since we alternate updates, when do the first discounting of player one's average
        // strat, they'll actually have nothing acumulated, so we actualy want to update on the
        // second round
        params.discount_average_strat(if FIRST { it - 1 } else { it }, &mut self.reg.cum_strat);
        params.cum_regret(it, &mut *self.reg.cum_regret)
    }
}


// vacuity canary: must be REJECTED by the verifier (an inconsistent axiom set would accept it)
pub proof fn __canary_must_fail()
    ensures false, // @ob __canary
{
    broadcast use fl; ax_obeys();
}

} // verus!
fn main() {}
