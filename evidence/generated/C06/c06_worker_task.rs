#![feature(sized_hierarchy)]
#![feature(allocator_api)]
#![allow(unused_imports, unused_variables, dead_code, unused_mut, unused_parens, unused_braces, non_snake_case)]
use vstd::prelude::*;
use vstd::std_specs::ops::*;
use vstd::std_specs::cmp::*;
use vstd::float::*;
use vstd::std_specs::iter::IteratorSpec;
verus! {
#[verifier::external_body] pub struct ChanceTables { }
#[verifier::external_body] pub struct PlayerTables { }
#[verifier::external_body] pub struct Node { }
// by_address::ByAddress: a key that compares / hashes the ADDRESS of what it wraps
pub struct ByAddress<T>(pub T);
pub struct Unit;
// the traversal below a node (vanilla::recurse_multi / external::recurse_regret), as an uninterpreted
// function of everything it is given: node, tables, reach values, cache (their insides: C08 units, the
// cache contract: c06_recurse_multi_cache / c08_recurse_regret_dispatch)
pub uninterp spec fn rm_spec(node: &Node, ch: &ChanceTables, pl: [&PlayerTables; 2], p_chance: f64, p_player: [f64; 2]) -> f64;
#[verifier::external_body]
pub fn recurse_multi(node: &Node, chance_infosets: &ChanceTables, player_infosets: [&PlayerTables; 2], p_chance: f64, p_player: [f64; 2], cached: &Unit) -> (r: f64)
    ensures r == rm_spec(node, chance_infosets, player_infosets, p_chance, p_player),
{ unimplemented!() }
pub uninterp spec fn rr_spec(first: bool, node: &Node, ch: &ChanceTables, active: &PlayerTables, external: &PlayerTables) -> f64;
#[verifier::external_body]
pub fn recurse_regret<const FIRST: bool>(node: &Node, chance_infosets: &ChanceTables, active_player_infosets: &PlayerTables, external_player_infosets: &PlayerTables, cached: &Unit) -> (r: f64)
    ensures r == rr_spec(FIRST, node, chance_infosets, active_player_infosets, external_player_infosets),
{ unimplemented!() }

// ---- extracted from src/solve/vanilla.rs: fn solve_generic_multi ----
pub fn solve_generic_multi__worker_task<'a>(node: &'a Node, p_chance: f64, p_player: [f64; 2], chance_infosets: ChanceTables, player_one: &PlayerTables, player_two: &PlayerTables) -> (out: (ByAddress<&'a Node>, f64))
    ensures
        // a worker evaluates ITS frontier entry: the traversal below that entry's node with that entry's
        // reach values, the shared tables in player order and an EMPTY cache, and files the payoff under
        // that node's address
        out.0 == ByAddress(node) && out.1 == rm_spec(node, &chance_infosets, [player_one, player_two], p_chance, p_player), // @ob C06.V.worker_task.own_entry
{
                let payoff = recurse_multi(
                    node,
                    &chance_infosets,
                    [player_one, player_two],
                    p_chance,
                    p_player,
                    &Unit,
                );
                (ByAddress(node), payoff)
            }

// ---- extracted from src/solve/external.rs: fn single_player_iter ----
pub fn single_player_iter__worker_task<'a, const FIRST: bool>(node: &'a Node, chance_infosets: &ChanceTables, active_player_infosets: &PlayerTables, external_player_infosets: &PlayerTables) -> (out: (ByAddress<&'a Node>, f64))
    ensures
        // the same for a pass of the external-sampled solver: same FIRST, the updating player's table as the
        // active one, the sampled player's as the external one
        out.0 == ByAddress(node) && out.1 == rr_spec(FIRST, node, chance_infosets, active_player_infosets, external_player_infosets), // @ob C07.V.worker_task.own_entry
{
            let payoff = recurse_regret::<FIRST>(
                node,
                chance_infosets,
                active_player_infosets,
                external_player_infosets,
                &Unit,
            );
            (ByAddress(node), payoff)
        }


// vacuity canary: must be REJECTED by the verifier (an inconsistent axiom set would accept it)
pub proof fn __canary_must_fail()
    ensures false, // @ob __canary
{
    
}

} // verus!
fn main() {}
