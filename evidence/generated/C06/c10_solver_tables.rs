#![feature(sized_hierarchy)]
#![feature(allocator_api)]
#![allow(unused_imports, unused_variables, dead_code, unused_mut, unused_parens, unused_braces, non_snake_case)]
use vstd::prelude::*;
use vstd::std_specs::ops::*;
use vstd::std_specs::cmp::*;
use vstd::float::*;
use vstd::std_specs::iter::IteratorSpec;
verus! {
// ---- extracted from src/solve/vanilla.rs: struct FullChance ----
pub struct FullChance<'a>(pub &'a [f64]);

pub trait ChanceInfoset { spec fn probs_view(&self) -> Seq<f64>; fn probs(&self) -> (r: &[f64]) ensures r@ == self.probs_view(); }
pub trait PlayerInfoset { spec fn num_actions_view(&self) -> usize; fn num_actions(&self) -> (r: usize) ensures r == self.num_actions_view(); }
// per-infoset solver state, as far as the table construction is concerned: its size / its weights
pub struct RegretInfoset { pub n: Ghost<usize> }
impl RegretInfoset { #[verifier::external_body] pub fn new(num_actions: usize) -> (r: Self) ensures r.n@ == num_actions { unimplemented!() } }
pub struct MutexRegretInfoset { pub n: Ghost<usize> }
impl MutexRegretInfoset { #[verifier::external_body] pub fn new(num_actions: usize) -> (r: Self) ensures r.n@ == num_actions { unimplemented!() } }
pub struct CachedInfoset { pub n: Ghost<usize> }
impl CachedInfoset { #[verifier::external_body] pub fn new(num_actions: usize) -> (r: Self) ensures r.n@ == num_actions { unimplemented!() } }
pub struct SampledChance { pub w: Ghost<Seq<f64>> }
impl SampledChance { #[verifier::external_body] pub fn new(probs: &[f64]) -> (r: Self) ensures r.w@ == probs@ { unimplemented!() } }
pub struct RefCell<T> { pub v: T }
impl<T> RefCell<T> { pub fn new(v: T) -> (r: Self) ensures r.v == v { RefCell { v } } }
pub struct Mutex<T> { pub v: T }
impl<T> Mutex<T> { pub fn new(v: T) -> (r: Self) ensures r.v == v { Mutex { v } } }
// what a chance-infoset entry of a solver table is: an enumerating one (all outcomes with their declared
// probabilities, no draw) or a sampling one (draws from the declared weights)
pub trait ChanceEntry { spec fn samples(&self) -> bool; spec fn weights(&self) -> Seq<f64>; }
impl<'a> ChanceEntry for FullChance<'a> { open spec fn samples(&self) -> bool { false } open spec fn weights(&self) -> Seq<f64> { self.0@ } }
impl ChanceEntry for RefCell<SampledChance> { open spec fn samples(&self) -> bool { true } open spec fn weights(&self) -> Seq<f64> { self.v.w@ } }
impl ChanceEntry for Mutex<SampledChance> { open spec fn samples(&self) -> bool { true } open spec fn weights(&self) -> Seq<f64> { self.v.w@ } }
pub fn __expect_chance<E: ChanceEntry>(e: E, Ghost(samples): Ghost<bool>, Ghost(w): Ghost<Seq<f64>>)
    requires e.samples() == samples, e.weights() == w,
{ }
pub trait PlayerEntry { spec fn size(&self) -> usize; }
impl PlayerEntry for RefCell<RegretInfoset> { open spec fn size(&self) -> usize { self.v.n@ } }
impl PlayerEntry for MutexRegretInfoset { open spec fn size(&self) -> usize { self.n@ } }
impl PlayerEntry for RefCell<CachedInfoset> { open spec fn size(&self) -> usize { self.v.n@ } }
impl PlayerEntry for Mutex<CachedInfoset> { open spec fn size(&self) -> usize { self.v.n@ } }
pub fn __expect_player<E: PlayerEntry>(e: E, Ghost(n): Ghost<usize>)
    requires e.size() == n,
{ }

// ---- extracted from src/solve/vanilla.rs: fn solve_full_single ----
pub fn solve_full_single__player_entry<PI: PlayerInfoset>(info: &PI)
{
__expect_player(RefCell::new(RegretInfoset::new(info.num_actions())), Ghost(info.num_actions_view()))
}

// ---- extracted from src/solve/vanilla.rs: fn solve_full_single ----
pub fn solve_full_single__chance_entry<CI: ChanceInfoset>(info: &CI)
{
__expect_chance(FullChance(info.probs()), Ghost(false), Ghost(info.probs_view()))
}

// ---- extracted from src/solve/vanilla.rs: fn solve_full_multi ----
pub fn solve_full_multi__player_entry<PI: PlayerInfoset>(info: &PI)
{
__expect_player(MutexRegretInfoset::new(info.num_actions()), Ghost(info.num_actions_view()))
}

// ---- extracted from src/solve/vanilla.rs: fn solve_full_multi ----
pub fn solve_full_multi__chance_entry<CI: ChanceInfoset>(info: &CI)
{
__expect_chance(FullChance(info.probs()), Ghost(false), Ghost(info.probs_view()))
}

// ---- extracted from src/solve/vanilla.rs: fn solve_sampled_single ----
pub fn solve_sampled_single__player_entry<PI: PlayerInfoset>(info: &PI)
{
__expect_player(RefCell::new(RegretInfoset::new(info.num_actions())), Ghost(info.num_actions_view()))
}

// ---- extracted from src/solve/vanilla.rs: fn solve_sampled_single ----
pub fn solve_sampled_single__chance_entry<CI: ChanceInfoset>(info: &CI)
{
__expect_chance(RefCell::new(SampledChance::new(info.probs())), Ghost(true), Ghost(info.probs_view()))
}

// ---- extracted from src/solve/vanilla.rs: fn solve_sampled_multi ----
pub fn solve_sampled_multi__player_entry<PI: PlayerInfoset>(info: &PI)
{
__expect_player(MutexRegretInfoset::new(info.num_actions()), Ghost(info.num_actions_view()))
}

// ---- extracted from src/solve/vanilla.rs: fn solve_sampled_multi ----
pub fn solve_sampled_multi__chance_entry<CI: ChanceInfoset>(info: &CI)
{
__expect_chance(Mutex::new(SampledChance::new(info.probs())), Ghost(true), Ghost(info.probs_view()))
}

// ---- extracted from src/solve/external.rs: fn solve_external_single ----
pub fn solve_external_single__chance_entry<CI: ChanceInfoset>(info: &CI)
{
__expect_chance(RefCell::new(SampledChance::new(info.probs())), Ghost(true), Ghost(info.probs_view()))
}

// ---- extracted from src/solve/external.rs: fn solve_external_single ----
pub fn solve_external_single__player_entry<PI: PlayerInfoset>(info: &PI)
{
__expect_player(RefCell::new(CachedInfoset::new(info.num_actions())), Ghost(info.num_actions_view()))
}

// ---- extracted from src/solve/external.rs: fn solve_external_multi ----
pub fn solve_external_multi__chance_entry<CI: ChanceInfoset>(info: &CI)
{
__expect_chance(Mutex::new(SampledChance::new(info.probs())), Ghost(true), Ghost(info.probs_view()))
}

// ---- extracted from src/solve/external.rs: fn solve_external_multi ----
pub fn solve_external_multi__player_entry<PI: PlayerInfoset>(info: &PI)
{
__expect_player(Mutex::new(CachedInfoset::new(info.num_actions())), Ghost(info.num_actions_view()))
}


// vacuity canary: must be REJECTED by the verifier (an inconsistent axiom set would accept it)
pub proof fn __canary_must_fail()
    ensures false, // @ob __canary
{
    
}

} // verus!
fn main() {}
