#![feature(sized_hierarchy)]
#![feature(allocator_api)]
#![allow(unused_imports, unused_variables, dead_code, unused_mut, unused_parens, unused_braces, non_snake_case)]
use vstd::prelude::*;
use vstd::std_specs::ops::*;
use vstd::std_specs::cmp::*;
use vstd::float::*;
use vstd::std_specs::iter::IteratorSpec;
verus! {
// ---- prelude fragment: floats.rs ----
// Floating point, layer 1 ("uninterpreted" mode of DESIGN.md 3.2): every f64 operator instance the
// language can produce is linked to ONE total, deterministic, otherwise unknown function of the
// operand values.  Nothing about IEEE-754 is assumed here.
pub uninterp spec fn fadd(a: f64, b: f64) -> f64;
pub uninterp spec fn fsub(a: f64, b: f64) -> f64;
pub uninterp spec fn fmul(a: f64, b: f64) -> f64;
pub uninterp spec fn fdiv(a: f64, b: f64) -> f64;
pub uninterp spec fn fneg(a: f64) -> f64;
pub uninterp spec fn fcmp(a: f64, b: f64) -> Option<core::cmp::Ordering>;
pub uninterp spec fn feq(a: f64, b: f64) -> bool;
pub open spec fn flt(a: f64, b: f64) -> bool { fcmp(a, b) == Some(core::cmp::Ordering::Less) }
pub open spec fn fgt(a: f64, b: f64) -> bool { fcmp(a, b) == Some(core::cmp::Ordering::Greater) }
pub open spec fn fle(a: f64, b: f64) -> bool { fcmp(a, b) == Some(core::cmp::Ordering::Less) || fcmp(a, b) == Some(core::cmp::Ordering::Equal) }
pub open spec fn fge(a: f64, b: f64) -> bool { fcmp(a, b) == Some(core::cmp::Ordering::Greater) || fcmp(a, b) == Some(core::cmp::Ordering::Equal) }

pub broadcast axiom fn ax_add_vv_req(a: f64, b: f64) ensures #[trigger] a.add_req(b);
pub broadcast axiom fn ax_add_vv(a: f64, b: f64) ensures #[trigger] a.add_spec(b) == fadd(a, b);
pub broadcast axiom fn ax_add_vr_req(a: f64, b: &f64) ensures #[trigger] a.add_req(b);
pub broadcast axiom fn ax_add_vr(a: f64, b: &f64) ensures #[trigger] a.add_spec(b) == fadd(a, *b);
pub broadcast axiom fn ax_add_rv_req(a: &f64, b: f64) ensures #[trigger] a.add_req(b);
pub broadcast axiom fn ax_add_rv(a: &f64, b: f64) ensures #[trigger] a.add_spec(b) == fadd(*a, b);
pub broadcast axiom fn ax_add_rr_req(a: &f64, b: &f64) ensures #[trigger] a.add_req(b);
pub broadcast axiom fn ax_add_rr(a: &f64, b: &f64) ensures #[trigger] a.add_spec(b) == fadd(*a, *b);
pub broadcast axiom fn ax_sub_vv_req(a: f64, b: f64) ensures #[trigger] a.sub_req(b);
pub broadcast axiom fn ax_sub_vv(a: f64, b: f64) ensures #[trigger] a.sub_spec(b) == fsub(a, b);
pub broadcast axiom fn ax_sub_vr_req(a: f64, b: &f64) ensures #[trigger] a.sub_req(b);
pub broadcast axiom fn ax_sub_vr(a: f64, b: &f64) ensures #[trigger] a.sub_spec(b) == fsub(a, *b);
pub broadcast axiom fn ax_sub_rv_req(a: &f64, b: f64) ensures #[trigger] a.sub_req(b);
pub broadcast axiom fn ax_sub_rv(a: &f64, b: f64) ensures #[trigger] a.sub_spec(b) == fsub(*a, b);
pub broadcast axiom fn ax_sub_rr_req(a: &f64, b: &f64) ensures #[trigger] a.sub_req(b);
pub broadcast axiom fn ax_sub_rr(a: &f64, b: &f64) ensures #[trigger] a.sub_spec(b) == fsub(*a, *b);
pub broadcast axiom fn ax_mul_vv_req(a: f64, b: f64) ensures #[trigger] a.mul_req(b);
pub broadcast axiom fn ax_mul_vv(a: f64, b: f64) ensures #[trigger] a.mul_spec(b) == fmul(a, b);
pub broadcast axiom fn ax_mul_vr_req(a: f64, b: &f64) ensures #[trigger] a.mul_req(b);
pub broadcast axiom fn ax_mul_vr(a: f64, b: &f64) ensures #[trigger] a.mul_spec(b) == fmul(a, *b);
pub broadcast axiom fn ax_mul_rv_req(a: &f64, b: f64) ensures #[trigger] a.mul_req(b);
pub broadcast axiom fn ax_mul_rv(a: &f64, b: f64) ensures #[trigger] a.mul_spec(b) == fmul(*a, b);
pub broadcast axiom fn ax_mul_rr_req(a: &f64, b: &f64) ensures #[trigger] a.mul_req(b);
pub broadcast axiom fn ax_mul_rr(a: &f64, b: &f64) ensures #[trigger] a.mul_spec(b) == fmul(*a, *b);
pub broadcast axiom fn ax_div_vv_req(a: f64, b: f64) ensures #[trigger] a.div_req(b);
pub broadcast axiom fn ax_div_vv(a: f64, b: f64) ensures #[trigger] a.div_spec(b) == fdiv(a, b);
pub broadcast axiom fn ax_div_vr_req(a: f64, b: &f64) ensures #[trigger] a.div_req(b);
pub broadcast axiom fn ax_div_vr(a: f64, b: &f64) ensures #[trigger] a.div_spec(b) == fdiv(a, *b);
pub broadcast axiom fn ax_div_rv_req(a: &f64, b: f64) ensures #[trigger] a.div_req(b);
pub broadcast axiom fn ax_div_rv(a: &f64, b: f64) ensures #[trigger] a.div_spec(b) == fdiv(*a, b);
pub broadcast axiom fn ax_div_rr_req(a: &f64, b: &f64) ensures #[trigger] a.div_req(b);
pub broadcast axiom fn ax_div_rr(a: &f64, b: &f64) ensures #[trigger] a.div_spec(b) == fdiv(*a, *b);
pub broadcast axiom fn ax_cmp_v(a: f64, b: f64) ensures #[trigger] a.partial_cmp_spec(&b) == fcmp(a, b);
pub broadcast axiom fn ax_eq_v(a: f64, b: f64) ensures #[trigger] a.eq_spec(&b) == feq(a, b);
pub broadcast axiom fn ax_cmp_r(a: &f64, b: &f64) ensures #[trigger] a.partial_cmp_spec(&b) == fcmp(*a, *b);
pub broadcast axiom fn ax_eq_r(a: &f64, b: &f64) ensures #[trigger] a.eq_spec(&b) == feq(*a, *b);
// IEEE facts about comparison that do not depend on the operands' values (discharged for ALL pairs of
// f64 by the loop-free Kani harness `ieee_cmp_flip`): a < b  <=>  b > a, equality is symmetric, an
// unordered pair is unordered both ways; == agrees with partial_cmp.
pub axiom fn ax_obeys()
    ensures
        forall|a: f64, b: f64| (#[trigger] fcmp(a, b) == Some(core::cmp::Ordering::Less)) == (fcmp(b, a) == Some(core::cmp::Ordering::Greater)),
        forall|a: f64, b: f64| (#[trigger] fcmp(a, b) == Some(core::cmp::Ordering::Equal)) == (fcmp(b, a) == Some(core::cmp::Ordering::Equal)),
        forall|a: f64, b: f64| (#[trigger] fcmp(a, b) is None) == (fcmp(b, a) is None),
        forall|a: f64, b: f64| #[trigger] feq(a, b) == (fcmp(a, b) == Some(core::cmp::Ordering::Equal)),
        // max / min are commutative as far as comparisons can tell (the two results are identical, or +0 / -0,
        // or both NaN): discharged for ALL triples by the loop-free Kani harness `ieee_max_min_commute`
        forall|a: f64, b: f64, c: f64| #[trigger] fcmp(fmaxf(a, b), c) == fcmp(fmaxf(b, a), c),
        forall|a: f64, b: f64, c: f64| #[trigger] fcmp(c, fmaxf(a, b)) == fcmp(c, fmaxf(b, a)),
        forall|a: f64, b: f64, c: f64| #[trigger] fcmp(fminf(a, b), c) == fcmp(fminf(b, a), c),
        forall|a: f64, b: f64, c: f64| #[trigger] fcmp(c, fminf(a, b)) == fcmp(c, fminf(b, a)),
        <f64 as AddSpec<f64>>::obeys_add_spec(),
        <f64 as AddSpec<&f64>>::obeys_add_spec(),
        <&f64 as AddSpec<f64>>::obeys_add_spec(),
        <&f64 as AddSpec<&f64>>::obeys_add_spec(),
        <f64 as SubSpec<f64>>::obeys_sub_spec(),
        <f64 as SubSpec<&f64>>::obeys_sub_spec(),
        <&f64 as SubSpec<f64>>::obeys_sub_spec(),
        <&f64 as SubSpec<&f64>>::obeys_sub_spec(),
        <f64 as MulSpec<f64>>::obeys_mul_spec(),
        <f64 as MulSpec<&f64>>::obeys_mul_spec(),
        <&f64 as MulSpec<f64>>::obeys_mul_spec(),
        <&f64 as MulSpec<&f64>>::obeys_mul_spec(),
        <f64 as DivSpec<f64>>::obeys_div_spec(),
        <f64 as DivSpec<&f64>>::obeys_div_spec(),
        <&f64 as DivSpec<f64>>::obeys_div_spec(),
        <&f64 as DivSpec<&f64>>::obeys_div_spec(),
        <f64 as PartialOrdSpec<f64>>::obeys_partial_cmp_spec(),
        <f64 as PartialEqSpec<f64>>::obeys_eq_spec(),
        <&f64 as PartialOrdSpec<&f64>>::obeys_partial_cmp_spec(),
        <&f64 as PartialEqSpec<&f64>>::obeys_eq_spec(),
;
pub broadcast group fl {
    ax_add_vv_req, ax_add_vv, ax_add_vr_req, ax_add_vr, ax_add_rv_req, ax_add_rv, ax_add_rr_req, ax_add_rr, ax_sub_vv_req, ax_sub_vv, ax_sub_vr_req, ax_sub_vr, ax_sub_rv_req, ax_sub_rv, ax_sub_rr_req, ax_sub_rr, ax_mul_vv_req, ax_mul_vv, ax_mul_vr_req, ax_mul_vr, ax_mul_rv_req, ax_mul_rv, ax_mul_rr_req, ax_mul_rr, ax_div_vv_req, ax_div_vv, ax_div_vr_req, ax_div_vr, ax_div_rv_req, ax_div_rv, ax_div_rr_req, ax_div_rr, ax_cmp_v, ax_eq_v, ax_cmp_r, ax_eq_r
}

// R8: unary minus (this Verus rejects float negation); the wrapper IS the operator.
// (core implements Neg for f64 and for &f64: the wrapper takes either)
pub trait __NegArg: Sized { spec fn negv(self) -> f64; }
impl __NegArg for f64 { open spec fn negv(self) -> f64 { self } }
impl<'a> __NegArg for &'a f64 { open spec fn negv(self) -> f64 { *self } }
#[verifier::external_body]
pub fn __neg<T: __NegArg>(x: T) -> (r: f64)
    ensures r == fneg(x.negv()),
{ unimplemented!() }


// f64 methods used by the extracted code: linked to uninterpreted functions (their IEEE facts, where
// a proof needs one, are separate axioms discharged by loop-free Kani harnesses).
pub uninterp spec fn fmaxf(a: f64, b: f64) -> f64;
pub uninterp spec fn fminf(a: f64, b: f64) -> f64;
pub uninterp spec fn fabsf(a: f64) -> f64;
pub uninterp spec fn fisnan(a: f64) -> bool;
pub uninterp spec fn fisfinite(a: f64) -> bool;
pub uninterp spec fn fisinfinite(a: f64) -> bool;
// IEEE classification facts (discharged for ALL f64 / all pairs by the loop-free Kani harness
// `ieee_classification`): finite <=> neither NaN nor infinite; NaN and infinite exclude each other;
// a pair is unordered exactly when one side is NaN; 0.0 is finite.
pub axiom fn ax_ieee_class()
    ensures
        forall|a: f64| #[trigger] fisfinite(a) == (!fisnan(a) && !fisinfinite(a)),
        forall|a: f64| #[trigger] fisnan(a) ==> !fisinfinite(a),
        forall|a: f64, b: f64| (#[trigger] fcmp(a, b) is None) == (fisnan(a) || fisnan(b)),
        fisfinite(0.0f64),
        // (core::cmp::Ordering has exactly three variants: the Rust enum, opaque to this Verus)
        forall|a: f64, b: f64| #[trigger] fcmp(a, b) is None || fcmp(a, b) == Some(core::cmp::Ordering::Less)
            || fcmp(a, b) == Some(core::cmp::Ordering::Equal) || fcmp(a, b) == Some(core::cmp::Ordering::Greater);
pub uninterp spec fn fpowf(a: f64, b: f64) -> f64;
pub uninterp spec fn ftotalcmp(a: f64, b: f64) -> core::cmp::Ordering;
pub assume_specification [f64::max] (a: f64, b: f64) -> (r: f64) ensures r == fmaxf(a, b);
pub assume_specification [f64::min] (a: f64, b: f64) -> (r: f64) ensures r == fminf(a, b);
pub assume_specification [f64::abs] (a: f64) -> (r: f64) ensures r == fabsf(a);
pub assume_specification [f64::is_nan] (a: f64) -> (r: bool) ensures r == fisnan(a);
pub assume_specification [f64::is_finite] (a: f64) -> (r: bool) ensures r == fisfinite(a);
pub assume_specification [f64::is_infinite] (a: f64) -> (r: bool) ensures r == fisinfinite(a);
// further classification / sign predicates: deterministic functions about which nothing else is known
// (code that switches to one of them no longer verifies against a contract stated with `>`, `is_finite`, ...)
pub uninterp spec fn fisnormal(a: f64) -> bool;
pub uninterp spec fn fissubnormal(a: f64) -> bool;
pub uninterp spec fn fissignpos(a: f64) -> bool;
pub uninterp spec fn fissignneg(a: f64) -> bool;
pub assume_specification [f64::is_normal] (a: f64) -> (r: bool) ensures r == fisnormal(a);
pub assume_specification [f64::is_subnormal] (a: f64) -> (r: bool) ensures r == fissubnormal(a);
pub assume_specification [f64::is_sign_positive] (a: f64) -> (r: bool) ensures r == fissignpos(a);
pub assume_specification [f64::is_sign_negative] (a: f64) -> (r: bool) ensures r == fissignneg(a);
pub assume_specification [f64::powf] (a: f64, b: f64) -> (r: f64) ensures r == fpowf(a, b);
pub assume_specification [f64::total_cmp] (a: &f64, b: &f64) -> (r: core::cmp::Ordering) ensures r == ftotalcmp(*a, *b);

// R9: associated constants this Verus rejects; the wrappers' bodies ARE the constants.
pub uninterp spec fn finf() -> f64;
pub uninterp spec fn fneginf() -> f64;
#[verifier::external_body]
pub fn __inf() -> (r: f64) ensures r == finf() { f64::INFINITY }
#[verifier::external_body]
pub fn __neg_inf() -> (r: f64) ensures r == fneginf() { f64::NEG_INFINITY }
pub assume_specification [core::cmp::Ordering::is_lt] (o: core::cmp::Ordering) -> (r: bool) ensures r == (o == core::cmp::Ordering::Less);
pub assume_specification [core::cmp::Ordering::is_le] (o: core::cmp::Ordering) -> (r: bool) ensures r == (o != core::cmp::Ordering::Greater);
pub assume_specification [core::cmp::Ordering::is_gt] (o: core::cmp::Ordering) -> (r: bool) ensures r == (o == core::cmp::Ordering::Greater);
pub assume_specification [core::cmp::Ordering::is_ge] (o: core::cmp::Ordering) -> (r: bool) ensures r == (o != core::cmp::Ordering::Less);
pub uninterp spec fn fconst_EPSILON() -> f64;
#[verifier::external_body]
pub fn __f64_EPSILON() -> (r: f64) ensures r == fconst_EPSILON() { f64::EPSILON }
pub uninterp spec fn fconst_MAX() -> f64;
#[verifier::external_body]
pub fn __f64_MAX() -> (r: f64) ensures r == fconst_MAX() { f64::MAX }
pub uninterp spec fn fconst_MIN() -> f64;
#[verifier::external_body]
pub fn __f64_MIN() -> (r: f64) ensures r == fconst_MIN() { f64::MIN }
pub uninterp spec fn fconst_MIN_POSITIVE() -> f64;
#[verifier::external_body]
pub fn __f64_MIN_POSITIVE() -> (r: f64) ensures r == fconst_MIN_POSITIVE() { f64::MIN_POSITIVE }
pub uninterp spec fn fconst_NAN() -> f64;
#[verifier::external_body]
pub fn __f64_NAN() -> (r: f64) ensures r == fconst_NAN() { f64::NAN }

// R12: integer-to-float casts (`X as f64`), which this Verus rejects; the wrapper IS the cast.
pub uninterp spec fn u64_to_f64(n: u64) -> f64;
pub uninterp spec fn usize_to_f64(n: usize) -> f64;
pub trait ToF64: Sized {
    spec fn to_f64_spec(self) -> f64;
    fn __to_f64(self) -> (r: f64) ensures r == self.to_f64_spec();
}
impl ToF64 for u64 {
    open spec fn to_f64_spec(self) -> f64 { u64_to_f64(self) }
    #[verifier::external_body]
    fn __to_f64(self) -> (r: f64) { self as f64 }
}
impl ToF64 for usize {
    open spec fn to_f64_spec(self) -> f64 { usize_to_f64(self) }
    #[verifier::external_body]
    fn __to_f64(self) -> (r: f64) { self as f64 }
}
pub fn __as_f64<T: ToF64>(x: T) -> (r: f64) ensures r == x.to_f64_spec() { x.__to_f64() }

// R13: identity on f64 (see rule R13 of the extractor)
pub fn __idf(x: f64) -> (r: f64) ensures r == x { x }

// ---- prelude fragment: ideal.rs ----
// Floating point, layer 2 ("idealised real" mode of DESIGN.md 3.2): machine arithmetic treated as
// mathematical.  rv maps a float to the real it denotes; rounding, overflow, NaN and signed zero are
// ignored.  Used only where the property is a statement of real arithmetic.
pub uninterp spec fn rv(x: f64) -> real;
pub broadcast axiom fn ax_rv_add(a: f64, b: f64) ensures rv(#[trigger] fadd(a, b)) == rv(a) + rv(b);
pub broadcast axiom fn ax_rv_sub(a: f64, b: f64) ensures rv(#[trigger] fsub(a, b)) == rv(a) - rv(b);
pub broadcast axiom fn ax_rv_mul(a: f64, b: f64) ensures rv(#[trigger] fmul(a, b)) == rv(a) * rv(b);
pub broadcast axiom fn ax_rv_div(a: f64, b: f64) ensures rv(b) != 0real ==> rv(#[trigger] fdiv(a, b)) == rv(a) / rv(b);
pub broadcast axiom fn ax_rv_neg(a: f64) ensures rv(#[trigger] fneg(a)) == 0real - rv(a);
pub broadcast axiom fn ax_rv_cmp(a: f64, b: f64)
    ensures #[trigger] fcmp(a, b) == (if rv(a) < rv(b) { Some(core::cmp::Ordering::Less) }
        else if rv(a) == rv(b) { Some(core::cmp::Ordering::Equal) } else { Some(core::cmp::Ordering::Greater) });
pub broadcast axiom fn ax_rv_eq(a: f64, b: f64) ensures #[trigger] feq(a, b) == (rv(a) == rv(b));
pub broadcast axiom fn ax_rv_max(a: f64, b: f64) ensures rv(#[trigger] fmaxf(a, b)) == (if rv(a) >= rv(b) { rv(a) } else { rv(b) });
pub broadcast axiom fn ax_rv_min(a: f64, b: f64) ensures rv(#[trigger] fminf(a, b)) == (if rv(a) <= rv(b) { rv(a) } else { rv(b) });
// (idealised) powf denotes a function of the real values of its arguments
pub uninterp spec fn rpow(x: real, y: real) -> real;
pub broadcast axiom fn ax_rv_powf(a: f64, b: f64) ensures rv(#[trigger] fpowf(a, b)) == rpow(rv(a), rv(b));
pub axiom fn ax_rv_lits()
    ensures rv(0.0f64) == 0real, rv(1.0f64) == 1real, rv(2.0f64) == 2real, rv(0.5f64) * 2real == 1real;
pub broadcast group ideal {
    ax_rv_add, ax_rv_sub, ax_rv_mul, ax_rv_div, ax_rv_neg, ax_rv_cmp, ax_rv_eq, ax_rv_max, ax_rv_min, ax_rv_powf
}
// (idealised) integer-to-float casts are exact
pub broadcast axiom fn ax_rv_u64(n: u64) ensures rv(#[trigger] u64_to_f64(n)) == n as real;
pub broadcast axiom fn ax_rv_usize(n: usize) ensures rv(#[trigger] usize_to_f64(n)) == n as real;
pub broadcast group ideal_casts { ax_rv_u64, ax_rv_usize }

// ---- prelude fragment: std_ext.rs ----
// R5: assumed contracts on std items that vstd does not specify (each is listed in the evidence).
#[verifier::external_trait_specification]
pub trait ExAsRef<T: core::marker::PointeeSized>: core::marker::PointeeSized {
    type ExternalTraitSpecificationFor: core::convert::AsRef<T>;
    fn as_ref(&self) -> (r: &T)
        ensures r == asref_view::<Self, T>(self);
}
pub uninterp spec fn asref_view<S: core::marker::PointeeSized, T: core::marker::PointeeSized>(s: &S) -> &T;

// ---- prelude fragment: infoset_traits.rs ----
// Trait declarations of src/lib.rs restated with a ghost view and a contract on each method
// (a trait method declaration has no body to extract; `expect` entries of the unit check on every
// run that the real declarations still have exactly these signatures).
pub trait ChanceInfoset {
    spec fn probs_view(&self) -> Seq<f64>;
    fn probs(&self) -> (r: &[f64])
        ensures r@ == self.probs_view();
}
pub trait PlayerInfoset {
    spec fn num_actions_view(&self) -> usize;
    spec fn prev_infoset_view(&self) -> Option<usize>;
    fn num_actions(&self) -> (r: usize)
        ensures r == self.num_actions_view();
    fn prev_infoset(&self) -> (r: Option<usize>)
        ensures r == self.prev_infoset_view();
}

// ---- prelude fragment: iter_ext.rs ----
// R7: provided Iterator methods vstd does not specify, as external wrappers whose contracts restate
// the std documentation over the iterator's remaining() sequence.
// Iterator::reduce(f): None for an empty iterator, otherwise the left fold of f over the items.
// (f is assumed deterministic: its postcondition determines its result -- true for fn items such as
// f64::max whose assume_specification is an equation.)
pub open spec fn fapply<F: Fn(f64, f64) -> f64>(f: F, a: f64, b: f64) -> f64 {
    choose|r: f64| f.ensures((a, b), r)
}
pub open spec fn rfold<F: Fn(f64, f64) -> f64>(f: F, s: Seq<f64>) -> f64
    decreases s.len()
{
    if s.len() <= 1 { s[0] } else { fapply(f, rfold(f, s.drop_last()), s.last()) }
}
#[verifier::external_body]
pub fn __reduce<I: Iterator<Item = f64>, F: Fn(f64, f64) -> f64>(it: I, f: F) -> (r: Option<f64>)
    requires it.obeys_prophetic_iter_laws(),
    ensures
        it.remaining().len() == 0 ==> r is None,
        it.remaining().len() > 0 ==> r == Some(rfold(f, it.remaining())),
{ unimplemented!() }
// the fn ITEMS f64::max / f64::min used as values: their call postcondition is the same equation
// as their assume_specification (Verus does not derive this for function items by itself)
pub axiom fn ax_fn_items()
    ensures
        forall|a: f64, b: f64, r: f64| #[trigger] f64::max.ensures((a, b), r) == (r == fmaxf(a, b)),
        forall|a: f64, b: f64, r: f64| #[trigger] f64::min.ensures((a, b), r) == (r == fminf(a, b));
// Iterator::sum over &f64 items: the left fold of `+` starting from the additive identity the
// standard library uses (an unspecified zero constant here; its real value is 0)
pub uninterp spec fn fsum_init() -> f64;
pub open spec fn fsum_ref(s: Seq<&f64>, k: int) -> f64 decreases k {
    if k <= 0 { fsum_init() } else { fadd(fsum_ref(s, k - 1), *s[k - 1]) }
}
pub open spec fn fsum(s: Seq<f64>, k: int) -> f64 decreases k {
    if k <= 0 { fsum_init() } else { fadd(fsum(s, k - 1), s[k - 1]) }
}
#[verifier::external_body]
pub fn __sum<'a, I: Iterator<Item = &'a f64>>(it: I) -> (r: f64)
    requires it.obeys_prophetic_iter_laws(),
    ensures r == fsum_ref(it.remaining(), it.remaining().len() as int),
{ unimplemented!() }
// summing references to the elements of a sequence is summing the sequence (fires automatically)
pub broadcast proof fn lemma_fsum_ref_is_fsum(rem: Seq<&f64>, s: Seq<f64>, k: int)
    requires 0 <= k <= rem.len(), k <= s.len(), forall|i: int| 0 <= i < k ==> *rem[i] == s[i],
    ensures #![trigger fsum_ref(rem, k), fsum(s, k)] fsum_ref(rem, k) == fsum(s, k),
    decreases k
{
    if k > 0 { lemma_fsum_ref_is_fsum(rem, s, k - 1); }
}
// Iterator::all: NOT specified (the result is an arbitrary boolean): code whose outcome depends on it
// can only be proved if it is correct for both answers
#[verifier::external_body]
pub fn __all<I: Iterator, F: FnMut(I::Item) -> bool>(it: I, f: F) -> (r: bool) { unimplemented!() }

use std::mem;
use vstd::std_specs::iter::{zip_iter_snd, zip_iter_fst};
// std::mem::take: "Replaces dest with the default value of T, returning the previous dest value"
pub uninterp spec fn spec_default<T>() -> T;
pub assume_specification<T: Default> [std::mem::take] (x: &mut T) -> (r: T) ensures r == *old(x), *final(x) == spec_default::<T>();
// core: `impl PartialEq<&mut B> for &mut A` compares the pointees
pub axiom fn ax_mutref_eq()
    ensures <&mut usize as PartialEqSpec<&mut usize>>::obeys_eq_spec(),
        forall|a: &mut usize, b: &mut usize| #[trigger] a.eq_spec(&b) == (*a == *b);
// Vec::default() is the empty vector
pub axiom fn ax_vec_default<T>() ensures spec_default::<Vec<T>>()@.len() == 0;

// ---- extracted from src/lib.rs: enum PlayerNum ----
#[derive(Copy, Clone)]
pub enum PlayerNum {
    /// The first player
    One,
    /// The second player
    Two,
}

// PlayerNum::ind / ind_mut use slice patterns in a `match` (rejected by this Verus); they are kept
// external with the two-case spec, and that spec is discharged against the real bodies by the
// loop-free Kani harness `playernum_ind` (so it is cited, not assumed).
impl PlayerNum {
    #[verifier::external_body]
    pub fn ind<'a, T>(&self, arr: &'a [T; 2]) -> (r: &'a T)
        ensures *r == (match *self { PlayerNum::One => arr[0], PlayerNum::Two => arr[1] })
    { unimplemented!() }

    #[verifier::external_body]
    pub fn ind_mut<'a, T>(&self, arr: &'a mut [T; 2]) -> (r: &'a mut T)
        ensures
            *r == (match *self { PlayerNum::One => old(arr)[0], PlayerNum::Two => old(arr)[1] }),
            match *self {
                PlayerNum::One => final(arr)[0] == *final(r) && final(arr)[1] == old(arr)[1],
                PlayerNum::Two => final(arr)[1] == *final(r) && final(arr)[0] == old(arr)[0],
            },
    { unimplemented!() }
}

// ---- extracted from src/lib.rs: enum Node ----
pub enum Node {
    /// A terminal node, the game is over the payoff to player one
    Terminal(f64),
    /// A chance node, the game advances independent of player action
    Chance(Chance),
    /// a node in the tree where the player can choose between different actions
    Player(Player),
}

// ---- extracted from src/lib.rs: struct Chance ----
pub struct Chance {
    pub outcomes: Box<[Node]>,
    pub infoset: usize,
}

// ---- extracted from src/lib.rs: struct Player ----
pub struct Player {
    pub num: PlayerNum,
    pub infoset: usize,
    pub actions: Box<[Node]>,
}

// ---- extracted from src/regret.rs: struct DeviationInfo ----
pub struct DeviationInfo<'a> {
    pub future_nodes: usize,
    pub prob_nodes: Vec<(&'a Player, f64)>,
    pub max_utility: f64,
}

// children of a node, as a sequence (shared by the ev and val specifications)
pub open spec fn kids_of(n: Node) -> Seq<Node> {
    match n {
        Node::Terminal(_) => Seq::empty(),
        Node::Chance(ch) => ch.outcomes@,
        Node::Player(pl) => pl.actions@,
    }
}

pub proof fn lemma_dist(r: real, a: real, w: real, e: real)
    ensures r * (a + w * e) == r * a + (w * r) * e
{
    assert(r * (a + w * e) == r * a + (w * r) * e) by(nonlinear_arith);
}

// ---- specification: value of a continuation up to the deviating player's next infosets ----
pub struct VCtx { pub chance: Seq<Seq<f64>>, pub opp: Seq<Seq<f64>>, pub utab: Seq<f64>, pub p1: bool }

pub open spec fn own(n: Node, p1: bool) -> bool {
    match n { Node::Player(pl) => (match pl.num { PlayerNum::One => p1, PlayerNum::Two => !p1 }), _ => false }
}
pub open spec fn vweights(n: Node, c: VCtx) -> Seq<f64> {
    match n {
        Node::Terminal(_) => Seq::empty(),
        Node::Chance(ch) => c.chance[ch.infoset as int],
        Node::Player(pl) => c.opp[pl.infoset as int],
    }
}
pub open spec fn val(n: Node, c: VCtx) -> real
    decreases n, 1int, 0int
{
    match n {
        Node::Terminal(p) => if c.p1 { rv(p) } else { 0real - rv(p) },
        Node::Player(pl) => if own(n, c.p1) { rv(c.utab[pl.infoset as int]) } else { vsum(n, c, kids_of(n).len() as int) },
        Node::Chance(_) => vsum(n, c, kids_of(n).len() as int),
    }
}
pub open spec fn vsum(parent: Node, c: VCtx, k: int) -> real
    decreases parent, 0int, k
{
    if k <= 0 || k > kids_of(parent).len() { 0real } else {
        vsum(parent, c, k - 1) + rv(vweights(parent, c)[k - 1]) * val(kids_of(parent)[k - 1], c)
    }
}
pub open spec fn vwf(n: Node, c: VCtx) -> bool
    decreases n
{
    match n {
        Node::Terminal(_) => true,
        Node::Chance(ch) => ch.infoset < c.chance.len() && vweights(n, c).len() == kids_of(n).len()
            && forall|i: int| 0 <= i < kids_of(n).len() ==> vwf(#[trigger] kids_of(n)[i], c),
        Node::Player(pl) => if own(n, c.p1) { pl.infoset < c.utab.len() } else {
            pl.infoset < c.opp.len() && vweights(n, c).len() == kids_of(n).len()
            && (forall|i: int| 0 <= i < kids_of(n).len() ==> rv(#[trigger] vweights(n, c)[i]) >= 0real)
            && forall|i: int| 0 <= i < kids_of(n).len() ==> vwf(#[trigger] kids_of(n)[i], c)
        },
    }
}
pub open spec fn vqsum(q: Seq<(&Node, f64)>, c: VCtx) -> real
    decreases q.len()
{
    if q.len() == 0 { 0real } else { vqsum(q.drop_last(), c) + rv(q.last().1) * val(*q.last().0, c) }
}
pub open spec fn vctx_seq<C: ChanceInfoset, S: AsRef<[f64]>>(p1: bool, infos: Seq<DeviationInfo>, chance_info: &[C], strat_info: &[S]) -> VCtx {
    VCtx {
        chance: Seq::new(chance_info@.len(), |i: int| chance_info@[i].probs_view()),
        opp: Seq::new(strat_info@.len(), |i: int| asref_view::<S, [f64]>(&strat_info@[i])@),
        utab: Seq::new(infos.len(), |i: int| infos[i].max_utility),
        p1: p1,
    }
}
pub open spec fn vctx_of<C: ChanceInfoset, S: AsRef<[f64]>>(p1: bool, infosets: &[DeviationInfo], chance_info: &[C], strat_info: &[S]) -> VCtx {
    vctx_seq(p1, infosets@, chance_info, strat_info)
}
pub proof fn lemma_vqsum_push(q: Seq<(&Node, f64)>, e: (&Node, f64), c: VCtx)
    ensures vqsum(q.push(e), c) == vqsum(q, c) + rv(e.1) * val(*e.0, c)
{
    assert(q.push(e).drop_last() =~= q);
}

// ---- specification of one resolution step of optimal_deviations (C01, regret sentence) ----
// payoff of action a summed over the first k reached nodes of the infoset, each weighted by the
// opponent/chance reach recorded with it
pub open spec fn step_payoff(nodes: Seq<(&Player, f64)>, a: int, c: VCtx, k: int) -> real
    decreases k
{
    if k <= 0 { 0real } else { step_payoff(nodes, a, c, k - 1) + val(nodes[k - 1].0.actions@[a], c) * rv(nodes[k - 1].1) }
}
// the largest payoff among the first m actions
pub open spec fn step_max(nodes: Seq<(&Player, f64)>, c: VCtx, m: int) -> real
    decreases m
{
    if m <= 1 { step_payoff(nodes, 0, c, nodes.len() as int) } else {
        let prev = step_max(nodes, c, m - 1);
        let cur = step_payoff(nodes, m - 1, c, nodes.len() as int);
        if prev >= cur { prev } else { cur }
    }
}
pub open spec fn reach_sum(nodes: Seq<(&Player, f64)>, k: int) -> real
    decreases k
{
    if k <= 0 { 0real } else { reach_sum(nodes, k - 1) + rv(nodes[k - 1].1) }
}
// R6: `let total_reach: f64 = nodes.iter().map(|(_, p)| p).sum();` -- Map/sum chains are outside this
// Verus; ASSUMED contract: the sum of the recorded reaches
#[verifier::external_body]
pub fn __abs_total_reach(nodes: &Vec<(&Player, f64)>) -> (r: f64)
    ensures rv(r) == reach_sum(nodes@, nodes@.len() as int),
{ unimplemented!() }

pub proof fn lemma_rfold_max(p: Seq<f64>, nodes: Seq<(&Player, f64)>, c: VCtx, m: int)
    requires 1 <= m <= p.len(), forall|a: int| 0 <= a < m ==> rv(#[trigger] p[a]) == step_payoff(nodes, a, c, nodes.len() as int),
    ensures rv(rfold(f64::max, p.take(m))) == step_max(nodes, c, m),
    decreases m
{
    broadcast use ideal;
    ax_fn_items();
    reveal_with_fuel(rfold, 2);
    if m == 1 {
        assert(p.take(1)[0] == p[0]);
    } else {
        lemma_rfold_max(p, nodes, c, m - 1);
        assert(p.take(m).drop_last() =~= p.take(m - 1));
        assert(p.take(m).last() == p[m - 1]);
        let acc = rfold(f64::max, p.take(m - 1));
        assert(f64::max.ensures((acc, p[m - 1]), fmaxf(acc, p[m - 1])));
        assert(fapply(f64::max, acc, p[m - 1]) == fmaxf(acc, p[m - 1]));
    }
}

// contract proved for the real next_infoset_search by unit c01_next_infoset_search
#[verifier::external_body]
pub fn next_infoset_search<'a, const PLAYER_ONE: bool>(
    start: &'a Node,
    search_queue: &mut Vec<(&'a Node, f64)>,
    infosets: &[DeviationInfo],
    chance_info: &[impl ChanceInfoset],
    strat_info: &[impl AsRef<[f64]>],
) -> (out: f64)
    requires
        old(search_queue)@.len() == 0,
        vwf(*start, vctx_of(PLAYER_ONE, infosets, chance_info, strat_info)),
    ensures
        final(search_queue)@.len() == 0,
        rv(out) == val(*start, vctx_of(PLAYER_ONE, infosets, chance_info, strat_info)),
{ unimplemented!() }

// ---- extracted from src/regret.rs: fn optimal_deviations ----
pub fn optimal_deviations__resolve_step<'a, const PLAYER_ONE: bool, C: ChanceInfoset, PI: PlayerInfoset, S: AsRef<[f64]>>(info: usize, mut infosets: Box<[DeviationInfo<'a>]>, mut info_queue: Vec<usize>, mut search_queue: Vec<(&'a Node, f64)>, player_info: &[PI], chance_info: &[C], strat_info: &[S]) -> (out: (Box<[DeviationInfo<'a>]>, Vec<usize>, Vec<(&'a Node, f64)>))
    requires
        info < infosets@.len(), infosets@.len() == player_info@.len(),
        search_queue@.len() == 0,
        player_info@[info as int].num_actions_view() >= 1,
        match player_info@[info as int].prev_infoset_view() {
            Some(p) => p < infosets@.len() && p != info && infosets@[p as int].future_nodes >= infosets@[info as int].prob_nodes@.len(),
            None => true,
        },
        forall|j: int| 0 <= j < infosets@[info as int].prob_nodes@.len() ==>
            (#[trigger] infosets@[info as int].prob_nodes@[j]).0.actions@.len() == player_info@[info as int].num_actions_view()
            && forall|a: int| 0 <= a < player_info@[info as int].num_actions_view() ==>
                vwf(#[trigger] infosets@[info as int].prob_nodes@[j].0.actions@[a], vctx_seq(PLAYER_ONE, infosets@, chance_info, strat_info)),
    ensures
        out.0@.len() == infosets@.len(), out.2@.len() == 0,
        // the infoset is resolved: its nodes are consumed, its own pending count is untouched ...
        out.0@[info as int].prob_nodes@.len() == 0, // @ob C01.V.optimal_deviations.nodes_consumed
        out.0@[info as int].future_nodes == infosets@[info as int].future_nodes,
        // ... and its value is the best action's reach-weighted continuation value, normalised by total reach
        reach_sum(infosets@[info as int].prob_nodes@, infosets@[info as int].prob_nodes@.len() as int) != 0real ==>
            rv(out.0@[info as int].max_utility) == step_max(infosets@[info as int].prob_nodes@, vctx_seq(PLAYER_ONE, infosets@, chance_info, strat_info), player_info@[info as int].num_actions_view() as int)
                / reach_sum(infosets@[info as int].prob_nodes@, infosets@[info as int].prob_nodes@.len() as int), // @ob C01.V.optimal_deviations.best_action_value
        // bookkeeping of the predecessor infoset: pending count drops by the number of resolved nodes and
        // the predecessor is enqueued exactly when nothing is pending any more
        match player_info@[info as int].prev_infoset_view() {
            Some(p) => out.0@[p as int].future_nodes == infosets@[p as int].future_nodes - infosets@[info as int].prob_nodes@.len()
                && out.0@[p as int].max_utility == infosets@[p as int].max_utility
                && out.0@[p as int].prob_nodes == infosets@[p as int].prob_nodes
                && out.1@ == (if out.0@[p as int].future_nodes == 0 { info_queue@.push(p) } else { info_queue@ })
                && forall|j: int| 0 <= j < infosets@.len() && j != info && j != p ==> #[trigger] out.0@[j] == infosets@[j],
            None => out.1@ == info_queue@
                && forall|j: int| 0 <= j < infosets@.len() && j != info ==> #[trigger] out.0@[j] == infosets@[j],
        }, // @ob C01.V.optimal_deviations.pending_count
{
broadcast use fl; broadcast use ideal;
proof { ax_obeys(); ax_rv_lits(); ax_fn_items(); ax_vec_default::<(&'a Player, f64)>(); ax_mutref_eq(); }
let ghost inf0 = infosets@;
let ghost nodes0 = infosets@[info as int].prob_nodes@;
let ghost c0 = vctx_seq(PLAYER_ONE, infosets@, chance_info, strat_info);
let ghost na = player_info@[info as int].num_actions_view() as int;

        // get iteration nodes and compute total probability of reach for normalization
        let nodes = mem::take(&mut infosets[info].prob_nodes);
        let total_reach: f64 = __abs_total_reach(&nodes);

        // check if finishing this infoset will allow us to evaluate a new infoset
        if let Some(prev) = player_info[info].prev_infoset() {
            let futs = &mut infosets[prev].future_nodes;
            *futs = *futs - ( nodes.len());
            // if so, add it to the queue
            if futs == &mut 0 {
                info_queue.push(prev);
            }
        }

        // get the expected payoff of each action
        let mut payoffs = vec![0.0; player_info[info].num_actions()];
        proof {
    assert(nodes@ == nodes0);
    assert(infosets@.len() == inf0.len());
    assert(forall|j: int| 0 <= j < inf0.len() ==> infosets@[j].max_utility == inf0[j].max_utility);
    assert(vctx_seq(PLAYER_ONE, infosets@, chance_info, strat_info) == c0) by {
        assert(Seq::new(infosets@.len(), |i: int| infosets@[i].max_utility) =~= Seq::new(inf0.len(), |i: int| inf0[i].max_utility));
    }
    assert(forall|a: int| 0 <= a < na ==> step_payoff(nodes0, a, c0, 0) == 0real);
}
for (player, prob) in it5: nodes 
invariant
    0 <= it5.index@ <= nodes0.len(),
    it5.snapshot@.remaining() == nodes0,
    payoffs@.len() == na, na >= 1,
    forall|a: int| 0 <= a < na ==> rv(#[trigger] payoffs@[a]) == step_payoff(nodes0, a, c0, it5.index@ as int),
    search_queue@.len() == 0,
    c0 == vctx_seq(PLAYER_ONE, infosets@, chance_info, strat_info),
    forall|j: int| 0 <= j < nodes0.len() ==> (#[trigger] nodes0[j]).0.actions@.len() == na
        && forall|a: int| 0 <= a < na ==> vwf(#[trigger] nodes0[j].0.actions@[a], c0),
{
broadcast use fl; broadcast use ideal;
proof { ax_obeys(); ax_rv_lits(); }
let ghost k5 = it5.index@ as int;
proof { assert((player, prob) == nodes0[k5]); }

            let ghost p0 = payoffs@;
for (next, res) in it6: player.actions.iter().zip(payoffs.iter_mut()) 
invariant
    it6.snapshot@.remaining().len() == na, 0 <= it6.index@ <= na,
    zip_iter_snd(it6.snapshot@).remaining().len() == na,
    forall|i: int| 0 <= i < na ==> (it6.snapshot@.remaining()[i]).1 == #[trigger] zip_iter_snd(it6.snapshot@).remaining()[i],
    forall|i: int| 0 <= i < na ==> *(#[trigger] it6.snapshot@.remaining()[i]).0 == player.actions@[i] && *(it6.snapshot@.remaining()[i]).1 == p0[i],
    forall|i: int| 0 <= i < it6.index@ ==> rv(*final((#[trigger] it6.snapshot@.remaining()[i]).1)) == rv(p0[i]) + val(player.actions@[i], c0) * rv(prob),
    search_queue@.len() == 0,
    c0 == vctx_seq(PLAYER_ONE, infosets@, chance_info, strat_info),
    forall|a: int| 0 <= a < na ==> vwf(#[trigger] player.actions@[a], c0),
ensures
    forall|i: int| 0 <= i < na ==> rv(*final(#[trigger] zip_iter_snd(it6.snapshot@).remaining()[i])) == rv(p0[i]) + val(player.actions@[i], c0) * rv(prob),
{
broadcast use fl; broadcast use ideal;
proof { ax_obeys(); ax_rv_lits(); }

                *res = *res + ( next_infoset_search::<PLAYER_ONE>(
                    next,
                    &mut search_queue,
                    &infosets,
                    chance_info,
                    strat_info,
                ) * prob);
            }
proof {
    assert forall|a: int| 0 <= a < na implies rv(#[trigger] payoffs@[a]) == step_payoff(nodes0, a, c0, k5 + 1) by {
        assert(step_payoff(nodes0, a, c0, k5 + 1) == step_payoff(nodes0, a, c0, k5) + val(nodes0[k5].0.actions@[a], c0) * rv(nodes0[k5].1));
    }
}

        }
let ghost pf = payoffs@;
let ghost inf1 = infosets@;


        // set the max utility of playing to reach an infoset
        infosets[info].max_utility = __reduce(payoffs.into_iter(), f64::max).unwrap() / total_reach;
    
proof {
    lemma_rfold_max(pf, nodes0, c0, na);
    assert(pf.take(na) =~= pf);
    assert(rv(rfold(f64::max, pf)) == step_max(nodes0, c0, na));
}
(infosets, info_queue, search_queue)
}


// vacuity canary: must be REJECTED by the verifier (an inconsistent axiom set would accept it)
pub proof fn __canary_must_fail()
    ensures false, // @ob __canary
{
    broadcast use fl; broadcast use ideal; ax_obeys(); ax_rv_lits(); ax_fn_items();
}

} // verus!
fn main() {}
