#![feature(sized_hierarchy)]
#![feature(allocator_api)]
#![allow(unused_imports, unused_variables, dead_code, unused_mut, unused_parens, unused_braces, non_snake_case)]
use vstd::prelude::*;
use vstd::std_specs::ops::*;
use vstd::std_specs::cmp::*;
use vstd::float::*;
use vstd::std_specs::iter::IteratorSpec;
verus! {
// ---- prelude fragment: floats.rs ----
// Floating point, layer 1 ("uninterpreted" mode of DESIGN.md 3.2): every f64 operator instance the
// language can produce is linked to ONE total, deterministic, otherwise unknown function of the
// operand values.  Nothing about IEEE-754 is assumed here.
pub uninterp spec fn fadd(a: f64, b: f64) -> f64;
pub uninterp spec fn fsub(a: f64, b: f64) -> f64;
pub uninterp spec fn fmul(a: f64, b: f64) -> f64;
pub uninterp spec fn fdiv(a: f64, b: f64) -> f64;
pub uninterp spec fn fneg(a: f64) -> f64;
pub uninterp spec fn fcmp(a: f64, b: f64) -> Option<core::cmp::Ordering>;
pub uninterp spec fn feq(a: f64, b: f64) -> bool;
pub open spec fn flt(a: f64, b: f64) -> bool { fcmp(a, b) == Some(core::cmp::Ordering::Less) }
pub open spec fn fgt(a: f64, b: f64) -> bool { fcmp(a, b) == Some(core::cmp::Ordering::Greater) }
pub open spec fn fle(a: f64, b: f64) -> bool { fcmp(a, b) == Some(core::cmp::Ordering::Less) || fcmp(a, b) == Some(core::cmp::Ordering::Equal) }
pub open spec fn fge(a: f64, b: f64) -> bool { fcmp(a, b) == Some(core::cmp::Ordering::Greater) || fcmp(a, b) == Some(core::cmp::Ordering::Equal) }

pub broadcast axiom fn ax_add_vv_req(a: f64, b: f64) ensures #[trigger] a.add_req(b);
pub broadcast axiom fn ax_add_vv(a: f64, b: f64) ensures #[trigger] a.add_spec(b) == fadd(a, b);
pub broadcast axiom fn ax_add_vr_req(a: f64, b: &f64) ensures #[trigger] a.add_req(b);
pub broadcast axiom fn ax_add_vr(a: f64, b: &f64) ensures #[trigger] a.add_spec(b) == fadd(a, *b);
pub broadcast axiom fn ax_add_rv_req(a: &f64, b: f64) ensures #[trigger] a.add_req(b);
pub broadcast axiom fn ax_add_rv(a: &f64, b: f64) ensures #[trigger] a.add_spec(b) == fadd(*a, b);
pub broadcast axiom fn ax_add_rr_req(a: &f64, b: &f64) ensures #[trigger] a.add_req(b);
pub broadcast axiom fn ax_add_rr(a: &f64, b: &f64) ensures #[trigger] a.add_spec(b) == fadd(*a, *b);
pub broadcast axiom fn ax_sub_vv_req(a: f64, b: f64) ensures #[trigger] a.sub_req(b);
pub broadcast axiom fn ax_sub_vv(a: f64, b: f64) ensures #[trigger] a.sub_spec(b) == fsub(a, b);
pub broadcast axiom fn ax_sub_vr_req(a: f64, b: &f64) ensures #[trigger] a.sub_req(b);
pub broadcast axiom fn ax_sub_vr(a: f64, b: &f64) ensures #[trigger] a.sub_spec(b) == fsub(a, *b);
pub broadcast axiom fn ax_sub_rv_req(a: &f64, b: f64) ensures #[trigger] a.sub_req(b);
pub broadcast axiom fn ax_sub_rv(a: &f64, b: f64) ensures #[trigger] a.sub_spec(b) == fsub(*a, b);
pub broadcast axiom fn ax_sub_rr_req(a: &f64, b: &f64) ensures #[trigger] a.sub_req(b);
pub broadcast axiom fn ax_sub_rr(a: &f64, b: &f64) ensures #[trigger] a.sub_spec(b) == fsub(*a, *b);
pub broadcast axiom fn ax_mul_vv_req(a: f64, b: f64) ensures #[trigger] a.mul_req(b);
pub broadcast axiom fn ax_mul_vv(a: f64, b: f64) ensures #[trigger] a.mul_spec(b) == fmul(a, b);
pub broadcast axiom fn ax_mul_vr_req(a: f64, b: &f64) ensures #[trigger] a.mul_req(b);
pub broadcast axiom fn ax_mul_vr(a: f64, b: &f64) ensures #[trigger] a.mul_spec(b) == fmul(a, *b);
pub broadcast axiom fn ax_mul_rv_req(a: &f64, b: f64) ensures #[trigger] a.mul_req(b);
pub broadcast axiom fn ax_mul_rv(a: &f64, b: f64) ensures #[trigger] a.mul_spec(b) == fmul(*a, b);
pub broadcast axiom fn ax_mul_rr_req(a: &f64, b: &f64) ensures #[trigger] a.mul_req(b);
pub broadcast axiom fn ax_mul_rr(a: &f64, b: &f64) ensures #[trigger] a.mul_spec(b) == fmul(*a, *b);
pub broadcast axiom fn ax_div_vv_req(a: f64, b: f64) ensures #[trigger] a.div_req(b);
pub broadcast axiom fn ax_div_vv(a: f64, b: f64) ensures #[trigger] a.div_spec(b) == fdiv(a, b);
pub broadcast axiom fn ax_div_vr_req(a: f64, b: &f64) ensures #[trigger] a.div_req(b);
pub broadcast axiom fn ax_div_vr(a: f64, b: &f64) ensures #[trigger] a.div_spec(b) == fdiv(a, *b);
pub broadcast axiom fn ax_div_rv_req(a: &f64, b: f64) ensures #[trigger] a.div_req(b);
pub broadcast axiom fn ax_div_rv(a: &f64, b: f64) ensures #[trigger] a.div_spec(b) == fdiv(*a, b);
pub broadcast axiom fn ax_div_rr_req(a: &f64, b: &f64) ensures #[trigger] a.div_req(b);
pub broadcast axiom fn ax_div_rr(a: &f64, b: &f64) ensures #[trigger] a.div_spec(b) == fdiv(*a, *b);
pub broadcast axiom fn ax_cmp_v(a: f64, b: f64) ensures #[trigger] a.partial_cmp_spec(&b) == fcmp(a, b);
pub broadcast axiom fn ax_eq_v(a: f64, b: f64) ensures #[trigger] a.eq_spec(&b) == feq(a, b);
pub broadcast axiom fn ax_cmp_r(a: &f64, b: &f64) ensures #[trigger] a.partial_cmp_spec(&b) == fcmp(*a, *b);
pub broadcast axiom fn ax_eq_r(a: &f64, b: &f64) ensures #[trigger] a.eq_spec(&b) == feq(*a, *b);
// IEEE facts about comparison that do not depend on the operands' values (discharged for ALL pairs of
// f64 by the loop-free Kani harness `ieee_cmp_flip`): a < b  <=>  b > a, equality is symmetric, an
// unordered pair is unordered both ways; == agrees with partial_cmp.
pub axiom fn ax_obeys()
    ensures
        forall|a: f64, b: f64| (#[trigger] fcmp(a, b) == Some(core::cmp::Ordering::Less)) == (fcmp(b, a) == Some(core::cmp::Ordering::Greater)),
        forall|a: f64, b: f64| (#[trigger] fcmp(a, b) == Some(core::cmp::Ordering::Equal)) == (fcmp(b, a) == Some(core::cmp::Ordering::Equal)),
        forall|a: f64, b: f64| (#[trigger] fcmp(a, b) is None) == (fcmp(b, a) is None),
        forall|a: f64, b: f64| #[trigger] feq(a, b) == (fcmp(a, b) == Some(core::cmp::Ordering::Equal)),
        // max / min are commutative as far as comparisons can tell (the two results are identical, or +0 / -0,
        // or both NaN): discharged for ALL triples by the loop-free Kani harness `ieee_max_min_commute`
        forall|a: f64, b: f64, c: f64| #[trigger] fcmp(fmaxf(a, b), c) == fcmp(fmaxf(b, a), c),
        forall|a: f64, b: f64, c: f64| #[trigger] fcmp(c, fmaxf(a, b)) == fcmp(c, fmaxf(b, a)),
        forall|a: f64, b: f64, c: f64| #[trigger] fcmp(fminf(a, b), c) == fcmp(fminf(b, a), c),
        forall|a: f64, b: f64, c: f64| #[trigger] fcmp(c, fminf(a, b)) == fcmp(c, fminf(b, a)),
        <f64 as AddSpec<f64>>::obeys_add_spec(),
        <f64 as AddSpec<&f64>>::obeys_add_spec(),
        <&f64 as AddSpec<f64>>::obeys_add_spec(),
        <&f64 as AddSpec<&f64>>::obeys_add_spec(),
        <f64 as SubSpec<f64>>::obeys_sub_spec(),
        <f64 as SubSpec<&f64>>::obeys_sub_spec(),
        <&f64 as SubSpec<f64>>::obeys_sub_spec(),
        <&f64 as SubSpec<&f64>>::obeys_sub_spec(),
        <f64 as MulSpec<f64>>::obeys_mul_spec(),
        <f64 as MulSpec<&f64>>::obeys_mul_spec(),
        <&f64 as MulSpec<f64>>::obeys_mul_spec(),
        <&f64 as MulSpec<&f64>>::obeys_mul_spec(),
        <f64 as DivSpec<f64>>::obeys_div_spec(),
        <f64 as DivSpec<&f64>>::obeys_div_spec(),
        <&f64 as DivSpec<f64>>::obeys_div_spec(),
        <&f64 as DivSpec<&f64>>::obeys_div_spec(),
        <f64 as PartialOrdSpec<f64>>::obeys_partial_cmp_spec(),
        <f64 as PartialEqSpec<f64>>::obeys_eq_spec(),
        <&f64 as PartialOrdSpec<&f64>>::obeys_partial_cmp_spec(),
        <&f64 as PartialEqSpec<&f64>>::obeys_eq_spec(),
;
pub broadcast group fl {
    ax_add_vv_req, ax_add_vv, ax_add_vr_req, ax_add_vr, ax_add_rv_req, ax_add_rv, ax_add_rr_req, ax_add_rr, ax_sub_vv_req, ax_sub_vv, ax_sub_vr_req, ax_sub_vr, ax_sub_rv_req, ax_sub_rv, ax_sub_rr_req, ax_sub_rr, ax_mul_vv_req, ax_mul_vv, ax_mul_vr_req, ax_mul_vr, ax_mul_rv_req, ax_mul_rv, ax_mul_rr_req, ax_mul_rr, ax_div_vv_req, ax_div_vv, ax_div_vr_req, ax_div_vr, ax_div_rv_req, ax_div_rv, ax_div_rr_req, ax_div_rr, ax_cmp_v, ax_eq_v, ax_cmp_r, ax_eq_r
}

// R8: unary minus (this Verus rejects float negation); the wrapper IS the operator.
// (core implements Neg for f64 and for &f64: the wrapper takes either)
pub trait __NegArg: Sized { spec fn negv(self) -> f64; }
impl __NegArg for f64 { open spec fn negv(self) -> f64 { self } }
impl<'a> __NegArg for &'a f64 { open spec fn negv(self) -> f64 { *self } }
#[verifier::external_body]
pub fn __neg<T: __NegArg>(x: T) -> (r: f64)
    ensures r == fneg(x.negv()),
{ unimplemented!() }


// f64 methods used by the extracted code: linked to uninterpreted functions (their IEEE facts, where
// a proof needs one, are separate axioms discharged by loop-free Kani harnesses).
pub uninterp spec fn fmaxf(a: f64, b: f64) -> f64;
pub uninterp spec fn fminf(a: f64, b: f64) -> f64;
pub uninterp spec fn fabsf(a: f64) -> f64;
pub uninterp spec fn fisnan(a: f64) -> bool;
pub uninterp spec fn fisfinite(a: f64) -> bool;
pub uninterp spec fn fisinfinite(a: f64) -> bool;
// IEEE classification facts (discharged for ALL f64 / all pairs by the loop-free Kani harness
// `ieee_classification`): finite <=> neither NaN nor infinite; NaN and infinite exclude each other;
// a pair is unordered exactly when one side is NaN; 0.0 is finite.
pub axiom fn ax_ieee_class()
    ensures
        forall|a: f64| #[trigger] fisfinite(a) == (!fisnan(a) && !fisinfinite(a)),
        forall|a: f64| #[trigger] fisnan(a) ==> !fisinfinite(a),
        forall|a: f64, b: f64| (#[trigger] fcmp(a, b) is None) == (fisnan(a) || fisnan(b)),
        fisfinite(0.0f64),
        // (core::cmp::Ordering has exactly three variants: the Rust enum, opaque to this Verus)
        forall|a: f64, b: f64| #[trigger] fcmp(a, b) is None || fcmp(a, b) == Some(core::cmp::Ordering::Less)
            || fcmp(a, b) == Some(core::cmp::Ordering::Equal) || fcmp(a, b) == Some(core::cmp::Ordering::Greater);
pub uninterp spec fn fpowf(a: f64, b: f64) -> f64;
pub uninterp spec fn ftotalcmp(a: f64, b: f64) -> core::cmp::Ordering;
pub assume_specification [f64::max] (a: f64, b: f64) -> (r: f64) ensures r == fmaxf(a, b);
pub assume_specification [f64::min] (a: f64, b: f64) -> (r: f64) ensures r == fminf(a, b);
pub assume_specification [f64::abs] (a: f64) -> (r: f64) ensures r == fabsf(a);
pub assume_specification [f64::is_nan] (a: f64) -> (r: bool) ensures r == fisnan(a);
pub assume_specification [f64::is_finite] (a: f64) -> (r: bool) ensures r == fisfinite(a);
pub assume_specification [f64::is_infinite] (a: f64) -> (r: bool) ensures r == fisinfinite(a);
// further classification / sign predicates: deterministic functions about which nothing else is known
// (code that switches to one of them no longer verifies against a contract stated with `>`, `is_finite`, ...)
pub uninterp spec fn fisnormal(a: f64) -> bool;
pub uninterp spec fn fissubnormal(a: f64) -> bool;
pub uninterp spec fn fissignpos(a: f64) -> bool;
pub uninterp spec fn fissignneg(a: f64) -> bool;
pub assume_specification [f64::is_normal] (a: f64) -> (r: bool) ensures r == fisnormal(a);
pub assume_specification [f64::is_subnormal] (a: f64) -> (r: bool) ensures r == fissubnormal(a);
pub assume_specification [f64::is_sign_positive] (a: f64) -> (r: bool) ensures r == fissignpos(a);
pub assume_specification [f64::is_sign_negative] (a: f64) -> (r: bool) ensures r == fissignneg(a);
pub assume_specification [f64::powf] (a: f64, b: f64) -> (r: f64) ensures r == fpowf(a, b);
pub assume_specification [f64::total_cmp] (a: &f64, b: &f64) -> (r: core::cmp::Ordering) ensures r == ftotalcmp(*a, *b);

// R9: associated constants this Verus rejects; the wrappers' bodies ARE the constants.
pub uninterp spec fn finf() -> f64;
pub uninterp spec fn fneginf() -> f64;
#[verifier::external_body]
pub fn __inf() -> (r: f64) ensures r == finf() { f64::INFINITY }
#[verifier::external_body]
pub fn __neg_inf() -> (r: f64) ensures r == fneginf() { f64::NEG_INFINITY }
pub assume_specification [core::cmp::Ordering::is_lt] (o: core::cmp::Ordering) -> (r: bool) ensures r == (o == core::cmp::Ordering::Less);
pub assume_specification [core::cmp::Ordering::is_le] (o: core::cmp::Ordering) -> (r: bool) ensures r == (o != core::cmp::Ordering::Greater);
pub assume_specification [core::cmp::Ordering::is_gt] (o: core::cmp::Ordering) -> (r: bool) ensures r == (o == core::cmp::Ordering::Greater);
pub assume_specification [core::cmp::Ordering::is_ge] (o: core::cmp::Ordering) -> (r: bool) ensures r == (o != core::cmp::Ordering::Less);
pub uninterp spec fn fconst_EPSILON() -> f64;
#[verifier::external_body]
pub fn __f64_EPSILON() -> (r: f64) ensures r == fconst_EPSILON() { f64::EPSILON }
pub uninterp spec fn fconst_MAX() -> f64;
#[verifier::external_body]
pub fn __f64_MAX() -> (r: f64) ensures r == fconst_MAX() { f64::MAX }
pub uninterp spec fn fconst_MIN() -> f64;
#[verifier::external_body]
pub fn __f64_MIN() -> (r: f64) ensures r == fconst_MIN() { f64::MIN }
pub uninterp spec fn fconst_MIN_POSITIVE() -> f64;
#[verifier::external_body]
pub fn __f64_MIN_POSITIVE() -> (r: f64) ensures r == fconst_MIN_POSITIVE() { f64::MIN_POSITIVE }
pub uninterp spec fn fconst_NAN() -> f64;
#[verifier::external_body]
pub fn __f64_NAN() -> (r: f64) ensures r == fconst_NAN() { f64::NAN }

// R12: integer-to-float casts (`X as f64`), which this Verus rejects; the wrapper IS the cast.
pub uninterp spec fn u64_to_f64(n: u64) -> f64;
pub uninterp spec fn usize_to_f64(n: usize) -> f64;
pub trait ToF64: Sized {
    spec fn to_f64_spec(self) -> f64;
    fn __to_f64(self) -> (r: f64) ensures r == self.to_f64_spec();
}
impl ToF64 for u64 {
    open spec fn to_f64_spec(self) -> f64 { u64_to_f64(self) }
    #[verifier::external_body]
    fn __to_f64(self) -> (r: f64) { self as f64 }
}
impl ToF64 for usize {
    open spec fn to_f64_spec(self) -> f64 { usize_to_f64(self) }
    #[verifier::external_body]
    fn __to_f64(self) -> (r: f64) { self as f64 }
}
pub fn __as_f64<T: ToF64>(x: T) -> (r: f64) ensures r == x.to_f64_spec() { x.__to_f64() }

// R13: identity on f64 (see rule R13 of the extractor)
pub fn __idf(x: f64) -> (r: f64) ensures r == x { x }

// ---- prelude fragment: ideal.rs ----
// Floating point, layer 2 ("idealised real" mode of DESIGN.md 3.2): machine arithmetic treated as
// mathematical.  rv maps a float to the real it denotes; rounding, overflow, NaN and signed zero are
// ignored.  Used only where the property is a statement of real arithmetic.
pub uninterp spec fn rv(x: f64) -> real;
pub broadcast axiom fn ax_rv_add(a: f64, b: f64) ensures rv(#[trigger] fadd(a, b)) == rv(a) + rv(b);
pub broadcast axiom fn ax_rv_sub(a: f64, b: f64) ensures rv(#[trigger] fsub(a, b)) == rv(a) - rv(b);
pub broadcast axiom fn ax_rv_mul(a: f64, b: f64) ensures rv(#[trigger] fmul(a, b)) == rv(a) * rv(b);
pub broadcast axiom fn ax_rv_div(a: f64, b: f64) ensures rv(b) != 0real ==> rv(#[trigger] fdiv(a, b)) == rv(a) / rv(b);
pub broadcast axiom fn ax_rv_neg(a: f64) ensures rv(#[trigger] fneg(a)) == 0real - rv(a);
pub broadcast axiom fn ax_rv_cmp(a: f64, b: f64)
    ensures #[trigger] fcmp(a, b) == (if rv(a) < rv(b) { Some(core::cmp::Ordering::Less) }
        else if rv(a) == rv(b) { Some(core::cmp::Ordering::Equal) } else { Some(core::cmp::Ordering::Greater) });
pub broadcast axiom fn ax_rv_eq(a: f64, b: f64) ensures #[trigger] feq(a, b) == (rv(a) == rv(b));
pub broadcast axiom fn ax_rv_max(a: f64, b: f64) ensures rv(#[trigger] fmaxf(a, b)) == (if rv(a) >= rv(b) { rv(a) } else { rv(b) });
pub broadcast axiom fn ax_rv_min(a: f64, b: f64) ensures rv(#[trigger] fminf(a, b)) == (if rv(a) <= rv(b) { rv(a) } else { rv(b) });
// (idealised) powf denotes a function of the real values of its arguments
pub uninterp spec fn rpow(x: real, y: real) -> real;
pub broadcast axiom fn ax_rv_powf(a: f64, b: f64) ensures rv(#[trigger] fpowf(a, b)) == rpow(rv(a), rv(b));
pub axiom fn ax_rv_lits()
    ensures rv(0.0f64) == 0real, rv(1.0f64) == 1real, rv(2.0f64) == 2real, rv(0.5f64) * 2real == 1real;
pub broadcast group ideal {
    ax_rv_add, ax_rv_sub, ax_rv_mul, ax_rv_div, ax_rv_neg, ax_rv_cmp, ax_rv_eq, ax_rv_max, ax_rv_min, ax_rv_powf
}
// (idealised) integer-to-float casts are exact
pub broadcast axiom fn ax_rv_u64(n: u64) ensures rv(#[trigger] u64_to_f64(n)) == n as real;
pub broadcast axiom fn ax_rv_usize(n: usize) ensures rv(#[trigger] usize_to_f64(n)) == n as real;
pub broadcast group ideal_casts { ax_rv_u64, ax_rv_usize }

// ---- prelude fragment: std_ext.rs ----
// R5: assumed contracts on std items that vstd does not specify (each is listed in the evidence).
#[verifier::external_trait_specification]
pub trait ExAsRef<T: core::marker::PointeeSized>: core::marker::PointeeSized {
    type ExternalTraitSpecificationFor: core::convert::AsRef<T>;
    fn as_ref(&self) -> (r: &T)
        ensures r == asref_view::<Self, T>(self);
}
pub uninterp spec fn asref_view<S: core::marker::PointeeSized, T: core::marker::PointeeSized>(s: &S) -> &T;

// ---- prelude fragment: infoset_traits.rs ----
// Trait declarations of src/lib.rs restated with a ghost view and a contract on each method
// (a trait method declaration has no body to extract; `expect` entries of the unit check on every
// run that the real declarations still have exactly these signatures).
pub trait ChanceInfoset {
    spec fn probs_view(&self) -> Seq<f64>;
    fn probs(&self) -> (r: &[f64])
        ensures r@ == self.probs_view();
}
pub trait PlayerInfoset {
    spec fn num_actions_view(&self) -> usize;
    spec fn prev_infoset_view(&self) -> Option<usize>;
    fn num_actions(&self) -> (r: usize)
        ensures r == self.num_actions_view();
    fn prev_infoset(&self) -> (r: Option<usize>)
        ensures r == self.prev_infoset_view();
}

// ---- extracted from src/lib.rs: enum PlayerNum ----
#[derive(Copy, Clone)]
pub enum PlayerNum {
    /// The first player
    One,
    /// The second player
    Two,
}

// PlayerNum::ind / ind_mut use slice patterns in a `match` (rejected by this Verus); they are kept
// external with the two-case spec, and that spec is discharged against the real bodies by the
// loop-free Kani harness `playernum_ind` (so it is cited, not assumed).
impl PlayerNum {
    #[verifier::external_body]
    pub fn ind<'a, T>(&self, arr: &'a [T; 2]) -> (r: &'a T)
        ensures *r == (match *self { PlayerNum::One => arr[0], PlayerNum::Two => arr[1] })
    { unimplemented!() }

    #[verifier::external_body]
    pub fn ind_mut<'a, T>(&self, arr: &'a mut [T; 2]) -> (r: &'a mut T)
        ensures
            *r == (match *self { PlayerNum::One => old(arr)[0], PlayerNum::Two => old(arr)[1] }),
            match *self {
                PlayerNum::One => final(arr)[0] == *final(r) && final(arr)[1] == old(arr)[1],
                PlayerNum::Two => final(arr)[1] == *final(r) && final(arr)[0] == old(arr)[0],
            },
    { unimplemented!() }
}

// ---- extracted from src/lib.rs: enum Node ----
pub enum Node {
    /// A terminal node, the game is over the payoff to player one
    Terminal(f64),
    /// A chance node, the game advances independent of player action
    Chance(Chance),
    /// a node in the tree where the player can choose between different actions
    Player(Player),
}

// ---- extracted from src/lib.rs: struct Chance ----
pub struct Chance {
    pub outcomes: Box<[Node]>,
    pub infoset: usize,
}

// ---- extracted from src/lib.rs: struct Player ----
pub struct Player {
    pub num: PlayerNum,
    pub infoset: usize,
    pub actions: Box<[Node]>,
}

// ---- extracted from src/regret.rs: struct DeviationInfo ----
pub struct DeviationInfo<'a> {
    pub future_nodes: usize,
    pub prob_nodes: Vec<(&'a Player, f64)>,
    pub max_utility: f64,
}

// children of a node, as a sequence (shared by the ev and val specifications)
pub open spec fn kids_of(n: Node) -> Seq<Node> {
    match n {
        Node::Terminal(_) => Seq::empty(),
        Node::Chance(ch) => ch.outcomes@,
        Node::Player(pl) => pl.actions@,
    }
}

pub proof fn lemma_dist(r: real, a: real, w: real, e: real)
    ensures r * (a + w * e) == r * a + (w * r) * e
{
    assert(r * (a + w * e) == r * a + (w * r) * e) by(nonlinear_arith);
}

// ---- specification: value of a continuation up to the deviating player's next infosets ----
pub struct VCtx { pub chance: Seq<Seq<f64>>, pub opp: Seq<Seq<f64>>, pub utab: Seq<f64>, pub p1: bool }

pub open spec fn own(n: Node, p1: bool) -> bool {
    match n { Node::Player(pl) => (match pl.num { PlayerNum::One => p1, PlayerNum::Two => !p1 }), _ => false }
}
pub open spec fn vweights(n: Node, c: VCtx) -> Seq<f64> {
    match n {
        Node::Terminal(_) => Seq::empty(),
        Node::Chance(ch) => c.chance[ch.infoset as int],
        Node::Player(pl) => c.opp[pl.infoset as int],
    }
}
pub open spec fn val(n: Node, c: VCtx) -> real
    decreases n, 1int, 0int
{
    match n {
        Node::Terminal(p) => if c.p1 { rv(p) } else { 0real - rv(p) },
        Node::Player(pl) => if own(n, c.p1) { rv(c.utab[pl.infoset as int]) } else { vsum(n, c, kids_of(n).len() as int) },
        Node::Chance(_) => vsum(n, c, kids_of(n).len() as int),
    }
}
pub open spec fn vsum(parent: Node, c: VCtx, k: int) -> real
    decreases parent, 0int, k
{
    if k <= 0 || k > kids_of(parent).len() { 0real } else {
        vsum(parent, c, k - 1) + rv(vweights(parent, c)[k - 1]) * val(kids_of(parent)[k - 1], c)
    }
}
pub open spec fn vwf(n: Node, c: VCtx) -> bool
    decreases n
{
    match n {
        Node::Terminal(_) => true,
        Node::Chance(ch) => ch.infoset < c.chance.len() && vweights(n, c).len() == kids_of(n).len()
            && forall|i: int| 0 <= i < kids_of(n).len() ==> vwf(#[trigger] kids_of(n)[i], c),
        Node::Player(pl) => if own(n, c.p1) { pl.infoset < c.utab.len() } else {
            pl.infoset < c.opp.len() && vweights(n, c).len() == kids_of(n).len()
            && (forall|i: int| 0 <= i < kids_of(n).len() ==> rv(#[trigger] vweights(n, c)[i]) >= 0real)
            && forall|i: int| 0 <= i < kids_of(n).len() ==> vwf(#[trigger] kids_of(n)[i], c)
        },
    }
}
pub open spec fn vqsum(q: Seq<(&Node, f64)>, c: VCtx) -> real
    decreases q.len()
{
    if q.len() == 0 { 0real } else { vqsum(q.drop_last(), c) + rv(q.last().1) * val(*q.last().0, c) }
}
pub open spec fn vctx_seq<C: ChanceInfoset, S: AsRef<[f64]>>(p1: bool, infos: Seq<DeviationInfo>, chance_info: &[C], strat_info: &[S]) -> VCtx {
    VCtx {
        chance: Seq::new(chance_info@.len(), |i: int| chance_info@[i].probs_view()),
        opp: Seq::new(strat_info@.len(), |i: int| asref_view::<S, [f64]>(&strat_info@[i])@),
        utab: Seq::new(infos.len(), |i: int| infos[i].max_utility),
        p1: p1,
    }
}
pub open spec fn vctx_of<C: ChanceInfoset, S: AsRef<[f64]>>(p1: bool, infosets: &[DeviationInfo], chance_info: &[C], strat_info: &[S]) -> VCtx {
    vctx_seq(p1, infosets@, chance_info, strat_info)
}
pub proof fn lemma_vqsum_push(q: Seq<(&Node, f64)>, e: (&Node, f64), c: VCtx)
    ensures vqsum(q.push(e), c) == vqsum(q, c) + rv(e.1) * val(*e.0, c)
{
    assert(q.push(e).drop_last() =~= q);
}

// ---- extracted from src/regret.rs: fn next_infoset_search ----
#[verifier::exec_allows_no_decreases_clause]
pub fn next_infoset_search<'a, const PLAYER_ONE: bool>(
    start: &'a Node,
    search_queue: &mut Vec<(&'a Node, f64)>,
    infosets: &[DeviationInfo],
    chance_info: &[impl ChanceInfoset],
    strat_info: &[impl AsRef<[f64]>],
) -> (out: f64) 
    requires
        old(search_queue)@.len() == 0,
        vwf(*start, vctx_of(PLAYER_ONE, infosets, chance_info, strat_info)),
    ensures
        final(search_queue)@.len() == 0, // @ob C01.V.next_infoset_search.queue_empty
        rv(out) == val(*start, vctx_of(PLAYER_ONE, infosets, chance_info, strat_info)), // @ob C01.V.next_infoset_search.value
{
broadcast use fl; broadcast use ideal;
proof { ax_obeys(); ax_rv_lits(); }
let ghost c = vctx_of(PLAYER_ONE, infosets, chance_info, strat_info);

    let mut res = 0.0;
    search_queue.push((start, 1.0));
    proof {
    assert(search_queue@ =~= Seq::<(&Node, f64)>::empty().push((start, 1.0f64)));
    lemma_vqsum_push(Seq::<(&Node, f64)>::empty(), (start, 1.0f64), c);
}
while let Some((node, reach)) = search_queue.pop() 
invariant
    c == vctx_of(PLAYER_ONE, infosets, chance_info, strat_info),
    forall|i: int| 0 <= i < search_queue@.len() ==> vwf(*(#[trigger] search_queue@[i]).0, c),
    rv(res) + vqsum(search_queue@, c) == val(*start, c), // @ob C01.V.next_infoset_search.value
ensures
    search_queue@.len() == 0,
{
broadcast use fl; broadcast use ideal;
proof { ax_obeys(); ax_rv_lits(); }

        match node {
            Node::Terminal(payoff) => {
                if PLAYER_ONE {
                    res = res + ( payoff * reach);
                } else {
                    res = res - ( payoff * reach);
                }
            }
            Node::Chance(chance) => {
                let probs = chance_info[chance.infoset].probs();
                let ghost q0 = search_queue@;
proof { assert(vsum(*node, c, 0) == 0real); }
for (prob, next) in it: probs.iter().zip(chance.outcomes.iter()) 
invariant
    c == vctx_of(PLAYER_ONE, infosets, chance_info, strat_info),
    vwf(*node, c),
    *node == Node::Chance(*chance),
    probs@ == vweights(*node, c),
    probs@.len() == chance.outcomes@.len(),
    0 <= it.index@ <= probs@.len(),
    forall|i: int| 0 <= i < search_queue@.len() ==> vwf(*(#[trigger] search_queue@[i]).0, c),
    vqsum(search_queue@, c) == vqsum(q0, c) + rv(reach) * vsum(*node, c, it.index@), // @ob C01.V.next_infoset_search.value
{
broadcast use fl; broadcast use ideal;
proof { ax_obeys(); ax_rv_lits(); }
let ghost k = it.index@;
let ghost qb = search_queue@;
proof {
    assert(kids_of(*node)[k] == *next);
    assert(vsum(*node, c, k + 1) == vsum(*node, c, k) + rv(probs@[k]) * val(*next, c));
}

                    search_queue.push((next, prob * reach));
                
proof {
    assert(search_queue@ =~= qb.push(search_queue@.last()));
    assert(search_queue@.last().0 == next && rv(search_queue@.last().1) == rv(*prob) * rv(reach));
    lemma_vqsum_push(qb, search_queue@.last(), c);
    lemma_dist(rv(reach), vsum(*node, c, k), rv(*prob), val(*next, c));
}
}
            }
            Node::Player(player) => match (player.num, PLAYER_ONE) {
                (PlayerNum::One, true) | (PlayerNum::Two, false) => {
                    let info = &infosets[player.infoset];
                    
                    
                    res = res + ( info.max_utility * reach);
                }
                (PlayerNum::One, false) | (PlayerNum::Two, true) => {
                    let probs = strat_info[player.infoset].as_ref();
                    let ghost q0 = search_queue@;
proof { assert(vsum(*node, c, 0) == 0real); }
for (prob, next) in it: probs.iter().zip(player.actions.iter()) 
invariant
    c == vctx_of(PLAYER_ONE, infosets, chance_info, strat_info),
    vwf(*node, c),
    *node == Node::Player(*player),
    !own(*node, c.p1),
    probs@ == vweights(*node, c),
    probs@.len() == player.actions@.len(),
    0 <= it.index@ <= probs@.len(),
    forall|i: int| 0 <= i < search_queue@.len() ==> vwf(*(#[trigger] search_queue@[i]).0, c),
    vqsum(search_queue@, c) == vqsum(q0, c) + rv(reach) * vsum(*node, c, it.index@), // @ob C01.V.next_infoset_search.value
{
broadcast use fl; broadcast use ideal;
proof { ax_obeys(); ax_rv_lits(); }
let ghost k = it.index@;
let ghost qb = search_queue@;
proof {
    assert(kids_of(*node)[k] == *next);
    assert(vsum(*node, c, k + 1) == vsum(*node, c, k) + rv(probs@[k]) * val(*next, c));
}
proof { assert(rv(vweights(*node, c)[k]) >= 0real); }

                        if prob > &0.0 {
                            search_queue.push((next, prob * reach));
                        }
                    
proof {
    let w = rv(*prob); let r = rv(reach); let e = val(*next, c);
    lemma_dist(r, vsum(*node, c, k), w, e);
    if w > 0real {
        assert(search_queue@ =~= qb.push(search_queue@.last()));
        assert(search_queue@.last().0 == next && rv(search_queue@.last().1) == w * r);
        lemma_vqsum_push(qb, search_queue@.last(), c);
    } else {
        assert((w * r) * e == 0real) by(nonlinear_arith) requires w == 0real;
        assert(w * e == 0real) by(nonlinear_arith) requires w == 0real;
    }
}
}
                }
            },
        }
    
proof {
    let r = rv(reach);
    let v = val(*node, c);
    assert(r * (0real - v) == 0real - v * r) by(nonlinear_arith);
    assert(r * v == v * r) by(nonlinear_arith);
    if let Node::Terminal(p) = *node {
        let pv = rv(p);
        assert(r * (0real - pv) == 0real - pv * r) by(nonlinear_arith);
        assert(r * pv == pv * r) by(nonlinear_arith);
    }
}
}
proof { assert(vqsum(search_queue@, c) == 0real); }

    res
}


// vacuity canary: must be REJECTED by the verifier (an inconsistent axiom set would accept it)
pub proof fn __canary_must_fail()
    ensures false, // @ob __canary
{
    broadcast use fl; broadcast use ideal; ax_obeys(); ax_rv_lits();
}

} // verus!
fn main() {}
