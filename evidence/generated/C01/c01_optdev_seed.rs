#![feature(sized_hierarchy)]
#![feature(allocator_api)]
#![allow(unused_imports, unused_variables, dead_code, unused_mut, unused_parens, unused_braces, non_snake_case)]
use vstd::prelude::*;
use vstd::std_specs::ops::*;
use vstd::std_specs::cmp::*;
use vstd::float::*;
use vstd::std_specs::iter::IteratorSpec;
verus! {
#[verifier::external_body] pub struct Player { }

// ---- extracted from src/regret.rs: struct DeviationInfo ----
pub struct DeviationInfo<'a> {
    pub future_nodes: usize,
    pub prob_nodes: Vec<(&'a Player, f64)>,
    pub max_utility: f64,
}

// ---- extracted from src/regret.rs: fn optimal_deviations ----
pub fn optimal_deviations__seed_predicate<'a>(dev: &DeviationInfo<'a>) -> (out: bool)
    ensures
        // an infoset starts in the resolution queue exactly when nothing below it is pending AND the first
        // pass recorded at least one node for it: an unreached infoset has no reach to normalise by, and
        // resolving it would credit its predecessor with zero nodes and enqueue that predecessor a second time
        out == (dev.future_nodes == 0 && dev.prob_nodes@.len() > 0), // @ob C01.V.optimal_deviations.seed
{
dev.future_nodes == 0 && !dev.prob_nodes.is_empty()
}


// vacuity canary: must be REJECTED by the verifier (an inconsistent axiom set would accept it)
pub proof fn __canary_must_fail()
    ensures false, // @ob __canary
{
    
}

} // verus!
fn main() {}
