#![feature(sized_hierarchy)]
#![feature(allocator_api)]
#![allow(unused_imports, unused_variables, dead_code, unused_mut, unused_parens, unused_braces, non_snake_case)]
use vstd::prelude::*;
use vstd::std_specs::ops::*;
use vstd::std_specs::cmp::*;
use vstd::float::*;
use vstd::std_specs::iter::IteratorSpec;
verus! {
// ---- extracted from src/error.rs: enum StratError ----
#[derive(PartialEq, Eq, Structural, Clone, Copy)]
pub enum StratError {
    /// Returned when the game doesn't have a specific infoset
    InvalidInfoset,
    /// Returned when the game doesn't have an action for an infoset
    InvalidAction,
    /// Returned when a probability for an action is negative, nan, or infinite
    InvalidProbability,
    /// Returned when no action in an infoset was assigned positive probability
    UninitializedInfoset,
}

use std::hash::Hash;
pub trait Borrow<T> { }
#[verifier::external_body]
#[verifier::reject_recursive_types(I)]
#[verifier::reject_recursive_types(A)]
pub struct PlayerInfosetData<I, A> { _p: core::marker::PhantomData<(I, A)> }
#[verifier::external_body]
#[verifier::reject_recursive_types(I)]
#[verifier::reject_recursive_types(A)]
pub struct Inds<I, A> { _p: core::marker::PhantomData<(I, A)> }
#[verifier::external_body]
#[verifier::reject_recursive_types(I)]
#[verifier::reject_recursive_types(A)]
pub struct Singles<I, A> { _p: core::marker::PhantomData<(I, A)> }
// the phases of the hashing import, each an uninterpreted function of what it is given (their insides:
// c14_hash_validate, c14_normalise); what this unit decides is that strat_into_box IS their sequence
pub uninterp spec fn tables_spec<I, A>(infos: Seq<PlayerInfosetData<I, A>>) -> (Inds<I, A>, usize);
pub uninterp spec fn singles_spec<I, A>(raw: Seq<(I, A)>) -> Singles<I, A>;
pub uninterp spec fn dense_spec(n: usize) -> Box<[f64]>;
pub uninterp spec fn validate_spec<S, I, A>(strat: S, inds: Inds<I, A>, singles: Singles<I, A>, dense: Box<[f64]>) -> Result<(Singles<I, A>, Box<[f64]>), StratError>;
pub uninterp spec fn normalise_spec<I, A>(dense: Box<[f64]>, infos: Seq<PlayerInfosetData<I, A>>) -> Result<Box<[f64]>, StratError>;
pub uninterp spec fn all_seen_spec<I, A>(singles: Singles<I, A>) -> Result<(), StratError>;
#[verifier::external_body]
pub fn __abs_tables<I, A>(infos: &[PlayerInfosetData<I, A>]) -> (r: (Inds<I, A>, usize)) ensures r == tables_spec(infos@) { unimplemented!() }
#[verifier::external_body]
pub fn __abs_dense(n: usize) -> (r: Box<[f64]>) ensures r == dense_spec(n) { unimplemented!() }
#[verifier::external_body]
pub fn __abs_singles<I, A>(raw: &[(I, A)]) -> (r: Singles<I, A>) ensures r == singles_spec(raw@) { unimplemented!() }
#[verifier::external_body]
pub fn __abs_validate<S, I, A>(strat: S, inds: &Inds<I, A>, singles: &mut Singles<I, A>, dense: &mut Box<[f64]>) -> (r: Result<(), StratError>)
    ensures match validate_spec(strat, *inds, *old(singles), *old(dense)) {
        Ok(sd) => r is Ok && *final(singles) == sd.0 && *final(dense) == sd.1,
        Err(e) => r is Err && r->Err_0 == e,
    },
{ unimplemented!() }
#[verifier::external_body]
pub fn __abs_normalise<I, A>(dense: &mut Box<[f64]>, infos: &[PlayerInfosetData<I, A>]) -> (r: Result<(), StratError>)
    ensures match normalise_spec(*old(dense), infos@) { Ok(d) => r is Ok && *final(dense) == d, Err(e) => r is Err && r->Err_0 == e },
{ unimplemented!() }
#[verifier::external_body]
pub fn __abs_all_seen<I, A>(singles: Singles<I, A>) -> (r: Result<(), StratError>)
    ensures r == all_seen_spec(singles),
{ unimplemented!() }
// the result of the import as the sequence of its phases
pub open spec fn import_seq<S, I, A>(strat: S, infos: Seq<PlayerInfosetData<I, A>>, raw: Seq<(I, A)>) -> Result<Box<[f64]>, StratError> {
    let t = tables_spec(infos);
    match validate_spec(strat, t.0, singles_spec(raw), dense_spec(t.1)) {
        Err(e) => Err(e),
        Ok(sd) => match normalise_spec(sd.1, infos) {
            Err(e) => Err(e),
            Ok(d) => match all_seen_spec(sd.0) { Err(e) => Err(e), Ok(_) => Ok(d) },
        },
    }
}

pub struct Game<I, A> { _p: core::marker::PhantomData<(I, A)> }

impl<I: Hash + Eq + Clone, A: Hash + Eq + Clone> Game<I, A> {

// ---- extracted from src/lib.rs: impl Game / fn strat_into_box ----
pub fn strat_into_box<S>(
        strat: S,
        infos: &[PlayerInfosetData<I, A>],
        raw_singles: &[(I, A)],
    ) -> (out: Result<Box<[f64]>, StratError>) 
    ensures
        out == import_seq(strat, infos@, raw_singles@), // @ob C14.V.hash_import.is_its_phases
{
        
        
        let (inds, num_inds) = __abs_tables(infos);
        let mut dense = __abs_dense(num_inds);

        let mut singles = __abs_singles(raw_singles);

        __abs_validate(strat, &inds, &mut singles, &mut dense)?;

        // check we wrote to all locations
        __abs_normalise(&mut dense, infos)?;
        __abs_all_seen(singles)?;

        Ok(dense)
    }

}


// vacuity canary: must be REJECTED by the verifier (an inconsistent axiom set would accept it)
pub proof fn __canary_must_fail()
    ensures false, // @ob __canary
{
    
}

} // verus!
fn main() {}
