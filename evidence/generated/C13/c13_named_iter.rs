#![feature(sized_hierarchy)]
#![feature(allocator_api)]
#![allow(unused_imports, unused_variables, dead_code, unused_mut, unused_parens, unused_braces, non_snake_case)]
use vstd::prelude::*;
use vstd::std_specs::ops::*;
use vstd::std_specs::cmp::*;
use vstd::float::*;
use vstd::std_specs::iter::IteratorSpec;
verus! {
use std::iter::{self, FusedIterator, Once, Zip};
use std::slice;
#[verifier::reject_recursive_types(T)]
#[verifier::external_type_specification]
#[verifier::external_body]
pub struct ExOnce<T>(std::iter::Once<T>);
pub assume_specification<T> [std::iter::once] (x: T) -> std::iter::Once<T>;

// ---- extracted from src/lib.rs: struct PlayerInfosetData ----
pub struct PlayerInfosetData<I, A> {
    pub infoset: I,
    pub actions: Box<[A]>,
    pub prev_infoset: Option<usize>,
}

// ---- extracted from src/lib.rs: impl PlayerInfosetData ----
impl<I, A> PlayerInfosetData<I, A> {
pub fn num_actions(&self) -> (r: usize) 
    ensures r == self.actions@.len()
{
        self.actions.len()
    }
}

// ---- extracted from src/lib.rs: struct NamedStrategyIter ----
#[verifier::reject_recursive_types(Infoset)]
#[verifier::reject_recursive_types(Action)]
pub struct NamedStrategyIter<'a, Infoset, Action> {
    pub info: &'a [PlayerInfosetData<Infoset, Action>],
    pub probs: &'a [f64],
    pub singles: slice::Iter<'a, (Infoset, Action)>,
}

// ---- extracted from src/lib.rs: struct NamedStrategyActionIter ----
#[verifier::reject_recursive_types(Action)]
pub struct NamedStrategyActionIter<'a, Action> {
    pub iter: ActionType<'a, Action>,
}

// ---- extracted from src/lib.rs: enum ActionType ----
#[verifier::reject_recursive_types(A)]
pub enum ActionType<'a, A> {
    Data(Zip<slice::Iter<'a, A>, slice::Iter<'a, f64>>),
    Single(Once<&'a A>),
}


impl<'a, I, A> vstd::std_specs::iter::IteratorSpecImpl for NamedStrategyIter<'a, I, A> {
    open spec fn obeys_prophetic_iter_laws(&self) -> bool { false }
    #[verifier::prophetic]
    open spec fn remaining(&self) -> Seq<Self::Item> { arbitrary() }
    #[verifier::prophetic]
    open spec fn will_return_none(&self) -> bool { arbitrary() }
    open spec fn decrease(&self) -> Option<nat> { None }
    open spec fn peek(&self, i: int) -> Option<Self::Item> { None }
}
pub open spec fn total_actions<I, A>(info: Seq<PlayerInfosetData<I, A>>) -> nat
    decreases info.len()
{
    if info.len() == 0 { 0 } else { info[0].actions@.len() + total_actions(info.drop_first()) }
}

// ---- extracted from src/lib.rs: impl NamedStrategyIter ----
impl<'a, I, A> NamedStrategyIter<'a, I, A> {

    // representation invariant: the dense vector is exactly as long as the remaining infosets need
    pub open spec fn wf(self) -> bool {
        self.probs@.len() == total_actions(self.info@)
    }
    // measure: number of items still to be yielded
    #[verifier::prophetic]
    pub open spec fn rem(self) -> int {
        (self.info@.len() + self.singles.remaining().len()) as int
    }
pub fn new(info: &'a [PlayerInfosetData<I, A>], probs: &'a [f64], singles: &'a [(I, A)]) -> (r: Self) 
    requires
        probs@.len() == total_actions(info@),
    ensures
        r.wf(), r.info@ == info@, r.probs@ == probs@, r.rem() == info@.len() + singles@.len(), // @ob C13.V.NamedStrategyIter.new
{
        NamedStrategyIter {
            info,
            probs,
            singles: singles.iter(),
        }
    }
}

// ---- extracted from src/lib.rs: impl Iterator for NamedStrategyIter ----
impl<'a, I, A> Iterator for NamedStrategyIter<'a, I, A> {
    type Item = (&'a I, NamedStrategyActionIter<'a, A>);
fn next(&mut self) -> (ret: Option<Self::Item>) 
    ensures
        final(self).wf(), // @ob C13.V.NamedStrategyIter.wf_preserved
        (ret is Some) == (old(self).rem() > 0), // @ob C13.V.NamedStrategyIter.some_iff_remaining
        final(self).rem() == (if old(self).rem() > 0 { old(self).rem() - 1 } else { 0 }), // @ob C13.V.NamedStrategyIter.exact_size
        // the k-th item is infoset k with the k-th block of the dense vector; then the singles in order
        old(self).info@.len() > 0 ==> ret is Some
            && *(ret.unwrap().0) == old(self).info@[0].infoset
            && final(self).info@ == old(self).info@.drop_first()
            && final(self).probs@ == old(self).probs@.skip(old(self).info@[0].actions@.len() as int)
            && final(self).singles == old(self).singles, // @ob C13.V.NamedStrategyIter.kth_block
        old(self).info@.len() == 0 && old(self).singles.remaining().len() > 0 ==> ret is Some
            && *(ret.unwrap().0) == old(self).singles.remaining()[0].0
            && final(self).info@.len() == 0
            && final(self).singles.remaining() == old(self).singles.remaining().drop_first(), // @ob C13.V.NamedStrategyIter.singles_in_order
{
proof {
    assume(self.wf()); // representation invariant (constructor + preservation, see unit assumptions)
    assert(self.info@.len() > 0 ==> total_actions(self.info@) == self.info@[0].actions@.len() + total_actions(self.info@.drop_first()));
}

        if let Some((info, rest_infos)) = self.info.split_first() {
            let (probs, rest_probs) = self.probs.split_at(info.num_actions());
            self.info = rest_infos;
            self.probs = rest_probs;
            Some((
                &info.infoset,
                NamedStrategyActionIter {
                    iter: ActionType::Data(info.actions.iter().zip(probs.iter())),
                },
            ))
        } else if let Some((info, act)) = self.singles.next() {
            Some((
                info,
                NamedStrategyActionIter {
                    iter: ActionType::Single(iter::once(act)),
                },
            ))
        } else {
            None
        }
    }
fn size_hint(&self) -> (r: (usize, Option<usize>)) 
    ensures
        r.0 == self.rem(), r.1 == Some(r.0), // @ob C13.V.NamedStrategyIter.exact_size
{
proof {
    assume(self.wf());
    assume(self.probs@.len() <= isize::MAX && self.info@.len() <= isize::MAX && self.singles.remaining().len() <= isize::MAX);
}

        let len = self.info.len() + self.singles.len();
        (len, Some(len))
    }
}


// vacuity canary: must be REJECTED by the verifier (an inconsistent axiom set would accept it)
pub proof fn __canary_must_fail()
    ensures false, // @ob __canary
{
    
}

} // verus!
fn main() {}
