#![feature(sized_hierarchy)]
#![feature(allocator_api)]
#![allow(unused_imports, unused_variables, dead_code, unused_mut, unused_parens, unused_braces, non_snake_case)]
use vstd::prelude::*;
use vstd::std_specs::ops::*;
use vstd::std_specs::cmp::*;
use vstd::float::*;
use vstd::std_specs::iter::IteratorSpec;
verus! {
use std::iter::Zip;
use std::slice;
use vstd::std_specs::iter::{zip_iter_snd, zip_iter_fst};
pub struct Node { }
pub trait ChanceRecurse: Send {
    fn next_nodes<'a>(&self, chance: &'a Chance) -> ChanceIter<'_, 'a>;
    fn advance(&mut self);
}

// ---- extracted from src/lib.rs: struct Chance ----
pub struct Chance {
    pub outcomes: Box<[Node]>,
    pub infoset: usize,
}

// ---- extracted from src/solve/vanilla.rs: type ChanceIter ----
pub type ChanceIter<'a, 'b> = Zip<slice::Iter<'a, f64>, slice::Iter<'b, Node>>;

// ---- extracted from src/solve/vanilla.rs: struct FullChance ----
pub struct FullChance<'a>(pub &'a [f64]);

// ---- extracted from src/solve/vanilla.rs: impl ChanceRecurse for FullChance<'_> ----
impl ChanceRecurse for FullChance<'_> {
fn next_nodes<'b>(&self, chance: &'b Chance) -> (r: ChanceIter<'_, 'b>) 
    ensures
        // the unsampled method enumerates ALL outcomes, each with its declared probability, and draws nothing
        zip_iter_fst(r).remaining().len() == self.0@.len(),
        zip_iter_snd(r).remaining().len() == chance.outcomes@.len(),
        forall|i: int| 0 <= i < self.0@.len() ==> *(#[trigger] zip_iter_fst(r).remaining()[i]) == self.0@[i],
        forall|i: int| 0 <= i < chance.outcomes@.len() ==> *(#[trigger] zip_iter_snd(r).remaining()[i]) == chance.outcomes@[i], // @ob C10.V.full_chance.no_draw
{
        self.0.iter().zip(chance.outcomes.iter())
    }
fn advance(&mut self) 
    ensures *final(self) == *old(self),
{}
}


// vacuity canary: must be REJECTED by the verifier (an inconsistent axiom set would accept it)
pub proof fn __canary_must_fail()
    ensures false, // @ob __canary
{
    
}

} // verus!
fn main() {}
