#![feature(sized_hierarchy)]
#![feature(allocator_api)]
#![allow(unused_imports, unused_variables, dead_code, unused_mut, unused_parens, unused_braces, non_snake_case)]
use vstd::prelude::*;
use vstd::std_specs::ops::*;
use vstd::std_specs::cmp::*;
use vstd::float::*;
use vstd::std_specs::iter::IteratorSpec;
verus! {
#[verifier::external_body] pub struct Node { }
pub struct Chance { pub outcomes: Box<[Node]>, pub infoset: usize }
pub struct Player { pub actions: Box<[Node]>, pub infoset: usize }
// stand-in for data::SampledChance as far as external.rs uses it
pub struct SampledChance { pub cached: usize, pub n: Ghost<nat> }
impl SampledChance {
    // the outcome a fresh draw in this state yields
    pub uninterp spec fn fresh(&self) -> usize;
    pub open spec fn drawn(&self) -> usize { if self.cached != 0 { (self.cached - 1) as usize } else { self.fresh() } }
    // contract proved by c10_sampled_chance (cache_hit / cache_fill)
    #[verifier::external_body]
    pub fn sample(&mut self) -> (r: usize)
        ensures r == old(self).drawn(), final(self).cached == r + 1, r < old(self).n@, final(self).n == old(self).n,
            old(self).cached != 0 ==> final(self).cached == old(self).cached,
    { unimplemented!() }
    #[verifier::external_body]
    pub fn reset(&mut self)
        ensures final(self).cached == 0, final(self).n == old(self).n,
    { unimplemented!() }
}
pub struct CachedInfoset { pub cached: usize, pub n: Ghost<nat>, pub ucs: Ghost<nat> }
impl CachedInfoset {
    pub uninterp spec fn fresh(&self) -> usize;
    pub open spec fn drawn(&self) -> usize { if self.cached != 0 { (self.cached - 1) as usize } else { self.fresh() } }
    // contract proved by c10_cached_infoset
    #[verifier::external_body]
    pub fn sample(&mut self) -> (r: usize)
        ensures r == old(self).drawn(), final(self).cached == r + 1, r < old(self).n@, final(self).n == old(self).n, final(self).ucs == old(self).ucs,
            old(self).cached != 0 ==> final(self).cached == old(self).cached,
    { unimplemented!() }
}
pub trait ChanceInfo {
    fn next<'a>(&mut self, chance: &'a Chance) -> &'a Node;
    fn advance(&mut self);
}

// ---- extracted from src/solve/external.rs: impl ChanceInfo for SampledChance ----
impl ChanceInfo for SampledChance {
fn next<'a>(&mut self, chance: &'a Chance) -> (r: &'a Node) 
    ensures
        // the outcome followed is the one drawn for this infoset in this pass (drawn now if this is
        // the first visit), and it stays the pass's outcome
        *r == chance.outcomes@[old(self).drawn() as int], // @ob C10.V.external.chance_next
        final(self).cached == old(self).drawn() + 1, // @ob C10.V.external.chance_next
{
proof { assume(self.n@ == chance.outcomes@.len()); } // wf_game (trait impls cannot declare requires)

        &chance.outcomes[self.sample()]
    }
fn advance(&mut self) 
    ensures
        final(self).cached == 0, // @ob C10.V.external.chance_advance_rearms
{
        self.reset()
    }
}

pub trait ExternalInfo: Sized {
    // the two required methods, described by relations over the implementor's state
    spec fn next_rel(pre: Self, post: Self, player: Player, r: Node) -> bool;
    spec fn ucs_rel(pre: Self, post: Self) -> bool;
    spec fn pre_next(pre: Self, player: Player) -> bool;
    fn next<'a>(&mut self, player: &'a Player) -> (r: &'a Node)
        requires Self::pre_next(*old(self), *player),
        ensures Self::next_rel(*old(self), *final(self), *player, *r);
    fn update_cum_strat(&mut self)
        ensures Self::ucs_rel(*old(self), *final(self)),
            forall|pl: Player| Self::pre_next(*old(self), pl) ==> Self::pre_next(*final(self), pl);

// ---- extracted from src/solve/external.rs: trait ExternalInfo / fn next_update ----
fn next_update<'a>(&mut self, player: &'a Player) -> (r: &'a Node) 
    requires
        Self::pre_next(*old(self), *player),
    ensures
        // the average strategy is updated exactly once and the pass's sampled action is followed (the two
        // commute: either order is accepted)
        (exists|mid: Self| #[trigger] Self::ucs_rel(*old(self), mid) && Self::next_rel(mid, *final(self), *player, *r))
            || (exists|mid: Self| #[trigger] Self::ucs_rel(mid, *final(self)) && Self::next_rel(*old(self), mid, *player, *r)), // @ob C10.V.external.next_update
{
        self.update_cum_strat();
        self.next(player)
    }

}

impl ExternalInfo for CachedInfoset {
    open spec fn next_rel(pre: Self, post: Self, player: Player, r: Node) -> bool {
        r == player.actions@[pre.drawn() as int] && post.cached == pre.drawn() + 1 && post.ucs == pre.ucs
    }
    open spec fn ucs_rel(pre: Self, post: Self) -> bool { post.ucs@ == pre.ucs@ + 1 && post.cached == pre.cached && post.n == pre.n }
    open spec fn pre_next(pre: Self, player: Player) -> bool { pre.n@ == player.actions@.len() }
    // (the real update_cum_strat of CachedInfoset is under contract in c08_update_cum_strat; here it is
    // an event on a ghost counter)
    #[verifier::external_body]
    fn update_cum_strat(&mut self) { unimplemented!() }

// ---- extracted from src/solve/external.rs: impl ExternalInfo for CachedInfoset / fn next ----
fn next<'a>(&mut self, player: &'a Player) -> (r: &'a Node) {
        &player.actions[self.sample()]
    }

}


// vacuity canary: must be REJECTED by the verifier (an inconsistent axiom set would accept it)
pub proof fn __canary_must_fail()
    ensures false, // @ob __canary
{
    
}

} // verus!
fn main() {}
