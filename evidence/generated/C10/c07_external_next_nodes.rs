#![feature(sized_hierarchy)]
#![feature(allocator_api)]
#![allow(unused_imports, unused_variables, dead_code, unused_mut, unused_parens, unused_braces, non_snake_case)]
use vstd::prelude::*;
use vstd::std_specs::ops::*;
use vstd::std_specs::cmp::*;
use vstd::float::*;
use vstd::std_specs::iter::IteratorSpec;
verus! {
// ---- extracted from src/lib.rs: enum PlayerNum ----
#[derive(Copy, Clone)]
pub enum PlayerNum {
    /// The first player
    One,
    /// The second player
    Two,
}

// ---- extracted from src/lib.rs: enum Node ----
pub enum Node {
    /// A terminal node, the game is over the payoff to player one
    Terminal(f64),
    /// A chance node, the game advances independent of player action
    Chance(Chance),
    /// a node in the tree where the player can choose between different actions
    Player(Player),
}

// ---- extracted from src/lib.rs: struct Chance ----
pub struct Chance {
    pub outcomes: Box<[Node]>,
    pub infoset: usize,
}

// ---- extracted from src/lib.rs: struct Player ----
pub struct Player {
    pub num: PlayerNum,
    pub infoset: usize,
    pub actions: Box<[Node]>,
}

#[derive(Debug)]
pub struct PoisonError { }
pub struct Mutex<T> { pub inner: T }
impl<T> Mutex<T> {
    #[verifier::external_body]
    pub fn get_mut(&mut self) -> (r: Result<&mut T, PoisonError>)
        ensures r is Ok, *(r->Ok_0) == old(self).inner, final(self).inner == *final(r->Ok_0),
    { unimplemented!() }
}
pub struct SampledChance { pub cached: usize, pub n: Ghost<nat> }
pub struct CachedInfoset { pub cached: usize, pub n: Ghost<nat> }
impl SampledChance {
    pub uninterp spec fn fresh(&self) -> usize;
    pub open spec fn drawn(&self) -> usize { if self.cached != 0 { (self.cached - 1) as usize } else { self.fresh() } }
    // contract proved by c10_external_next (C10.V.external.chance_next)
    #[verifier::external_body]
    pub fn next<'a>(&mut self, chance: &'a Chance) -> (r: &'a Node)
        requires old(self).n@ == chance.outcomes@.len(),
        ensures old(self).drawn() < chance.outcomes@.len(), *r == chance.outcomes@[old(self).drawn() as int],
            final(self).cached == old(self).drawn() + 1, final(self).n == old(self).n,
    { unimplemented!() }
}
impl CachedInfoset {
    pub uninterp spec fn fresh(&self) -> usize;
    pub open spec fn drawn(&self) -> usize { if self.cached != 0 { (self.cached - 1) as usize } else { self.fresh() } }
    // contract proved by c10_external_next (C10.V.external.player_next)
    #[verifier::external_body]
    pub fn next<'a>(&mut self, player: &'a Player) -> (r: &'a Node)
        requires old(self).n@ == player.actions@.len(),
        ensures old(self).drawn() < player.actions@.len(), *r == player.actions@[old(self).drawn() as int],
            final(self).cached == old(self).drawn() + 1, final(self).n == old(self).n,
    { unimplemented!() }
}
pub open spec fn is_active(num: PlayerNum, first: bool) -> bool { match num { PlayerNum::One => first, PlayerNum::Two => !first } }
// b is the node the walk moves to from a, given the draws recorded in the two tables
pub open spec fn sampled_step(a: Node, b: Node, first: bool, ch: Seq<Mutex<SampledChance>>, ex: Seq<Mutex<CachedInfoset>>) -> bool {
    match a {
        Node::Terminal(_) => false,
        Node::Chance(c) => c.infoset < ch.len() && ch[c.infoset as int].inner.cached != 0
            && ch[c.infoset as int].inner.cached - 1 < c.outcomes@.len() && b == c.outcomes@[ch[c.infoset as int].inner.cached - 1],
        Node::Player(p) => !is_active(p.num, first) && p.infoset < ex.len() && ex[p.infoset as int].inner.cached != 0
            && ex[p.infoset as int].inner.cached - 1 < p.actions@.len() && b == p.actions@[ex[p.infoset as int].inner.cached - 1],
    }
}
pub open spec fn sampled_path(path: Seq<Node>, first: bool, ch: Seq<Mutex<SampledChance>>, ex: Seq<Mutex<CachedInfoset>>) -> bool {
    forall|i: int| 0 <= i < path.len() - 1 ==> sampled_step(#[trigger] path[i], path[i + 1], first, ch, ex)
}
// draws already made are kept, nothing else about an infoset changes
pub open spec fn draws_kept(c0: Seq<Mutex<SampledChance>>, c1: Seq<Mutex<SampledChance>>, e0: Seq<Mutex<CachedInfoset>>, e1: Seq<Mutex<CachedInfoset>>) -> bool {
    c1.len() == c0.len() && e1.len() == e0.len()
    && (forall|j: int| 0 <= j < c0.len() ==> (#[trigger] c1[j]).inner.n == c0[j].inner.n && (c0[j].inner.cached != 0 ==> c1[j].inner.cached == c0[j].inner.cached))
    && (forall|j: int| 0 <= j < e0.len() ==> (#[trigger] e1[j]).inner.n == e0[j].inner.n && (e0[j].inner.cached != 0 ==> e1[j].inner.cached == e0[j].inner.cached))
}
pub open spec fn wf_tables(node: Node, ch: Seq<Mutex<SampledChance>>, ex: Seq<Mutex<CachedInfoset>>) -> bool
    decreases node
{
    match node {
        Node::Terminal(_) => true,
        Node::Chance(c) => c.infoset < ch.len() && ch[c.infoset as int].inner.n@ == c.outcomes@.len()
            && forall|i: int| 0 <= i < c.outcomes@.len() ==> wf_tables(#[trigger] c.outcomes@[i], ch, ex),
        Node::Player(p) => p.infoset < ex.len() && ex[p.infoset as int].inner.n@ == p.actions@.len()
            && forall|i: int| 0 <= i < p.actions@.len() ==> wf_tables(#[trigger] p.actions@[i], ch, ex),
    }
}
pub proof fn lemma_wf_kept(node: Node, c0: Seq<Mutex<SampledChance>>, c1: Seq<Mutex<SampledChance>>, e0: Seq<Mutex<CachedInfoset>>, e1: Seq<Mutex<CachedInfoset>>)
    requires wf_tables(node, c0, e0), draws_kept(c0, c1, e0, e1),
    ensures wf_tables(node, c1, e1),
    decreases node
{
    match node {
        Node::Terminal(_) => {}
        Node::Chance(c) => { assert forall|i: int| 0 <= i < c.outcomes@.len() implies wf_tables(#[trigger] c.outcomes@[i], c1, e1) by { lemma_wf_kept(c.outcomes@[i], c0, c1, e0, e1); } }
        Node::Player(p) => { assert forall|i: int| 0 <= i < p.actions@.len() implies wf_tables(#[trigger] p.actions@[i], c1, e1) by { lemma_wf_kept(p.actions@[i], c0, c1, e0, e1); } }
    }
}

// ---- extracted from src/solve/external.rs: fn next_nodes ----
#[verifier::exec_allows_no_decreases_clause]
pub fn next_nodes<'a, const FIRST: bool>(
    node0: &'a Node,
    chance_infosets: &mut [Mutex<SampledChance>],
    external_player_infosets: &mut [Mutex<CachedInfoset>],
) -> (r: Option<&'a [Node]>) 
    requires
        wf_tables(*node0, old(chance_infosets)@, old(external_player_infosets)@),
    ensures
        // every draw already made in this pass is kept (at most one sample per infoset per pass)
        draws_kept(old(chance_infosets)@, final(chance_infosets)@, old(external_player_infosets)@, final(external_player_infosets)@), // @ob C07.V.next_nodes.draws_kept
        // the walk follows exactly the sampled outcome / the other player's sampled action from the
        // start node, and ends at the first terminal (nothing to expand) or the first node of the pass's
        // own player (whose children are the next frontier entries)
        exists|path: Seq<Node>| path.len() >= 1 && path[0] == *node0
            && #[trigger] sampled_path(path, FIRST, final(chance_infosets)@, final(external_player_infosets)@)
            && match path.last() {
                Node::Terminal(_) => r is None,
                Node::Chance(_) => false,
                Node::Player(p) => is_active(p.num, FIRST) && r is Some && r->0@ == p.actions@,
            }, // @ob C07.V.next_nodes.sampled_walk
{
let mut node = node0;
let ghost start = *node;
let ghost c0 = chance_infosets@;
let ghost e0 = external_player_infosets@;
let ghost mut path: Seq<Node> = seq![*node];

    loop 
invariant
    c0 == old(chance_infosets)@, e0 == old(external_player_infosets)@, start == *node0,
    path.len() >= 1, path[0] == start, path.last() == *node,
    sampled_path(path, FIRST, chance_infosets@, external_player_infosets@),
    draws_kept(c0, chance_infosets@, e0, external_player_infosets@),
    wf_tables(*node, chance_infosets@, external_player_infosets@),
{
let ghost cb = chance_infosets@;
let ghost eb = external_player_infosets@;
let ghost pb = path;
let ghost nb = *node;

        match node {
            Node::Terminal(_) => return None,
            Node::Chance(chance) => {
                node = chance_infosets[chance.infoset]
                    .get_mut()
                    .unwrap()
                    .next(chance);
            }
            Node::Player(player) => match (player.num, FIRST) {
                (PlayerNum::One, true) | (PlayerNum::Two, false) => {
                    return Some(&*player.actions);
                }
                (PlayerNum::Two, true) | (PlayerNum::One, false) => {
                    node = external_player_infosets[player.infoset]
                        .get_mut()
                        .unwrap()
                        .next(player);
                }
            },
        }
    
proof {
    path = pb.push(*node);
    assert(draws_kept(cb, chance_infosets@, eb, external_player_infosets@));
    assert(sampled_step(nb, *node, FIRST, chance_infosets@, external_player_infosets@));
    assert forall|i: int| 0 <= i < path.len() - 1 implies sampled_step(#[trigger] path[i], path[i + 1], FIRST, chance_infosets@, external_player_infosets@) by {
        if i < pb.len() - 1 { assert(sampled_step(pb[i], pb[i + 1], FIRST, cb, eb)); }
    }
    lemma_wf_kept(nb, cb, chance_infosets@, eb, external_player_infosets@);
}
}
}


// vacuity canary: must be REJECTED by the verifier (an inconsistent axiom set would accept it)
pub proof fn __canary_must_fail()
    ensures false, // @ob __canary
{
    
}

} // verus!
fn main() {}
