#![feature(sized_hierarchy)]
#![feature(allocator_api)]
#![allow(unused_imports, unused_variables, dead_code, unused_mut, unused_parens, unused_braces, non_snake_case)]
use vstd::prelude::*;
use vstd::std_specs::ops::*;
use vstd::std_specs::cmp::*;
use vstd::float::*;
use vstd::std_specs::iter::IteratorSpec;
verus! {
// ---- extracted from src/solve/data.rs: struct RegretParams ----
#[derive(Clone, Copy)]
pub struct RegretParams {
    /// The discount factor for positive cumulative regret or `α`.
    ///
    /// Positive cumulative regrets are discounted by `tᵅ/(tᵅ + 1)` every iteration `t`. Setting
    /// alpha closer to infinity implies no discounting, while setting it at negative infinity
    /// means imediate forgetting. Note that any non-positive value is probably not desired.
    pub pos_regret: f64,
    /// The discount factor for negative cumulative regret or `β`
    ///
    /// Negative cumulative regrets are discounted by `tᵝ/(tᵝ + 1)` every iteration `t`. The
    /// values are the same as for positive regrets. Setting this to a non-positive value will
    /// prevent the cumulative regret of negative regret actions from approaching negative
    /// infinity, which can make pruning negative regret actions impossible.
    pub neg_regret: f64,
    /// The average strategy discount factor `γ`
    ///
    /// The average strategy is discounted by `(ᵗ⁄ₜ₊₁)ᵞ` every iteration t, which is equivalent to
    /// weighting each strategy update by `tᵞ`.
    pub strat: f64,
    /// The scale for picking a strategy when all regrets are negative
    ///
    /// If all actions have negative regret, the chosen strategy can be anything. We use the
    /// softmax of the regrets times this weight. Setting it to infinity is the same as always
    /// playing the strategy with the highest regret. Zero is equivalent to playing each action
    /// uniformly. No other values are recommend, but interpolate between those extremes.
    pub no_positive: f64,
}

// R5: the four update helpers of RegretParams seen from their callers: each is a PURE function of its
// arguments with a frame (regret_match and cum_regret do not modify the regrets).  These contracts
// are discharged per helper by Kani harnesses on the real bodies (c08_regret_match_*,
// c08_discount_cum_regret, c08_discount_average_strat, c02_cum_regret_formula: formula + frame,
// bounded to slices of length <= 3), so they are cited at the bounded level, assumed beyond it.
pub uninterp spec fn rm_spec(p: RegretParams, cum_reg: Seq<f64>) -> Seq<f64>;
pub uninterp spec fn dcr_spec(p: RegretParams, it: u64, cum_reg: Seq<f64>) -> Seq<f64>;
pub uninterp spec fn das_spec(p: RegretParams, it: u64, avg: Seq<f64>) -> Seq<f64>;
pub uninterp spec fn cr_spec(p: RegretParams, it: u64, cum_reg: Seq<f64>) -> f64;
impl RegretParams {
    #[verifier::external_body]
    pub fn regret_match(&self, cum_reg: &mut [f64], strat: &mut [f64])
        ensures final(strat)@ == rm_spec(*self, old(cum_reg)@), final(cum_reg)@ == old(cum_reg)@,
    { unimplemented!() }
    #[verifier::external_body]
    pub fn discount_cum_regret(&self, it: u64, cum_reg: &mut [f64])
        ensures final(cum_reg)@ == dcr_spec(*self, it, old(cum_reg)@),
    { unimplemented!() }
    #[verifier::external_body]
    pub fn discount_average_strat(&self, it: u64, avg_strat: &mut [f64])
        ensures final(avg_strat)@ == das_spec(*self, it, old(avg_strat)@),
    { unimplemented!() }
    #[verifier::external_body]
    pub fn cum_regret(&self, it: u64, cum_reg: &mut [f64]) -> (r: f64)
        ensures r == cr_spec(*self, it, old(cum_reg)@), final(cum_reg)@ == old(cum_reg)@,
    { unimplemented!() }
}

// ---- extracted from src/solve/data.rs: struct RegretInfoset ----
pub struct RegretInfoset {
    pub cum_regret: Box<[f64]>,
    pub cum_strat: Box<[f64]>,
    pub strat: Box<[f64]>,
}

pub trait PlayerRecurse {
    fn update_cum_strat(&mut self, prob: f64);
    fn advance(&mut self, it: u64, params: &RegretParams) -> f64;
}
pub struct Player { }
pub struct Node { }
pub trait ActiveInfo {
    // callers pass the loop variable of `for it in 1..=max_iter`
    fn advance<const FIRST: bool>(&mut self, it: u64, params: &RegretParams) -> f64
        requires it >= 1;
}

// ---- extracted from src/solve/vanilla.rs: impl PlayerRecurse for RegretInfoset ----
impl PlayerRecurse for RegretInfoset {
fn advance(&mut self, it: u64, params: &RegretParams) -> (r: f64) 
    ensures
        // textbook order: the next strategy is matched on the regrets BEFORE discounting ...
        final(self).strat@ == rm_spec(*params, old(self).cum_regret@), // @ob C08.V.advance.match_before_discount
        // ... then regrets and average strategy are discounted with the caller's iteration number ...
        final(self).cum_regret@ == dcr_spec(*params, it, old(self).cum_regret@), // @ob C08.V.advance.discount_regrets
        final(self).cum_strat@ == das_spec(*params, it, old(self).cum_strat@), // @ob C08.V.advance.discount_average
        // ... and the reported bound is that of the regrets AFTER discounting, same iteration number
        r == cr_spec(*params, it, final(self).cum_regret@), // @ob C02.V.advance.reports_bound
{
        params.regret_match(&mut *self.cum_regret, &mut self.strat);
        params.discount_cum_regret(it, &mut *self.cum_regret);
        params.discount_average_strat(it, &mut self.cum_strat);
        params.cum_regret(it, &mut *self.cum_regret)
    }
}

// R5: std::sync::Mutex as far as `advance` uses it: get_mut() on an exclusively borrowed mutex
// returns the protected value (lock poisoning -- the Err case -- is not modelled: assumed Ok)
#[derive(Debug)]
pub struct PoisonError { }
pub struct Mutex<T> { pub inner: T }
impl<T> Mutex<T> {
    #[verifier::external_body]
    pub fn get_mut(&mut self) -> (r: Result<&mut T, PoisonError>)
        ensures r is Ok, *(r->Ok_0) == old(self).inner, final(self).inner == *final(r->Ok_0),
    { unimplemented!() }
}
pub trait MutexPlayerRecurse {
    fn advance(&mut self, it: u64, params: &RegretParams) -> f64;
}

// ---- extracted from src/solve/vanilla.rs: struct MutexRegretInfoset ----
pub struct MutexRegretInfoset {
    pub cum_regret: Box<[f64]>,
    pub cum_strat: Mutex<Box<[f64]>>,
    pub strat: Box<[f64]>,
}

// ---- extracted from src/solve/vanilla.rs: impl MutexPlayerRecurse for MutexRegretInfoset ----
impl MutexPlayerRecurse for MutexRegretInfoset {
fn advance(&mut self, it: u64, params: &RegretParams) -> (r: f64) 
    ensures
        final(self).strat@ == rm_spec(*params, old(self).cum_regret@), // @ob C08.V.advance.match_before_discount
        final(self).cum_regret@ == dcr_spec(*params, it, old(self).cum_regret@), // @ob C08.V.advance.discount_regrets
        final(self).cum_strat.inner@ == das_spec(*params, it, old(self).cum_strat.inner@), // @ob C08.V.advance.discount_average
        r == cr_spec(*params, it, final(self).cum_regret@), // @ob C02.V.advance.reports_bound
{
        params.regret_match(&mut *self.cum_regret, &mut self.strat);
        params.discount_cum_regret(it, &mut *self.cum_regret);
        params.discount_average_strat(it, self.cum_strat.get_mut().unwrap());
        params.cum_regret(it, &mut *self.cum_regret)
    }
}

// ---- extracted from src/solve/external.rs: struct CachedInfoset ----
pub struct CachedInfoset {
    pub reg: RegretInfoset,
    pub cached: usize,
}

// ---- extracted from src/solve/external.rs: impl ActiveInfo for CachedInfoset ----
impl ActiveInfo for CachedInfoset {
fn advance<const FIRST: bool>(&mut self, it: u64, params: &RegretParams) -> (r: f64) 
    ensures
        // textbook order: the next strategy is matched on the regrets BEFORE discounting ...
        final(self).reg.strat@ == rm_spec(*params, old(self).reg.cum_regret@), // @ob C08.V.advance.match_before_discount
        // ... then regrets and average strategy are discounted with the caller's iteration number ...
        final(self).reg.cum_regret@ == dcr_spec(*params, it, old(self).reg.cum_regret@), // @ob C08.V.advance.discount_regrets
        final(self).reg.cum_strat@ == das_spec(*params, (if FIRST { (it - 1) as u64 } else { it }), old(self).reg.cum_strat@), // @ob C08.V.advance.discount_average
        // ... and the reported bound is that of the regrets AFTER discounting, same iteration number
        r == cr_spec(*params, it, final(self).reg.cum_regret@), // @ob C02.V.advance.reports_bound
        final(self).cached == 0, // @ob C10.V.cached_infoset.advance_resets_draw
{
        self.cached = 0;
        params.regret_match(&mut *self.reg.cum_regret, &mut self.reg.strat);
        params.discount_cum_regret(it, &mut *self.reg.cum_regret);
        // NOTE since we alternate updates, when do the first discounting of player one's average
        // strat, they'll actually have nothing acumulated, so we actualy want to update on the
        // second round
        params.discount_average_strat(if FIRST { it - 1 } else { it }, &mut self.reg.cum_strat);
        params.cum_regret(it, &mut *self.reg.cum_regret)
    }
}


// vacuity canary: must be REJECTED by the verifier (an inconsistent axiom set would accept it)
pub proof fn __canary_must_fail()
    ensures false, // @ob __canary
{
    
}

} // verus!
fn main() {}
