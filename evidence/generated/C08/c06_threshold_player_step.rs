#![feature(sized_hierarchy)]
#![feature(allocator_api)]
#![allow(unused_imports, unused_variables, dead_code, unused_mut, unused_parens, unused_braces, non_snake_case)]
use vstd::prelude::*;
use vstd::std_specs::ops::*;
use vstd::std_specs::cmp::*;
use vstd::float::*;
use vstd::std_specs::iter::IteratorSpec;
verus! {
// ---- prelude fragment: floats.rs ----
// Floating point, layer 1 ("uninterpreted" mode of DESIGN.md 3.2): every f64 operator instance the
// language can produce is linked to ONE total, deterministic, otherwise unknown function of the
// operand values.  Nothing about IEEE-754 is assumed here.
pub uninterp spec fn fadd(a: f64, b: f64) -> f64;
pub uninterp spec fn fsub(a: f64, b: f64) -> f64;
pub uninterp spec fn fmul(a: f64, b: f64) -> f64;
pub uninterp spec fn fdiv(a: f64, b: f64) -> f64;
pub uninterp spec fn fneg(a: f64) -> f64;
pub uninterp spec fn fcmp(a: f64, b: f64) -> Option<core::cmp::Ordering>;
pub uninterp spec fn feq(a: f64, b: f64) -> bool;
pub open spec fn flt(a: f64, b: f64) -> bool { fcmp(a, b) == Some(core::cmp::Ordering::Less) }
pub open spec fn fgt(a: f64, b: f64) -> bool { fcmp(a, b) == Some(core::cmp::Ordering::Greater) }
pub open spec fn fle(a: f64, b: f64) -> bool { fcmp(a, b) == Some(core::cmp::Ordering::Less) || fcmp(a, b) == Some(core::cmp::Ordering::Equal) }
pub open spec fn fge(a: f64, b: f64) -> bool { fcmp(a, b) == Some(core::cmp::Ordering::Greater) || fcmp(a, b) == Some(core::cmp::Ordering::Equal) }

pub broadcast axiom fn ax_add_vv_req(a: f64, b: f64) ensures #[trigger] a.add_req(b);
pub broadcast axiom fn ax_add_vv(a: f64, b: f64) ensures #[trigger] a.add_spec(b) == fadd(a, b);
pub broadcast axiom fn ax_add_vr_req(a: f64, b: &f64) ensures #[trigger] a.add_req(b);
pub broadcast axiom fn ax_add_vr(a: f64, b: &f64) ensures #[trigger] a.add_spec(b) == fadd(a, *b);
pub broadcast axiom fn ax_add_rv_req(a: &f64, b: f64) ensures #[trigger] a.add_req(b);
pub broadcast axiom fn ax_add_rv(a: &f64, b: f64) ensures #[trigger] a.add_spec(b) == fadd(*a, b);
pub broadcast axiom fn ax_add_rr_req(a: &f64, b: &f64) ensures #[trigger] a.add_req(b);
pub broadcast axiom fn ax_add_rr(a: &f64, b: &f64) ensures #[trigger] a.add_spec(b) == fadd(*a, *b);
pub broadcast axiom fn ax_sub_vv_req(a: f64, b: f64) ensures #[trigger] a.sub_req(b);
pub broadcast axiom fn ax_sub_vv(a: f64, b: f64) ensures #[trigger] a.sub_spec(b) == fsub(a, b);
pub broadcast axiom fn ax_sub_vr_req(a: f64, b: &f64) ensures #[trigger] a.sub_req(b);
pub broadcast axiom fn ax_sub_vr(a: f64, b: &f64) ensures #[trigger] a.sub_spec(b) == fsub(a, *b);
pub broadcast axiom fn ax_sub_rv_req(a: &f64, b: f64) ensures #[trigger] a.sub_req(b);
pub broadcast axiom fn ax_sub_rv(a: &f64, b: f64) ensures #[trigger] a.sub_spec(b) == fsub(*a, b);
pub broadcast axiom fn ax_sub_rr_req(a: &f64, b: &f64) ensures #[trigger] a.sub_req(b);
pub broadcast axiom fn ax_sub_rr(a: &f64, b: &f64) ensures #[trigger] a.sub_spec(b) == fsub(*a, *b);
pub broadcast axiom fn ax_mul_vv_req(a: f64, b: f64) ensures #[trigger] a.mul_req(b);
pub broadcast axiom fn ax_mul_vv(a: f64, b: f64) ensures #[trigger] a.mul_spec(b) == fmul(a, b);
pub broadcast axiom fn ax_mul_vr_req(a: f64, b: &f64) ensures #[trigger] a.mul_req(b);
pub broadcast axiom fn ax_mul_vr(a: f64, b: &f64) ensures #[trigger] a.mul_spec(b) == fmul(a, *b);
pub broadcast axiom fn ax_mul_rv_req(a: &f64, b: f64) ensures #[trigger] a.mul_req(b);
pub broadcast axiom fn ax_mul_rv(a: &f64, b: f64) ensures #[trigger] a.mul_spec(b) == fmul(*a, b);
pub broadcast axiom fn ax_mul_rr_req(a: &f64, b: &f64) ensures #[trigger] a.mul_req(b);
pub broadcast axiom fn ax_mul_rr(a: &f64, b: &f64) ensures #[trigger] a.mul_spec(b) == fmul(*a, *b);
pub broadcast axiom fn ax_div_vv_req(a: f64, b: f64) ensures #[trigger] a.div_req(b);
pub broadcast axiom fn ax_div_vv(a: f64, b: f64) ensures #[trigger] a.div_spec(b) == fdiv(a, b);
pub broadcast axiom fn ax_div_vr_req(a: f64, b: &f64) ensures #[trigger] a.div_req(b);
pub broadcast axiom fn ax_div_vr(a: f64, b: &f64) ensures #[trigger] a.div_spec(b) == fdiv(a, *b);
pub broadcast axiom fn ax_div_rv_req(a: &f64, b: f64) ensures #[trigger] a.div_req(b);
pub broadcast axiom fn ax_div_rv(a: &f64, b: f64) ensures #[trigger] a.div_spec(b) == fdiv(*a, b);
pub broadcast axiom fn ax_div_rr_req(a: &f64, b: &f64) ensures #[trigger] a.div_req(b);
pub broadcast axiom fn ax_div_rr(a: &f64, b: &f64) ensures #[trigger] a.div_spec(b) == fdiv(*a, *b);
pub broadcast axiom fn ax_cmp_v(a: f64, b: f64) ensures #[trigger] a.partial_cmp_spec(&b) == fcmp(a, b);
pub broadcast axiom fn ax_eq_v(a: f64, b: f64) ensures #[trigger] a.eq_spec(&b) == feq(a, b);
pub broadcast axiom fn ax_cmp_r(a: &f64, b: &f64) ensures #[trigger] a.partial_cmp_spec(&b) == fcmp(*a, *b);
pub broadcast axiom fn ax_eq_r(a: &f64, b: &f64) ensures #[trigger] a.eq_spec(&b) == feq(*a, *b);
// IEEE facts about comparison that do not depend on the operands' values (discharged for ALL pairs of
// f64 by the loop-free Kani harness `ieee_cmp_flip`): a < b  <=>  b > a, equality is symmetric, an
// unordered pair is unordered both ways; == agrees with partial_cmp.
pub axiom fn ax_obeys()
    ensures
        forall|a: f64, b: f64| (#[trigger] fcmp(a, b) == Some(core::cmp::Ordering::Less)) == (fcmp(b, a) == Some(core::cmp::Ordering::Greater)),
        forall|a: f64, b: f64| (#[trigger] fcmp(a, b) == Some(core::cmp::Ordering::Equal)) == (fcmp(b, a) == Some(core::cmp::Ordering::Equal)),
        forall|a: f64, b: f64| (#[trigger] fcmp(a, b) is None) == (fcmp(b, a) is None),
        forall|a: f64, b: f64| #[trigger] feq(a, b) == (fcmp(a, b) == Some(core::cmp::Ordering::Equal)),
        // max / min are commutative as far as comparisons can tell (the two results are identical, or +0 / -0,
        // or both NaN): discharged for ALL triples by the loop-free Kani harness `ieee_max_min_commute`
        forall|a: f64, b: f64, c: f64| #[trigger] fcmp(fmaxf(a, b), c) == fcmp(fmaxf(b, a), c),
        forall|a: f64, b: f64, c: f64| #[trigger] fcmp(c, fmaxf(a, b)) == fcmp(c, fmaxf(b, a)),
        forall|a: f64, b: f64, c: f64| #[trigger] fcmp(fminf(a, b), c) == fcmp(fminf(b, a), c),
        forall|a: f64, b: f64, c: f64| #[trigger] fcmp(c, fminf(a, b)) == fcmp(c, fminf(b, a)),
        <f64 as AddSpec<f64>>::obeys_add_spec(),
        <f64 as AddSpec<&f64>>::obeys_add_spec(),
        <&f64 as AddSpec<f64>>::obeys_add_spec(),
        <&f64 as AddSpec<&f64>>::obeys_add_spec(),
        <f64 as SubSpec<f64>>::obeys_sub_spec(),
        <f64 as SubSpec<&f64>>::obeys_sub_spec(),
        <&f64 as SubSpec<f64>>::obeys_sub_spec(),
        <&f64 as SubSpec<&f64>>::obeys_sub_spec(),
        <f64 as MulSpec<f64>>::obeys_mul_spec(),
        <f64 as MulSpec<&f64>>::obeys_mul_spec(),
        <&f64 as MulSpec<f64>>::obeys_mul_spec(),
        <&f64 as MulSpec<&f64>>::obeys_mul_spec(),
        <f64 as DivSpec<f64>>::obeys_div_spec(),
        <f64 as DivSpec<&f64>>::obeys_div_spec(),
        <&f64 as DivSpec<f64>>::obeys_div_spec(),
        <&f64 as DivSpec<&f64>>::obeys_div_spec(),
        <f64 as PartialOrdSpec<f64>>::obeys_partial_cmp_spec(),
        <f64 as PartialEqSpec<f64>>::obeys_eq_spec(),
        <&f64 as PartialOrdSpec<&f64>>::obeys_partial_cmp_spec(),
        <&f64 as PartialEqSpec<&f64>>::obeys_eq_spec(),
;
pub broadcast group fl {
    ax_add_vv_req, ax_add_vv, ax_add_vr_req, ax_add_vr, ax_add_rv_req, ax_add_rv, ax_add_rr_req, ax_add_rr, ax_sub_vv_req, ax_sub_vv, ax_sub_vr_req, ax_sub_vr, ax_sub_rv_req, ax_sub_rv, ax_sub_rr_req, ax_sub_rr, ax_mul_vv_req, ax_mul_vv, ax_mul_vr_req, ax_mul_vr, ax_mul_rv_req, ax_mul_rv, ax_mul_rr_req, ax_mul_rr, ax_div_vv_req, ax_div_vv, ax_div_vr_req, ax_div_vr, ax_div_rv_req, ax_div_rv, ax_div_rr_req, ax_div_rr, ax_cmp_v, ax_eq_v, ax_cmp_r, ax_eq_r
}

// R8: unary minus (this Verus rejects float negation); the wrapper IS the operator.
// (core implements Neg for f64 and for &f64: the wrapper takes either)
pub trait __NegArg: Sized { spec fn negv(self) -> f64; }
impl __NegArg for f64 { open spec fn negv(self) -> f64 { self } }
impl<'a> __NegArg for &'a f64 { open spec fn negv(self) -> f64 { *self } }
#[verifier::external_body]
pub fn __neg<T: __NegArg>(x: T) -> (r: f64)
    ensures r == fneg(x.negv()),
{ unimplemented!() }


// f64 methods used by the extracted code: linked to uninterpreted functions (their IEEE facts, where
// a proof needs one, are separate axioms discharged by loop-free Kani harnesses).
pub uninterp spec fn fmaxf(a: f64, b: f64) -> f64;
pub uninterp spec fn fminf(a: f64, b: f64) -> f64;
pub uninterp spec fn fabsf(a: f64) -> f64;
pub uninterp spec fn fisnan(a: f64) -> bool;
pub uninterp spec fn fisfinite(a: f64) -> bool;
pub uninterp spec fn fisinfinite(a: f64) -> bool;
// IEEE classification facts (discharged for ALL f64 / all pairs by the loop-free Kani harness
// `ieee_classification`): finite <=> neither NaN nor infinite; NaN and infinite exclude each other;
// a pair is unordered exactly when one side is NaN; 0.0 is finite.
pub axiom fn ax_ieee_class()
    ensures
        forall|a: f64| #[trigger] fisfinite(a) == (!fisnan(a) && !fisinfinite(a)),
        forall|a: f64| #[trigger] fisnan(a) ==> !fisinfinite(a),
        forall|a: f64, b: f64| (#[trigger] fcmp(a, b) is None) == (fisnan(a) || fisnan(b)),
        fisfinite(0.0f64),
        // (core::cmp::Ordering has exactly three variants: the Rust enum, opaque to this Verus)
        forall|a: f64, b: f64| #[trigger] fcmp(a, b) is None || fcmp(a, b) == Some(core::cmp::Ordering::Less)
            || fcmp(a, b) == Some(core::cmp::Ordering::Equal) || fcmp(a, b) == Some(core::cmp::Ordering::Greater);
pub uninterp spec fn fpowf(a: f64, b: f64) -> f64;
pub uninterp spec fn ftotalcmp(a: f64, b: f64) -> core::cmp::Ordering;
pub assume_specification [f64::max] (a: f64, b: f64) -> (r: f64) ensures r == fmaxf(a, b);
pub assume_specification [f64::min] (a: f64, b: f64) -> (r: f64) ensures r == fminf(a, b);
pub assume_specification [f64::abs] (a: f64) -> (r: f64) ensures r == fabsf(a);
pub assume_specification [f64::is_nan] (a: f64) -> (r: bool) ensures r == fisnan(a);
pub assume_specification [f64::is_finite] (a: f64) -> (r: bool) ensures r == fisfinite(a);
pub assume_specification [f64::is_infinite] (a: f64) -> (r: bool) ensures r == fisinfinite(a);
// further classification / sign predicates: deterministic functions about which nothing else is known
// (code that switches to one of them no longer verifies against a contract stated with `>`, `is_finite`, ...)
pub uninterp spec fn fisnormal(a: f64) -> bool;
pub uninterp spec fn fissubnormal(a: f64) -> bool;
pub uninterp spec fn fissignpos(a: f64) -> bool;
pub uninterp spec fn fissignneg(a: f64) -> bool;
pub assume_specification [f64::is_normal] (a: f64) -> (r: bool) ensures r == fisnormal(a);
pub assume_specification [f64::is_subnormal] (a: f64) -> (r: bool) ensures r == fissubnormal(a);
pub assume_specification [f64::is_sign_positive] (a: f64) -> (r: bool) ensures r == fissignpos(a);
pub assume_specification [f64::is_sign_negative] (a: f64) -> (r: bool) ensures r == fissignneg(a);
pub assume_specification [f64::powf] (a: f64, b: f64) -> (r: f64) ensures r == fpowf(a, b);
pub assume_specification [f64::total_cmp] (a: &f64, b: &f64) -> (r: core::cmp::Ordering) ensures r == ftotalcmp(*a, *b);

// R9: associated constants this Verus rejects; the wrappers' bodies ARE the constants.
pub uninterp spec fn finf() -> f64;
pub uninterp spec fn fneginf() -> f64;
#[verifier::external_body]
pub fn __inf() -> (r: f64) ensures r == finf() { f64::INFINITY }
#[verifier::external_body]
pub fn __neg_inf() -> (r: f64) ensures r == fneginf() { f64::NEG_INFINITY }
pub assume_specification [core::cmp::Ordering::is_lt] (o: core::cmp::Ordering) -> (r: bool) ensures r == (o == core::cmp::Ordering::Less);
pub assume_specification [core::cmp::Ordering::is_le] (o: core::cmp::Ordering) -> (r: bool) ensures r == (o != core::cmp::Ordering::Greater);
pub assume_specification [core::cmp::Ordering::is_gt] (o: core::cmp::Ordering) -> (r: bool) ensures r == (o == core::cmp::Ordering::Greater);
pub assume_specification [core::cmp::Ordering::is_ge] (o: core::cmp::Ordering) -> (r: bool) ensures r == (o != core::cmp::Ordering::Less);
pub uninterp spec fn fconst_EPSILON() -> f64;
#[verifier::external_body]
pub fn __f64_EPSILON() -> (r: f64) ensures r == fconst_EPSILON() { f64::EPSILON }
pub uninterp spec fn fconst_MAX() -> f64;
#[verifier::external_body]
pub fn __f64_MAX() -> (r: f64) ensures r == fconst_MAX() { f64::MAX }
pub uninterp spec fn fconst_MIN() -> f64;
#[verifier::external_body]
pub fn __f64_MIN() -> (r: f64) ensures r == fconst_MIN() { f64::MIN }
pub uninterp spec fn fconst_MIN_POSITIVE() -> f64;
#[verifier::external_body]
pub fn __f64_MIN_POSITIVE() -> (r: f64) ensures r == fconst_MIN_POSITIVE() { f64::MIN_POSITIVE }
pub uninterp spec fn fconst_NAN() -> f64;
#[verifier::external_body]
pub fn __f64_NAN() -> (r: f64) ensures r == fconst_NAN() { f64::NAN }

// R12: integer-to-float casts (`X as f64`), which this Verus rejects; the wrapper IS the cast.
pub uninterp spec fn u64_to_f64(n: u64) -> f64;
pub uninterp spec fn usize_to_f64(n: usize) -> f64;
pub trait ToF64: Sized {
    spec fn to_f64_spec(self) -> f64;
    fn __to_f64(self) -> (r: f64) ensures r == self.to_f64_spec();
}
impl ToF64 for u64 {
    open spec fn to_f64_spec(self) -> f64 { u64_to_f64(self) }
    #[verifier::external_body]
    fn __to_f64(self) -> (r: f64) { self as f64 }
}
impl ToF64 for usize {
    open spec fn to_f64_spec(self) -> f64 { usize_to_f64(self) }
    #[verifier::external_body]
    fn __to_f64(self) -> (r: f64) { self as f64 }
}
pub fn __as_f64<T: ToF64>(x: T) -> (r: f64) ensures r == x.to_f64_spec() { x.__to_f64() }

// R13: identity on f64 (see rule R13 of the extractor)
pub fn __idf(x: f64) -> (r: f64) ensures r == x { x }

// ---- prelude fragment: ideal.rs ----
// Floating point, layer 2 ("idealised real" mode of DESIGN.md 3.2): machine arithmetic treated as
// mathematical.  rv maps a float to the real it denotes; rounding, overflow, NaN and signed zero are
// ignored.  Used only where the property is a statement of real arithmetic.
pub uninterp spec fn rv(x: f64) -> real;
pub broadcast axiom fn ax_rv_add(a: f64, b: f64) ensures rv(#[trigger] fadd(a, b)) == rv(a) + rv(b);
pub broadcast axiom fn ax_rv_sub(a: f64, b: f64) ensures rv(#[trigger] fsub(a, b)) == rv(a) - rv(b);
pub broadcast axiom fn ax_rv_mul(a: f64, b: f64) ensures rv(#[trigger] fmul(a, b)) == rv(a) * rv(b);
pub broadcast axiom fn ax_rv_div(a: f64, b: f64) ensures rv(b) != 0real ==> rv(#[trigger] fdiv(a, b)) == rv(a) / rv(b);
pub broadcast axiom fn ax_rv_neg(a: f64) ensures rv(#[trigger] fneg(a)) == 0real - rv(a);
pub broadcast axiom fn ax_rv_cmp(a: f64, b: f64)
    ensures #[trigger] fcmp(a, b) == (if rv(a) < rv(b) { Some(core::cmp::Ordering::Less) }
        else if rv(a) == rv(b) { Some(core::cmp::Ordering::Equal) } else { Some(core::cmp::Ordering::Greater) });
pub broadcast axiom fn ax_rv_eq(a: f64, b: f64) ensures #[trigger] feq(a, b) == (rv(a) == rv(b));
pub broadcast axiom fn ax_rv_max(a: f64, b: f64) ensures rv(#[trigger] fmaxf(a, b)) == (if rv(a) >= rv(b) { rv(a) } else { rv(b) });
pub broadcast axiom fn ax_rv_min(a: f64, b: f64) ensures rv(#[trigger] fminf(a, b)) == (if rv(a) <= rv(b) { rv(a) } else { rv(b) });
// (idealised) powf denotes a function of the real values of its arguments
pub uninterp spec fn rpow(x: real, y: real) -> real;
pub broadcast axiom fn ax_rv_powf(a: f64, b: f64) ensures rv(#[trigger] fpowf(a, b)) == rpow(rv(a), rv(b));
pub axiom fn ax_rv_lits()
    ensures rv(0.0f64) == 0real, rv(1.0f64) == 1real, rv(2.0f64) == 2real, rv(0.5f64) * 2real == 1real;
pub broadcast group ideal {
    ax_rv_add, ax_rv_sub, ax_rv_mul, ax_rv_div, ax_rv_neg, ax_rv_cmp, ax_rv_eq, ax_rv_max, ax_rv_min, ax_rv_powf
}
// (idealised) integer-to-float casts are exact
pub broadcast axiom fn ax_rv_u64(n: u64) ensures rv(#[trigger] u64_to_f64(n)) == n as real;
pub broadcast axiom fn ax_rv_usize(n: usize) ensures rv(#[trigger] usize_to_f64(n)) == n as real;
pub broadcast group ideal_casts { ax_rv_u64, ax_rv_usize }

// ---- extracted from src/lib.rs: enum PlayerNum ----
#[derive(Copy, Clone)]
pub enum PlayerNum {
    /// The first player
    One,
    /// The second player
    Two,
}

// PlayerNum::ind / ind_mut use slice patterns in a `match` (rejected by this Verus); they are kept
// external with the two-case spec, and that spec is discharged against the real bodies by the
// loop-free Kani harness `playernum_ind` (so it is cited, not assumed).
impl PlayerNum {
    #[verifier::external_body]
    pub fn ind<'a, T>(&self, arr: &'a [T; 2]) -> (r: &'a T)
        ensures *r == (match *self { PlayerNum::One => arr[0], PlayerNum::Two => arr[1] })
    { unimplemented!() }

    #[verifier::external_body]
    pub fn ind_mut<'a, T>(&self, arr: &'a mut [T; 2]) -> (r: &'a mut T)
        ensures
            *r == (match *self { PlayerNum::One => old(arr)[0], PlayerNum::Two => old(arr)[1] }),
            match *self {
                PlayerNum::One => final(arr)[0] == *final(r) && final(arr)[1] == old(arr)[1],
                PlayerNum::Two => final(arr)[1] == *final(r) && final(arr)[0] == old(arr)[0],
            },
    { unimplemented!() }
}

// ---- extracted from src/lib.rs: enum Node ----
pub enum Node {
    /// A terminal node, the game is over the payoff to player one
    Terminal(f64),
    /// A chance node, the game advances independent of player action
    Chance(Chance),
    /// a node in the tree where the player can choose between different actions
    Player(Player),
}

// ---- extracted from src/lib.rs: struct Chance ----
pub struct Chance {
    pub outcomes: Box<[Node]>,
    pub infoset: usize,
}

// ---- extracted from src/lib.rs: struct Player ----
pub struct Player {
    pub num: PlayerNum,
    pub infoset: usize,
    pub actions: Box<[Node]>,
}

pub open spec fn pnext_ok(num: PlayerNum, p_player: [f64; 2], prob: f64, p_next: [f64; 2]) -> bool {
    match num {
        PlayerNum::One => rv(p_next[0]) == rv(p_player[0]) * rv(prob) && p_next[1] == p_player[1],
        PlayerNum::Two => p_next[0] == p_player[0] && rv(p_next[1]) == rv(p_player[1]) * rv(prob),
    }
}

// a selection of action positions, strictly increasing (no action twice, order kept)
pub open spec fn sel_ok(idx: Seq<int>, n: int) -> bool {
    (forall|j: int| 0 <= j < idx.len() ==> 0 <= #[trigger] idx[j] < n)
    && (forall|i: int, j: int| 0 <= i < j < idx.len() ==> idx[i] < idx[j])
}
// the entries added to the frontier are those of the selected actions: the child, the unchanged chance
// reach, and the reach vector of ITS path
pub open spec fn added_ok<'a>(w0: Seq<(&'a Node, f64, [f64; 2])>, w1: Seq<(&'a Node, f64, [f64; 2])>, idx: Seq<int>, player: &'a Player, st: Seq<f64>, p_chance: f64, p_player: [f64; 2]) -> bool {
    w1.len() == w0.len() + idx.len() && w1.take(w0.len() as int) == w0
    && forall|j: int| 0 <= j < idx.len() ==> (#[trigger] w1[w0.len() + j]).0 == &player.actions@[idx[j]]
        && w1[w0.len() + j].1 == p_chance && pnext_ok(player.num, p_player, st[idx[j]], w1[w0.len() + j].2)
}

#[verifier::external_body] pub struct AtomicF64 { }
#[verifier::external_body]
#[verifier::reject_recursive_types(T)]
pub struct Mutex<T> { t: core::marker::PhantomData<T> }

// ---- extracted from src/solve/vanilla.rs: struct MutexRegretInfoset ----
pub struct MutexRegretInfoset {
    pub cum_regret: Box<[AtomicF64]>,
    pub cum_strat: Mutex<Box<[f64]>>,
    pub strat: Box<[f64]>,
}

// ---- extracted from src/solve/vanilla.rs: fn thread_threshold ----
pub fn thread_threshold__player_node<'a, 'b>(player: &'a Player, p_chance: f64, p_player: [f64; 2], mut player_infosets: [&'b mut [MutexRegretInfoset]; 2], work: &mut Vec<(&'a Node, f64, [f64; 2])>)
    requires
        player.infoset < (match player.num { PlayerNum::One => player_infosets[0]@, PlayerNum::Two => player_infosets[1]@ }).len(),
        (match player.num { PlayerNum::One => player_infosets[0]@, PlayerNum::Two => player_infosets[1]@ })[player.infoset as int].strat@.len() == player.actions@.len(),
    ensures
        // every entry added to the frontier belongs to ONE action of this node, no action twice, in order:
        // the child, the unchanged chance reach, and the reach vector of ITS path -- only the acting
        // player's entry multiplied by this action's probability. (Actions may be left out: whatever is
        // not in the frontier is traversed by the pass from the root; the code as it is adds all of them.)
        exists|idx: Seq<int>| #[trigger] sel_ok(idx, player.actions@.len() as int)
            && added_ok(old(work)@, final(work)@, idx, player, (match player.num { PlayerNum::One => player_infosets[0]@, PlayerNum::Two => player_infosets[1]@ })[player.infoset as int].strat@, p_chance, p_player), // @ob C06.V.thread_threshold.frontier_reach
{
broadcast use fl; broadcast use ideal;
proof { ax_obeys(); ax_rv_lits(); }
let ghost w0 = work@;
let ghost st = (match player.num { PlayerNum::One => player_infosets[0]@, PlayerNum::Two => player_infosets[1]@ })[player.infoset as int].strat@;
let ghost acts = player.actions@;
let ghost mut idx: Seq<int> = Seq::empty();

                let probs = &player.num.ind_mut(&mut player_infosets)[player.infoset].strat;
                proof { assert(work@.take(w0.len() as int) =~= w0); }
for (prob, next) in it: probs.iter().zip(player.actions.iter()) 
invariant
    probs@ == st, st.len() == acts.len(), acts == player.actions@,
    0 <= it.index@ <= acts.len(),
    sel_ok(idx, it.index@ as int),
    added_ok(w0, work@, idx, player, st, p_chance, p_player),
{
broadcast use fl; broadcast use ideal;
proof { ax_obeys(); ax_rv_lits(); }
let ghost k = it.index@ as int;
let ghost wb = work@;

                    let mut next_probs = p_player;
                    *player.num.ind_mut(&mut next_probs) = *player.num.ind_mut(&mut next_probs) * ( prob);
                    work.push((next, p_chance, next_probs));
                
proof {
    // the annotation follows what the body did: an entry was added for action k, or none
    if work@.len() == wb.len() + 1 {
        let i0 = idx;
        idx = i0.push(k);
        assert(work@.take(w0.len() as int) =~= w0);
        assert(forall|j: int| 0 <= j < i0.len() ==> (#[trigger] work@[w0.len() + j]) == wb[w0.len() + j]);
        assert(forall|j: int| 0 <= j < i0.len() ==> idx[j] == i0[j]);
        assert(work@[(w0.len() + i0.len()) as int] == work@.last());
    } else {
        assert(work@ == wb);
    }
}
}
            }

// ---- extracted from src/solve/vanilla.rs: fn thread_threshold ----
pub fn thread_threshold__chance_outcome<'a>(prob: &f64, node: &'a Node, p_chance: f64, p_player: [f64; 2]) -> (out: (&'a Node, f64, [f64; 2]))
    ensures
        // a chance outcome enters the frontier with the chance reach of ITS path (parent reach x outcome
        // probability) and unchanged player reaches
        out.0 == node && out.2 == p_player, // @ob C06.V.thread_threshold.frontier_reach_chance
        rv(out.1) == rv(p_chance) * rv(*prob), // @ob C06.V.thread_threshold.frontier_reach_chance
{
broadcast use fl; broadcast use ideal;
proof { ax_obeys(); ax_rv_lits(); }
(node, p_chance * prob, p_player)
}


// vacuity canary: must be REJECTED by the verifier (an inconsistent axiom set would accept it)
pub proof fn __canary_must_fail()
    ensures false, // @ob __canary
{
    broadcast use fl; broadcast use ideal; ax_obeys(); ax_rv_lits();
}

} // verus!
fn main() {}
