#![feature(sized_hierarchy)]
#![feature(allocator_api)]
#![allow(unused_imports, unused_variables, dead_code, unused_mut, unused_parens, unused_braces, non_snake_case)]
use vstd::prelude::*;
use vstd::std_specs::ops::*;
use vstd::std_specs::cmp::*;
use vstd::float::*;
use vstd::std_specs::iter::IteratorSpec;
verus! {

use std::hash::Hash;
#[verifier::external_body] pub struct Node { }
#[verifier::external_body] pub struct ChanceInfosetData { }
#[verifier::external_body]
#[verifier::reject_recursive_types(I)]
#[verifier::reject_recursive_types(A)]
pub struct PlayerInfosetData<I, A> { _p: core::marker::PhantomData<(I, A)> }
#[derive(PartialEq, Eq, Structural)]
pub struct StratError { }
// result of importing one player's named weights, as a function of (weights, that player's infosets,
// that player's single-action infosets); which = 0 hashing path, 1 scanning path
pub uninterp spec fn import_spec<S, I, A>(which: int, strat: S, infos: Seq<PlayerInfosetData<I, A>>, singles: Seq<(I, A)>) -> Result<Box<[f64]>, StratError>;
// ---- callees, bound (R5) to uninterpreted functions of ALL their arguments: what the unit decides is
// which table is handed to which call ----
#[verifier::external_body]
#[verifier::reject_recursive_types(I)]
#[verifier::reject_recursive_types(A)]
pub struct NamedStrategyIter<'a, I, A> { _p: core::marker::PhantomData<&'a (I, A)> }
pub uninterp spec fn named_spec<I, A>(info: Seq<PlayerInfosetData<I, A>>, probs: Seq<f64>, singles: Seq<(I, A)>) -> int;
impl<'a, I, A> NamedStrategyIter<'a, I, A> {
    pub uninterp spec fn id(&self) -> int;
    // (the real constructor and iterator are under contract in c13_named_iter)
    #[verifier::external_body]
    pub fn new(info: &'a [PlayerInfosetData<I, A>], probs: &'a [f64], singles: &'a [(I, A)]) -> (r: Self)
        ensures r.id() == named_spec(info@, probs@, singles@),
    { unimplemented!() }
}
pub open spec fn views(s: Seq<&[f64]>) -> Seq<Seq<f64>> { Seq::new(s.len(), |i: int| s[i]@) }
pub uninterp spec fn split_spec<I, A>(strat: Seq<f64>, info: Seq<PlayerInfosetData<I, A>>) -> Seq<Seq<f64>>;
// R6: `split_by(S, INFO.iter().map(|info| info.num_actions())).collect()` -- the dense vector S cut into
// INFO's infosets (V.SplitsBy.next.partition + the std collect)
#[verifier::external_body]
pub fn __split<'a, I, A>(strat: &'a Box<[f64]>, info: &Box<[PlayerInfosetData<I, A>]>) -> (r: Box<[&'a [f64]]>)
    ensures views(r@) == split_spec(strat@, info@),
{ unimplemented!() }
pub uninterp spec fn regret_spec<I, A>(root: Node, chance: Seq<ChanceInfosetData>, info_one: Seq<PlayerInfosetData<I, A>>, info_two: Seq<PlayerInfosetData<I, A>>,
    strat_one: Seq<Seq<f64>>, strat_two: Seq<Seq<f64>>) -> (f64, [f64; 2]);
pub mod regret {
    use super::*;
    // (the real regret() is under contract in c01_regret_wrapper)
    #[verifier::external_body]
    pub fn regret<I, A>(start: &Node, chance_info: &[ChanceInfosetData], player_info: [&Box<[PlayerInfosetData<I, A>]>; 2], strat_info: [&[&[f64]]; 2]) -> (r: (f64, [f64; 2]))
        ensures r == regret_spec(*start, chance_info@, player_info[0]@, player_info[1]@, views(strat_info[0]@), views(strat_info[1]@)),
    { unimplemented!() }
}

// ---- extracted from src/lib.rs: struct Game ----
#[verifier::reject_recursive_types(Infoset)]
#[verifier::reject_recursive_types(Action)]
pub struct Game<Infoset, Action> {
    pub chance_infosets: Box<[ChanceInfosetData]>,
    pub player_infosets: [Box<[PlayerInfosetData<Infoset, Action>]>; 2],
    pub single_infosets: [Box<[(Infoset, Action)]>; 2],
    pub root: Node,
}

// ---- extracted from src/lib.rs: struct Strategies ----
#[verifier::reject_recursive_types(Infoset)]
#[verifier::reject_recursive_types(Action)]
pub struct Strategies<'a, Infoset, Action> {
    pub game: &'a Game<Infoset, Action>,
    pub probs: [Box<[f64]>; 2],
}

// ---- extracted from src/lib.rs: struct StrategiesInfo ----
pub struct StrategiesInfo {
    pub util: f64,
    pub regrets: [f64; 2],
}

// ---- extracted from src/lib.rs: impl Strategies ----
impl<'a, I, A> Strategies<'a, I, A> {
pub fn as_named<'b: 'a>(&'b self) -> (r: [NamedStrategyIter<'a, I, A>; 2]) 
    ensures
        // player k's named view is built from player k's infosets, player k's dense vector and player k's
        // single-action infosets
        r[0].id() == named_spec(self.game.player_infosets[0]@, self.probs[0]@, self.game.single_infosets[0]@), // @ob C13.V.as_named.pairs_tables
        r[1].id() == named_spec(self.game.player_infosets[1]@, self.probs[1]@, self.game.single_infosets[1]@), // @ob C13.V.as_named.pairs_tables
{
        let info_one = &self.game.player_infosets[0]; let info_two = &self.game.player_infosets[1];
        let single_one = &self.game.single_infosets[0]; let single_two = &self.game.single_infosets[1];
        let probs_one = &self.probs[0]; let probs_two = &self.probs[1];
        [
            NamedStrategyIter::new(info_one, probs_one, single_one),
            NamedStrategyIter::new(info_two, probs_two, single_two),
        ]
    }
pub fn get_info(&self) -> (r: StrategiesInfo) 
    ensures
        // utility and regrets are those of THIS profile in THIS game: player k's dense vector is cut along
        // player k's infosets and handed over in player order
        (r.util, r.regrets) == regret_spec(self.game.root, self.game.chance_infosets@, self.game.player_infosets[0]@, self.game.player_infosets[1]@,
            split_spec(self.probs[0]@, self.game.player_infosets[0]@), split_spec(self.probs[1]@, self.game.player_infosets[1]@)), // @ob C01.V.get_info.pairs_tables
{
        let one_strat = &self.probs[0]; let two_strat = &self.probs[1];
        let one_info = &self.game.player_infosets[0]; let two_info = &self.game.player_infosets[1];
        let one_split: Box<[&[f64]]> = __split(one_strat, one_info);
        let two_split: Box<[&[f64]]> = __split(two_strat, two_info);
        let (util, regrets) = regret::regret(
            &self.game.root,
            &self.game.chance_infosets,
            [one_info, two_info],
            [&*one_split, &*two_split],
        );
        StrategiesInfo { util, regrets }
    }
}

// ---- extracted from src/lib.rs: impl Game ----
impl<I: Hash + Eq + Clone, A: Hash + Eq + Clone> Game<I, A> {
    // (validation / normalisation of one player's weights: c14_hash_validate, c14_normalise, Kani C14 cases)
    #[verifier::external_body]
    fn strat_into_box<S>(strat: S, infos: &[PlayerInfosetData<I, A>], raw_singles: &[(I, A)]) -> (r: Result<Box<[f64]>, StratError>)
        ensures r == import_spec::<S, I, A>(0, strat, infos@, raw_singles@),
    { unimplemented!() }
pub fn from_named<S: Copy>(
        &self,
        strats: [S; 2],
    ) -> (r: Result<Strategies<I, A>, StratError>) 
    ensures
        // player k's weights are imported against player k's infosets and single-action infosets; the
        // profile belongs to this game; the first failing player's error is returned
        match (import_spec::<S, I, A>(0, strats[0], self.player_infosets[0]@, self.single_infosets[0]@), import_spec::<S, I, A>(0, strats[1], self.player_infosets[1]@, self.single_infosets[1]@)) {
            (Ok(a), Ok(b)) => r is Ok && r->Ok_0.game == self && r->Ok_0.probs[0] == a && r->Ok_0.probs[1] == b,
            (Err(e), _) => r is Err && r->Err_0 == e,
            (Ok(_), Err(e)) => r is Err && r->Err_0 == e,
        }, // @ob C14.V.from_named.pairs_tables
{
        let one_strat = strats[0]; let two_strat = strats[1];
        let one_info = &self.player_infosets[0]; let two_info = &self.player_infosets[1];
        let one_single = &self.single_infosets[0]; let two_single = &self.single_infosets[1];
        Ok(Strategies {
            game: self,
            probs: [
                Self::strat_into_box(one_strat, one_info, one_single)?,
                Self::strat_into_box(two_strat, two_info, two_single)?,
            ],
        })
    }
}

// ---- extracted from src/lib.rs: impl Game ----
impl<I: Eq, A: Eq> Game<I, A> {
    // (validation / normalisation of one player's weights: c14_hash_validate, c14_normalise, Kani C14 cases)
    #[verifier::external_body]
    fn strat_into_box_slow<S>(strat: S, infos: &[PlayerInfosetData<I, A>], raw_singles: &[(I, A)]) -> (r: Result<Box<[f64]>, StratError>)
        ensures r == import_spec::<S, I, A>(1, strat, infos@, raw_singles@),
    { unimplemented!() }
pub fn from_named_eq<S: Copy>(
        &self,
        strats: [S; 2],
    ) -> (r: Result<Strategies<I, A>, StratError>) 
    ensures
        // player k's weights are imported against player k's infosets and single-action infosets; the
        // profile belongs to this game; the first failing player's error is returned
        match (import_spec::<S, I, A>(1, strats[0], self.player_infosets[0]@, self.single_infosets[0]@), import_spec::<S, I, A>(1, strats[1], self.player_infosets[1]@, self.single_infosets[1]@)) {
            (Ok(a), Ok(b)) => r is Ok && r->Ok_0.game == self && r->Ok_0.probs[0] == a && r->Ok_0.probs[1] == b,
            (Err(e), _) => r is Err && r->Err_0 == e,
            (Ok(_), Err(e)) => r is Err && r->Err_0 == e,
        }, // @ob C14.V.from_named_eq.pairs_tables
{
        let one_strat = strats[0]; let two_strat = strats[1];
        let one_info = &self.player_infosets[0]; let two_info = &self.player_infosets[1];
        let one_single = &self.single_infosets[0]; let two_single = &self.single_infosets[1];
        Ok(Strategies {
            game: self,
            probs: [
                Self::strat_into_box_slow(one_strat, one_info, one_single)?,
                Self::strat_into_box_slow(two_strat, two_info, two_single)?,
            ],
        })
    }
}


// vacuity canary: must be REJECTED by the verifier (an inconsistent axiom set would accept it)
pub proof fn __canary_must_fail()
    ensures false, // @ob __canary
{
    
}

} // verus!
fn main() {}
