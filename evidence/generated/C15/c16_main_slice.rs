#![feature(sized_hierarchy)]
#![feature(allocator_api)]
#![allow(unused_imports, unused_variables, dead_code, unused_mut, unused_parens, unused_braces, non_snake_case)]
use vstd::prelude::*;
use vstd::std_specs::ops::*;
use vstd::std_specs::cmp::*;
use vstd::float::*;
use vstd::std_specs::iter::IteratorSpec;
verus! {
// ---- prelude fragment: floats.rs ----
// Floating point, layer 1 ("uninterpreted" mode of DESIGN.md 3.2): every f64 operator instance the
// language can produce is linked to ONE total, deterministic, otherwise unknown function of the
// operand values.  Nothing about IEEE-754 is assumed here.
pub uninterp spec fn fadd(a: f64, b: f64) -> f64;
pub uninterp spec fn fsub(a: f64, b: f64) -> f64;
pub uninterp spec fn fmul(a: f64, b: f64) -> f64;
pub uninterp spec fn fdiv(a: f64, b: f64) -> f64;
pub uninterp spec fn fneg(a: f64) -> f64;
pub uninterp spec fn fcmp(a: f64, b: f64) -> Option<core::cmp::Ordering>;
pub uninterp spec fn feq(a: f64, b: f64) -> bool;
pub open spec fn flt(a: f64, b: f64) -> bool { fcmp(a, b) == Some(core::cmp::Ordering::Less) }
pub open spec fn fgt(a: f64, b: f64) -> bool { fcmp(a, b) == Some(core::cmp::Ordering::Greater) }
pub open spec fn fle(a: f64, b: f64) -> bool { fcmp(a, b) == Some(core::cmp::Ordering::Less) || fcmp(a, b) == Some(core::cmp::Ordering::Equal) }
pub open spec fn fge(a: f64, b: f64) -> bool { fcmp(a, b) == Some(core::cmp::Ordering::Greater) || fcmp(a, b) == Some(core::cmp::Ordering::Equal) }

pub broadcast axiom fn ax_add_vv_req(a: f64, b: f64) ensures #[trigger] a.add_req(b);
pub broadcast axiom fn ax_add_vv(a: f64, b: f64) ensures #[trigger] a.add_spec(b) == fadd(a, b);
pub broadcast axiom fn ax_add_vr_req(a: f64, b: &f64) ensures #[trigger] a.add_req(b);
pub broadcast axiom fn ax_add_vr(a: f64, b: &f64) ensures #[trigger] a.add_spec(b) == fadd(a, *b);
pub broadcast axiom fn ax_add_rv_req(a: &f64, b: f64) ensures #[trigger] a.add_req(b);
pub broadcast axiom fn ax_add_rv(a: &f64, b: f64) ensures #[trigger] a.add_spec(b) == fadd(*a, b);
pub broadcast axiom fn ax_add_rr_req(a: &f64, b: &f64) ensures #[trigger] a.add_req(b);
pub broadcast axiom fn ax_add_rr(a: &f64, b: &f64) ensures #[trigger] a.add_spec(b) == fadd(*a, *b);
pub broadcast axiom fn ax_sub_vv_req(a: f64, b: f64) ensures #[trigger] a.sub_req(b);
pub broadcast axiom fn ax_sub_vv(a: f64, b: f64) ensures #[trigger] a.sub_spec(b) == fsub(a, b);
pub broadcast axiom fn ax_sub_vr_req(a: f64, b: &f64) ensures #[trigger] a.sub_req(b);
pub broadcast axiom fn ax_sub_vr(a: f64, b: &f64) ensures #[trigger] a.sub_spec(b) == fsub(a, *b);
pub broadcast axiom fn ax_sub_rv_req(a: &f64, b: f64) ensures #[trigger] a.sub_req(b);
pub broadcast axiom fn ax_sub_rv(a: &f64, b: f64) ensures #[trigger] a.sub_spec(b) == fsub(*a, b);
pub broadcast axiom fn ax_sub_rr_req(a: &f64, b: &f64) ensures #[trigger] a.sub_req(b);
pub broadcast axiom fn ax_sub_rr(a: &f64, b: &f64) ensures #[trigger] a.sub_spec(b) == fsub(*a, *b);
pub broadcast axiom fn ax_mul_vv_req(a: f64, b: f64) ensures #[trigger] a.mul_req(b);
pub broadcast axiom fn ax_mul_vv(a: f64, b: f64) ensures #[trigger] a.mul_spec(b) == fmul(a, b);
pub broadcast axiom fn ax_mul_vr_req(a: f64, b: &f64) ensures #[trigger] a.mul_req(b);
pub broadcast axiom fn ax_mul_vr(a: f64, b: &f64) ensures #[trigger] a.mul_spec(b) == fmul(a, *b);
pub broadcast axiom fn ax_mul_rv_req(a: &f64, b: f64) ensures #[trigger] a.mul_req(b);
pub broadcast axiom fn ax_mul_rv(a: &f64, b: f64) ensures #[trigger] a.mul_spec(b) == fmul(*a, b);
pub broadcast axiom fn ax_mul_rr_req(a: &f64, b: &f64) ensures #[trigger] a.mul_req(b);
pub broadcast axiom fn ax_mul_rr(a: &f64, b: &f64) ensures #[trigger] a.mul_spec(b) == fmul(*a, *b);
pub broadcast axiom fn ax_div_vv_req(a: f64, b: f64) ensures #[trigger] a.div_req(b);
pub broadcast axiom fn ax_div_vv(a: f64, b: f64) ensures #[trigger] a.div_spec(b) == fdiv(a, b);
pub broadcast axiom fn ax_div_vr_req(a: f64, b: &f64) ensures #[trigger] a.div_req(b);
pub broadcast axiom fn ax_div_vr(a: f64, b: &f64) ensures #[trigger] a.div_spec(b) == fdiv(a, *b);
pub broadcast axiom fn ax_div_rv_req(a: &f64, b: f64) ensures #[trigger] a.div_req(b);
pub broadcast axiom fn ax_div_rv(a: &f64, b: f64) ensures #[trigger] a.div_spec(b) == fdiv(*a, b);
pub broadcast axiom fn ax_div_rr_req(a: &f64, b: &f64) ensures #[trigger] a.div_req(b);
pub broadcast axiom fn ax_div_rr(a: &f64, b: &f64) ensures #[trigger] a.div_spec(b) == fdiv(*a, *b);
pub broadcast axiom fn ax_cmp_v(a: f64, b: f64) ensures #[trigger] a.partial_cmp_spec(&b) == fcmp(a, b);
pub broadcast axiom fn ax_eq_v(a: f64, b: f64) ensures #[trigger] a.eq_spec(&b) == feq(a, b);
pub broadcast axiom fn ax_cmp_r(a: &f64, b: &f64) ensures #[trigger] a.partial_cmp_spec(&b) == fcmp(*a, *b);
pub broadcast axiom fn ax_eq_r(a: &f64, b: &f64) ensures #[trigger] a.eq_spec(&b) == feq(*a, *b);
// IEEE facts about comparison that do not depend on the operands' values (discharged for ALL pairs of
// f64 by the loop-free Kani harness `ieee_cmp_flip`): a < b  <=>  b > a, equality is symmetric, an
// unordered pair is unordered both ways; == agrees with partial_cmp.
pub axiom fn ax_obeys()
    ensures
        forall|a: f64, b: f64| (#[trigger] fcmp(a, b) == Some(core::cmp::Ordering::Less)) == (fcmp(b, a) == Some(core::cmp::Ordering::Greater)),
        forall|a: f64, b: f64| (#[trigger] fcmp(a, b) == Some(core::cmp::Ordering::Equal)) == (fcmp(b, a) == Some(core::cmp::Ordering::Equal)),
        forall|a: f64, b: f64| (#[trigger] fcmp(a, b) is None) == (fcmp(b, a) is None),
        forall|a: f64, b: f64| #[trigger] feq(a, b) == (fcmp(a, b) == Some(core::cmp::Ordering::Equal)),
        // max / min are commutative as far as comparisons can tell (the two results are identical, or +0 / -0,
        // or both NaN): discharged for ALL triples by the loop-free Kani harness `ieee_max_min_commute`
        forall|a: f64, b: f64, c: f64| #[trigger] fcmp(fmaxf(a, b), c) == fcmp(fmaxf(b, a), c),
        forall|a: f64, b: f64, c: f64| #[trigger] fcmp(c, fmaxf(a, b)) == fcmp(c, fmaxf(b, a)),
        forall|a: f64, b: f64, c: f64| #[trigger] fcmp(fminf(a, b), c) == fcmp(fminf(b, a), c),
        forall|a: f64, b: f64, c: f64| #[trigger] fcmp(c, fminf(a, b)) == fcmp(c, fminf(b, a)),
        <f64 as AddSpec<f64>>::obeys_add_spec(),
        <f64 as AddSpec<&f64>>::obeys_add_spec(),
        <&f64 as AddSpec<f64>>::obeys_add_spec(),
        <&f64 as AddSpec<&f64>>::obeys_add_spec(),
        <f64 as SubSpec<f64>>::obeys_sub_spec(),
        <f64 as SubSpec<&f64>>::obeys_sub_spec(),
        <&f64 as SubSpec<f64>>::obeys_sub_spec(),
        <&f64 as SubSpec<&f64>>::obeys_sub_spec(),
        <f64 as MulSpec<f64>>::obeys_mul_spec(),
        <f64 as MulSpec<&f64>>::obeys_mul_spec(),
        <&f64 as MulSpec<f64>>::obeys_mul_spec(),
        <&f64 as MulSpec<&f64>>::obeys_mul_spec(),
        <f64 as DivSpec<f64>>::obeys_div_spec(),
        <f64 as DivSpec<&f64>>::obeys_div_spec(),
        <&f64 as DivSpec<f64>>::obeys_div_spec(),
        <&f64 as DivSpec<&f64>>::obeys_div_spec(),
        <f64 as PartialOrdSpec<f64>>::obeys_partial_cmp_spec(),
        <f64 as PartialEqSpec<f64>>::obeys_eq_spec(),
        <&f64 as PartialOrdSpec<&f64>>::obeys_partial_cmp_spec(),
        <&f64 as PartialEqSpec<&f64>>::obeys_eq_spec(),
;
pub broadcast group fl {
    ax_add_vv_req, ax_add_vv, ax_add_vr_req, ax_add_vr, ax_add_rv_req, ax_add_rv, ax_add_rr_req, ax_add_rr, ax_sub_vv_req, ax_sub_vv, ax_sub_vr_req, ax_sub_vr, ax_sub_rv_req, ax_sub_rv, ax_sub_rr_req, ax_sub_rr, ax_mul_vv_req, ax_mul_vv, ax_mul_vr_req, ax_mul_vr, ax_mul_rv_req, ax_mul_rv, ax_mul_rr_req, ax_mul_rr, ax_div_vv_req, ax_div_vv, ax_div_vr_req, ax_div_vr, ax_div_rv_req, ax_div_rv, ax_div_rr_req, ax_div_rr, ax_cmp_v, ax_eq_v, ax_cmp_r, ax_eq_r
}

// R8: unary minus (this Verus rejects float negation); the wrapper IS the operator.
// (core implements Neg for f64 and for &f64: the wrapper takes either)
pub trait __NegArg: Sized { spec fn negv(self) -> f64; }
impl __NegArg for f64 { open spec fn negv(self) -> f64 { self } }
impl<'a> __NegArg for &'a f64 { open spec fn negv(self) -> f64 { *self } }
#[verifier::external_body]
pub fn __neg<T: __NegArg>(x: T) -> (r: f64)
    ensures r == fneg(x.negv()),
{ unimplemented!() }


// f64 methods used by the extracted code: linked to uninterpreted functions (their IEEE facts, where
// a proof needs one, are separate axioms discharged by loop-free Kani harnesses).
pub uninterp spec fn fmaxf(a: f64, b: f64) -> f64;
pub uninterp spec fn fminf(a: f64, b: f64) -> f64;
pub uninterp spec fn fabsf(a: f64) -> f64;
pub uninterp spec fn fisnan(a: f64) -> bool;
pub uninterp spec fn fisfinite(a: f64) -> bool;
pub uninterp spec fn fisinfinite(a: f64) -> bool;
// IEEE classification facts (discharged for ALL f64 / all pairs by the loop-free Kani harness
// `ieee_classification`): finite <=> neither NaN nor infinite; NaN and infinite exclude each other;
// a pair is unordered exactly when one side is NaN; 0.0 is finite.
pub axiom fn ax_ieee_class()
    ensures
        forall|a: f64| #[trigger] fisfinite(a) == (!fisnan(a) && !fisinfinite(a)),
        forall|a: f64| #[trigger] fisnan(a) ==> !fisinfinite(a),
        forall|a: f64, b: f64| (#[trigger] fcmp(a, b) is None) == (fisnan(a) || fisnan(b)),
        fisfinite(0.0f64),
        // (core::cmp::Ordering has exactly three variants: the Rust enum, opaque to this Verus)
        forall|a: f64, b: f64| #[trigger] fcmp(a, b) is None || fcmp(a, b) == Some(core::cmp::Ordering::Less)
            || fcmp(a, b) == Some(core::cmp::Ordering::Equal) || fcmp(a, b) == Some(core::cmp::Ordering::Greater);
pub uninterp spec fn fpowf(a: f64, b: f64) -> f64;
pub uninterp spec fn ftotalcmp(a: f64, b: f64) -> core::cmp::Ordering;
pub assume_specification [f64::max] (a: f64, b: f64) -> (r: f64) ensures r == fmaxf(a, b);
pub assume_specification [f64::min] (a: f64, b: f64) -> (r: f64) ensures r == fminf(a, b);
pub assume_specification [f64::abs] (a: f64) -> (r: f64) ensures r == fabsf(a);
pub assume_specification [f64::is_nan] (a: f64) -> (r: bool) ensures r == fisnan(a);
pub assume_specification [f64::is_finite] (a: f64) -> (r: bool) ensures r == fisfinite(a);
pub assume_specification [f64::is_infinite] (a: f64) -> (r: bool) ensures r == fisinfinite(a);
// further classification / sign predicates: deterministic functions about which nothing else is known
// (code that switches to one of them no longer verifies against a contract stated with `>`, `is_finite`, ...)
pub uninterp spec fn fisnormal(a: f64) -> bool;
pub uninterp spec fn fissubnormal(a: f64) -> bool;
pub uninterp spec fn fissignpos(a: f64) -> bool;
pub uninterp spec fn fissignneg(a: f64) -> bool;
pub assume_specification [f64::is_normal] (a: f64) -> (r: bool) ensures r == fisnormal(a);
pub assume_specification [f64::is_subnormal] (a: f64) -> (r: bool) ensures r == fissubnormal(a);
pub assume_specification [f64::is_sign_positive] (a: f64) -> (r: bool) ensures r == fissignpos(a);
pub assume_specification [f64::is_sign_negative] (a: f64) -> (r: bool) ensures r == fissignneg(a);
pub assume_specification [f64::powf] (a: f64, b: f64) -> (r: f64) ensures r == fpowf(a, b);
pub assume_specification [f64::total_cmp] (a: &f64, b: &f64) -> (r: core::cmp::Ordering) ensures r == ftotalcmp(*a, *b);

// R9: associated constants this Verus rejects; the wrappers' bodies ARE the constants.
pub uninterp spec fn finf() -> f64;
pub uninterp spec fn fneginf() -> f64;
#[verifier::external_body]
pub fn __inf() -> (r: f64) ensures r == finf() { f64::INFINITY }
#[verifier::external_body]
pub fn __neg_inf() -> (r: f64) ensures r == fneginf() { f64::NEG_INFINITY }
pub assume_specification [core::cmp::Ordering::is_lt] (o: core::cmp::Ordering) -> (r: bool) ensures r == (o == core::cmp::Ordering::Less);
pub assume_specification [core::cmp::Ordering::is_le] (o: core::cmp::Ordering) -> (r: bool) ensures r == (o != core::cmp::Ordering::Greater);
pub assume_specification [core::cmp::Ordering::is_gt] (o: core::cmp::Ordering) -> (r: bool) ensures r == (o == core::cmp::Ordering::Greater);
pub assume_specification [core::cmp::Ordering::is_ge] (o: core::cmp::Ordering) -> (r: bool) ensures r == (o != core::cmp::Ordering::Less);
pub uninterp spec fn fconst_EPSILON() -> f64;
#[verifier::external_body]
pub fn __f64_EPSILON() -> (r: f64) ensures r == fconst_EPSILON() { f64::EPSILON }
pub uninterp spec fn fconst_MAX() -> f64;
#[verifier::external_body]
pub fn __f64_MAX() -> (r: f64) ensures r == fconst_MAX() { f64::MAX }
pub uninterp spec fn fconst_MIN() -> f64;
#[verifier::external_body]
pub fn __f64_MIN() -> (r: f64) ensures r == fconst_MIN() { f64::MIN }
pub uninterp spec fn fconst_MIN_POSITIVE() -> f64;
#[verifier::external_body]
pub fn __f64_MIN_POSITIVE() -> (r: f64) ensures r == fconst_MIN_POSITIVE() { f64::MIN_POSITIVE }
pub uninterp spec fn fconst_NAN() -> f64;
#[verifier::external_body]
pub fn __f64_NAN() -> (r: f64) ensures r == fconst_NAN() { f64::NAN }

// R12: integer-to-float casts (`X as f64`), which this Verus rejects; the wrapper IS the cast.
pub uninterp spec fn u64_to_f64(n: u64) -> f64;
pub uninterp spec fn usize_to_f64(n: usize) -> f64;
pub trait ToF64: Sized {
    spec fn to_f64_spec(self) -> f64;
    fn __to_f64(self) -> (r: f64) ensures r == self.to_f64_spec();
}
impl ToF64 for u64 {
    open spec fn to_f64_spec(self) -> f64 { u64_to_f64(self) }
    #[verifier::external_body]
    fn __to_f64(self) -> (r: f64) { self as f64 }
}
impl ToF64 for usize {
    open spec fn to_f64_spec(self) -> f64 { usize_to_f64(self) }
    #[verifier::external_body]
    fn __to_f64(self) -> (r: f64) { self as f64 }
}
pub fn __as_f64<T: ToF64>(x: T) -> (r: f64) ensures r == x.to_f64_spec() { x.__to_f64() }

// R13: identity on f64 (see rule R13 of the extractor)
pub fn __idf(x: f64) -> (r: f64) ensures r == x { x }

// ---- prelude fragment: ideal.rs ----
// Floating point, layer 2 ("idealised real" mode of DESIGN.md 3.2): machine arithmetic treated as
// mathematical.  rv maps a float to the real it denotes; rounding, overflow, NaN and signed zero are
// ignored.  Used only where the property is a statement of real arithmetic.
pub uninterp spec fn rv(x: f64) -> real;
pub broadcast axiom fn ax_rv_add(a: f64, b: f64) ensures rv(#[trigger] fadd(a, b)) == rv(a) + rv(b);
pub broadcast axiom fn ax_rv_sub(a: f64, b: f64) ensures rv(#[trigger] fsub(a, b)) == rv(a) - rv(b);
pub broadcast axiom fn ax_rv_mul(a: f64, b: f64) ensures rv(#[trigger] fmul(a, b)) == rv(a) * rv(b);
pub broadcast axiom fn ax_rv_div(a: f64, b: f64) ensures rv(b) != 0real ==> rv(#[trigger] fdiv(a, b)) == rv(a) / rv(b);
pub broadcast axiom fn ax_rv_neg(a: f64) ensures rv(#[trigger] fneg(a)) == 0real - rv(a);
pub broadcast axiom fn ax_rv_cmp(a: f64, b: f64)
    ensures #[trigger] fcmp(a, b) == (if rv(a) < rv(b) { Some(core::cmp::Ordering::Less) }
        else if rv(a) == rv(b) { Some(core::cmp::Ordering::Equal) } else { Some(core::cmp::Ordering::Greater) });
pub broadcast axiom fn ax_rv_eq(a: f64, b: f64) ensures #[trigger] feq(a, b) == (rv(a) == rv(b));
pub broadcast axiom fn ax_rv_max(a: f64, b: f64) ensures rv(#[trigger] fmaxf(a, b)) == (if rv(a) >= rv(b) { rv(a) } else { rv(b) });
pub broadcast axiom fn ax_rv_min(a: f64, b: f64) ensures rv(#[trigger] fminf(a, b)) == (if rv(a) <= rv(b) { rv(a) } else { rv(b) });
// (idealised) powf denotes a function of the real values of its arguments
pub uninterp spec fn rpow(x: real, y: real) -> real;
pub broadcast axiom fn ax_rv_powf(a: f64, b: f64) ensures rv(#[trigger] fpowf(a, b)) == rpow(rv(a), rv(b));
pub axiom fn ax_rv_lits()
    ensures rv(0.0f64) == 0real, rv(1.0f64) == 1real, rv(2.0f64) == 2real, rv(0.5f64) * 2real == 1real;
pub broadcast group ideal {
    ax_rv_add, ax_rv_sub, ax_rv_mul, ax_rv_div, ax_rv_neg, ax_rv_cmp, ax_rv_eq, ax_rv_max, ax_rv_min, ax_rv_powf
}
// (idealised) integer-to-float casts are exact
pub broadcast axiom fn ax_rv_u64(n: u64) ensures rv(#[trigger] u64_to_f64(n)) == n as real;
pub broadcast axiom fn ax_rv_usize(n: usize) ensures rv(#[trigger] usize_to_f64(n)) == n as real;
pub broadcast group ideal_casts { ax_rv_u64, ax_rv_usize }

// ---- extracted from src/lib.rs: enum PlayerNum ----
#[derive(Copy, Clone, PartialEq, Eq, Structural)]
pub enum PlayerNum {
    /// The first player
    One,
    /// The second player
    Two,
}

// ---- extracted from src/main.rs: enum Method ----
#[derive(Clone, Copy, PartialEq, Eq, Structural)]
pub enum Method {
    /// No sampling
    Full,
    /// Sample chance nodes
    Sampled,
    /// Sample chance and the other player
    External,
}

// ---- extracted from src/main.rs: enum InputFormat ----
#[derive(Clone, Copy, PartialEq, Eq, Structural)]
pub enum InputFormat {
    /// Auto-detect format from file extension and contents
    Auto,
    /// Gambit style `.efg` format
    Gambit,
    /// Json game dsl: https://github.com/erikbrinkman/cfr#json-format
    Json,
}

// ---- extracted from src/main.rs: enum Discount ----
#[derive(Clone, Copy, PartialEq, Eq, Structural)]
pub enum Discount {
    /// No discounting
    Vanilla,
    /// Linear discounting of regret and strategies
    Lcfr,
    /// Forget negative regrets and quadratic strategy discounting (CFR+)
    CfrPlus,
    /// Rough average of LCFR and CFR+
    Dcfr,
    /// DCFR modified to prune poor actions
    DcfrPrune,
}

// ---- extracted from src/main.rs: struct Args ----
pub struct Args {
    /// Try pruning strategies played less than this fraction
    ///
    /// After finding a solution subject to max-regret and max-iters criteria, this will try
    /// pruning any strategy played less than this fraction of the time. If pruning all strategies
    /// below this threshold produces less regret then the pruned strategy is output.
    pub clip_threshold: f64,

    /// Terminate solving early if regret is below `max_regret`
    pub max_regret: f64,

    /// Stop after `max_iters`
    pub max_iters: u64,

    /// Amount of parallelism to use for solving
    ///
    /// If set to zero (default), this will use rusts `std::thread::available_parallelism` falling
    /// back to single threaded if this can't determine an amount.
    pub parallel: usize,

    /// Method to use for game solving
    pub method: Method,

    /// Format of the input game file
    pub input_format: InputFormat,

    /// Discounted CFR parameters
    pub discount: Discount,

    /// Read game from a file instead of from stdin
    pub input: String,

    /// Write results to a file instead of stdout
    pub output: String,
}

// ---- extracted from src/main.rs: struct Output ----
pub struct Output {
    pub regret: f64,
    pub player_one_utility: f64,
    pub player_two_utility: f64,
    pub player_one_regret: f64,
    pub player_two_regret: f64,
    pub player_one_strategy: Strategy,
    pub player_two_strategy: Strategy,
}


// ---- the library, as far as main() uses it: every call is an uninterpreted function of ALL its
// arguments (what the unit decides is which option / value reaches which call, and what is printed) ----
pub struct RegretParams { pub k: int }
pub open spec fn preset(k: int) -> RegretParams { RegretParams { k } }
impl RegretParams {
    #[verifier::external_body] pub fn vanilla() -> (r: Self) ensures r == preset(0) { unimplemented!() }
    #[verifier::external_body] pub fn lcfr() -> (r: Self) ensures r == preset(1) { unimplemented!() }
    #[verifier::external_body] pub fn cfr_plus() -> (r: Self) ensures r == preset(2) { unimplemented!() }
    #[verifier::external_body] pub fn dcfr() -> (r: Self) ensures r == preset(3) { unimplemented!() }
    #[verifier::external_body] pub fn dcfr_prune() -> (r: Self) ensures r == preset(4) { unimplemented!() }
}
#[derive(Clone, Copy, PartialEq, Eq, Structural)]
pub enum SolveMethod { Full, Sampled, External }
#[verifier::external_body] pub struct Game { }
#[verifier::external_body] pub struct RegretBound { }
#[verifier::external_body] pub struct SolveError { }
impl core::fmt::Debug for SolveError { #[verifier::external_body] fn fmt(&self, f: &mut core::fmt::Formatter<'_>) -> core::fmt::Result { unimplemented!() } }
// a strategy profile is identified by an abstract value
pub struct Strategies { pub id: int }
#[derive(Clone, Copy)]
pub struct StrategiesInfo { pub id: int }
pub uninterp spec fn solve_spec(game: Game, method: SolveMethod, max_iter: u64, max_reg: f64, threads: usize, params: Option<RegretParams>) -> int;
pub uninterp spec fn trunc_spec(strat: int, thresh: f64) -> int;
pub uninterp spec fn info_spec(strat: int) -> int;
pub uninterp spec fn regret_of(info: int) -> f64;
pub uninterp spec fn util_of(info: int, num: PlayerNum) -> f64;
pub uninterp spec fn pregret_of(info: int, num: PlayerNum) -> f64;
pub uninterp spec fn named_spec(strat: int, player: int) -> int;
impl Game {
    // (Game::solve: C05/C06/...; the CLI unwraps its result: a solver error is a panic, not decided here)
    #[verifier::external_body]
    pub fn solve(&self, method: SolveMethod, max_iter: u64, max_reg: f64, num_threads: usize, params: Option<RegretParams>) -> (r: Result<(Strategies, RegretBound), SolveError>)
        ensures r is Ok, r->Ok_0.0.id == solve_spec(*self, method, max_iter, max_reg, num_threads, params),
    { unimplemented!() }
}
impl Clone for Strategies {
    #[verifier::external_body]
    fn clone(&self) -> (r: Self) ensures r.id == self.id { unimplemented!() }
}
#[derive(Clone, Copy)]
pub struct NamedIter { pub id: int }
impl Strategies {
    #[verifier::external_body] pub fn get_info(&self) -> (r: StrategiesInfo) ensures r.id == info_spec(self.id) { unimplemented!() }
    #[verifier::external_body] pub fn truncate(&mut self, thresh: f64) ensures final(self).id == trunc_spec(old(self).id, thresh) { unimplemented!() }
    #[verifier::external_body] pub fn as_named(&self) -> (r: [NamedIter; 2]) ensures r[0].id == named_spec(self.id, 0), r[1].id == named_spec(self.id, 1) { unimplemented!() }
}
impl StrategiesInfo {
    #[verifier::external_body] pub fn regret(&self) -> (r: f64) ensures r == regret_of(self.id) { unimplemented!() }
    #[verifier::external_body] pub fn player_utility(&self, num: PlayerNum) -> (r: f64) ensures r == util_of(self.id, num) { unimplemented!() }
    #[verifier::external_body] pub fn player_regret(&self, num: PlayerNum) -> (r: f64) ensures r == pregret_of(self.id, num) { unimplemented!() }
}
// serialisable strategy: what `impl From<I> for Strategy` builds from a named view (its filter of
// zero-probability actions / duplicate check are not part of this unit)
pub struct Strategy { pub from: Ghost<int> }
#[verifier::external_body]
pub fn __to_strategy(it: NamedIter) -> (r: Strategy) ensures r.from@ == it.id { unimplemented!() }
// std::borrow::Borrow as far as the serialisation filter uses it
pub trait Borrow<T> { spec fn bview(&self) -> T; fn borrow(&self) -> (r: &T) ensures *r == self.bview(); }
pub open spec fn method_of(m: Method) -> SolveMethod { match m { Method::Full => SolveMethod::Full, Method::Sampled => SolveMethod::Sampled, Method::External => SolveMethod::External } }
pub open spec fn preset_of(d: Discount) -> RegretParams { match d { Discount::Vanilla => preset(0), Discount::Lcfr => preset(1), Discount::CfrPlus => preset(2), Discount::Dcfr => preset(3), Discount::DcfrPrune => preset(4) } }
// reading the game: the parsed game and half the constant the two players' payoffs add up to (0 for the
// zero-sum JSON format)
#[verifier::external_body]
pub fn __abs_read(args: &Args) -> (r: (Game, f64)) { unimplemented!() }
#[verifier::external_body]
pub fn __abs_parse() -> (r: Args) { unimplemented!() }
// the profile that is printed: the solver's result for the selected options, or its truncation at the
// clip threshold exactly when that has strictly lower regret
pub open spec fn chosen_of(args: Args, game: Game) -> int {
    let iters = if args.max_iters == 0 { u64::MAX } else { args.max_iters };
    let s0 = solve_spec(game, method_of(args.method), iters, args.max_regret, args.parallel, Some(preset_of(args.discount)));
    let sp = trunc_spec(s0, args.clip_threshold);
    if flt(regret_of(info_spec(sp)), regret_of(info_spec(s0))) { sp } else { s0 }
}
pub open spec fn options_ok(out: Output, args: Args, game: Game) -> bool {
    let inf = info_spec(chosen_of(args, game));
    out.regret == regret_of(inf)
    && out.player_one_regret == pregret_of(inf, PlayerNum::One) && out.player_two_regret == pregret_of(inf, PlayerNum::Two)
    && out.player_one_strategy.from@ == named_spec(chosen_of(args, game), 0) && out.player_two_strategy.from@ == named_spec(chosen_of(args, game), 1)
}
pub open spec fn utilities_ok(out: Output, args: Args, game: Game, sum: f64) -> bool {
    let inf = info_spec(chosen_of(args, game));
    // each player's OWN payoff: the zero-sum utility plus half the constant the payoffs add up to
    // (stated on the real values, so that `sum + u` and `u + sum` are the same thing)
    rv(out.player_one_utility) == rv(util_of(inf, PlayerNum::One)) + rv(sum)
    && rv(out.player_two_utility) == rv(util_of(inf, PlayerNum::Two)) + rv(sum)
}
#[verifier::external_body]
pub fn __abs_print(out: &Output, args: &Args, game: &Game, sum: f64)
    requires
        // the method / preset / budget (0 = unlimited) / threshold / parallelism options reach Game::solve
        // unchanged; the pruned profile is printed exactly when its regret is strictly lower; regrets and
        // strategies (in player order) are those of the printed profile
        options_ok(*out, *args, *game), // @ob C16.V.main.prints_what_the_options_select
        // the printed utilities are the players' own payoffs of the printed profile
        utilities_ok(*out, *args, *game, sum), // @ob C15.V.main.own_payoffs
{ unimplemented!() }

// ---- extracted from src/main.rs: impl Discount ----
impl Discount {
pub fn into_params(self) -> (r: RegretParams) 
    ensures r == preset_of(self), // @ob C16.V.discount.into_params
{
        match self {
            Discount::Vanilla => RegretParams::vanilla(),
            Discount::Lcfr => RegretParams::lcfr(),
            Discount::CfrPlus => RegretParams::cfr_plus(),
            Discount::Dcfr => RegretParams::dcfr(),
            Discount::DcfrPrune => RegretParams::dcfr_prune(),
        }
    }
}

// ---- extracted from src/main.rs: fn main ----
pub fn cli_main() {
broadcast use fl; broadcast use ideal;
proof { ax_obeys(); ax_rv_lits(); }

    let args = __abs_parse();
    let (game, sum) = __abs_read(&args);
    let max_iters = if args.max_iters == 0 {
        u64::MAX
    } else {
        args.max_iters
    };
    let method = match args.method {
        Method::Full => SolveMethod::Full,
        Method::Sampled => SolveMethod::Sampled,
        Method::External => SolveMethod::External,
    };
    let (mut strategies, _) = game
        .solve(
            method,
            max_iters,
            args.max_regret,
            args.parallel,
            Some(args.discount.into_params()),
        )
        .unwrap();
    let mut info = strategies.get_info();
    let mut pruned_strats = strategies.clone();
    pruned_strats.truncate(args.clip_threshold);
    let pruned_info = pruned_strats.get_info();
    if pruned_info.regret() < info.regret() {
        strategies = pruned_strats;
        info = pruned_info;
    }
    let __named = strategies.as_named(); let one = __named[0]; let two = __named[1];
    let out = Output {
        regret: info.regret(),
        player_one_utility: info.player_utility(PlayerNum::One) + sum,
        player_two_utility: info.player_utility(PlayerNum::Two) + sum,
        player_one_regret: info.player_regret(PlayerNum::One),
        player_two_regret: info.player_regret(PlayerNum::Two),
        player_one_strategy: __to_strategy(one),
        player_two_strategy: __to_strategy(two),
    };
    __abs_print(&out, &args, &game, sum);
}

// ---- extracted from src/main.rs: impl From for Strategy / fn from ----
pub fn strategy_from__printed_action<N: Borrow<f64>>(p: &N) -> (out: bool)
    ensures
        // an action is printed exactly when its probability is positive
        out == fgt(p.bview(), 0.0f64), // @ob C15.V.output.zero_probability_actions_omitted
{
broadcast use fl;
proof { ax_obeys(); }
p.borrow() > &0.0
}


// vacuity canary: must be REJECTED by the verifier (an inconsistent axiom set would accept it)
pub proof fn __canary_must_fail()
    ensures false, // @ob __canary
{
    broadcast use fl; broadcast use ideal; ax_obeys(); ax_rv_lits();
}

} // verus!
fn main() {}
