#![feature(sized_hierarchy)]
#![feature(allocator_api)]
#![allow(unused_imports, unused_variables, dead_code, unused_mut, unused_parens, unused_braces, non_snake_case)]
use vstd::prelude::*;
use vstd::std_specs::ops::*;
use vstd::std_specs::cmp::*;
use vstd::float::*;
use vstd::std_specs::iter::IteratorSpec;
verus! {
// ---- extracted from src/error.rs: enum GameError ----
#[derive(PartialEq, Eq, Structural, Clone, Copy)]
pub enum GameError {
    /// Returned when a chance node has no outcomes
    EmptyChance,
    /// Returned when a chance node has an outcome with a non-positive probability of happening
    NonPositiveChance,
    /// Returned when a chance node has different probabilities than another node in its infoset
    ProbabilitiesNotEqual,
    /// Returned when a game's infosets don't exhibit perfect recall
    ///
    /// If a game does have perfect recall, then a player's infosets must form a tree, that is for
    /// all game nodes with a given infoset, the infoset of the player's previous action must be
    /// identical. We ignore this criterion for single action infosets since they don't actually
    /// reflect a decision.
    ImperfectRecall,
    /// Returned when a player node has no actions
    EmptyPlayer,
    /// Returned when the actions of a player node didn't match the order and values of an earlier
    /// information set.
    ///
    /// Make sure that all nodes with the same player and information set also have the same
    /// actions in the same order.
    ActionsNotEqual,
    /// Returned when the actions of a player node weren't unique.
    ///
    /// Make sure that all actions of a player node are unique.
    ActionsNotUnique,
    /// Returned when a terminal node has a payoff that is nan or infinite
    NonFinitePayoff,
}

// the three interning tables of Game::from_root, opaque (their insides: c11_compact, c11_compact_opt;
// std HashMap for the single-action infosets)
#[verifier::external_body] pub struct OptBuilder { }
#[verifier::external_body] pub struct Builder { }
#[verifier::external_body] pub struct HashMap { }
pub uninterp spec fn empty_opt() -> OptBuilder;
pub uninterp spec fn empty_builder() -> Builder;
pub uninterp spec fn empty_map() -> HashMap;
impl OptBuilder { #[verifier::external_body] pub fn new() -> (r: Self) ensures r == empty_opt() { unimplemented!() } }
impl Builder { #[verifier::external_body] pub fn new() -> (r: Self) ensures r == empty_builder() { unimplemented!() } }
impl HashMap { #[verifier::external_body] pub fn new() -> (r: Self) ensures r == empty_map() { unimplemented!() } }
#[verifier::external_body] pub struct Node { }
#[verifier::external_body]
#[verifier::reject_recursive_types(I)]
#[verifier::reject_recursive_types(A)]
pub struct Game<I, A> { _p: core::marker::PhantomData<(I, A)> }
// the recursive construction (init_recurse: per-node rule checks, C11 units) as an uninterpreted function
// of the input tree and the tables it is started with: the compact root and the filled tables, or the error
pub uninterp spec fn init_spec<T>(root: T, c: OptBuilder, p: [Builder; 2], s: [HashMap; 2]) -> Result<(Node, OptBuilder, [Builder; 2], [HashMap; 2]), GameError>;
#[verifier::external_body]
pub fn __abs_init<T>(c: &mut OptBuilder, p: &mut [Builder; 2], s: &mut [HashMap; 2], root: T) -> (r: Result<Node, GameError>)
    ensures match init_spec(root, *old(c), *old(p), *old(s)) {
        Ok(t) => r == Ok::<Node, GameError>(t.0) && *final(c) == t.1 && *final(p) == t.2 && *final(s) == t.3,
        Err(e) => r == Err::<Node, GameError>(e),
    },
{ unimplemented!() }
// the conversion of the filled tables into the game's boxed slices (iterator chains over the builders)
pub uninterp spec fn finish_spec<I, A>(c: OptBuilder, p: [Builder; 2], s: [HashMap; 2], root: Node) -> Game<I, A>;
#[verifier::external_body]
pub fn __abs_finish<I, A>(c: OptBuilder, p: [Builder; 2], s: [HashMap; 2], root: Node) -> (r: Game<I, A>)
    ensures r == finish_spec::<I, A>(c, p, s, root),
{ unimplemented!() }
pub open spec fn from_root_seq<T, I, A>(root: T) -> Result<Game<I, A>, GameError> {
    match init_spec(root, empty_opt(), [empty_builder(), empty_builder()], [empty_map(), empty_map()]) {
        Err(e) => Err(e),
        Ok(t) => Ok(finish_spec::<I, A>(t.1, t.2, t.3, t.0)),
    }
}

impl<I, A> Game<I, A> {

// ---- extracted from src/lib.rs: impl Game / fn from_root ----
pub fn from_root<T>(root: T) -> (out: Result<Self, GameError>) 
    ensures
        // construction succeeds exactly when the recursive per-node checks succeed on the caller's tree,
        // started from EMPTY tables, and then hands back the game built from the tables they filled: no
        // further check, no other source of errors
        out == from_root_seq::<T, I, A>(root), // @ob C11.V.from_root.is_its_phases
{
        let mut chance_infosets = OptBuilder::new();
        let mut player_infosets = [Builder::new(), Builder::new()];
        let mut single_infosets = [HashMap::new(), HashMap::new()];
        
        
        let root = __abs_init(&mut chance_infosets, &mut player_infosets, &mut single_infosets, root)?;
        Ok(__abs_finish(chance_infosets, player_infosets, single_infosets, root))
    }

}


// vacuity canary: must be REJECTED by the verifier (an inconsistent axiom set would accept it)
pub proof fn __canary_must_fail()
    ensures false, // @ob __canary
{
    
}

} // verus!
fn main() {}
