#![feature(sized_hierarchy)]
#![feature(allocator_api)]
#![allow(unused_imports, unused_variables, dead_code, unused_mut, unused_parens, unused_braces, non_snake_case)]
use vstd::prelude::*;
use vstd::std_specs::ops::*;
use vstd::std_specs::cmp::*;
use vstd::float::*;
use vstd::std_specs::iter::IteratorSpec;
verus! {
// ---- prelude fragment: floats.rs ----
// Floating point, layer 1 ("uninterpreted" mode of DESIGN.md 3.2): every f64 operator instance the
// language can produce is linked to ONE total, deterministic, otherwise unknown function of the
// operand values.  Nothing about IEEE-754 is assumed here.
pub uninterp spec fn fadd(a: f64, b: f64) -> f64;
pub uninterp spec fn fsub(a: f64, b: f64) -> f64;
pub uninterp spec fn fmul(a: f64, b: f64) -> f64;
pub uninterp spec fn fdiv(a: f64, b: f64) -> f64;
pub uninterp spec fn fneg(a: f64) -> f64;
pub uninterp spec fn fcmp(a: f64, b: f64) -> Option<core::cmp::Ordering>;
pub uninterp spec fn feq(a: f64, b: f64) -> bool;
pub open spec fn flt(a: f64, b: f64) -> bool { fcmp(a, b) == Some(core::cmp::Ordering::Less) }
pub open spec fn fgt(a: f64, b: f64) -> bool { fcmp(a, b) == Some(core::cmp::Ordering::Greater) }
pub open spec fn fle(a: f64, b: f64) -> bool { fcmp(a, b) == Some(core::cmp::Ordering::Less) || fcmp(a, b) == Some(core::cmp::Ordering::Equal) }
pub open spec fn fge(a: f64, b: f64) -> bool { fcmp(a, b) == Some(core::cmp::Ordering::Greater) || fcmp(a, b) == Some(core::cmp::Ordering::Equal) }

pub broadcast axiom fn ax_add_vv_req(a: f64, b: f64) ensures #[trigger] a.add_req(b);
pub broadcast axiom fn ax_add_vv(a: f64, b: f64) ensures #[trigger] a.add_spec(b) == fadd(a, b);
pub broadcast axiom fn ax_add_vr_req(a: f64, b: &f64) ensures #[trigger] a.add_req(b);
pub broadcast axiom fn ax_add_vr(a: f64, b: &f64) ensures #[trigger] a.add_spec(b) == fadd(a, *b);
pub broadcast axiom fn ax_add_rv_req(a: &f64, b: f64) ensures #[trigger] a.add_req(b);
pub broadcast axiom fn ax_add_rv(a: &f64, b: f64) ensures #[trigger] a.add_spec(b) == fadd(*a, b);
pub broadcast axiom fn ax_add_rr_req(a: &f64, b: &f64) ensures #[trigger] a.add_req(b);
pub broadcast axiom fn ax_add_rr(a: &f64, b: &f64) ensures #[trigger] a.add_spec(b) == fadd(*a, *b);
pub broadcast axiom fn ax_sub_vv_req(a: f64, b: f64) ensures #[trigger] a.sub_req(b);
pub broadcast axiom fn ax_sub_vv(a: f64, b: f64) ensures #[trigger] a.sub_spec(b) == fsub(a, b);
pub broadcast axiom fn ax_sub_vr_req(a: f64, b: &f64) ensures #[trigger] a.sub_req(b);
pub broadcast axiom fn ax_sub_vr(a: f64, b: &f64) ensures #[trigger] a.sub_spec(b) == fsub(a, *b);
pub broadcast axiom fn ax_sub_rv_req(a: &f64, b: f64) ensures #[trigger] a.sub_req(b);
pub broadcast axiom fn ax_sub_rv(a: &f64, b: f64) ensures #[trigger] a.sub_spec(b) == fsub(*a, b);
pub broadcast axiom fn ax_sub_rr_req(a: &f64, b: &f64) ensures #[trigger] a.sub_req(b);
pub broadcast axiom fn ax_sub_rr(a: &f64, b: &f64) ensures #[trigger] a.sub_spec(b) == fsub(*a, *b);
pub broadcast axiom fn ax_mul_vv_req(a: f64, b: f64) ensures #[trigger] a.mul_req(b);
pub broadcast axiom fn ax_mul_vv(a: f64, b: f64) ensures #[trigger] a.mul_spec(b) == fmul(a, b);
pub broadcast axiom fn ax_mul_vr_req(a: f64, b: &f64) ensures #[trigger] a.mul_req(b);
pub broadcast axiom fn ax_mul_vr(a: f64, b: &f64) ensures #[trigger] a.mul_spec(b) == fmul(a, *b);
pub broadcast axiom fn ax_mul_rv_req(a: &f64, b: f64) ensures #[trigger] a.mul_req(b);
pub broadcast axiom fn ax_mul_rv(a: &f64, b: f64) ensures #[trigger] a.mul_spec(b) == fmul(*a, b);
pub broadcast axiom fn ax_mul_rr_req(a: &f64, b: &f64) ensures #[trigger] a.mul_req(b);
pub broadcast axiom fn ax_mul_rr(a: &f64, b: &f64) ensures #[trigger] a.mul_spec(b) == fmul(*a, *b);
pub broadcast axiom fn ax_div_vv_req(a: f64, b: f64) ensures #[trigger] a.div_req(b);
pub broadcast axiom fn ax_div_vv(a: f64, b: f64) ensures #[trigger] a.div_spec(b) == fdiv(a, b);
pub broadcast axiom fn ax_div_vr_req(a: f64, b: &f64) ensures #[trigger] a.div_req(b);
pub broadcast axiom fn ax_div_vr(a: f64, b: &f64) ensures #[trigger] a.div_spec(b) == fdiv(a, *b);
pub broadcast axiom fn ax_div_rv_req(a: &f64, b: f64) ensures #[trigger] a.div_req(b);
pub broadcast axiom fn ax_div_rv(a: &f64, b: f64) ensures #[trigger] a.div_spec(b) == fdiv(*a, b);
pub broadcast axiom fn ax_div_rr_req(a: &f64, b: &f64) ensures #[trigger] a.div_req(b);
pub broadcast axiom fn ax_div_rr(a: &f64, b: &f64) ensures #[trigger] a.div_spec(b) == fdiv(*a, *b);
pub broadcast axiom fn ax_cmp_v(a: f64, b: f64) ensures #[trigger] a.partial_cmp_spec(&b) == fcmp(a, b);
pub broadcast axiom fn ax_eq_v(a: f64, b: f64) ensures #[trigger] a.eq_spec(&b) == feq(a, b);
pub broadcast axiom fn ax_cmp_r(a: &f64, b: &f64) ensures #[trigger] a.partial_cmp_spec(&b) == fcmp(*a, *b);
pub broadcast axiom fn ax_eq_r(a: &f64, b: &f64) ensures #[trigger] a.eq_spec(&b) == feq(*a, *b);
// IEEE facts about comparison that do not depend on the operands' values (discharged for ALL pairs of
// f64 by the loop-free Kani harness `ieee_cmp_flip`): a < b  <=>  b > a, equality is symmetric, an
// unordered pair is unordered both ways; == agrees with partial_cmp.
pub axiom fn ax_obeys()
    ensures
        forall|a: f64, b: f64| (#[trigger] fcmp(a, b) == Some(core::cmp::Ordering::Less)) == (fcmp(b, a) == Some(core::cmp::Ordering::Greater)),
        forall|a: f64, b: f64| (#[trigger] fcmp(a, b) == Some(core::cmp::Ordering::Equal)) == (fcmp(b, a) == Some(core::cmp::Ordering::Equal)),
        forall|a: f64, b: f64| (#[trigger] fcmp(a, b) is None) == (fcmp(b, a) is None),
        forall|a: f64, b: f64| #[trigger] feq(a, b) == (fcmp(a, b) == Some(core::cmp::Ordering::Equal)),
        // max / min are commutative as far as comparisons can tell (the two results are identical, or +0 / -0,
        // or both NaN): discharged for ALL triples by the loop-free Kani harness `ieee_max_min_commute`
        forall|a: f64, b: f64, c: f64| #[trigger] fcmp(fmaxf(a, b), c) == fcmp(fmaxf(b, a), c),
        forall|a: f64, b: f64, c: f64| #[trigger] fcmp(c, fmaxf(a, b)) == fcmp(c, fmaxf(b, a)),
        forall|a: f64, b: f64, c: f64| #[trigger] fcmp(fminf(a, b), c) == fcmp(fminf(b, a), c),
        forall|a: f64, b: f64, c: f64| #[trigger] fcmp(c, fminf(a, b)) == fcmp(c, fminf(b, a)),
        <f64 as AddSpec<f64>>::obeys_add_spec(),
        <f64 as AddSpec<&f64>>::obeys_add_spec(),
        <&f64 as AddSpec<f64>>::obeys_add_spec(),
        <&f64 as AddSpec<&f64>>::obeys_add_spec(),
        <f64 as SubSpec<f64>>::obeys_sub_spec(),
        <f64 as SubSpec<&f64>>::obeys_sub_spec(),
        <&f64 as SubSpec<f64>>::obeys_sub_spec(),
        <&f64 as SubSpec<&f64>>::obeys_sub_spec(),
        <f64 as MulSpec<f64>>::obeys_mul_spec(),
        <f64 as MulSpec<&f64>>::obeys_mul_spec(),
        <&f64 as MulSpec<f64>>::obeys_mul_spec(),
        <&f64 as MulSpec<&f64>>::obeys_mul_spec(),
        <f64 as DivSpec<f64>>::obeys_div_spec(),
        <f64 as DivSpec<&f64>>::obeys_div_spec(),
        <&f64 as DivSpec<f64>>::obeys_div_spec(),
        <&f64 as DivSpec<&f64>>::obeys_div_spec(),
        <f64 as PartialOrdSpec<f64>>::obeys_partial_cmp_spec(),
        <f64 as PartialEqSpec<f64>>::obeys_eq_spec(),
        <&f64 as PartialOrdSpec<&f64>>::obeys_partial_cmp_spec(),
        <&f64 as PartialEqSpec<&f64>>::obeys_eq_spec(),
;
pub broadcast group fl {
    ax_add_vv_req, ax_add_vv, ax_add_vr_req, ax_add_vr, ax_add_rv_req, ax_add_rv, ax_add_rr_req, ax_add_rr, ax_sub_vv_req, ax_sub_vv, ax_sub_vr_req, ax_sub_vr, ax_sub_rv_req, ax_sub_rv, ax_sub_rr_req, ax_sub_rr, ax_mul_vv_req, ax_mul_vv, ax_mul_vr_req, ax_mul_vr, ax_mul_rv_req, ax_mul_rv, ax_mul_rr_req, ax_mul_rr, ax_div_vv_req, ax_div_vv, ax_div_vr_req, ax_div_vr, ax_div_rv_req, ax_div_rv, ax_div_rr_req, ax_div_rr, ax_cmp_v, ax_eq_v, ax_cmp_r, ax_eq_r
}

// R8: unary minus (this Verus rejects float negation); the wrapper IS the operator.
// (core implements Neg for f64 and for &f64: the wrapper takes either)
pub trait __NegArg: Sized { spec fn negv(self) -> f64; }
impl __NegArg for f64 { open spec fn negv(self) -> f64 { self } }
impl<'a> __NegArg for &'a f64 { open spec fn negv(self) -> f64 { *self } }
#[verifier::external_body]
pub fn __neg<T: __NegArg>(x: T) -> (r: f64)
    ensures r == fneg(x.negv()),
{ unimplemented!() }


// f64 methods used by the extracted code: linked to uninterpreted functions (their IEEE facts, where
// a proof needs one, are separate axioms discharged by loop-free Kani harnesses).
pub uninterp spec fn fmaxf(a: f64, b: f64) -> f64;
pub uninterp spec fn fminf(a: f64, b: f64) -> f64;
pub uninterp spec fn fabsf(a: f64) -> f64;
pub uninterp spec fn fisnan(a: f64) -> bool;
pub uninterp spec fn fisfinite(a: f64) -> bool;
pub uninterp spec fn fisinfinite(a: f64) -> bool;
// IEEE classification facts (discharged for ALL f64 / all pairs by the loop-free Kani harness
// `ieee_classification`): finite <=> neither NaN nor infinite; NaN and infinite exclude each other;
// a pair is unordered exactly when one side is NaN; 0.0 is finite.
pub axiom fn ax_ieee_class()
    ensures
        forall|a: f64| #[trigger] fisfinite(a) == (!fisnan(a) && !fisinfinite(a)),
        forall|a: f64| #[trigger] fisnan(a) ==> !fisinfinite(a),
        forall|a: f64, b: f64| (#[trigger] fcmp(a, b) is None) == (fisnan(a) || fisnan(b)),
        fisfinite(0.0f64),
        // (core::cmp::Ordering has exactly three variants: the Rust enum, opaque to this Verus)
        forall|a: f64, b: f64| #[trigger] fcmp(a, b) is None || fcmp(a, b) == Some(core::cmp::Ordering::Less)
            || fcmp(a, b) == Some(core::cmp::Ordering::Equal) || fcmp(a, b) == Some(core::cmp::Ordering::Greater);
pub uninterp spec fn fpowf(a: f64, b: f64) -> f64;
pub uninterp spec fn ftotalcmp(a: f64, b: f64) -> core::cmp::Ordering;
pub assume_specification [f64::max] (a: f64, b: f64) -> (r: f64) ensures r == fmaxf(a, b);
pub assume_specification [f64::min] (a: f64, b: f64) -> (r: f64) ensures r == fminf(a, b);
pub assume_specification [f64::abs] (a: f64) -> (r: f64) ensures r == fabsf(a);
pub assume_specification [f64::is_nan] (a: f64) -> (r: bool) ensures r == fisnan(a);
pub assume_specification [f64::is_finite] (a: f64) -> (r: bool) ensures r == fisfinite(a);
pub assume_specification [f64::is_infinite] (a: f64) -> (r: bool) ensures r == fisinfinite(a);
// further classification / sign predicates: deterministic functions about which nothing else is known
// (code that switches to one of them no longer verifies against a contract stated with `>`, `is_finite`, ...)
pub uninterp spec fn fisnormal(a: f64) -> bool;
pub uninterp spec fn fissubnormal(a: f64) -> bool;
pub uninterp spec fn fissignpos(a: f64) -> bool;
pub uninterp spec fn fissignneg(a: f64) -> bool;
pub assume_specification [f64::is_normal] (a: f64) -> (r: bool) ensures r == fisnormal(a);
pub assume_specification [f64::is_subnormal] (a: f64) -> (r: bool) ensures r == fissubnormal(a);
pub assume_specification [f64::is_sign_positive] (a: f64) -> (r: bool) ensures r == fissignpos(a);
pub assume_specification [f64::is_sign_negative] (a: f64) -> (r: bool) ensures r == fissignneg(a);
pub assume_specification [f64::powf] (a: f64, b: f64) -> (r: f64) ensures r == fpowf(a, b);
pub assume_specification [f64::total_cmp] (a: &f64, b: &f64) -> (r: core::cmp::Ordering) ensures r == ftotalcmp(*a, *b);

// R9: associated constants this Verus rejects; the wrappers' bodies ARE the constants.
pub uninterp spec fn finf() -> f64;
pub uninterp spec fn fneginf() -> f64;
#[verifier::external_body]
pub fn __inf() -> (r: f64) ensures r == finf() { f64::INFINITY }
#[verifier::external_body]
pub fn __neg_inf() -> (r: f64) ensures r == fneginf() { f64::NEG_INFINITY }
pub assume_specification [core::cmp::Ordering::is_lt] (o: core::cmp::Ordering) -> (r: bool) ensures r == (o == core::cmp::Ordering::Less);
pub assume_specification [core::cmp::Ordering::is_le] (o: core::cmp::Ordering) -> (r: bool) ensures r == (o != core::cmp::Ordering::Greater);
pub assume_specification [core::cmp::Ordering::is_gt] (o: core::cmp::Ordering) -> (r: bool) ensures r == (o == core::cmp::Ordering::Greater);
pub assume_specification [core::cmp::Ordering::is_ge] (o: core::cmp::Ordering) -> (r: bool) ensures r == (o != core::cmp::Ordering::Less);
pub uninterp spec fn fconst_EPSILON() -> f64;
#[verifier::external_body]
pub fn __f64_EPSILON() -> (r: f64) ensures r == fconst_EPSILON() { f64::EPSILON }
pub uninterp spec fn fconst_MAX() -> f64;
#[verifier::external_body]
pub fn __f64_MAX() -> (r: f64) ensures r == fconst_MAX() { f64::MAX }
pub uninterp spec fn fconst_MIN() -> f64;
#[verifier::external_body]
pub fn __f64_MIN() -> (r: f64) ensures r == fconst_MIN() { f64::MIN }
pub uninterp spec fn fconst_MIN_POSITIVE() -> f64;
#[verifier::external_body]
pub fn __f64_MIN_POSITIVE() -> (r: f64) ensures r == fconst_MIN_POSITIVE() { f64::MIN_POSITIVE }
pub uninterp spec fn fconst_NAN() -> f64;
#[verifier::external_body]
pub fn __f64_NAN() -> (r: f64) ensures r == fconst_NAN() { f64::NAN }

// R12: integer-to-float casts (`X as f64`), which this Verus rejects; the wrapper IS the cast.
pub uninterp spec fn u64_to_f64(n: u64) -> f64;
pub uninterp spec fn usize_to_f64(n: usize) -> f64;
pub trait ToF64: Sized {
    spec fn to_f64_spec(self) -> f64;
    fn __to_f64(self) -> (r: f64) ensures r == self.to_f64_spec();
}
impl ToF64 for u64 {
    open spec fn to_f64_spec(self) -> f64 { u64_to_f64(self) }
    #[verifier::external_body]
    fn __to_f64(self) -> (r: f64) { self as f64 }
}
impl ToF64 for usize {
    open spec fn to_f64_spec(self) -> f64 { usize_to_f64(self) }
    #[verifier::external_body]
    fn __to_f64(self) -> (r: f64) { self as f64 }
}
pub fn __as_f64<T: ToF64>(x: T) -> (r: f64) ensures r == x.to_f64_spec() { x.__to_f64() }

// R13: identity on f64 (see rule R13 of the extractor)
pub fn __idf(x: f64) -> (r: f64) ensures r == x { x }

// ---- extracted from src/lib.rs: enum PlayerNum ----
#[derive(Copy, Clone)]
pub enum PlayerNum {
    /// The first player
    One,
    /// The second player
    Two,
}

// ---- extracted from src/lib.rs: enum Node ----
pub enum Node {
    /// A terminal node, the game is over the payoff to player one
    Terminal(f64),
    /// A chance node, the game advances independent of player action
    Chance(Chance),
    /// a node in the tree where the player can choose between different actions
    Player(Player),
}

// ---- extracted from src/lib.rs: struct Chance ----
pub struct Chance {
    pub outcomes: Box<[Node]>,
    pub infoset: usize,
}

// ---- extracted from src/lib.rs: struct Player ----
pub struct Player {
    pub num: PlayerNum,
    pub infoset: usize,
    pub actions: Box<[Node]>,
}

// ---- extracted from src/error.rs: enum GameError ----
#[derive(Clone, Copy)]
pub enum GameError {
    /// Returned when a chance node has no outcomes
    EmptyChance,
    /// Returned when a chance node has an outcome with a non-positive probability of happening
    NonPositiveChance,
    /// Returned when a chance node has different probabilities than another node in its infoset
    ProbabilitiesNotEqual,
    /// Returned when a game's infosets don't exhibit perfect recall
    ///
    /// If a game does have perfect recall, then a player's infosets must form a tree, that is for
    /// all game nodes with a given infoset, the infoset of the player's previous action must be
    /// identical. We ignore this criterion for single action infosets since they don't actually
    /// reflect a decision.
    ImperfectRecall,
    /// Returned when a player node has no actions
    EmptyPlayer,
    /// Returned when the actions of a player node didn't match the order and values of an earlier
    /// information set.
    ///
    /// Make sure that all nodes with the same player and information set also have the same
    /// actions in the same order.
    ActionsNotEqual,
    /// Returned when the actions of a player node weren't unique.
    ///
    /// Make sure that all actions of a player node are unique.
    ActionsNotUnique,
    /// Returned when a terminal node has a payoff that is nan or infinite
    NonFinitePayoff,
}

// ---- extracted from src/lib.rs: struct PlayerInfosetBuilder ----
pub struct PlayerInfosetBuilder<A> {
    pub actions: Box<[A]>,
    pub prev_infoset: Option<usize>,
}

// ---- extracted from src/lib.rs: struct ChanceInfosetData ----
pub struct ChanceInfosetData {
    pub probs: Box<[f64]>,
}

// PlayerNum::ind / ind_mut use slice patterns in a `match` (rejected by this Verus); they are kept
// external with the two-case spec, and that spec is discharged against the real bodies by the
// loop-free Kani harness `playernum_ind` (so it is cited, not assumed).
impl PlayerNum {
    #[verifier::external_body]
    pub fn ind<'a, T>(&self, arr: &'a [T; 2]) -> (r: &'a T)
        ensures *r == (match *self { PlayerNum::One => arr[0], PlayerNum::Two => arr[1] })
    { unimplemented!() }

    #[verifier::external_body]
    pub fn ind_mut<'a, T>(&self, arr: &'a mut [T; 2]) -> (r: &'a mut T)
        ensures
            *r == (match *self { PlayerNum::One => old(arr)[0], PlayerNum::Two => old(arr)[1] }),
            match *self {
                PlayerNum::One => final(arr)[0] == *final(r) && final(arr)[1] == old(arr)[1],
                PlayerNum::Two => final(arr)[1] == *final(r) && final(arr)[0] == old(arr)[0],
            },
    { unimplemented!() }
}

// the caller's tree type and the three construction tables are opaque; the recursive call is bound (R5)
// to an uninterpreted function of the subtree it is given
#[verifier::external_body] pub struct CT { }
#[verifier::external_body] pub struct PT { }
#[verifier::external_body] pub struct ST { }
pub uninterp spec fn rec_spec<T>(next: T, prev: [Option<usize>; 2]) -> Result<Node, GameError>;
#[verifier::external_body]
pub fn __rec<T>(chance_infosets: &mut CT, player_infosets: &mut PT, single_infosets: &mut ST, next: T, prev_infosets: [Option<usize>; 2]) -> (r: Result<Node, GameError>)
    ensures r == rec_spec(next, prev_infosets),
{ unimplemented!() }
// (same, for the arm that holds the single-action table concretely; the recursion's own effect on the
// tables is not part of this arm's obligation)
#[verifier::external_body]
pub fn __rec_s<I, A, T>(chance_infosets: &mut CT, player_infosets: &mut PT, single_infosets: &mut [&mut HashMap<I, A>; 2], next: T, prev_infosets: [Option<usize>; 2]) -> (r: Result<Node, GameError>)
    ensures r == rec_spec(next, prev_infosets), final(single_infosets)[0]@ == old(single_infosets)[0]@, final(single_infosets)[1]@ == old(single_infosets)[1]@,
{ unimplemented!() }
// compact::OccupiedEntry as far as init_recurse uses it: the index and the value stored under the key
#[verifier::external_body]
#[verifier::reject_recursive_types(V)]
pub struct OccupiedEntry<'a, V> { _p: core::marker::PhantomData<&'a V> }
impl<'a, V> OccupiedEntry<'a, V> {
    pub uninterp spec fn ind(&self) -> usize;
    pub uninterp spec fn val(&self) -> V;
    #[verifier::external_body]
    pub fn get(self) -> (r: (usize, &'a V))
        ensures r.0 == self.ind(), *r.1 == self.val(),
    { unimplemented!() }
}
// compact::VacantEntry: inserting yields the next index; what may be inserted under this key is stated
// by the block's precondition (so that the value built for the new infoset is checked)
#[verifier::external_body]
#[verifier::reject_recursive_types(V)]
pub struct VacantEntry<'a, V> { _p: core::marker::PhantomData<&'a V> }
impl<'a, V> VacantEntry<'a, V> {
    pub uninterp spec fn ind(&self) -> usize;
    pub uninterp spec fn expected(&self, v: V) -> bool;
    #[verifier::external_body]
    pub fn insert(self, val: V) -> (r: usize)
        requires self.expected(val),
        ensures r == self.ind(),
    { unimplemented!() }
}
impl<A> PlayerInfosetBuilder<A> {
    // (real constructor: `actions.into()` + the field)
    #[verifier::external_body]
    pub fn new(actions: Vec<A>, prev_infoset: Option<usize>) -> (r: Self)
        ensures r.actions@ == actions@, r.prev_infoset == prev_infoset,
    { unimplemented!() }
}
// R6: `let hash_names: HashSet<&A> = actions.iter().collect();` -- the set of the listed actions; its size
// equals the number of listed actions exactly when they are pairwise distinct (std + Hash/Eq coherence)
#[verifier::external_body] pub struct NameSet { }
impl NameSet {
    pub uninterp spec fn size(&self) -> usize;
    #[verifier::external_body]
    pub fn len(&self) -> (r: usize) ensures r == self.size() { unimplemented!() }
}
#[verifier::external_body]
pub fn __abs_name_set<A>(actions: &Vec<A>) -> (r: NameSet)
    ensures (r.size() == actions@.len()) == actions@.no_duplicates(),
{ unimplemented!() }
pub open spec fn prev_of(num: PlayerNum, prev: [Option<usize>; 2]) -> Option<usize> { match num { PlayerNum::One => prev[0], PlayerNum::Two => prev[1] } }
// R6 (multi-action decision node): interning of the infoset (the entry match, under contract in its
// two arms above) and construction of the children (a map/collect chain over the recursive call)
pub uninterp spec fn intern_spec<I>(num: PlayerNum, infoset: I) -> Result<usize, GameError>;
#[verifier::external_body]
pub fn __abs_intern_player<I>(player_infosets: &mut PT, num: PlayerNum, infoset: I) -> (r: Result<usize, GameError>)
    ensures r == intern_spec(num, infoset),
{ unimplemented!() }
pub uninterp spec fn children_spec<T>(nexts: Seq<T>, prev_one: Option<usize>, prev_two: Option<usize>) -> Result<Box<[Node]>, GameError>;
#[verifier::external_body]
pub fn __abs_build_children<T>(chance_infosets: &mut CT, player_infosets: &mut PT, single_infosets: &mut ST, nexts: Vec<T>, prev_infosets: [Option<usize>; 2]) -> (r: Result<Box<[Node]>, GameError>)
    ensures r == children_spec(nexts@, prev_infosets[0], prev_infosets[1]),
{ unimplemented!() }
pub open spec fn with_prev(prev: [Option<usize>; 2], num: PlayerNum, ind: usize) -> (Option<usize>, Option<usize>) {
    match num { PlayerNum::One => (Some(ind), prev[1]), PlayerNum::Two => (prev[0], Some(ind)) }
}
// R6: the arms that intern an infoset / handle a single-action node (under contract above, or not
// covered: see the unit's assumptions) as uninterpreted functions of what they are given
pub uninterp spec fn chance_node_spec<CI>(info: Option<CI>, probs: Seq<f64>, outcomes: Seq<Node>) -> Result<Node, GameError>;
#[verifier::external_body]
pub fn __abs_chance_node<CI>(chance_infosets: &mut CT, info: Option<CI>, probs: Vec<f64>, outcomes: Vec<Node>) -> (r: Result<Node, GameError>)
    ensures r == chance_node_spec(info, probs@, outcomes@),
{ unimplemented!() }
pub uninterp spec fn single_action_spec<I, A, T>(num: PlayerNum, infoset: I, actions: Seq<A>, nexts: Seq<T>, prev: [Option<usize>; 2]) -> Result<Node, GameError>;
pub uninterp spec fn decision_spec<I, A, T>(num: PlayerNum, infoset: I, actions: Seq<A>, nexts: Seq<T>, prev: [Option<usize>; 2]) -> Result<Node, GameError>;
#[verifier::external_body]
pub fn __abs_single_action<I, A, T>(chance_infosets: &mut CT, player_infosets: &mut PT, single_infosets: &mut ST, num: PlayerNum, infoset: I, actions: Vec<A>, nexts: Vec<T>, prev: [Option<usize>; 2]) -> (r: Result<Node, GameError>)
    ensures r == single_action_spec(num, infoset, actions@, nexts@, prev),
{ unimplemented!() }
#[verifier::external_body]
pub fn __abs_decision<I, A, T>(chance_infosets: &mut CT, player_infosets: &mut PT, single_infosets: &mut ST, num: PlayerNum, infoset: I, actions: Vec<A>, nexts: Vec<T>, prev: [Option<usize>; 2]) -> (r: Result<Node, GameError>)
    ensures r == decision_spec(num, infoset, actions@, nexts@, prev),
{ unimplemented!() }
// std::collections::HashMap entry API as far as the single-action arm uses it (assumed contracts): the
// map is seen through a ghost view; `entry(k)` is Occupied exactly when k is present, a Vacant entry
// that is `insert`ed adds the binding (what happens to the map is a prophecy of the entry's use:
// standard for entry APIs), an Occupied entry read with `get` changes nothing
#[verifier::external_body]
#[verifier::reject_recursive_types(K)]
#[verifier::reject_recursive_types(V)]
pub struct HashMap<K, V> { _p: core::marker::PhantomData<(K, V)> }
pub mod hash_map {
    use super::*;
    #[verifier::external_body]
    #[verifier::reject_recursive_types(K)]
    #[verifier::reject_recursive_types(V)]
    pub struct OccupiedEntry<'a, K, V> { _p: core::marker::PhantomData<&'a (K, V)> }
    #[verifier::external_body]
    #[verifier::reject_recursive_types(K)]
    #[verifier::reject_recursive_types(V)]
    pub struct VacantEntry<'a, K, V> { _p: core::marker::PhantomData<&'a (K, V)> }
    #[verifier::reject_recursive_types(K)]
    #[verifier::reject_recursive_types(V)]
    pub enum Entry<'a, K, V> { Occupied(OccupiedEntry<'a, K, V>), Vacant(VacantEntry<'a, K, V>) }
    impl<'a, K, V> OccupiedEntry<'a, K, V> {
        pub uninterp spec fn stored(&self) -> V;
        #[verifier::external_body]
        pub fn get(&self) -> (r: &V) ensures *r == self.stored() { unimplemented!() }
    }
    impl<'a, K, V> VacantEntry<'a, K, V> {
        #[verifier::prophetic]
        pub uninterp spec fn inserted(&self) -> Option<V>;
        #[verifier::external_body]
        pub fn insert(self, v: V) -> (r: &'a mut V) ensures self.inserted() == Some(v) { unimplemented!() }
    }
}
impl<K, V> HashMap<K, V> {
    pub uninterp spec fn view(&self) -> Map<K, V>;
    #[verifier::external_body]
    pub fn entry(&mut self, k: K) -> (r: hash_map::Entry<'_, K, V>)
        ensures match r {
            hash_map::Entry::Occupied(e) => old(self)@.contains_key(k) && e.stored() == old(self)@[k] && final(self)@ == old(self)@,
            hash_map::Entry::Vacant(e) => !old(self)@.contains_key(k) && final(self)@ == (match e.inserted() { Some(v) => old(self)@.insert(k, v), None => old(self)@ }),
        },
    { unimplemented!() }
}
// `&A != &A` on the user's action type: the negation of its ==, taken to be equality of the abstract values
pub axiom fn ax_action_ne<A: PartialEq>()
    ensures <&A as PartialEqSpec<&A>>::obeys_eq_spec(),
        forall|a: &A, b: &A| #[trigger] <&A as PartialEqSpec<&A>>::eq_spec(&a, &b) == (*a == *b);
// `*info.actions != *actions` / `*data.probs != *probs`: slice comparison, element by element with the
// element type's == (assumed to be equality of the abstract values: Eq coherence of user types; for
// f64 the IEEE ==, under which a stored NaN never compares equal)
#[verifier::external_body]
pub fn __slice_ne<A>(a: &[A], b: &[A]) -> (r: bool)
    ensures r == (a@ != b@),
{ unimplemented!() }
// an outcome weight the documented contract allows: positive (so not NaN) and finite
pub open spec fn legal_weight(p: f64) -> bool { fgt(p, 0.0f64) && fisfinite(p) }

// ---- extracted from src/lib.rs: impl Game / fn init_recurse ----
pub fn init_recurse__terminal(payoff: f64) -> (out: Result<Node, GameError>)
    ensures
        // a leaf is accepted exactly when its payoff is a finite number
        fisfinite(payoff) ==> out == Ok::<Node, GameError>(Node::Terminal(payoff)), // @ob C11.V.init_recurse.terminal_finite
        !fisfinite(payoff) ==> out is Err, // @ob C11.V.init_recurse.terminal_finite
{
broadcast use fl;
proof { ax_obeys(); ax_ieee_class(); }

                if payoff.is_finite() {
                    Ok(Node::Terminal(payoff))
                } else {
                    Err(GameError::NonFinitePayoff)
                }
            }

// ---- extracted from src/lib.rs: impl Game / fn init_recurse ----
pub fn init_recurse__chance_outcome<T>(prob: f64, next: T, probs: &mut Vec<f64>, outcomes: &mut Vec<Node>, chance_infosets: &mut CT, player_infosets: &mut PT, single_infosets: &mut ST, prev_infosets: [Option<usize>; 2]) -> (out: Result<(), GameError>)
    ensures
        // an outcome whose weight is not a positive finite number is rejected (and its subtree not built)
        !legal_weight(prob) ==> out is Err && out->Err_0 == GameError::NonPositiveChance
            && final(probs)@ == old(probs)@ && final(outcomes)@ == old(outcomes)@, // @ob C11.V.init_recurse.chance_weight
        // otherwise the weight is recorded with the subtree built for this outcome (same order), and an
        // error inside the subtree is passed on
        legal_weight(prob) ==> match rec_spec(next, prev_infosets) {
            Ok(n) => out is Ok && final(probs)@ == old(probs)@.push(prob) && final(outcomes)@ == old(outcomes)@.push(n),
            Err(e) => out is Err && out->Err_0 == e,
        }, // @ob C11.V.init_recurse.chance_outcome_kept
{
broadcast use fl;
proof { ax_obeys(); ax_ieee_class(); }

                    if prob > 0.0 && prob.is_finite() {
                        probs.push(prob);
                        outcomes.push(__rec(
                            chance_infosets,
                            player_infosets,
                            single_infosets,
                            next,
                            prev_infosets,
                        )?);
                    } else {
                        return Err(GameError::NonPositiveChance);
                    };
                
Ok(())
}

// ---- extracted from src/lib.rs: impl Game / fn init_recurse ----
pub fn init_recurse__player_infoset_seen_before<'a, A>(ent: OccupiedEntry<'a, PlayerInfosetBuilder<A>>, actions: Vec<A>, player_num: PlayerNum, prev_infosets: [Option<usize>; 2]) -> (out: Result<usize, GameError>)
    ensures
        // a decision node of an infoset seen before must list the same actions in the same order, and the
        // player must have come through the same previous infoset (perfect recall); only then does the node
        // join that infoset
        ent.val().actions@ != actions@ ==> out is Err && out->Err_0 == GameError::ActionsNotEqual, // @ob C11.V.init_recurse.same_actions
        ent.val().actions@ == actions@ && ent.val().prev_infoset != (match player_num { PlayerNum::One => prev_infosets[0], PlayerNum::Two => prev_infosets[1] })
            ==> out is Err && out->Err_0 == GameError::ImperfectRecall, // @ob C11.V.init_recurse.perfect_recall
        ent.val().actions@ == actions@ && ent.val().prev_infoset == (match player_num { PlayerNum::One => prev_infosets[0], PlayerNum::Two => prev_infosets[1] })
            ==> out == Ok::<usize, GameError>(ent.ind()), // @ob C11.V.init_recurse.joins_infoset
{
                                let (ind, info) = ent.get();
                                if __slice_ne(&info.actions, &actions) {
                                    Err(GameError::ActionsNotEqual)
                                } else if &info.prev_infoset != player_num.ind(&prev_infosets) {
                                    Err(GameError::ImperfectRecall)
                                } else {
                                    Ok(ind)
                                }
                            }

// ---- extracted from src/lib.rs: impl Game / fn init_recurse ----
pub fn init_recurse__chance_infoset_seen_before<'a>(ent: OccupiedEntry<'a, ChanceInfosetData>, probs: Vec<f64>) -> (out: Result<usize, GameError>)
    ensures
        // a chance node of an infoset seen before must have the same (normalised) outcome probabilities in
        // the same order
        ent.val().probs@ != probs@ ==> out is Err && out->Err_0 == GameError::ProbabilitiesNotEqual, // @ob C11.V.init_recurse.same_probabilities
        ent.val().probs@ == probs@ ==> out == Ok::<usize, GameError>(ent.ind()), // @ob C11.V.init_recurse.joins_chance_infoset
{
                                let (ind, data) = ent.get();
                                Ok(if __slice_ne(&data.probs, &probs) {
                                    Err(GameError::ProbabilitiesNotEqual)
                                } else {
                                    Ok(ind)
                                }?)
                            }

// ---- extracted from src/lib.rs: impl Game / fn init_recurse ----
pub fn init_recurse__player_infoset_new<'a, A>(ent: VacantEntry<'a, PlayerInfosetBuilder<A>>, actions: Vec<A>, player_num: PlayerNum, prev_infosets: [Option<usize>; 2]) -> (out: Result<usize, GameError>)
    requires
        forall|v: PlayerInfosetBuilder<A>| ent.expected(v) == (v.actions@ == actions@ && v.prev_infoset == prev_of(player_num, prev_infosets)),
    ensures
        // a new infoset must list pairwise distinct actions; it is then recorded with exactly these actions
        // and THIS player's previous infoset (the insert precondition), under the next index
        !actions@.no_duplicates() ==> out is Err && out->Err_0 == GameError::ActionsNotUnique, // @ob C11.V.init_recurse.distinct_actions
        actions@.no_duplicates() ==> out == Ok::<usize, GameError>(ent.ind()), // @ob C11.V.init_recurse.records_infoset
{
                                let hash_names = __abs_name_set(&actions);
                                if hash_names.len() == actions.len() {
                                    Ok(ent.insert(PlayerInfosetBuilder::new(
                                        actions,
                                        *player_num.ind(&prev_infosets),
                                    )))
                                } else {
                                    Err(GameError::ActionsNotUnique)
                                }
                            }

// ---- extracted from src/lib.rs: impl Game / fn init_recurse ----
pub fn init_recurse__decision_node<I, T>(player_num: PlayerNum, infoset: I, nexts: Vec<T>, mut prev_infosets: [Option<usize>; 2], chance_infosets: &mut CT, player_infosets: &mut PT, single_infosets: &mut ST) -> (out: Result<Node, GameError>)
    ensures
        // perfect-recall bookkeeping: the subtrees below a multi-action decision node are built knowing
        // that THIS player last passed through THIS infoset (the other player's memory unchanged), and the
        // node carries the player, the interned infoset index and the children in order
        match intern_spec(player_num, infoset) {
            Err(e) => out is Err && out->Err_0 == e,
            Ok(ind) => match children_spec(nexts@, with_prev(prev_infosets, player_num, ind).0, with_prev(prev_infosets, player_num, ind).1) {
                Err(e) => out is Err && out->Err_0 == e,
                Ok(kids) => out is Ok && out->Ok_0 == Node::Player(Player { num: player_num, infoset: ind, actions: kids }),
            },
        }, // @ob C11.V.init_recurse.recall_bookkeeping
{
                        let info_ind = __abs_intern_player(player_infosets, player_num, infoset)?;
                        *player_num.ind_mut(&mut prev_infosets) = Some(info_ind);
                        let next_verts = __abs_build_children(chance_infosets, player_infosets, single_infosets, nexts, prev_infosets);
                        Ok(Node::Player(Player {
                            num: player_num,
                            infoset: info_ind,
                            actions: next_verts?,
                        }))
                    }

// ---- extracted from src/lib.rs: impl Game / fn init_recurse ----
pub fn init_recurse__chance_dispatch<CI>(mut outcomes: Vec<Node>, probs: Vec<f64>, info: Option<CI>, chance_infosets: &mut CT) -> (out: Result<Node, GameError>)
    ensures
        // every chance node has at least one outcome; a chance node with ONE outcome is no chance node (its
        // subtree takes its place); otherwise the node is interned
        outcomes@.len() == 0 ==> out is Err && out->Err_0 == GameError::EmptyChance, // @ob C11.V.init_recurse.empty_chance
        outcomes@.len() == 1 ==> out == Ok::<Node, GameError>(outcomes@[0]), // @ob C11.V.init_recurse.single_outcome_elided
        outcomes@.len() >= 2 ==> out == chance_node_spec(info, probs@, outcomes@), // @ob C11.V.init_recurse.chance_dispatch
{
match outcomes.len() {
                    0 => Err(GameError::EmptyChance),
                    1 => Ok(outcomes.pop().unwrap()),
                    _ => __abs_chance_node(chance_infosets, info, probs, outcomes),
                }
}

// ---- extracted from src/lib.rs: impl Game / fn init_recurse ----
pub fn init_recurse__player_dispatch<I, A, T>(actions: Vec<A>, nexts: Vec<T>, player_num: PlayerNum, infoset: I, prev_infosets: [Option<usize>; 2], chance_infosets: &mut CT, player_infosets: &mut PT, single_infosets: &mut ST) -> (out: Result<Node, GameError>)
    ensures
        // every decision node has at least one action; single-action nodes take the exempt route
        actions@.len() == 0 ==> out is Err && out->Err_0 == GameError::EmptyPlayer, // @ob C11.V.init_recurse.empty_player
        actions@.len() == 1 ==> out == single_action_spec(player_num, infoset, actions@, nexts@, prev_infosets), // @ob C11.V.init_recurse.player_dispatch
        actions@.len() >= 2 ==> out == decision_spec(player_num, infoset, actions@, nexts@, prev_infosets), // @ob C11.V.init_recurse.player_dispatch
{
match actions.len() {
                    0 => Err(GameError::EmptyPlayer),
                    1 => __abs_single_action(chance_infosets, player_infosets, single_infosets, player_num, infoset, actions, nexts, prev_infosets),
                    _ => __abs_decision(chance_infosets, player_infosets, single_infosets, player_num, infoset, actions, nexts, prev_infosets),
                }
}

// ---- extracted from src/lib.rs: impl Game / fn init_recurse ----
pub fn init_recurse__single_action_node<I, A: PartialEq, T>(mut actions: Vec<A>, mut nexts: Vec<T>, player_num: PlayerNum, infoset: I, prev_infosets: [Option<usize>; 2], chance_infosets: &mut CT, player_infosets: &mut PT, single_infosets: &mut [&mut HashMap<I, A>; 2]) -> (out: Result<Node, GameError>)
    requires
        actions@.len() == 1, nexts@.len() == 1,
    ensures
        // a single-action node is no decision: its only action is remembered per infoset (it must be the same
        // action wherever the infoset occurs) and construction continues below it with the players'
        // memories UNCHANGED (single-action nodes are exempt from perfect recall)
        ({ let m0 = (match player_num { PlayerNum::One => old(single_infosets)[0]@, PlayerNum::Two => old(single_infosets)[1]@ });
           m0.contains_key(infoset) && m0[infoset] != actions@[0] ==> out is Err && out->Err_0 == GameError::ActionsNotEqual }), // @ob C11.V.init_recurse.single_action_same
        ({ let m0 = (match player_num { PlayerNum::One => old(single_infosets)[0]@, PlayerNum::Two => old(single_infosets)[1]@ });
           let m1 = (match player_num { PlayerNum::One => final(single_infosets)[0]@, PlayerNum::Two => final(single_infosets)[1]@ });
           !(m0.contains_key(infoset) && m0[infoset] != actions@[0]) ==> out == rec_spec(nexts@[0], prev_infosets)
               && m1 == (if m0.contains_key(infoset) { m0 } else { m0.insert(infoset, actions@[0]) }) }), // @ob C11.V.init_recurse.single_action_recorded_once
{
proof { ax_action_ne::<A>(); }
let ghost a0 = actions@[0];
let ghost n0 = nexts@[0];
let ghost m0 = (match player_num { PlayerNum::One => single_infosets[0]@, PlayerNum::Two => single_infosets[1]@ });

                        let action = actions.pop().unwrap();
                        match player_num.ind_mut(single_infosets).entry(infoset) {
                            hash_map::Entry::Occupied(ent) => {
                                if ent.get() != &action {
                                    return Err(GameError::ActionsNotEqual);
                                }
                            }
                            hash_map::Entry::Vacant(ent) => {
                                ent.insert(action);
                            }
                        };
                        let next = nexts.pop().unwrap();
                        __rec_s(chance_infosets, player_infosets, single_infosets,
                            next,
                            prev_infosets,
                        )
                    }

// ---- extracted from src/lib.rs: impl Game / fn init_recurse ----
pub fn init_recurse__collect_action<A, T>(action: A, next: T, actions: &mut Vec<A>, nexts: &mut Vec<T>)
    ensures
        // a decision node's action names and its subtrees are collected pairwise, in the order given (the
        // infoset's action list and the node's child list have the same length and order)
        final(actions)@ == old(actions)@.push(action) && final(nexts)@ == old(nexts)@.push(next), // @ob C11.V.init_recurse.actions_and_children_paired
{
                    actions.push(action);
                    nexts.push(next);
                }


// vacuity canary: must be REJECTED by the verifier (an inconsistent axiom set would accept it)
pub proof fn __canary_must_fail()
    ensures false, // @ob __canary
{
    broadcast use fl; ax_obeys(); ax_ieee_class();
}

} // verus!
fn main() {}
