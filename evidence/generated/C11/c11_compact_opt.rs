#![feature(sized_hierarchy)]
#![feature(allocator_api)]
#![allow(unused_imports, unused_variables, dead_code, unused_mut, unused_parens, unused_braces, non_snake_case)]
use vstd::prelude::*;
use vstd::std_specs::ops::*;
use vstd::std_specs::cmp::*;
use vstd::float::*;
use vstd::std_specs::iter::IteratorSpec;
verus! {
// indexmap::IndexMap as far as compact.rs uses it (assumed contracts restating its documentation): an
// insertion-ordered map seen as a sequence of (key, value) pairs with distinct keys; `entry(k)` is
// Occupied exactly when k is present; inserting through a Vacant entry appends the pair (what happens to
// the map is a prophecy of the entry's use)
#[verifier::external_body]
#[verifier::reject_recursive_types(K)]
#[verifier::reject_recursive_types(V)]
pub struct IndexMap<K, V> { _p: core::marker::PhantomData<(K, V)> }
pub open spec fn key_at<K, V>(s: Seq<(K, V)>, k: K) -> int { choose|i: int| 0 <= i < s.len() && s[i].0 == k }
pub open spec fn has_key<K, V>(s: Seq<(K, V)>, k: K) -> bool { exists|i: int| 0 <= i < s.len() && #[trigger] s[i].0 == k }
pub mod map {
    use super::*;
    #[verifier::external_body]
    #[verifier::reject_recursive_types(K)]
    #[verifier::reject_recursive_types(V)]
    pub struct VacantEntry<'a, K, V> { _p: core::marker::PhantomData<&'a (K, V)> }
    #[verifier::external_body]
    #[verifier::reject_recursive_types(K)]
    #[verifier::reject_recursive_types(V)]
    pub struct OccupiedEntry<'a, K, V> { _p: core::marker::PhantomData<&'a (K, V)> }
    #[verifier::reject_recursive_types(K)]
    #[verifier::reject_recursive_types(V)]
    pub enum Entry<'a, K, V> { Vacant(VacantEntry<'a, K, V>), Occupied(OccupiedEntry<'a, K, V>) }
    impl<'a, K, V> VacantEntry<'a, K, V> {
        #[verifier::prophetic]
        pub uninterp spec fn inserted(&self) -> Option<V>;
        #[verifier::external_body]
        pub fn insert(self, v: V) -> (r: &'a mut V) ensures self.inserted() == Some(v) { unimplemented!() }
    }
    impl<'a, K, V> OccupiedEntry<'a, K, V> {
        pub uninterp spec fn stored(&self) -> V;
        #[verifier::external_body]
        pub fn into_mut(self) -> (r: &'a mut V) ensures *r == self.stored() { unimplemented!() }
    }
}
impl<K, V> IndexMap<K, V> {
    pub uninterp spec fn view(&self) -> Seq<(K, V)>;
    #[verifier::external_body]
    pub fn new() -> (r: Self) ensures r@.len() == 0 { unimplemented!() }
    #[verifier::external_body]
    pub fn len(&self) -> (r: usize) ensures r == self@.len() { unimplemented!() }
    #[verifier::external_body]
    pub fn entry(&mut self, k: K) -> (r: map::Entry<'_, K, V>)
        ensures match r {
            map::Entry::Occupied(e) => has_key(old(self)@, k) && e.stored() == old(self)@[key_at(old(self)@, k)].1 && final(self)@ == old(self)@,
            map::Entry::Vacant(e) => !has_key(old(self)@, k) && final(self)@ == (match e.inserted() { Some(v) => old(self)@.push((k, v)), None => old(self)@ }),
        },
    { unimplemented!() }
}

// ---- extracted from src/compact.rs: struct OptBuilder ----
#[verifier::reject_recursive_types(K)]
#[verifier::reject_recursive_types(V)]
pub struct OptBuilder<K, V> {
    pub counter: usize,
    pub map: IndexMap<Result<K, usize>, (usize, V)>,
}

// ---- extracted from src/compact.rs: struct VacantEntry ----
#[verifier::reject_recursive_types(K)]
#[verifier::reject_recursive_types(V)]
pub struct VacantEntry<'a, K, V> {
    pub ind: usize,
    pub ent: map::VacantEntry<'a, K, (usize, V)>,
}

// ---- extracted from src/compact.rs: struct OccupiedEntry ----
#[verifier::reject_recursive_types(K)]
#[verifier::reject_recursive_types(V)]
pub struct OccupiedEntry<'a, K, V> {
    pub ent: map::OccupiedEntry<'a, K, (usize, V)>,
}

// ---- extracted from src/compact.rs: enum Entry ----
#[verifier::reject_recursive_types(K)]
#[verifier::reject_recursive_types(V)]
pub enum Entry<'a, K, V> {
    Vacant(VacantEntry<'a, K, V>),
    Occupied(OccupiedEntry<'a, K, V>),
}

pub open spec fn dense<K, V>(s: Seq<(K, (usize, V))>) -> bool { forall|i: int| 0 <= i < s.len() ==> (#[trigger] s[i]).1.0 == i }
// every anonymous key handed out so far is below the counter: the next anonymous key is new
pub open spec fn errs_below<K, V>(s: Seq<(Result<K, usize>, (usize, V))>, counter: usize) -> bool {
    forall|i: int| 0 <= i < s.len() ==> ((#[trigger] s[i]).0 matches Err(c) ==> c < counter)
}
pub open spec fn true_key<K>(key: Option<K>, counter: usize) -> Result<K, usize> { match key { Some(k) => Ok(k), None => Err(counter) } }
// Option::ok_or_else with the closure `|| { let res = self.counter; self.counter += 1; res }` (its
// contract: optbuilder_entry__fresh_key below, proved on its real text)
#[verifier::external_body]
pub fn __ok_or_else_fresh<K, V>(key: Option<K>, b: &mut OptBuilder<K, V>) -> (r: Result<K, usize>)
    requires old(b).counter < usize::MAX,
    ensures r == true_key(key, old(b).counter), final(b).map == old(b).map,
        final(b).counter == (if key is None { (old(b).counter + 1) as usize } else { old(b).counter }),
{ unimplemented!() }

// ---- extracted from src/compact.rs: impl OptBuilder / fn entry ----
pub fn optbuilder_entry__fresh_key<K, V>(self_: &mut OptBuilder<K, V>) -> (out: usize)
    requires
        old(self_).counter < usize::MAX,
    ensures
        // an anonymous chance infoset gets the current counter as its key, and the counter moves on
        out == old(self_).counter && final(self_).counter == old(self_).counter + 1 && final(self_).map == old(self_).map, // @ob C11.V.compact_opt.fresh_key
{
            let res = self_.counter;
            self_.counter += 1;
            res
        }

// ---- extracted from src/compact.rs: impl OptBuilder ----
impl<K, V> OptBuilder<K, V> {
pub fn new() -> (r: Self) 
    ensures dense(r.map@), r.map@.len() == 0, errs_below(r.map@, r.counter), // @ob C11.V.compact_opt.new
{
        OptBuilder {
            counter: 0,
            map: IndexMap::new(),
        }
    }
pub fn entry(&mut self, key: Option<K>) -> (r: Entry<'_, Result<K, usize>, V>) 
    requires
        dense(old(self).map@), errs_below(old(self).map@, old(self).counter), old(self).counter < usize::MAX,
    ensures
        match r {
            // a named infoset seen before: the entry carries the index it was given then
            Entry::Occupied(e) => key is Some && has_key(old(self).map@, true_key(key, old(self).counter))
                && e.ent.stored().0 == key_at(old(self).map@, true_key(key, old(self).counter)) && final(self).map@ == old(self).map@, // @ob C11.V.compact_opt.entry_index
            // a new infoset: the entry carries the next index, the number of infosets so far
            Entry::Vacant(e) => !has_key(old(self).map@, true_key(key, old(self).counter)) && e.ind == old(self).map@.len()
                && final(self).map@ == (match e.ent.inserted() { Some(v) => old(self).map@.push((true_key(key, old(self).counter), v)), None => old(self).map@ }), // @ob C11.V.compact_opt.entry_index
        },
        // an anonymous chance node (no infoset label) is ALWAYS its own new infoset
        key is None ==> r is Vacant, // @ob C11.V.compact_opt.anonymous_is_new
        // the invariant behind that survives whatever the entry is then used for
        errs_below(final(self).map@, final(self).counter), // @ob C11.V.compact_opt.anonymous_is_new
{
let ghost m0 = self.map@;
let ghost c0 = self.counter;
proof {
    assert(has_key(m0, true_key(key, c0)) ==> m0[key_at(m0, true_key(key, c0))].1.0 == key_at(m0, true_key(key, c0)));
    // an anonymous key is not in the map: all anonymous keys there are below the counter
    assert(key is None ==> !has_key(m0, true_key(key, c0))) by {
        if key is None && has_key(m0, true_key(key, c0)) {
            let i = choose|i: int| 0 <= i < m0.len() && #[trigger] m0[i].0 == true_key(key, c0);
            assert(m0[i].0 matches Err(c) && c < c0);
        }
    }
}

        let ind = self.map.len();
        let true_key = __ok_or_else_fresh(key, self);
        match self.map.entry(true_key) {
            map::Entry::Vacant(ent) => Entry::Vacant(VacantEntry { ind, ent }),
            map::Entry::Occupied(ent) => Entry::Occupied(OccupiedEntry { ent }),
        }
    }
}

// ---- extracted from src/compact.rs: impl Iterator for OptIntoIter / fn next ----
pub fn optintoiter_next__entry<K, V>(k: Result<K, usize>, v: V) -> (out: (Option<K>, V))
    ensures
        // the stored value is handed over unchanged; a named infoset keeps its label, an anonymous one has none
        out.1 == v && out.0 == (match k { Ok(k) => Some(k), Err(_) => None::<K> }), // @ob C11.V.compact_opt.into_iter_entry
{
(k.ok(), v)
}


// vacuity canary: must be REJECTED by the verifier (an inconsistent axiom set would accept it)
pub proof fn __canary_must_fail()
    ensures false, // @ob __canary
{
    
}

} // verus!
fn main() {}
