#![feature(sized_hierarchy)]
#![feature(allocator_api)]
#![allow(unused_imports, unused_variables, dead_code, unused_mut, unused_parens, unused_braces, non_snake_case)]
use vstd::prelude::*;
use vstd::std_specs::ops::*;
use vstd::std_specs::cmp::*;
use vstd::float::*;
use vstd::std_specs::iter::IteratorSpec;
verus! {
// indexmap::IndexMap as far as compact.rs uses it (assumed contracts restating its documentation): an
// insertion-ordered map seen as a sequence of (key, value) pairs with distinct keys; `entry(k)` is
// Occupied exactly when k is present; inserting through a Vacant entry appends the pair (what happens to
// the map is a prophecy of the entry's use)
#[verifier::external_body]
#[verifier::reject_recursive_types(K)]
#[verifier::reject_recursive_types(V)]
pub struct IndexMap<K, V> { _p: core::marker::PhantomData<(K, V)> }
pub open spec fn key_at<K, V>(s: Seq<(K, V)>, k: K) -> int { choose|i: int| 0 <= i < s.len() && s[i].0 == k }
pub open spec fn has_key<K, V>(s: Seq<(K, V)>, k: K) -> bool { exists|i: int| 0 <= i < s.len() && #[trigger] s[i].0 == k }
pub mod map {
    use super::*;
    #[verifier::external_body]
    #[verifier::reject_recursive_types(K)]
    #[verifier::reject_recursive_types(V)]
    pub struct VacantEntry<'a, K, V> { _p: core::marker::PhantomData<&'a (K, V)> }
    #[verifier::external_body]
    #[verifier::reject_recursive_types(K)]
    #[verifier::reject_recursive_types(V)]
    pub struct OccupiedEntry<'a, K, V> { _p: core::marker::PhantomData<&'a (K, V)> }
    #[verifier::reject_recursive_types(K)]
    #[verifier::reject_recursive_types(V)]
    pub enum Entry<'a, K, V> { Vacant(VacantEntry<'a, K, V>), Occupied(OccupiedEntry<'a, K, V>) }
    impl<'a, K, V> VacantEntry<'a, K, V> {
        #[verifier::prophetic]
        pub uninterp spec fn inserted(&self) -> Option<V>;
        #[verifier::external_body]
        pub fn insert(self, v: V) -> (r: &'a mut V) ensures self.inserted() == Some(v) { unimplemented!() }
    }
    impl<'a, K, V> OccupiedEntry<'a, K, V> {
        pub uninterp spec fn stored(&self) -> V;
        #[verifier::external_body]
        pub fn into_mut(self) -> (r: &'a mut V) ensures *r == self.stored() { unimplemented!() }
    }
}
impl<K, V> IndexMap<K, V> {
    pub uninterp spec fn view(&self) -> Seq<(K, V)>;
    #[verifier::external_body]
    pub fn new() -> (r: Self) ensures r@.len() == 0 { unimplemented!() }
    #[verifier::external_body]
    pub fn len(&self) -> (r: usize) ensures r == self@.len() { unimplemented!() }
    #[verifier::external_body]
    pub fn entry(&mut self, k: K) -> (r: map::Entry<'_, K, V>)
        ensures match r {
            map::Entry::Occupied(e) => has_key(old(self)@, k) && e.stored() == old(self)@[key_at(old(self)@, k)].1 && final(self)@ == old(self)@,
            map::Entry::Vacant(e) => !has_key(old(self)@, k) && final(self)@ == (match e.inserted() { Some(v) => old(self)@.push((k, v)), None => old(self)@ }),
        },
    { unimplemented!() }
}

// ---- extracted from src/compact.rs: struct Builder ----
#[verifier::reject_recursive_types(K)]
#[verifier::reject_recursive_types(V)]
pub struct Builder<K, V> {
    pub map: IndexMap<K, (usize, V)>,
}

// ---- extracted from src/compact.rs: struct VacantEntry ----
#[verifier::reject_recursive_types(K)]
#[verifier::reject_recursive_types(V)]
pub struct VacantEntry<'a, K, V> {
    pub ind: usize,
    pub ent: map::VacantEntry<'a, K, (usize, V)>,
}

// ---- extracted from src/compact.rs: struct OccupiedEntry ----
#[verifier::reject_recursive_types(K)]
#[verifier::reject_recursive_types(V)]
pub struct OccupiedEntry<'a, K, V> {
    pub ent: map::OccupiedEntry<'a, K, (usize, V)>,
}

// ---- extracted from src/compact.rs: enum Entry ----
#[verifier::reject_recursive_types(K)]
#[verifier::reject_recursive_types(V)]
pub enum Entry<'a, K, V> {
    Vacant(VacantEntry<'a, K, V>),
    Occupied(OccupiedEntry<'a, K, V>),
}

// representation invariant: dense indices in insertion order
pub open spec fn dense<K, V>(s: Seq<(K, (usize, V))>) -> bool { forall|i: int| 0 <= i < s.len() ==> (#[trigger] s[i]).1.0 == i }
// entry() on a new key followed by insert() appends (key, (number of keys so far, value)): the
// invariant is preserved, so the k-th distinct infoset gets index k
pub proof fn lemma_dense_preserved<K, V>(s: Seq<(K, (usize, V))>, key: K, ind: usize, val: V)
    requires dense(s), ind == s.len(),
    ensures dense(s.push((key, (ind, val)))), // @ob C11.V.compact.dense_preserved
{
    let t = s.push((key, (ind, val)));
    assert forall|i: int| 0 <= i < t.len() implies (#[trigger] t[i]).1.0 == i by { if i < s.len() { assert(t[i] == s[i]); } }
}

// ---- extracted from src/compact.rs: impl Builder ----
impl<K, V> Builder<K, V> {
pub fn new() -> (r: Self) 
    ensures dense(r.map@), r.map@.len() == 0, // @ob C11.V.compact.new_dense
{
        Builder {
            map: IndexMap::new(),
        }
    }
pub fn entry(&mut self, key: K) -> (r: Entry<'_, K, V>) 
    requires
        dense(old(self).map@),
    ensures
        match r {
            // a key seen before: the entry carries the index it was given then (its position)
            Entry::Occupied(e) => has_key(old(self).map@, key) && e.ent.stored().0 == key_at(old(self).map@, key) && final(self).map@ == old(self).map@, // @ob C11.V.compact.entry_index
            // a new key: the entry carries the next index, the number of keys seen so far
            Entry::Vacant(e) => !has_key(old(self).map@, key) && e.ind == old(self).map@.len()
                && final(self).map@ == (match e.ent.inserted() { Some(v) => old(self).map@.push((key, v)), None => old(self).map@ }), // @ob C11.V.compact.entry_index
        },
{
proof {
    // distinct keys: the position of a present key is determined (IndexMap), and the dense invariant
    // says the stored index is that position
    assert(has_key(self.map@, key) ==> self.map@[key_at(self.map@, key)].1.0 == key_at(self.map@, key));
}

        let ind = self.map.len();
        match self.map.entry(key) {
            map::Entry::Vacant(ent) => Entry::Vacant(VacantEntry { ind, ent }),
            map::Entry::Occupied(ent) => Entry::Occupied(OccupiedEntry { ent }),
        }
    }
}

// ---- extracted from src/compact.rs: impl VacantEntry ----
impl<K, V> VacantEntry<'_, K, V> {
pub fn insert(self, val: V) -> (r: usize) 
    ensures
        // the value is stored together with the index the entry carries, and that index is returned
        r == self.ind && self.ent.inserted() == Some((self.ind, val)), // @ob C11.V.compact.insert_returns_index
{
        self.ent.insert((self.ind, val));
        self.ind
    }
}

// ---- extracted from src/compact.rs: impl OccupiedEntry ----
impl<'a, K, V> OccupiedEntry<'a, K, V> {
pub fn get(self) -> (r: (usize, &'a V)) 
    ensures
        r.0 == self.ent.stored().0 && *r.1 == self.ent.stored().1, // @ob C11.V.compact.get_returns_index
{
        let (ind, val) = self.ent.into_mut();
        (*ind, val)
    }
}


// vacuity canary: must be REJECTED by the verifier (an inconsistent axiom set would accept it)
pub proof fn __canary_must_fail()
    ensures false, // @ob __canary
{
    
}

} // verus!
fn main() {}
