#!/bin/sh
# D9 (C15): for a constant-sum Gambit file the two printed utilities must be the players' OWN payoffs
# (they add up to the constant).  Usage: d9_cli_demo.sh <path to a checkout of erikbrinkman/cfr>
# Exit 0 = behaves as the property says; exit 1 = defect present.  Fails on 256d194, passes after the fix.
set -e
REPO=${1:-/repo}
W=$(mktemp -d)
trap 'rm -rf "$W"' EXIT
cat > "$W/g.efg" <<'EFG'
EFG 2 R "constant sum two" { "one" "two" }
p "" 1 1 "x" { "a" "b" } 0
t "" 1 "o1" { 3 -1 }
t "" 2 "o2" { 0 2 }
EFG
( cd "$REPO" && CARGO_NET_OFFLINE=true CARGO_TARGET_DIR="$W/target" cargo build --offline -q 2>/dev/null )
OUT=$("$W/target/debug/cfr" -i "$W/g.efg" --method full --max-iters 200)
echo "$OUT"
python3 - "$OUT" <<'PY'
import json, sys
o = json.loads(sys.argv[1])
s = o["player_one_utility"] + o["player_two_utility"]
print("player one %.6f + player two %.6f = %.6f (the file's constant is 2)" % (o["player_one_utility"], o["player_two_utility"], s))
sys.exit(0 if abs(s - 2.0) < 1e-6 and abs(o["player_two_utility"] - (-1.0)) < 1e-3 else 1)
PY
