//! KNOWN FINDING D10 (C05), not repaired: finite payoffs near f64::MAX overflow the cumulative regrets.
//! `regret_match` on two regrets of 1e308 sums them to +inf and returns [0, 0]; from the next iteration
//! on regrets are NaN and the arg-max fallback panics (`partial_cmp(..).unwrap()`, src/solve/data.rs).
//! This test FAILS on HEAD (it documents the finding); copy to <repo>/tests/ and run
//! `cargo test --offline --test known_d10_demo`.
use cfr::{Game, GameNode, IntoGameNode, PlayerNum, SolveMethod};

struct N(GameNode<N>);
impl IntoGameNode for N {
    type PlayerInfo = &'static str;
    type Action = &'static str;
    type ChanceInfo = &'static str;
    type Outcomes = Vec<(f64, N)>;
    type Actions = Vec<(&'static str, N)>;
    fn into_game_node(self) -> GameNode<Self> { self.0 }
}
fn t(p: f64) -> N { N(GameNode::Terminal(p)) }

/// matching pennies with payoffs +-1e308 (finite, accepted by from_root), default parameters
#[test]
fn d10_huge_finite_payoffs_do_not_panic() {
    let m = 1e308;
    let two = |a: f64, b: f64| N(GameNode::Player(PlayerNum::Two, "y", vec![("l", t(a)), ("r", t(b))]));
    let g = Game::from_root(N(GameNode::Player(PlayerNum::One, "x", vec![("a", two(m, -m)), ("b", two(-m, m))]))).unwrap();
    let (s, _) = g.solve(SolveMethod::Full, 50, 0.0, 1, None).unwrap();
    let [one, _] = s.as_named();
    for (_, acts) in one {
        let total: f64 = acts.map(|(_, p)| p).sum();
        assert!((total - 1.0).abs() < 1e-6);
    }
}
