//! Native demonstrations (public API only) of the genuine defects found on the pinned tree a03fbdf.
//! Each test FAILS on a03fbdf and PASSES after the corresponding "fix:" commit.
//! Run: copy to <repo>/tests/defects_demo.rs and `cargo test --offline --test defects_demo`.
use cfr::{Game, GameNode, IntoGameNode, PlayerNum, RegretParams, SolveMethod};

struct N(GameNode<N>);
impl IntoGameNode for N {
    type PlayerInfo = &'static str;
    type Action = &'static str;
    type ChanceInfo = &'static str;
    type Outcomes = Vec<(f64, N)>;
    type Actions = Vec<(&'static str, N)>;
    fn into_game_node(self) -> GameNode<Self> { self.0 }
}
fn t(p: f64) -> N { N(GameNode::Terminal(p)) }
fn pl(num: PlayerNum, info: &'static str, acts: Vec<(&'static str, N)>) -> N { N(GameNode::Player(num, info, acts)) }

/// player one: infoset "x" with 3 actions, single-action infoset "s"; player two: none
fn game_one_sided() -> Game<&'static str, &'static str> {
    Game::from_root(pl(PlayerNum::One, "s", vec![("only", pl(PlayerNum::One, "x", vec![("a", t(1.0)), ("b", t(2.0)), ("c", t(0.0))]))])).unwrap()
}

/// D1 (C13): the infoset iterator advertises the number of action slots, not the number of infosets
#[test]
fn d1_named_infoset_iter_len() {
    let g = game_one_sided();
    let s = g.from_named([vec![("x", vec![("a", 1.0), ("b", 1.0), ("c", 2.0)]), ("s", vec![("only", 1.0)])], vec![]]).unwrap();
    let [one, _] = s.as_named();
    let advertised = one.len();
    assert_eq!(advertised, one.count(), "ExactSizeIterator::len of the infoset iterator");
}

/// D2 (C13): the action iterator advertises zero-probability actions that it then skips
#[test]
fn d2_named_action_iter_len() {
    let g = game_one_sided();
    let s = g.from_named([vec![("x", vec![("a", 1.0), ("b", 0.0), ("c", 1.0)]), ("s", vec![("only", 1.0)])], vec![]]).unwrap();
    let [one, _] = s.as_named();
    for (_, acts) in one {
        let advertised = acts.len();
        assert_eq!(advertised, acts.count(), "ExactSizeIterator::len of an action iterator");
    }
}

/// D3 (C18): a threshold at or above the largest probability of an infoset leaves all zeros
#[test]
fn d3_truncate_keeps_a_distribution() {
    let g = game_one_sided();
    let mut s = g.from_named([vec![("x", vec![("a", 1.0), ("b", 1.0), ("c", 2.0)]), ("s", vec![("only", 1.0)])], vec![]]).unwrap();
    s.truncate(0.5);
    let [one, _] = s.as_named();
    for (info, acts) in one {
        let total: f64 = acts.map(|(_, p)| p).sum();
        assert!((total - 1.0).abs() < 1e-9, "infoset {} sums to {} after truncate(0.5)", info, total);
    }
}

/// D4 (C19): a player without multi-action infosets has distance NaN
#[test]
fn d4_distance_not_nan() {
    let g = game_one_sided();
    let a = g.from_named([vec![("x", vec![("a", 1.0)]), ("s", vec![("only", 1.0)])], vec![]]).unwrap();
    let b = g.from_named([vec![("x", vec![("b", 1.0)]), ("s", vec![("only", 1.0)])], vec![]]).unwrap();
    let d = a.distance(&b, 1.0);
    assert!(!d[0].is_nan() && !d[1].is_nan(), "distance {:?}", d);
}

/// D6 (C05): a negative finite softmax weight makes regret matching return NaN strategies
#[test]
fn d6_negative_softmax_weight() {
    // every action of player one loses, by very different amounts
    let g = Game::from_root(pl(PlayerNum::One, "x", vec![("a", t(-1.0)), ("b", t(-2000.0)), ("c", t(-5.0))])).unwrap();
    let params = RegretParams::new(f64::NEG_INFINITY, f64::INFINITY, 0.0, -1e3);
    let (s, _) = g.solve(SolveMethod::Full, 5, 0.0, 1, Some(params)).unwrap();
    let [one, _] = s.as_named();
    for (_, acts) in one {
        let total: f64 = acts.map(|(_, p)| p).sum();
        assert!((total - 1.0).abs() < 1e-9, "strategy sums to {}", total);
    }
}

/// D7 (C06): the unsampled solver depends on the thread count (stale frontier / payoff cache)
#[test]
fn d7_thread_count_invariance() {
    fn build(depth: usize, path: String, seed: &mut u64) -> M {
        *seed = seed.wrapping_mul(6364136223846793005).wrapping_add(1442695040888963407);
        if depth == 0 { return M(GameNode::Terminal(((*seed >> 33) % 11) as f64 - 5.0)); }
        let nact = 2 + ((*seed >> 40) % 2) as u8;
        let who = if depth % 2 == 0 { PlayerNum::One } else { PlayerNum::Two };
        let acts = (0..nact).map(|a| (a, build(depth - 1, format!("{}{}", path, a), seed))).collect();
        M(GameNode::Player(who, path, acts))
    }
    struct M(GameNode<M>);
    impl IntoGameNode for M {
        type PlayerInfo = String; type Action = u8; type ChanceInfo = u64;
        type Outcomes = Vec<(f64, M)>; type Actions = Vec<(u8, M)>;
        fn into_game_node(self) -> GameNode<Self> { self.0 }
    }
    for gseed in 0..10u64 {
        let mut seed = gseed;
        let game = Game::from_root(build(4, String::new(), &mut seed)).unwrap();
        for iters in [2u64, 3, 4] {
            let (s1, b1) = game.solve(SolveMethod::Full, iters, 0.0, 1, Some(RegretParams::vanilla())).unwrap();
            for threads in [3usize, 4] {
                let (sk, bk) = game.solve(SolveMethod::Full, iters, 0.0, threads, Some(RegretParams::vanilla())).unwrap();
                let d = s1.distance(&sk, 1.0);
                assert!(d[0] < 1e-9 && d[1] < 1e-9, "game {} iters {} threads {}: distance {:?}", gseed, iters, threads, d);
                assert!((b1.regret_bound() - bk.regret_bound()).abs() < 1e-9, "bounds differ");
            }
        }
    }
}

/// D8 (C11): a tree with a NaN or infinite payoff is accepted; evaluation and solving are then
/// undefined (NaN utilities, NaN regrets, a NaN "bound")
#[test]
fn d8_non_finite_payoff_rejected() {
    for bad in [f64::NAN, f64::INFINITY, f64::NEG_INFINITY] {
        let root = pl(PlayerNum::One, "x", vec![("a", t(bad)), ("b", t(1.0))]);
        let res = Game::from_root(root);
        if let Ok(g) = &res {
            let (s, _) = g.solve(SolveMethod::Full, 3, 0.0, 1, None).unwrap();
            let info = s.get_info();
            eprintln!("accepted payoff {}: utility {} regret {}", bad, info.player_utility(PlayerNum::One), info.regret());
        }
        assert!(res.is_err(), "a tree with payoff {} must be rejected by from_root", bad);
    }
}
