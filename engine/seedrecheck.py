"""Re-confirm every stored seeded change against /repo's current HEAD with a private target dir per copy:
demo passes on the clean copy, patch applies, existing suite passes with it, demo fails with it."""
import glob, json, os, shutil, subprocess, sys, tempfile
from concurrent.futures import ThreadPoolExecutor
CACHE = os.path.expanduser("~/.cache/cfr-verif")

def run(cmd, cwd):
    env = dict(os.environ, CARGO_NET_OFFLINE="true", CARGO_TARGET_DIR=os.path.join(cwd, "target"))
    p = subprocess.run(cmd, cwd=cwd, env=env, capture_output=True, text=True)
    return p.returncode

def run_demo(demo, wc):
    if demo.endswith(".sh"):
        shutil.copy(demo, wc + "/" + os.path.basename(demo))
        env = dict(os.environ, CARGO_NET_OFFLINE="true", CARGO_TARGET_DIR=os.path.join(wc, "target"), WORKTREE=wc)
        return subprocess.run(["sh", os.path.basename(demo)], cwd=wc, env=env, capture_output=True, text=True).returncode
    os.makedirs(wc + "/tests", exist_ok=True)
    shutil.copy(demo, wc + "/tests/" + os.path.basename(demo))
    r = run(["cargo", "test", "--offline", "--test", os.path.basename(demo)[:-3]], wc)
    os.remove(wc + "/tests/" + os.path.basename(demo))
    return r


def one(sid):
    d = "/verif/seeded/%s" % sid
    demos = glob.glob(d + "/demo_*.rs") + glob.glob(d + "/*.sh")
    if not demos: return sid, "no demo"
    demo = demos[0]; tname = os.path.basename(demo)[:-3]
    wc = tempfile.mkdtemp(prefix="recheck-", dir=CACHE)
    try:
        subprocess.run(["rsync", "-a", "--exclude", "/target", "--exclude", "/.git", "/repo/", wc + "/"], check=True)
        rc0 = run_demo(demo, wc)
        if subprocess.run(["patch", "-p1", "-s", "-i", d + "/patch.diff"], cwd=wc).returncode: return sid, "patch does not apply"
        rc1 = run(["cargo", "test", "--offline"], wc)
        rc2 = run_demo(demo, wc)
        return sid, "OK" if (rc0 == 0 and rc1 == 0 and rc2 != 0) else "MISMATCH clean=%s suite=%s patched=%s" % (rc0, rc1, rc2)
    finally:
        shutil.rmtree(wc, ignore_errors=True)

ids = [a for a in sys.argv[1:]] or sorted(os.listdir("/verif/seeded"))
with ThreadPoolExecutor(max_workers=4) as ex:
    for sid, r in ex.map(one, ids):
        print(sid, r, flush=True)
