"""dev helper: python3 neutsweep.py <patch> [<patch>...] [--test]
Runs EVERY Verus unit of every claimed property on a copy of /repo with a (supposedly behaviour-preserving)
patch applied.  `fail` on such a patch is a false alarm of the contracts; `undecided` (lost anchor, front
end) is acceptable.  With --test also runs `cargo test --offline` on the copy (private target dir)."""
import sys, os, shutil, tempfile, subprocess, json, importlib.util
from concurrent.futures import ThreadPoolExecutor
sys.path.insert(0, "/verif/engine")
import run_verus
CACHE = os.path.expanduser("~/.cache/cfr-verif")
spec = importlib.util.spec_from_file_location("props", "/verif/contracts/properties.py"); mod = importlib.util.module_from_spec(spec); spec.loader.exec_module(mod)
UNITS = {}
for pid, P in mod.PROPS.items():
    for u in P.get("verus", []):
        UNITS.setdefault(u["unit"], []).append(pid)

def one(patch, test):
    d = tempfile.mkdtemp(prefix="neut-", dir=CACHE)
    try:
        subprocess.run(["rsync", "-a", "--exclude", "/target", "--exclude", "/.git", "/repo/", d + "/"], check=True)
        if subprocess.run(["patch", "-p1", "-s", "-i", os.path.abspath(patch)], cwd=d).returncode:
            return dict(note="patch failed")
        res = {}
        if test:
            p = subprocess.run(["cargo", "test", "--offline", "-q"], cwd=d, capture_output=True, text=True,
                               env=dict(os.environ, CARGO_TARGET_DIR=d + "/target", CARGO_NET_OFFLINE="true"))
            res["__suite"] = "green" if p.returncode == 0 else "RED: " + (p.stdout + p.stderr)[-400:]
            shutil.rmtree(d + "/target", ignore_errors=True)
        for u, pids in sorted(UNITS.items()):
            r = run_verus.run_unit(u, d, d + "/out")
            if r["status"] != "pass":
                res[u] = dict(status=r["status"], properties=pids,
                              obligations=sorted({o for f in r["failed"] for o in f["obligations"]}),
                              messages=[f["message"][:160] for f in r["failed"]][:4], reason=r["reason"][:240])
        return res
    finally:
        shutil.rmtree(d, ignore_errors=True)

def main():
    test = "--test" in sys.argv
    patches = [a for a in sys.argv[1:] if not a.startswith("--")]
    with ThreadPoolExecutor(max_workers=4) as ex:
        futs = [(p, ex.submit(one, p, test)) for p in patches]
        for p, f in futs:
            r = f.result()
            print("==", p, flush=True)
            for k, v in r.items():
                if isinstance(v, dict):
                    print("   %-34s %-9s %s %s %s" % (k, v["status"].upper() if v["status"] == "fail" else v["status"], v["properties"], v["obligations"], v["messages"] or v["reason"]), flush=True)
                else:
                    print("   ", k, v, flush=True)
main()
