"""Confirm seeded changes delivered by the independent sub-agents and store them under /verif/seeded/.
For each /tmp/mut-<P>/OUT/<X>/: patch applies to a scratch copy of /repo's HEAD; the existing suite
passes with the patch; the demonstration passes without the patch and fails with it."""
import glob, json, os, shutil, subprocess, sys, tempfile
CACHE = os.path.expanduser("~/.cache/cfr-verif")
# NOTE: one target dir PER scratch copy. A target dir shared between copies of the same package made
# cargo reuse artifacts of a previously patched copy (rsync preserves mtimes): wrong verdicts.

def run(cmd, cwd):
    env = dict(os.environ, CARGO_NET_OFFLINE="true", CARGO_TARGET_DIR=os.path.join(cwd, "target"))
    p = subprocess.run(cmd, cwd=cwd, env=env, capture_output=True, text=True)
    return p.returncode, (p.stdout + p.stderr)[-3000:]

def run_demo(demo, wc):
    """a demonstration is an integration test (tests/demo_x.rs) or a shell script run in the copy"""
    if demo.endswith(".sh"):
        shutil.copy(demo, wc + "/" + os.path.basename(demo))
        env = dict(os.environ, CARGO_NET_OFFLINE="true", CARGO_TARGET_DIR=os.path.join(wc, "target"), WORKTREE=wc)
        p = subprocess.run(["sh", os.path.basename(demo)], cwd=wc, env=env, capture_output=True, text=True)
        return p.returncode
    os.makedirs(wc + "/tests", exist_ok=True)
    shutil.copy(demo, wc + "/tests/" + os.path.basename(demo))
    r = run(["cargo", "test", "--offline", "--test", os.path.basename(demo)[:-3]], wc)
    os.remove(wc + "/tests/" + os.path.basename(demo))
    return r[0] if isinstance(r, tuple) else r


def main():
    only = [a for a in sys.argv[1:] if not a.startswith("--")]
    for d in sorted(glob.glob("/tmp/mut-C*/OUT/*") + glob.glob("/tmp/mut2-C*/OUT/*") + glob.glob("/tmp/mut3-C*/OUT/*") + glob.glob("/tmp/mut4-C*/OUT/*") + glob.glob("/tmp/mut5-C*/OUT/*") + glob.glob("/tmp/mut6-C*/OUT/*") + glob.glob("/tmp/mut7-C*/OUT/*")):
        pid = d.split("/")[2].replace("mut7-", "").replace("mut6-", "").replace("mut5-", "").replace("mut4-", "").replace("mut3-", "").replace("mut2-", "").replace("mut-", "")
        x = os.path.basename(d)
        sid = "%s-%s" % (pid, x)
        if only and sid not in only:
            continue
        dest = "/verif/seeded/%s" % sid
        if os.path.exists(os.path.join(dest, "meta.json")) and "--recheck" not in sys.argv:
            continue
        demos = glob.glob(d + "/demo_*.rs") + glob.glob(d + "/*.sh")
        if not demos or not os.path.exists(d + "/patch.diff"):
            print(sid, "incomplete deliverable"); continue
        demo = demos[0]
        wc = tempfile.mkdtemp(prefix="seed-", dir=CACHE)
        try:
            subprocess.run(["rsync", "-a", "--exclude", "/target", "--exclude", "/.git", "/repo/", wc + "/"], check=True)
            tname = os.path.basename(demo)
            rc0 = run_demo(demo, wc)
            rc = subprocess.run(["patch", "-p1", "-s", "-i", d + "/patch.diff"], cwd=wc).returncode
            if rc != 0:
                print(sid, "patch does not apply"); continue
            rc1, out1 = run(["cargo", "test", "--offline"], wc)
            rc2 = run_demo(demo, wc)
            ok = (rc0 == 0 and rc1 == 0 and rc2 != 0)
            print(sid, "demo clean:", rc0, "suite with patch:", rc1, "demo with patch:", rc2, "=> CONFIRMED" if ok else "=> REJECTED")
            if ok and not os.path.exists(os.path.join(dest, "meta.json")):
                os.makedirs(dest, exist_ok=True)
                shutil.copy(d + "/patch.diff", dest + "/patch.diff")
                shutil.copy(demo, dest + "/" + os.path.basename(demo))
                notes = open(d + "/notes.md").read() if os.path.exists(d + "/notes.md") else ""
                open(dest + "/notes.md", "w").write(notes)
                json.dump(dict(id=sid, property=pid, source="independent sub-agent given only the property text and a scratch worktree",
                               needs_to_manifest=notes[:1500],
                               confirmed=dict(demo_passes_without_patch=True, existing_suite_passes_with_patch=True, demo_fails_with_patch=True,
                                              commands=["cargo test --offline --test %s (clean copy of /repo HEAD)" % tname,
                                                        "patch -p1 < patch.diff; cargo test --offline", "cargo test --offline --test %s" % tname]),
                               detection=None),
                          open(dest + "/meta.json", "w"), indent=1)
        finally:
            shutil.rmtree(wc, ignore_errors=True)

main()
