"""Engine K: annotate a scratch copy of /repo in place and run Kani harnesses on the real bodies.

The copy differs from /repo only by
  * `#[cfg_attr(kani, kani::requires/ensures/modifies(..))]` lines inserted above the fn items
    named in contracts/kani/table.py (ATTRS), and
  * `#[cfg(kani)] #[path = ".."] mod verif_kani_<m>;` lines appended to host modules plus the harness
    files of contracts/kani/ copied next to them.
Both are invisible to a normal `cargo build`/`cargo test` (cfg(kani) is only set by the Kani
compiler); function bodies are never touched.
"""
import importlib.util
import json
import os
import re
import shutil
import subprocess
import time

from rustlex import Source
import verus_extract as vx
from verus_extract import Undecided
import workcopy

HERE = os.path.dirname(os.path.abspath(__file__))
VERIF = os.path.dirname(HERE)
KDIR = os.path.join(VERIF, "contracts", "kani")


def load_table():
    spec = importlib.util.spec_from_file_location("kani_table", os.path.join(KDIR, "table.py"))
    mod = importlib.util.module_from_spec(spec)
    spec.loader.exec_module(mod)
    return mod


def inject(wc, table, modules):
    """Insert contract attributes and harness modules into working copy `wc`."""
    log = []
    # 1. contract attributes
    by_file = {}
    for a in table.ATTRS:
        by_file.setdefault(a["file"], []).append(a)
    for rel, attrs in by_file.items():
        p = os.path.join(wc, rel)
        if not os.path.exists(p):
            raise Undecided("lost anchor: %s missing" % rel)
        text = open(p).read()
        src = Source(text)
        ins = []
        for a in attrs:
            loc = vx.locate(src, a["path"])
            # insert before the first token of the item (attributes/visibility included)
            pos = src.toks[loc["start"]].pos
            # keep doc comments above: find line start
            ls = text.rfind("\n", 0, pos) + 1
            indent = text[ls:pos] if text[ls:pos].strip() == "" else ""
            lines = "".join("%s#[cfg_attr(kani, %s)]\n" % (indent, l) for l in a["lines"])
            ins.append((ls, lines))
            log.append("contract attributes on %s :: %s (%d clauses)" % (rel, a["path"], len(a["lines"])))
        for pos, s in sorted(ins, reverse=True):
            text = text[:pos] + s + text[pos:]
        open(p, "w").write(text)
    # 2. harness modules
    for m in modules:
        info = table.MODULES[m]
        host = os.path.join(wc, info["host"])
        if not os.path.exists(host):
            raise Undecided("lost anchor: %s missing" % info["host"])
        fname = "verif_kani_%s.rs" % m
        shutil.copy(os.path.join(KDIR, info["file"]), os.path.join(os.path.dirname(host), fname))
        # path attribute is relative to the directory of the host file for mod.rs/lib.rs and to
        # <dir>/<stem>/ for other files; use an absolute path to avoid the distinction
        abs_path = os.path.join(os.path.dirname(host), fname)
        with open(host, "a") as f:
            f.write('\n#[cfg(kani)]\n#[path = "%s"]\nmod verif_kani_%s;\n' % (abs_path, m))
        log.append("harness module %s appended to %s" % (fname, info["host"]))
    # crate-level feature gates for loop contracts (cfg(kani) only)
    lib = os.path.join(wc, "src/lib.rs")
    text = open(lib).read()
    gate = "#![cfg_attr(kani, feature(stmt_expr_attributes, proc_macro_hygiene))]\n"
    # crate attributes must come first (after inner doc comments is fine)
    m = re.search(r"^(?!//!|\s*$)", text, re.M)
    text = text[:m.start()] + gate + text[m.start():]
    open(lib, "w").write(text)
    return log


def parse_terse(out):
    """Split the interleaved `-j` terse output by thread and attribute result chunks to harnesses."""
    cur = {}     # thread -> harness
    chunks = {}  # harness -> [lines]
    active = None
    for line in out.splitlines():
        m = re.match(r"^Thread (\d+): Checking harness (\S+?)\.\.\.\s*$", line)
        if m:
            cur[m.group(1)] = m.group(2)
            chunks.setdefault(m.group(2), [])
            active = None
            continue
        m = re.match(r"^Thread (\d+):\s*(.*)$", line)
        if m:
            active = cur.get(m.group(1))
            if active is not None and m.group(2):
                chunks[active].append(m.group(2))
            continue
        m = re.match(r"^Checking harness (\S+?)\.\.\.\s*$", line)
        if m:
            active = m.group(1)
            chunks.setdefault(active, [])
            continue
        if line.startswith("Manual Harness Summary") or line.startswith("Complete - "):
            active = None
        if active is not None:
            chunks[active].append(line)
    res = {}
    for h, lines in chunks.items():
        text = "\n".join(lines)
        r = dict(status=None, failed=[], n_checks=0, covers_total=0, covers_sat=0, time_s=None, text=text)
        m = re.search(r"\*\* (\d+) of (\d+) failed", text)
        if m:
            r["n_checks"] = int(m.group(2))
        m = re.search(r"\*\* (\d+) of (\d+) cover properties satisfied", text)
        if m:
            r["covers_sat"], r["covers_total"] = int(m.group(1)), int(m.group(2))
        for m in re.finditer(r'Failed Checks: (.*)\n\s*File: "([^"]*)", line (\d+), in (\S+)', text):
            r["failed"].append(dict(desc=m.group(1).strip().strip('"'), file=m.group(2), line=int(m.group(3)), fn=m.group(4)))
        for m in re.finditer(r'Failed Checks: (.*)$', text, re.M):
            d = m.group(1).strip().strip('"')
            if not any(f["desc"] == d for f in r["failed"]):
                r["failed"].append(dict(desc=d, file=None, line=None, fn=None))
        if "encountered no panics, but at least one was expected" in text:
            r["failed"].append(dict(desc="the documented panic did not occur (should_panic harness ran to completion)", file=None, line=None, fn=None))
        m = re.search(r"VERIFICATION:- (SUCCESSFUL|FAILED)", text)
        if m:
            r["status"] = m.group(1)
        m = re.search(r"Verification Time: ([0-9.]+)s", text)
        if m:
            r["time_s"] = float(m.group(1))
        r["timed_out"] = "CBMC timed out" in text
        r["cbmc_failed"] = "CBMC failed" in text
        res[h] = r
    return res


def _limit_memory(gb=None):
    """every cbmc / solver process of a harness runs under an address-space limit (20 GB by default,
    more for the groups listed in GROUP_MEM_GB, which run alone): exceeding it makes the harness
    undecided instead of endangering the machine"""
    import resource
    lim = int(gb or os.environ.get("VERIF_KANI_MEM_GB", "20")) * (1 << 30)
    resource.setrlimit(resource.RLIMIT_AS, (lim, lim))


def _kill_session(pgid):
    import signal
    try:
        os.killpg(pgid, signal.SIGKILL)
    except (ProcessLookupError, PermissionError):
        pass


def run_harnesses(wc, harnesses, outdir, jobs=8, extra_env=None, solver_cli=None, extra_args=None, tag="main", mem_gb=None):
    """Run the given harness specs in working copy `wc` with ONE cargo-kani invocation
    (`-j`, terse output, per-harness timeout).  Returns {harness path: result-dict}."""
    os.makedirs(outdir, exist_ok=True)
    env = dict(os.environ)
    env["CARGO_NET_OFFLINE"] = "true"
    env.update(extra_env or {})
    target = os.path.join(wc, "target-%s" % tag)
    seed = os.path.join(workcopy.CACHE, "kani-target-seed")
    if os.path.isdir(seed) and not os.path.exists(target):
        subprocess.run(["cp", "-al", seed, target], check=False)
    timeout = max(h.get("timeout", 600) for h in harnesses)
    cmd = ["cargo", "kani", "--lib", "--no-default-features",
           "-Z", "function-contracts", "-Z", "stubbing", "-Z", "unstable-options",
           "--harness-timeout", "%ds" % timeout, "--output-format", "terse", "--target-dir", target,
           "-j", str(min(jobs, max(1, len(harnesses)))), "--exact"]
    if solver_cli:
        cmd += ["--solver", solver_cli]
    cmd += list(extra_args or [])
    for h in harnesses:
        cmd += ["--harness", h["path"]]
    t0 = time.time()
    rounds = (len(harnesses) + jobs - 1) // jobs
    # own session + private TMPDIR: solver grandchildren (cbmc spawns `cvc5` through a shell) survive
    # Kani's per-harness timeout; they and their /tmp files are removed when the invocation ends
    tmpdir = os.path.join(wc, "tmp-%s" % tag)
    os.makedirs(tmpdir, exist_ok=True)
    env["TMPDIR"] = tmpdir
    p = subprocess.Popen(cmd, cwd=wc, env=env, stdout=subprocess.PIPE, stderr=subprocess.PIPE, text=True,
                         preexec_fn=(lambda: _limit_memory(mem_gb)), start_new_session=True)
    try:
        so, se = p.communicate(timeout=timeout * rounds + 900)
        out = so + "\n" + se
    except subprocess.TimeoutExpired:
        _kill_session(p.pid)
        so, se = p.communicate()
        out = (so or "") + "\n[verif] cargo kani invocation timed out\n"
    finally:
        _kill_session(p.pid)
        shutil.rmtree(tmpdir, ignore_errors=True)
    wall = time.time() - t0
    with open(os.path.join(outdir, "cargo-kani-%s.log" % tag), "w") as f:
        f.write(" ".join(cmd) + "\n" + out)
    compile_failed = "error: could not compile" in out or re.search(r"^error(\[E\d+\])?:", out, re.M) is not None
    parsed = parse_terse(out)
    results = {}
    for h in harnesses:
        r = dict(harness=h["path"], name=h["name"], obligation=h["obligation"], wall_s=wall, cmd=" ".join(cmd),
                 bounded=h.get("bounded"), complete=h.get("complete", False))
        pr = parsed.get(h["path"])
        if pr is None:
            if compile_failed:
                errs = [l for l in out.splitlines() if re.match(r"^error", l)]
                r.update(status="undecided", reason="harness crate did not compile under Kani (lost anchor / changed signature): " + " | ".join(errs[:5]))
            else:
                r.update(status="undecided", reason="harness did not run (not found?)")
            results[h["path"]] = r
            continue
        r.update(n_checks=pr["n_checks"], covers_total=pr["covers_total"], covers_sat=pr["covers_sat"],
                 time_s=pr["time_s"], failed=pr["failed"], text=pr["text"][-3000:])
        if pr["status"] == "SUCCESSFUL":
            if pr["covers_sat"] != pr["covers_total"]:
                r.update(status="undecided", reason="vacuity guard: %d of %d cover properties satisfied" % (pr["covers_sat"], pr["covers_total"]))
            elif pr["n_checks"] == 0:
                r.update(status="undecided", reason="no checks generated")
            else:
                r["status"] = "pass"
        elif pr["status"] == "FAILED" and pr["failed"] and not pr["timed_out"]:
            r["status"] = "fail"
        else:
            r.update(status="undecided", reason="no verdict: " + ("CBMC timed out" if pr["timed_out"] else "solver crash / out of memory / unsupported construct"))
        results[h["path"]] = r
    return results


# extra cargo-kani arguments per group.  "safe_rust": the harness only exercises safe Rust, whose
# pointer validity CBMC need not re-check (bounds checks, unwraps, overflow panics are explicit in MIR
# and stay checked) -- this shrinks the formula of the iterator-heavy import harnesses several times.
GROUP_ARGS = {"safe_rust": ["--no-memory-safety-checks"], "safe_rust_big": ["--no-memory-safety-checks"]}
GROUP_JOBS = {"safe_rust": 2, "safe_rust_big": 1}
# groups whose harnesses need more than the default limit: one harness at a time, and only after every
# other group has finished (the machine has 62 GB and no swap)
GROUP_MEM_GB = {"safe_rust_big": 45}


def run_grouped(wc, harnesses, outdir, jobs=8):
    """Harnesses whose stubs conflict with another harness' contract live in different `group`s;
    each group is one cargo-kani invocation with its own target dir; groups run concurrently."""
    from concurrent.futures import ThreadPoolExecutor
    groups = {}
    for h in harnesses:
        groups.setdefault(h.get("group") or "main", []).append(h)
    results = {}
    per = max(1, jobs // max(1, len(groups)))
    # memory-hungry groups (about 10 GB per harness) run at most two harnesses at a time
    per_group = {g: min(per, GROUP_JOBS.get(g, per)) for g in groups}
    normal = {g: hs for g, hs in groups.items() if g not in GROUP_MEM_GB}
    if normal:
        with ThreadPoolExecutor(max_workers=len(normal)) as ex:
            futs = {g: ex.submit(run_harnesses, wc, hs, outdir, per_group[g], None, None, GROUP_ARGS.get(g), g) for g, hs in normal.items()}
            for g, f in futs.items():
                results.update(f.result())
    for g, hs in groups.items():
        if g in GROUP_MEM_GB:
            results.update(run_harnesses(wc, hs, outdir, 1, None, None, GROUP_ARGS.get(g), g, GROUP_MEM_GB[g]))
    return results
