"""Developer helper: run selected Kani harnesses on a fresh annotated copy (optionally with a patch)."""
import sys, json, time, subprocess, argparse
import run_kani, workcopy

ap = argparse.ArgumentParser()
ap.add_argument("harness", nargs="+")
ap.add_argument("--timeout", type=int, default=300)
ap.add_argument("--patch")
ap.add_argument("--solver")
ap.add_argument("--keep", action="store_true")
ap.add_argument("--modules", default=None)
a = ap.parse_args()
t = run_kani.load_table()
allh = {h["name"]: h for hs in t.HARNESSES.values() for h in hs}
hs = []
for n in a.harness:
    h = dict(allh[n]); h["timeout"] = a.timeout; hs.append(h)
wc = workcopy.make("kdev")
try:
    if a.patch:
        subprocess.run(["patch", "-p1", "-i", a.patch], cwd=wc, check=True)
    mods = a.modules.split(",") if a.modules else sorted({h["module"] for h in hs})
    run_kani.inject(wc, t, mods)
    t0 = time.time()
    res = run_kani.run_grouped(wc, hs, workcopy.CACHE + "/dev/kani") if not a.solver else run_kani.run_harnesses(wc, hs, workcopy.CACHE + "/dev/kani", solver_cli=a.solver, tag="dev")
    for k, v in res.items():
        print("==", v["name"], v["status"], "checks", v.get("n_checks"), "time", v.get("time_s"), v.get("reason", ""))
        for f in v.get("failed", []):
            print("   FAILED:", f["desc"], f.get("line"))
        if v["status"] == "undecided":
            print(v.get("text", "")[-1500:])
    print("wall", time.time() - t0)
finally:
    if not a.keep:
        workcopy.remove(wc)
    else:
        print("kept", wc)
