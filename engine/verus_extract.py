"""Mechanical extraction of real items from a working copy of /repo into one Verus file.

Nothing here is a model: every extracted item is the source text of /repo's current working tree,
changed only by the rewrite rules R0..R10 of DESIGN.md section 3.1 (each firing is logged) and by
splicing ghost text (contracts, invariants, proof blocks) at structural insertion points keyed by
function and loop ordinal.  A lost anchor raises `Undecided`, never a violation.
"""
import re
from rustlex import Source, Tok, lex, match_brackets, skip_generics, LexError


class Undecided(Exception):
    """Extraction could not be carried out (lost anchor, unsupported construct)."""


# --------------------------------------------------------------------------------------------
# locating items
# --------------------------------------------------------------------------------------------

def _top_level_items(src, lo=0, hi=None):
    """Yield (start_idx, end_idx_exclusive) of items at bracket depth 0 between token idx lo..hi."""
    toks = src.toks
    hi = len(toks) if hi is None else hi
    i = lo
    start = lo
    while i < hi:
        t = toks[i]
        if t.kind == "punct" and t.text in "([{":
            j = src.pairs[i]
            if t.text == "{":
                # item ends at this closing brace unless it is followed by ';' or is part of a
                # longer expression (not at item level)
                yield (start, j + 1)
                start = j + 1
                i = j + 1
                if i < hi and toks[i].text == ";":
                    i += 1
                    start = i
                continue
            i = j + 1
            continue
        if t.kind == "punct" and t.text == ";":
            yield (start, i + 1)
            start = i + 1
        i += 1


def _item_keyword(src, s, e):
    """Return (keyword_idx, keyword) of an item spanning tokens s..e (skipping attrs and vis)."""
    toks = src.toks
    i = s
    while i < e:
        t = toks[i]
        if t.text == "#":
            # attribute: # [ ... ]  or #![...]
            j = i + 1
            if toks[j].text == "!":
                j += 1
            i = src.pairs[j] + 1
            continue
        if t.text == "pub":
            i += 1
            if toks[i].text == "(":
                i = src.pairs[i] + 1
            continue
        if t.text in ("unsafe", "async", "extern", "default"):
            i += 1
            continue
        if t.text == "const" and toks[i + 1].text == "fn":
            i += 1
            continue
        return i, t.text
    return None, None


def _header_text(src, kw, e):
    toks = src.toks
    i = kw
    while i < e and toks[i].text != "{" and toks[i].text != ";":
        if toks[i].text in "([":
            i = src.pairs[i]
        i += 1
    return i, src.text[toks[kw].pos:toks[i].pos].strip()


def _matches(src, s, e, kind, name):
    kw, word = _item_keyword(src, s, e)
    if kw is None or word != kind:
        return None
    brace, header = _header_text(src, kw, e)
    header_n = " ".join(header.split())
    if kind == "impl":
        want = " ".join(name.split())
        stripped = re.sub(r"<[^<>]*(<[^<>]*>[^<>]*)*>", "", header_n)
        stripped = " ".join(stripped.split())
        cands = [stripped[len("impl"):].strip(), header_n[len("impl"):].strip()]
        cands += [re.split(r"\bwhere\b", c)[0].strip() for c in cands]   # headers with a where clause
        if want in cands:
            return (s, e, kw, brace)
        return None
    m = re.match(r"%s\s+([A-Za-z_][A-Za-z0-9_]*)" % kind, header_n)
    if m and m.group(1) == name:
        return (s, e, kw, brace)
    return None


def locate(src, path):
    """Locate an item.  `path` is e.g. "fn expected", "struct Chance",
    "impl Iterator for NamedStrategyIter / fn next".  impl headers are matched on their
    whitespace-normalised text with or without generics; when several impl blocks match, the one
    that contains the rest of the path is taken.  Returns dict with token indices."""
    parts = [p.strip() for p in path.split("/")]

    def search(depth, lo, hi):
        kind, _, name = parts[depth].partition(" ")
        name = name.strip()
        for (s, e) in _top_level_items(src, lo, hi):
            hit = _matches(src, s, e, kind, name)
            if hit is None:
                continue
            s0, e0, kw, brace = hit
            found = dict(start=s0, end=e0, kw=kw, brace=brace if src.toks[brace].text == "{" else None)
            if depth + 1 == len(parts):
                return found
            if found["brace"] is None:
                continue
            sub = search(depth + 1, found["brace"] + 1, src.pairs[found["brace"]])
            if sub is not None:
                sub.setdefault("parents", []).insert(0, found)
                return sub
        return None

    found = search(0, 0, len(src.toks))
    if found is None:
        raise Undecided("lost anchor: %r not found" % path)
    return found


# --------------------------------------------------------------------------------------------
# edits
# --------------------------------------------------------------------------------------------

class Edits:
    def __init__(self, text):
        self.text = text
        self.edits = []   # (pos, end, replacement, order)
        self.log = []

    def insert(self, pos, s, rule=None, order=0):
        self.edits.append((pos, pos, s, order))
        if rule:
            self.log.append(rule)

    def replace(self, pos, end, s, rule=None):
        self.edits.append((pos, end, s, 0))
        if rule:
            self.log.append(rule)

    def apply(self, lo, hi):
        """Return text[lo:hi] with all edits inside applied."""
        es = [e for e in self.edits if lo <= e[0] and e[1] <= hi]
        # stable: by position, then order
        es.sort(key=lambda e: (e[0], e[3]))
        # check overlap
        out, cur = [], lo
        for (p, q, s, _) in es:
            if p < cur:
                raise Undecided("overlapping rewrites at offset %d" % p)
            out.append(self.text[cur:p])
            out.append(s)
            cur = q
        out.append(self.text[cur:hi])
        return "".join(out)


# --------------------------------------------------------------------------------------------
# rewrite rules on a token range
# --------------------------------------------------------------------------------------------

_COMPOUND = {"+=": "+", "-=": "-", "*=": "*", "/=": "/"}


def _stmt_start(src, i, lo):
    """Index of first token of the statement containing token i (scan back at same depth)."""
    toks = src.toks
    j = i - 1
    while j >= lo:
        t = toks[j]
        if t.kind == "punct" and t.text in ")]}":
            # a closing brace that ends a block statement also ends the previous statement
            if t.text == "}":
                return j + 1
            j = src.pairs[j] - 1
            continue
        if t.kind == "punct" and t.text in (";", "{", "(", "[", ","):
            return j + 1
        if t.kind == "punct" and t.text == "=>":
            return j + 1
        j -= 1
    return lo


def _stmt_end(src, i, hi):
    """Index of the ';' (or closing bracket / ',' at depth 0) ending the expression from token i."""
    toks = src.toks
    j = i
    while j < hi:
        t = toks[j]
        if t.kind == "punct" and t.text in "([{":
            j = src.pairs[j] + 1
            continue
        if t.kind == "punct" and t.text in (";", ")", "]", "}", ","):
            return j
        j += 1
    return hi


def rule_R1(src, ed, lo, hi, fname):
    """P op= E;  ->  P = P op (E);"""
    toks = src.toks
    for i in range(lo, hi):
        t = toks[i]
        if _skipped(i):
            continue
        if t.kind == "punct" and t.text in _COMPOUND:
            s = _stmt_start(src, i, lo)
            e = _stmt_end(src, i + 1, hi)
            lhs = src.text[toks[s].pos:toks[i - 1].end]
            if re.search(r"\(", lhs) and not re.search(r"\.ind_mut\(&mut \w+\)$", lhs.strip()):
                raise Undecided("R1: call in compound-assignment place %r in %s" % (lhs, fname))
            ed.replace(t.pos, t.end, "= %s %s (" % (lhs, _COMPOUND[t.text]),
                       rule="R1 %s: `%s %s ...`" % (fname, lhs, t.text))
            ed.insert(toks[e].pos, ")", order=-1)


def rule_R8(src, ed, lo, hi, fname):
    """unary minus on an expression: -E -> __neg(E) for E an identifier/path/deref/field chain."""
    toks = src.toks
    for i in range(lo, hi):
        t = toks[i]
        if _skipped(i):
            continue
        if not (t.kind == "punct" and t.text == "-"):
            continue
        prev = toks[i - 1] if i > lo else None
        unary = prev is None or (prev.kind == "punct" and prev.text not in (")", "]", "}")) or \
            (prev.kind == "ident" and prev.text in ("return", "in", "else", "match", "if"))
        if not unary:
            continue
        nxt = toks[i + 1]
        if nxt.kind == "lit":
            continue  # negative literal is fine
        # operand: ident (.ident | ::ident | (args) | [idx])*
        j = i + 1
        if toks[j].text == "*":
            j += 1
        if toks[j].kind != "ident" and toks[j].text != "(":
            raise Undecided("R8: unsupported unary minus operand in %s" % fname)
        if toks[j].text == "(":
            j = src.pairs[j] + 1
        else:
            j += 1
        while j < hi:
            if toks[j].text in (".", "::") and toks[j + 1].kind in ("ident", "lit"):
                j += 2
            elif toks[j].text in ("(", "["):
                j = src.pairs[j] + 1
            else:
                break
        ed.replace(t.pos, t.end, "__neg(", rule="R8 %s: unary minus on `%s`" %
                   (fname, src.text[toks[i + 1].pos:toks[j - 1].end]))
        ed.insert(toks[j - 1].end, ")", order=-1)


def rule_R10(src, ed, lo, hi, fname):
    """debug_assert*!(..); statements are dropped (compiled out of release builds)."""
    toks = src.toks
    i = lo
    while i < hi:
        t = toks[i]
        if _skipped(i):
            i += 1
            continue
        if t.kind == "ident" and t.text.startswith("debug_assert") and toks[i + 1].text == "!":
            close = src.pairs[i + 2]
            end = close + 1
            if toks[end].text == ";":
                end += 1
            ed.replace(t.pos, toks[end - 1].end, "", rule="R10 %s: dropped `%s!(..)`" % (fname, t.text))
            i = end
            continue
        i += 1


def rule_R18(src, ed, lo, hi, fname):
    """`panic!(..)` (format machinery is outside this Verus) -> `__panic()`: a declared external function
    that never returns (`ensures false`); the message is dropped, the abort stays where it is."""
    toks = src.toks
    i = lo
    while i < hi:
        t = toks[i]
        if _skipped(i):
            i += 1
            continue
        if t.kind == "ident" and t.text == "panic" and toks[i + 1].text == "!" and toks[i + 2].text == "(":
            close = src.pairs[i + 2]
            ed.replace(t.pos, toks[close].end, "__panic()", rule="R18 %s: `panic!(..)` -> `__panic()` (diverges)" % fname)
            i = close + 1
            continue
        i += 1


def rule_R17(src, ed, lo, hi, fname):
    """`continue` in a `for` loop (rejected by this Verus): a top-level statement of the loop body of the
    form `if COND { continue; }` (no else) followed by the rest R of the body becomes
    `if COND { } else { R }` -- the same control flow.  Any other `continue` is left alone (the front
    end will reject it: undecided)."""
    toks = src.toks
    for L in find_loops(src, lo, hi):
        if L["kind"] != "for":
            continue
        stmts = split_statements(src, L["open"], L["close"])
        for (s, e) in stmts:
            if _skipped(s):
                continue
            if toks[s].text != "if":
                continue
            # find the block of the if: first `{` at depth 0 after the condition
            j = s + 1
            while j < e and not (toks[j].text == "{"):
                if toks[j].text in "([":
                    j = src.pairs[j]
                j += 1
            if j >= e:
                continue
            blk_open, blk_close = j, src.pairs[j]
            inner = [toks[k].text for k in range(blk_open + 1, blk_close)]
            if inner != ["continue", ";"] or blk_close + 1 != e:
                continue
            ed.replace(toks[blk_open].pos, toks[blk_close].end, "{ } else {", rule="R17 %s: `if .. { continue; }` in a for loop -> if/else around the rest of the body" % fname)
            ed.insert(toks[L["close"]].pos, "\n}\n", order=-4)
            SKIP.append((blk_open, blk_close + 1))


def rule_R7(src, ed, lo, hi, fname, methods=("sum", "reduce", "count", "all", "max_by", "min_by",
                                             "for_each", "collect", "find")):
    """`let x = CHAIN.m(args);` / `x = CHAIN.m(args)` where m is a provided Iterator method that
    Verus refuses to specify: CHAIN.m(args) -> __m(CHAIN, args).  Only when `.m(` is the *last*
    call of the expression and the receiver chain starts at the start of the expression."""
    toks = src.toks
    i = lo
    fired = []
    while i < hi:
        t = toks[i]
        if (not _skipped(i)) and (t.kind == "punct" and t.text == "." and toks[i + 1].kind == "ident"
                and toks[i + 1].text in methods and toks[i + 2].text in ("(", "::")):
            name = toks[i + 1].text
            k = i + 2
            turbofish = ""
            if toks[k].text == "::":
                g_end = skip_generics(toks, k + 1)
                turbofish = src.text[toks[k].pos:toks[g_end - 1].end]
                k = g_end
            if toks[k].text != "(":
                i += 1
                continue
            close = src.pairs[k]
            # receiver start: walk back over the postfix chain
            s = _chain_start(src, i, lo)
            recv = (toks[s].pos, toks[i - 1].end)
            args = src.text[toks[k].end:toks[close].pos].strip()
            fired.append((s, i, k, close, name, args))
            i = close + 1
            continue
        i += 1
    # apply innermost-last so that nested chains do not overlap: only rewrite calls whose receiver
    # does not itself contain another fired call (others would overlap) -> process outermost only
    fired.sort(key=lambda f: f[0])
    taken = []
    for f in fired:
        s, dot, k, close, name, args = f
        if any(ts <= s and close <= tc for (ts, tc) in taken):
            continue
        taken.append((s, close))
        ed.insert(toks[s].pos, "__%s(" % name, order=1,
                  rule="R7 %s: `.%s(%s)` -> `__%s(..)`" % (fname, name, args[:30], name))
        # replace ".m(" by "," (or nothing when no args) and keep ")"
        ed.replace(toks[dot].pos, toks[k].end, ", " if args else "")


def _chain_start(src, dot, lo):
    """Given index of a '.' token, return index of first token of the receiver postfix chain."""
    toks = src.toks
    j = dot - 1
    while j >= lo:
        t = toks[j]
        if t.kind == "punct" and t.text in (")", "]"):
            j = src.pairs[j] - 1
            # a call: preceded by ident (method or fn name) possibly with turbofish
            continue
        if t.kind in ("ident", "lit"):
            # part of path/method chain
            if j - 1 >= lo and toks[j - 1].text in (".", "::"):
                j -= 2
                continue
            # prefix operators & * &mut
            k = j
            while k - 1 >= lo and toks[k - 1].text in ("&", "*", "mut", "&&"):
                k -= 1
            return k
        if t.kind == "punct" and t.text == ">":
            # turbofish end ::<..>  -- walk back to '<'
            depth = 0
            while j >= lo:
                if toks[j].text == ">":
                    depth += 1
                elif toks[j].text == "<":
                    depth -= 1
                    if depth == 0:
                        break
                j -= 1
            j -= 1
            if toks[j].text == "::":
                j -= 1
            continue
        break
    return j + 1


def rule_R3(src, ed, lo, hi, fname):
    """`let [a, b] = X;` (array pattern of identifiers / `_`, X an identifier or `&`identifier) ->
    `let a = X[0]; let b = X[1];`  (arrays of Copy scalars or references; length is in the type)."""
    toks = src.toks
    i = lo
    while i < hi:
        t = toks[i]
        if _skipped(i):
            i += 1
            continue
        if t.kind == "ident" and t.text == "let" and toks[i + 1].text == "[":
            c = src.pairs[i + 1]
            names = []
            muts = []
            ok = True
            j = i + 2
            pending_mut = False
            while j < c:
                if toks[j].kind == "ident" and toks[j].text == "mut":
                    pending_mut = True
                elif toks[j].kind == "ident" and toks[j].text != "ref":
                    names.append(toks[j].text)
                    muts.append(pending_mut)
                    pending_mut = False
                elif toks[j].text == ",":
                    pass
                else:
                    ok = False
                j += 1
            e = _stmt_end(src, c + 1, hi)
            rhs_toks = toks[c + 2:e]
            if toks[c + 1].text != "=" or not ok:
                raise Undecided("R3: unsupported array pattern in %s" % fname)
            rhs = src.text[toks[c + 2].pos:toks[e - 1].end]
            mrep = re.match(r"^\[\s*([A-Za-z0-9_:.]+)\s*;\s*(\d+)\s*\]$", rhs)
            if mrep and int(mrep.group(2)) == len(names):
                # `let [mut a, mut b] = [CONST; 2];` -> one let per name (CONST is a literal or constant path)
                const = {"f64::INFINITY": "__inf()", "f64::NEG_INFINITY": "__neg_inf()"}.get(mrep.group(1), mrep.group(1))
                new = " ".join("let %s%s = %s;" % ("mut " if mu else "", n, const) for n, mu in zip(names, muts) if n != "_")
                ed.replace(t.pos, toks[e].end, new, rule="R3(+R9) %s: `let [%s] = %s;`" % (fname, ", ".join(names), rhs))
                SKIP.append((i, e + 1))
                i = e + 1
                continue
            if any(muts):
                raise Undecided("R3: `mut` binding in array pattern over a place in %s" % fname)
            amp = ""
            base = rhs
            if rhs.startswith("&mut "):
                raise Undecided("R3: `&mut` array destructuring in %s" % fname)
            if rhs.startswith("&"):
                amp, base = "&", rhs[1:].strip()
            if not re.match(r"^[A-Za-z_][A-Za-z0-9_.]*$", base):
                raise Undecided("R3: array pattern initialiser `%s` is not a place in %s" % (rhs, fname))
            new = " ".join("let %s = %s%s[%d];" % (n, amp, base, k) for k, n in enumerate(names) if n != "_")
            ed.replace(t.pos, toks[e].end, new, rule="R3 %s: `let [%s] = %s;`" % (fname, ", ".join(names), rhs))
            i = e + 1
            continue
        i += 1


_F64_CONSTS = ("INFINITY", "NEG_INFINITY", "EPSILON", "MAX", "MIN", "MIN_POSITIVE", "NAN")


def rule_R9(src, ed, lo, hi, fname):
    """associated float constants this Verus rejects: f64::INFINITY -> __inf(), f64::NEG_INFINITY ->
    __neg_inf(), f64::EPSILON -> __f64_EPSILON(), ... (external_body wrappers whose bodies ARE the constants)."""
    toks = src.toks
    for i in range(lo, hi - 2):
        if _skipped(i):
            continue
        if toks[i].text == "f64" and toks[i + 1].text == "::" and toks[i + 2].text in _F64_CONSTS:
            name = toks[i + 2].text
            new = {"INFINITY": "__inf()", "NEG_INFINITY": "__neg_inf()"}.get(name, "__f64_%s()" % name)
            ed.replace(toks[i].pos, toks[i + 2].end, new, rule="R9 %s: f64::%s" % (fname, name))


def rule_R2(src, ed, lo, hi, fname):
    """closure whose single parameter is a tuple pattern: `|(a, b)| BODY` -> `|__pK| { let (a, b) = __pK; BODY }`
    (Rust's own desugaring of pattern parameters)."""
    toks = src.toks
    n = 0
    i = lo
    while i < hi:
        t = toks[i]
        if (not _skipped(i)) and t.kind == "punct" and t.text == "|" and toks[i - 1].text in ("(", ",", "=", "move") \
                and toks[i + 1].text == "(":
            c = src.pairs[i + 1]
            if toks[c + 1].text == "|":
                pat = src.text[toks[i + 1].pos:toks[c].end]
                body_s = c + 2
                name = "__p%d" % n
                n += 1
                if toks[body_s].text == "{":
                    ed.replace(toks[i + 1].pos, toks[c].end, name, rule="R2 %s: closure parameter pattern `%s`" % (fname, pat))
                    ed.insert(toks[body_s].end, " let %s = %s; " % (pat, name), order=4)
                else:
                    e = _stmt_end(src, body_s, hi)
                    ed.replace(toks[i + 1].pos, toks[c].end, name, rule="R2 %s: closure parameter pattern `%s`" % (fname, pat))
                    ed.insert(toks[body_s].pos, "{ let %s = %s; " % (pat, name), order=-4)
                    ed.insert(toks[e - 1].end, " }", order=4)
                i = c + 1
                continue
        # `|&x| BODY` -> `|__pK| { let x = *__pK; BODY }` (a reference pattern binds the pointee of a Copy value)
        if (not _skipped(i)) and t.kind == "punct" and t.text == "|" and toks[i - 1].text in ("(", ",", "=", "move") \
                and toks[i + 1].text == "&" and toks[i + 2].kind == "ident" and toks[i + 3].text == "|":
            var = toks[i + 2].text
            body_s = i + 4
            name = "__p%d" % n
            n += 1
            ed.replace(toks[i + 1].pos, toks[i + 2].end, name, rule="R2 %s: closure parameter pattern `&%s`" % (fname, var))
            if toks[body_s].text == "{":
                ed.insert(toks[body_s].end, " let %s = *%s; " % (var, name), order=4)
            else:
                e = _stmt_end(src, body_s, hi)
                ed.insert(toks[body_s].pos, "{ let %s = *%s; " % (var, name), order=-4)
                ed.insert(toks[e - 1].end, " }", order=4)
            i = body_s
            continue
        i += 1


def rule_R12(src, ed, lo, hi, fname):
    """integer-to-float casts this Verus rejects: `X as f64` -> `__as_f64(X)` for X a place / call
    chain or a parenthesised expression (the wrapper's body IS the cast)."""
    toks = src.toks
    for i in range(lo + 1, hi - 1):
        if _skipped(i):
            continue
        if toks[i].kind == "ident" and toks[i].text == "as" and toks[i + 1].text == "f64":
            s0 = _chain_start(src, i, lo)
            if s0 >= i:
                raise Undecided("R12: unsupported cast operand in %s" % fname)
            operand = src.text[toks[s0].pos:toks[i - 1].end]
            ed.insert(toks[s0].pos, "__as_f64(", order=2, rule="R12 %s: `%s as f64`" % (fname, operand))
            ed.replace(toks[i - 1].end, toks[i + 1].end, ")")


def rule_R13(src, ed, lo, hi, fname):
    """`self.FIELD <cmp> E` (f64 field of a struct read through `self` and compared): the field read is
    passed through the identity wrapper `__idf` -- this Verus does not attach the f64 typing fact to
    struct-field reads, so its comparison axioms would not apply (measured); `__idf(x)` returns x."""
    toks = src.toks
    for i in range(lo, hi - 3):
        if _skipped(i):
            continue
        if toks[i].text == "self" and toks[i + 1].text == "." and toks[i + 2].kind == "ident" and toks[i + 2].text in F64_FIELDS \
                and toks[i + 3].text in ("==", "!=", "<", ">", "<=", ">=") and (i == lo or toks[i - 1].text not in (".", "&")):
            ed.insert(toks[i].pos, "__idf(", order=2, rule="R13 %s: `self.%s %s ..`" % (fname, toks[i + 2].text, toks[i + 3].text))
            ed.insert(toks[i + 2].end, ")", order=-2)


def rule_R3m(src, ed, lo, hi, fname):
    """match arm whose tuple pattern contains a fixed-size array pattern of identifiers / `_`:
    `(P, [_, two]) => E,` -> `(P, __aK) => { let two = __aK[1]; E },` (arrays of Copy scalars; the array
    pattern is irrefutable, arms stay in order)."""
    toks = src.toks
    n = 0
    i = lo
    while i < hi:
        t = toks[i]
        if (not _skipped(i)) and t.text == "[" and toks[i - 1].text in (",", "(") and i + 1 < hi:
            c = src.pairs[i]
            # inside a parenthesised pattern directly followed by `=>` ?
            j = c + 1
            while j < hi and toks[j].text == ")":
                j += 1
            inner = toks[i + 1:c]
            names_ok = all((x.kind == "ident" and x.text not in ("mut", "ref")) or x.text == "," for x in inner)
            if j < hi and toks[j].text == "=>" and toks[c + 1].text == ")" and names_ok and inner:
                names = [x.text for x in inner if x.kind == "ident"]
                tmp = "__a%d" % n
                n += 1
                e = _stmt_end(src, j + 1, hi)
                lets = " ".join("let %s = %s[%d];" % (nm, tmp, k) for k, nm in enumerate(names) if nm != "_")
                ed.replace(t.pos, toks[c].end, tmp, rule="R3 %s: array pattern `[%s]` in match arm" % (fname, ", ".join(names)))
                if toks[j + 1].text == "{":
                    ed.insert(toks[j + 1].end, " " + lets + " ", order=4)
                else:
                    ed.insert(toks[j + 1].pos, "{ " + lets + " ", order=-4)
                    ed.insert(toks[e - 1].end, " }", order=4)
                i = c + 1
                continue
        i += 1


F64_FIELDS = []   # set per function from the unit (`f64_fields`): struct fields of type f64


RULES = {"R18": rule_R18, "R17": rule_R17, "R3m": rule_R3m, "R13": rule_R13, "R12": rule_R12, "R2": rule_R2, "R9": rule_R9, "R1": rule_R1, "R3": rule_R3, "R7": rule_R7, "R8": rule_R8, "R10": rule_R10}
SKIP = []  # token ranges (s, e) in which rules must not fire (abstracted statements)


def _skipped(i):
    return any(s <= i < e for (s, e) in SKIP)


# --------------------------------------------------------------------------------------------
# loops
# --------------------------------------------------------------------------------------------

def find_loops(src, lo, hi):
    """Loops inside token range in source order: list of dicts(kw, in_idx, open, close)."""
    toks = src.toks
    loops = []
    i = lo
    while i < hi:
        t = toks[i]
        if t.kind == "ident" and t.text in ("for", "while", "loop"):
            if t.text == "for" and toks[i + 1].text == "<":
                i += 1
                continue
            # label?  'a: loop
            j = i + 1
            in_idx = None
            while j < hi:
                tj = toks[j]
                if tj.kind == "punct" and tj.text in "([":
                    j = src.pairs[j] + 1
                    continue
                if tj.kind == "ident" and tj.text == "in" and in_idx is None and t.text == "for":
                    in_idx = j
                if tj.kind == "punct" and tj.text == "{":
                    break
                j += 1
            else:
                raise Undecided("loop without body")
            loops.append(dict(kind=t.text, kw=i, in_idx=in_idx, open=j, close=src.pairs[j]))
        i += 1
    return loops


# --------------------------------------------------------------------------------------------
# function extraction
# --------------------------------------------------------------------------------------------

def extract_fn(src, loc, spec, ed):
    """Register edits for one fn item; return (lo_pos, hi_pos) of the text to emit."""
    toks = src.toks
    name = spec.get("label", spec["path"])
    kw = loc["kw"]
    brace = loc["brace"]
    if brace is None:
        raise Undecided("fn %s has no body" % name)
    close = src.pairs[brace]
    # R0: strip attributes, docs and visibility in front of `fn`
    lo_pos = toks[kw].pos
    prefix = spec.get("attrs", "")
    vis = spec.get("vis", "pub ")
    ed.insert(lo_pos, (prefix + "\n" if prefix else "") + vis, order=-5)
    # signature: name the return value
    # find '->' at depth 0 between kw and brace
    arrow = None
    where = None
    i = kw
    while i < brace:
        t = toks[i]
        if t.kind == "punct" and t.text in "([":
            i = src.pairs[i] + 1
            continue
        if t.kind == "punct" and t.text == "<" and toks[i - 1].kind == "ident" and arrow is None and toks[i-1].text == toks[kw+1].text:
            i = skip_generics(toks, i)
            continue
        if t.kind == "punct" and t.text == "->" and arrow is None:
            arrow = i
        if t.kind == "ident" and t.text == "where":
            where = i
        i += 1
    ret = spec.get("ret")
    if arrow is not None and ret:
        ty_lo = toks[arrow + 1].pos
        ty_hi = toks[(where if where is not None else brace) - 1].end
        ed.insert(ty_lo, "(%s: " % ret, order=0)
        ed.insert(ty_hi, ")", order=-1)
    # declared signature substitutions (logged)
    sig_lo, sig_hi = toks[kw].pos, toks[brace].pos
    for (pat, repl, why) in spec.get("sig_subst", []):
        sig = src.text[sig_lo:sig_hi]
        ms = list(re.finditer(pat, sig))
        if not ms:
            raise Undecided("lost anchor: signature pattern %r not found in %s" % (pat, name))
        for m in ms:
            ed.replace(sig_lo + m.start(), sig_lo + m.end(), m.expand(repl),
                       rule="SIG %s: %s" % (name, why))
    # R15: `mut self` receiver (rejected by this Verus) -> `self` rebound to a mutable local `self_`
    # at function entry; every `self` token of the body is renamed (Rust semantics of a by-value
    # mutable binding)
    r15 = None
    for i in range(kw, brace):
        if toks[i].text == "mut" and toks[i + 1].text == "self" and toks[i - 1].text == "(":
            r15 = i
    if r15 is not None:
        ed.replace(toks[r15].pos, toks[r15 + 1].pos, "", rule="R15 %s: `mut self` receiver rebound as local `self_`" % name)
        ed.insert(toks[brace].end, "\nlet mut self_ = self;\n", order=4)
        for i in range(brace + 1, close):
            if toks[i].kind == "ident" and toks[i].text == "self":
                ed.replace(toks[i].pos, toks[i].end, "self_")
    # contract goes right before the body brace
    contract = spec.get("contract", "").strip()
    if contract:
        ed.insert(toks[brace].pos, "\n    " + contract.replace("\n", "\n    ") + "\n", order=5)
    # slice tables (R6)
    abstracted = []
    del SKIP[:]
    if "table" in spec:
        apply_slice(src, ed, brace, close, spec["table"], name, spec.get("forbidden", ()))
        loops_all = find_loops(src, brace + 1, close)
        for k, tbl in spec.get("loop_tables", {}).items():
            if k >= len(loops_all):
                raise Undecided("lost anchor: loop #%d of %s" % (k, name))
            apply_slice(src, ed, loops_all[k]["open"], loops_all[k]["close"], tbl, "%s loop #%d" % (name, k), spec.get("forbidden", ()))
            abstracted.append(loops_all[k])
    # text replaced by a declared body substitution is not rewritten by the generic rules either
    _b_lo, _b_hi = toks[brace].end, toks[close].pos
    for (pat, repl, why) in spec.get("body_subst", []) + spec.get("body_subst_optional", []):
        for m in re.finditer(pat, src.text[_b_lo:_b_hi]):
            a, b = _b_lo + m.start(), _b_lo + m.end()
            ts = [i for i in range(brace + 1, close) if a <= toks[i].pos < b]
            if ts:
                SKIP.append((ts[0], ts[-1] + 1))
    # body rules (not inside abstracted statements: overlapping edits are rejected by Edits.apply)
    F64_FIELDS[:] = spec.get("f64_fields", [])
    for r in spec.get("rules", ["R17", "R3", "R1", "R9", "R12", "R13", "R10"]):
        RULES[r](src, ed, brace + 1, close, name)
    del SKIP[:]
    # entry text
    if spec.get("entry"):
        ed.insert(toks[brace].end, "\n" + spec["entry"] + "\n", order=5)
    # loops
    loops = find_loops(src, brace + 1, close)
    lspec = spec.get("loops", {})
    for k in lspec:
        if k >= len(loops):
            raise Undecided("lost anchor: loop #%d of %s (function has %d loops)" % (k, name, len(loops)))
    if "n_loops" in spec and spec["n_loops"] != len(loops):
        raise Undecided("lost anchor: %s has %d loops, contract table expects %d" %
                        (name, len(loops), spec["n_loops"]))
    for k, L in enumerate(loops):
        a = lspec.get(k)
        if not a:
            continue
        if a.get("kind") and a["kind"] != L["kind"]:
            raise Undecided("lost anchor: loop #%d of %s is `%s`, expected `%s`" % (k, name, L["kind"], a["kind"]))
        if a.get("before"):
            # start of the statement that contains the loop keyword
            s = _stmt_start(src, L["kw"], brace + 1)
            ed.insert(toks[s].pos, a["before"] + "\n", order=-3)
        if a.get("binder"):
            if L["in_idx"] is None:
                raise Undecided("loop #%d of %s is not a for loop" % (k, name))
            ed.insert(toks[L["in_idx"]].end, " %s:" % a["binder"], order=0)
        if a.get("head"):
            ed.insert(toks[L["open"]].pos, "\n" + a["head"] + "\n", order=5)
        if a.get("body_start"):
            ed.insert(toks[L["open"]].end, "\n" + a["body_start"] + "\n", order=5)
        if a.get("body_end"):
            ed.insert(toks[L["close"]].pos, "\n" + a["body_end"] + "\n", order=-5)
        if a.get("after"):
            ed.insert(toks[L["close"]].end, "\n" + a["after"] + "\n", order=5)
    # declared body substitutions (exact text, counted) -- used only for constructs with a stated
    # rule whose generic implementation is not worth a parser; each is logged with its rule id
    body_lo, body_hi = toks[brace].end, toks[close].pos
    for (pat, repl, why) in spec.get("body_subst", []):
        body = src.text[body_lo:body_hi]
        ms = list(re.finditer(pat, body))
        if not ms:
            raise Undecided("lost anchor: body pattern %r not found in %s" % (pat, name))
        for m in ms:
            ed.replace(body_lo + m.start(), body_lo + m.end(), m.expand(repl),
                       rule="%s %s" % (why, name))
    for (pat, repl, why) in spec.get("body_subst_optional", []):
        body = src.text[body_lo:body_hi]
        for m in re.finditer(pat, body):
            ed.replace(body_lo + m.start(), body_lo + m.end(), m.expand(repl), rule="%s %s" % (why, name))
    return lo_pos, toks[close].end


def extract_item(src, loc, spec, ed):
    """Extract a non-fn item (struct/enum/trait/impl) verbatim modulo declared substitutions."""
    toks = src.toks
    kw = loc["kw"]
    lo_pos = toks[kw].pos
    end_tok = loc["end"] - 1
    hi_pos = toks[end_tok].end
    name = spec.get("label", spec["path"])
    prefix = spec.get("attrs", "")
    ed.insert(lo_pos, (prefix + "\n" if prefix else "") + spec.get("vis", "pub "), order=-5)
    for (pat, repl, why) in spec.get("subst", []):
        body = src.text[lo_pos:hi_pos]
        ms = list(re.finditer(pat, body))
        if not ms:
            raise Undecided("lost anchor: pattern %r not found in %s" % (pat, name))
        for m in ms:
            ed.replace(lo_pos + m.start(), lo_pos + m.end(), m.expand(repl), rule="%s %s" % (why, name))
    if spec.get("pub_fields") and loc["brace"] is not None:
        # R0: make fields pub (struct with named fields only)
        b = loc["brace"]
        c = src.pairs[b]
        i = b + 1
        expect_field = True
        while i < c:
            t = toks[i]
            if t.kind == "punct" and t.text in "([{<":
                if t.text == "<":
                    i = skip_generics(toks, i)
                else:
                    i = src.pairs[i] + 1
                continue
            if expect_field and t.kind == "ident":
                if t.text != "pub":
                    ed.insert(t.pos, "pub ", order=-5)
                else:
                    # pub(crate) etc
                    if toks[i + 1].text == "(":
                        ed.replace(toks[i + 1].pos, toks[src.pairs[i + 1]].end, "")
                expect_field = False
            if t.kind == "punct" and t.text == ",":
                expect_field = True
            if t.text == "#":
                i = src.pairs[i + 1] + 1
                continue
            i += 1
    return lo_pos, hi_pos


def _extract_expr_closure(src, spec, ed, first, limit):
    """expression-bodied closure `|params| EXPR`: EXPR (up to the `,` / closing bracket that ends the
    closure at nesting depth 0) is emitted as the tail expression of a stand-alone fn"""
    toks = src.toks
    name = spec["as_fn"]
    j = first
    while j < limit:
        t = toks[j]
        if t.kind == "punct" and t.text in "([{":
            j = src.pairs[j] + 1
            continue
        if t.kind == "punct" and t.text in (",", ")", "]", "}", ";"):
            break
        j += 1
    last = j - 1
    if last < first:
        raise Undecided("lost anchor: empty closure body in %s" % name)
    for i in range(first, last + 1):
        if toks[i].kind == "ident" and toks[i].text in ("break", "continue"):
            raise Undecided("closure body of %s contains `%s`" % (name, toks[i].text))
        if toks[i].kind == "ident" and toks[i].text == "return" and not spec.get("allow_return"):
            raise Undecided("closure body of %s contains `return`" % name)
        if toks[i].kind == "punct" and toks[i].text == "?" and not spec.get("allow_return"):
            raise Undecided("closure body of %s contains `?`" % name)
    header = "pub fn %s%s(%s)%s" % (name, spec.get("generics", ""), spec["params"],
                                    (" -> (%s: %s)" % (spec.get("ret", "out"), spec["ret_type"])) if spec.get("ret_type") else "")
    contract = spec.get("contract", "").strip()
    ed.insert(toks[first].pos, header + ("\n    " + contract.replace("\n", "\n    ") + "\n" if contract else "\n")
              + "{\n" + (spec.get("entry", "") + "\n" if spec.get("entry") else ""), order=-5)
    if spec.get("wrap_expr"):
        # the expression is handed to a checking stub (its type may be one the contract cannot name)
        ed.insert(toks[first].pos, spec["wrap_expr"][0], order=-4)
        ed.insert(toks[last].end, spec["wrap_expr"][1], order=4)
    ed.insert(toks[last].end, "\n}", order=5)
    F64_FIELDS[:] = spec.get("f64_fields", [])
    del SKIP[:]
    e_lo, e_hi = toks[first].pos, toks[last].end
    for (pat, repl, why) in spec.get("body_subst", []):
        ms = list(re.finditer(pat, src.text[e_lo:e_hi]))
        if not ms:
            raise Undecided("lost anchor: body pattern %r not found in %s" % (pat, name))
        for m in ms:
            a, b = e_lo + m.start(), e_lo + m.end()
            ed.replace(a, b, m.expand(repl), rule="%s %s" % (why, name))
            ts = [i for i in range(first, last + 1) if a <= toks[i].pos < b]
            if ts:
                SKIP.append((ts[0], ts[-1] + 1))
    for r in spec.get("rules", ["R17", "R3", "R1", "R9", "R12", "R13", "R10"]):
        RULES[r](src, ed, first, last + 1, name)
    if spec.get("rename_self"):
        # R15: the receiver of the enclosing method is the parameter `self_` of the stand-alone fn
        for i in range(first, last + 1):
            if toks[i].kind == "ident" and toks[i].text == "self" and not _skipped(i):
                ed.replace(toks[i].pos, toks[i].end, "self_")
    del SKIP[:]
    ed.log.append("BLOCK %s: expression body of closure #%d (header %s) of `%s` emitted as fn %s(%s); the iterator chain it is passed to is not part of this unit" % (
        name, spec["closure"], spec.get("header_re", ""), spec["path"], name, spec["params"]))
    return toks[first].pos, toks[last].end


def _bind_header(spec, m):
    """closure parameter names are incidental: `$1`, `$2`.. in params / contract / entry stand for the
    names captured by the groups of header_re in the closure's parameter list"""
    if not m or not m.groups():
        return spec
    sp = dict(spec)
    for key in ("params", "contract", "entry"):
        if sp.get(key):
            txt = sp[key]
            for gi, g in enumerate(m.groups(), 1):
                if g is not None:
                    txt = txt.replace("$%d" % gi, g)
            sp[key] = txt
    return sp


def extract_block_as_fn(src, loc, spec, ed):
    """Loop-body / closure-body unit (DESIGN 3.3): emit the *real* text of loop #k's body (or of
    closure #k's body) of a function as a stand-alone fn whose parameters are the free variables,
    declared by the unit and type-checked by rustc inside Verus.  The header of the loop (what it
    iterates over) is dropped and must be covered by another obligation (stated in the unit)."""
    toks = src.toks
    name = spec["as_fn"]
    brace = loc["brace"]
    close = src.pairs[brace]
    if "loop" in spec:
        loops = find_loops(src, brace + 1, close)
        if "n_loops" in spec and spec["n_loops"] != len(loops):
            raise Undecided("lost anchor: %s has %d loops, table expects %d" % (spec["path"], len(loops), spec["n_loops"]))
        if spec["loop"] >= len(loops):
            raise Undecided("lost anchor: loop #%d of %s" % (spec["loop"], spec["path"]))
        L = loops[spec["loop"]]
        if spec.get("header_re"):
            hdr = " ".join(src.text[toks[L["kw"]].pos:toks[L["open"]].pos].split())
            if not re.search(spec["header_re"], hdr):
                raise Undecided("lost anchor: header of loop #%d of %s is `%s`" % (spec["loop"], spec["path"], hdr))
        b_open, b_close = L["open"], L["close"]
    elif "arm_re" in spec:
        # block-bodied match arm (or any `{` block) located by a pattern on the function's text that
        # ends with the block's opening brace
        body_lo = toks[brace].end
        ms = list(re.finditer(spec["arm_re"], src.text[body_lo:toks[close].pos]))
        if len(ms) <= spec.get("arm_index", 0) or (spec.get("arm_count") is not None and len(ms) != spec["arm_count"]):
            raise Undecided("lost anchor: arm pattern %r of %s (found %d)" % (spec["arm_re"], spec["path"], len(ms)))
        m_end = body_lo + ms[spec.get("arm_index", 0)].end()
        pos = m_end - 1
        b_open = None
        for i in range(brace + 1, close):
            if toks[i].pos == pos and toks[i].text == "{":
                b_open = i
        if b_open is None:
            # the pattern ends in front of the arm's body: a block, or an expression up to the `,`
            nxt = [i for i in range(brace + 1, close) if toks[i].pos >= m_end]
            if not nxt:
                raise Undecided("lost anchor: arm pattern %r of %s has no body" % (spec["arm_re"], spec["path"]))
            if toks[nxt[0]].text == "{":
                b_open = nxt[0]
            else:
                return _extract_expr_closure(src, dict(spec, closure=spec.get("arm_index", 0), header_re=spec["arm_re"]), ed, nxt[0], close)
        b_close = src.pairs[b_open]
    else:
        # closure ordinal: k-th `|..|` closure in the function body whose body is a block
        k = -1
        i = brace + 1
        b_open = None
        while i < close:
            t = toks[i]
            if t.kind == "punct" and t.text in ("|", "||") and (toks[i - 1].text in ("(", ",", "=", "move") ):
                j = i + 1
                if t.text == "|":
                    while toks[j].text != "|":
                        if toks[j].text in "([":
                            j = src.pairs[j]
                        j += 1
                    j += 1
                if spec.get("expr_closure") and toks[j].text != "{":
                    hdr = " ".join(src.text[t.pos:toks[j].pos].split())
                    hm = re.search(spec["header_re"], hdr) if spec.get("header_re") else None
                    if not spec.get("header_re") or hm:
                        k += 1
                        if k == spec["closure"]:
                            return _extract_expr_closure(src, _bind_header(spec, hm), ed, j, close)
                elif toks[j].text == "{" and not spec.get("expr_closure"):
                    hdr = " ".join(src.text[t.pos:toks[j].pos].split())
                    # ordinal counts block-bodied closures whose parameter list matches header_re
                    hm = re.search(spec["header_re"], hdr) if spec.get("header_re") else None
                    if not spec.get("header_re") or hm:
                        k += 1
                        if k == spec["closure"]:
                            b_open = j
                            spec = _bind_header(spec, hm)
                            break
            i += 1
        if b_open is None:
            raise Undecided("lost anchor: closure #%d of %s" % (spec["closure"], spec["path"]))
        b_close = src.pairs[b_open]
    # forbidden control flow out of the block
    depth_loops = find_loops(src, b_open + 1, b_close)
    inner = [(l["open"], l["close"]) for l in depth_loops]
    for i in range(b_open + 1, b_close):
        t = toks[i]
        if t.kind == "ident" and t.text in ("break", "continue") and not any(o < i < c for o, c in inner):
            if t.text == "continue" and "loop" in spec and spec.get("continue_as") and toks[i + 1].text == ";":
                # the block IS the body of the loop this `continue` belongs to: skipping the rest of the
                # iteration is leaving the stand-alone fn with its normal exit value
                ed.replace(t.pos, t.end, spec["continue_as"], rule="BLOCK %s: `continue` of the extracted loop -> `%s`" % (name, spec["continue_as"]))
                continue
            if not spec.get("allow_break"):
                raise Undecided("block of %s contains `%s`" % (name, t.text))
        if t.kind == "ident" and t.text == "return" and not spec.get("allow_return"):
            raise Undecided("block of %s contains `return`" % name)
        if t.kind == "punct" and t.text == "?" and not spec.get("allow_return"):
            raise Undecided("block of %s contains `?`" % name)
    header = "%spub fn %s%s(%s)%s" % ((spec.get("attrs") + "\n") if spec.get("attrs") else "", name,
                                   spec.get("generics", ""), spec["params"],
                                   (" -> (%s: %s)" % (spec.get("ret", "out"), spec["ret_type"])) if spec.get("ret_type") else "")
    contract = spec.get("contract", "").strip()
    ed.insert(toks[b_open].pos, header + ("\n    " + contract.replace("\n", "\n    ") + "\n" if contract else "\n"), order=-5)
    del SKIP[:]
    if "table" in spec:
        apply_slice(src, ed, b_open, b_close, spec["table"], name, spec.get("forbidden", ()))
        for k, tbl in spec.get("loop_tables", {}).items():
            if k >= len(depth_loops):
                raise Undecided("lost anchor: inner loop #%d of %s" % (k, name))
            apply_slice(src, ed, depth_loops[k]["open"], depth_loops[k]["close"], tbl, "%s loop #%d" % (name, k), spec.get("forbidden", ()))
    F64_FIELDS[:] = spec.get("f64_fields", [])
    for r in spec.get("rules", ["R17", "R3", "R1", "R9", "R12", "R13", "R10"]):
        RULES[r](src, ed, b_open + 1, b_close, name)
    del SKIP[:]
    if spec.get("rename_self"):
        # R15: a block of a method refers to the receiver; in the stand-alone fn it is the parameter `self_`
        for i in range(b_open + 1, b_close):
            if toks[i].kind == "ident" and toks[i].text == "self" and not _skipped(i):
                ed.replace(toks[i].pos, toks[i].end, "self_")
    if spec.get("entry"):
        ed.insert(toks[b_open].end, "\n" + spec["entry"] + "\n", order=5)
    if spec.get("exit"):
        ed.insert(toks[b_close].pos, "\n" + spec["exit"] + "\n", order=-5)
    if spec.get("before_tail"):
        # in front of the block's tail expression (its last top-level statement, which has no `;`)
        st = split_statements(src, b_open, b_close)
        if not st or toks[st[-1][1] - 1].text == ";":
            raise Undecided("lost anchor: block of %s has no tail expression" % name)
        ed.insert(toks[st[-1][0]].pos, spec["before_tail"] + "\n", order=-3)
    if spec.get("wrap_tail"):
        # the block's value becomes WRAP(value): used when the block leaves early with `?` / `return Err`
        # (so the stand-alone fn returns a Result) but its own value is the Ok payload
        st = split_statements(src, b_open, b_close)
        if not st or toks[st[-1][1] - 1].text == ";":
            raise Undecided("lost anchor: block of %s has no tail expression" % name)
        ed.insert(toks[st[-1][0]].pos, spec["wrap_tail"][0], order=-2)
        ed.insert(toks[st[-1][1] - 1].end, spec["wrap_tail"][1], order=4)
    lspec = spec.get("loops", {})
    for kk in lspec:
        if kk >= len(depth_loops):
            raise Undecided("lost anchor: inner loop #%d of %s" % (kk, name))
    for kk, L2 in enumerate(depth_loops):
        a = lspec.get(kk)
        if not a:
            continue
        if a.get("kind") and a["kind"] != L2["kind"]:
            raise Undecided("lost anchor: inner loop #%d of %s is `%s`" % (kk, name, L2["kind"]))
        if a.get("before"):
            s0 = _stmt_start(src, L2["kw"], b_open + 1)
            ed.insert(toks[s0].pos, a["before"] + "\n", order=-3)
        if a.get("binder"):
            ed.insert(toks[L2["in_idx"]].end, " %s:" % a["binder"], order=0)
        if a.get("head"):
            ed.insert(toks[L2["open"]].pos, "\n" + a["head"] + "\n", order=5)
        if a.get("body_start"):
            ed.insert(toks[L2["open"]].end, "\n" + a["body_start"] + "\n", order=5)
        if a.get("body_end"):
            ed.insert(toks[L2["close"]].pos, "\n" + a["body_end"] + "\n", order=-5)
        if a.get("after"):
            ed.insert(toks[L2["close"]].end, "\n" + a["after"] + "\n", order=5)
    body_lo, body_hi = toks[b_open].end, toks[b_close].pos
    for (pat, repl, why) in spec.get("body_subst", []):
        body = src.text[body_lo:body_hi]
        ms = list(re.finditer(pat, body))
        if not ms:
            raise Undecided("lost anchor: body pattern %r not found in %s" % (pat, name))
        for m in ms:
            ed.replace(body_lo + m.start(), body_lo + m.end(), m.expand(repl), rule="%s %s" % (why, name))
    ed.log.append("BLOCK %s: body of %s #%d of `%s` emitted as fn %s(%s); its header is not part of this unit" % (
        name, "loop" if "loop" in spec else ("arm" if "arm_re" in spec else "closure"), spec.get("loop", spec.get("closure", spec.get("arm_index", 0))), spec["path"], name, spec["params"]))
    return toks[b_open].pos, toks[b_close].end


# --------------------------------------------------------------------------------------------
# slice units (R6): statement tables
# --------------------------------------------------------------------------------------------

_BLOCK_START = ("for", "while", "loop", "if", "match", "unsafe")


def split_statements(src, open_idx, close_idx):
    """Top-level statements of the block toks[open_idx] '{' .. toks[close_idx] '}' as (s, e) token
    ranges (e exclusive, including the trailing ';' when present)."""
    toks = src.toks
    out = []
    i = open_idx + 1
    while i < close_idx:
        s = i
        first = toks[i]
        is_block_stmt = first.kind == "ident" and first.text in _BLOCK_START
        j = i
        while j < close_idx:
            t = toks[j]
            if t.kind == "punct" and t.text in "([":
                j = src.pairs[j] + 1
                continue
            if t.kind == "punct" and t.text == "{":
                j = src.pairs[j] + 1
                if is_block_stmt:
                    # `if .. {} else {}` chains continue
                    if j < close_idx and toks[j].kind == "ident" and toks[j].text == "else":
                        j += 1
                        continue
                    # a trailing `;` after the block belongs to it; `.method()` after a block makes it an expression
                    if j < close_idx and toks[j].text == ";":
                        j += 1
                        break
                    if j < close_idx and toks[j].text in (".", "?"):
                        is_block_stmt = False
                        continue
                    break
                continue
            if t.kind == "punct" and t.text == ";":
                j += 1
                break
            j += 1
        out.append((s, j))
        i = j
    return out


def apply_slice(src, ed, open_idx, close_idx, table, what, forbidden=()):
    """Classify every top-level statement of a block by the unit's table.  Rows are
    (regex on the statement's whitespace-normalised text, "keep") or (regex, ("abstract", replacement)).
    Every statement must match exactly one row; abstract statements must not leave the block and
    must not mention a forbidden identifier.  Returns the list of classifications (for evidence)."""
    toks = src.toks
    res = []
    fired = set()
    for (s, e) in split_statements(src, open_idx, close_idx):
        text = " ".join(src.text[toks[s].pos:toks[e - 1].end].split())
        hits = [(i, row, re.match(row[0], text)) for i, row in enumerate(table) if row[1] != "keep" and re.match(row[0], text)]
        if len(hits) > 1:
            raise Undecided("slice %s: statement `%s...` matched %d abstraction rows" % (what, text[:60], len(hits)))
        if not hits:
            # default: the statement is KEPT verbatim and goes to the verifier as it is
            res.append(("keep", text[:70]))
            continue
        i, row, mobj = hits[0]
        fired.add(i)
        kind, repl = row[1]
        if "\\" in repl:
            repl = mobj.expand(repl)   # identifiers captured from the real statement are passed through
        assert kind in ("abstract", "abstract_break", "abstract_try", "abstract_exits")
        inner_loops = [(l["open"], l["close"]) for l in find_loops(src, s, e)] if kind == "abstract_exits" else []
        for k in range(s, e):
            t = toks[k]
            if kind == "abstract_break" and t.kind == "ident" and t.text == "break" and "break" in repl:
                continue
            if kind == "abstract_exits":
                # the statement may leave the FUNCTION early, but only with an error: every `return` is
                # `return Err(..)`, `?` propagates an Err; the replacement is `CALL?;` on a stub returning
                # Result<(), E> (it errs exactly when the statement would have left). break / continue
                # are allowed only inside the statement's own loops.
                if t.kind == "ident" and t.text == "return":
                    if not (toks[k + 1].text == "Err" and toks[k + 2].text == "("):
                        raise Undecided("slice %s: abstract statement `%s...` returns something other than an Err" % (what, text[:40]))
                    continue
                if t.kind == "punct" and t.text == "?":
                    continue
                if t.kind == "ident" and t.text in ("break", "continue"):
                    if not any(o < k < c for o, c in inner_loops):
                        raise Undecided("slice %s: abstract statement `%s...` contains `%s`" % (what, text[:40], t.text))
                    continue
                if t.kind == "ident" and t.text in forbidden:
                    raise Undecided("slice %s: abstract statement `%s...` mentions `%s`" % (what, text[:40], t.text))
                continue
            if t.kind == "ident" and t.text in ("break", "continue", "return"):
                raise Undecided("slice %s: abstract statement `%s...` contains `%s`" % (what, text[:40], t.text))
            if t.kind == "punct" and t.text == "?":
                # "abstract_try": ONE `?`, the last token in front of the `;`, kept by the replacement
                # (the statement's only early exit stays where it is)
                if not (kind == "abstract_try" and k == e - 2 and toks[e - 1].text == ";" and repl.rstrip().endswith("?;")):
                    raise Undecided("slice %s: abstract statement `%s...` contains `?`" % (what, text[:40]))
            if t.kind == "ident" and t.text in forbidden:
                raise Undecided("slice %s: abstract statement `%s...` mentions `%s`" % (what, text[:40], t.text))
        if kind == "abstract_exits" and not repl.rstrip().endswith("?;"):
            raise Undecided("slice %s: abstract_exits replacement must end in `?;`" % what)
        ed.replace(toks[s].pos, toks[e - 1].end, repl, rule="R6 %s: abstracted `%s...`" % (what, text[:50]))
        SKIP.append((s, e))
        res.append(("abstract", text[:70]))
    for i, row in enumerate(table):
        if row[1] != "keep" and i not in fired and not (len(row) > 2 and row[2] == "optional"):
            raise Undecided("lost anchor: slice %s: no statement matches abstraction row %r" % (what, row[0][:60]))
    return res
