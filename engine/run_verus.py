"""Build one Verus file per unit from the working copy and run the verifier on it."""
import importlib.util
import json
import os
import re
import subprocess
import time

from rustlex import Source, LexError
import verus_extract as vx
from verus_extract import Undecided, Edits

HERE = os.path.dirname(os.path.abspath(__file__))
VERIF = os.path.dirname(HERE)
UNITS = os.path.join(VERIF, "contracts", "verus", "units")
PRELUDE = os.path.join(VERIF, "contracts", "verus", "prelude")

HEADER = """#![feature(sized_hierarchy)]
#![feature(allocator_api)]
#![allow(unused_imports, unused_variables, dead_code, unused_mut, unused_parens, unused_braces, non_snake_case)]
use vstd::prelude::*;
use vstd::std_specs::ops::*;
use vstd::std_specs::cmp::*;
use vstd::float::*;
use vstd::std_specs::iter::IteratorSpec;
verus! {
"""

CANARY = """
// vacuity canary: must be REJECTED by the verifier (an inconsistent axiom set would accept it)
pub proof fn __canary_must_fail()
    ensures false, // @ob __canary
{
    CANARY_USE
}
"""

FOOTER = "\n} // verus!\nfn main() {}\n"

# messages that mean "an obligation was not discharged" (everything else is a tool problem)
VERIF_FAIL = [
    "postcondition not satisfied", "precondition not satisfied", "invariant not satisfied",
    "assertion failed", "possible arithmetic underflow/overflow", "possible division by zero",
    "decreases not satisfied", "could not prove termination", "index out of bounds",
    "possible bit shift underflow/overflow", "loop invariant not satisfied", "unreachable",
    "recommendation not met", "assertion failed in auto proof", "cannot show invariant holds",
    "failed this postcondition", "unwrap", "call to non-static", "invariant not satisfied before loop",
    "invariant not satisfied at end of loop body", "loop ensures not satisfied", "possible",
    "unable to prove post-condition of closure", "unable to prove pre-condition of closure",
]
TOOL_LIMIT = ["rlimit", "Resource limit", "timed out", "solver", "panicked", "internal error"]


import threading
_BUILD_LOCK = threading.Lock()


def load_unit(name):
    path = os.path.join(UNITS, name + ".py")
    spec = importlib.util.spec_from_file_location("unit_" + name, path)
    mod = importlib.util.module_from_spec(spec)
    spec.loader.exec_module(mod)
    return mod.UNIT


def _read(p):
    with open(p) as f:
        return f.read()


def build_unit(unit, workcopy, dropped=()):
    """Return (text, rewrite_log, fn_obligation_map, items_under_contract)."""
    out = [HEADER]
    log = []
    sources = {}
    fn_ob = {}
    under_contract = []
    helpers = []
    lost = []
    for frag in unit.get("prelude", []):
        out.append("// ---- prelude fragment: %s ----\n" % frag)
        out.append(_read(os.path.join(PRELUDE, frag)))
        out.append("\n")

    def get_src(rel):
        if rel not in sources:
            p = os.path.join(workcopy, rel)
            if not os.path.exists(p):
                raise Undecided("lost anchor: file %s missing" % rel)
            try:
                sources[rel] = Source(_read(p))
            except LexError as e:
                raise Undecided("cannot lex %s: %s" % (rel, e))
        return sources[rel]

    def emit_fn(src, spec, base_path=None):
        path = spec["path"] if base_path is None else base_path + " / " + spec["path"]
        loc = vx.locate(src, path)
        ed = Edits(src.text)
        lo, hi = vx.extract_fn(src, loc, dict(spec, label=path), ed)
        log.extend(ed.log)
        if spec.get("obligation"):
            fn_ob[path.split("fn ")[-1].strip()] = spec["obligation"]
        if spec.get("contract") or spec.get("loops") or spec.get("table"):
            under_contract.append("%s :: %s" % (spec.get("file", ""), path))
        return ed.apply(lo, hi)

    for (rel, pat) in unit.get("expect", []):
        p = os.path.join(workcopy, rel)
        if not os.path.exists(p) or not re.search(pat, _read(p)):
            raise Undecided("lost anchor: %s no longer matches the restated declaration %r" % (rel, pat))
    for item in unit["items"]:
        if "raw" in item:
            out.append(item["raw"].rstrip() + "\n\n")
            continue
        src = get_src(item["file"])
        kind = item["path"].split("/")[-1].strip().split(" ")[0]
        out.append("// ---- extracted from %s: %s ----\n" % (item["file"], item["path"]))
        if kind == "fn" and ("loop" in item or "closure" in item or "arm_re" in item):
            loc = vx.locate(src, item["path"])
            ed = Edits(src.text)
            try:
                lo, hi = vx.extract_block_as_fn(src, loc, item, ed)
            except Undecided as e:
                if not item.get("optional_item"):
                    # a BLOCK item whose anchor is lost is a stand-alone fn: the rest of the unit is still
                    # verified; a failure there stands, otherwise the unit is undecided for this reason
                    lost.append(str(e))
                    log.append("LOST block %s (%s): the other items of the unit are still verified" % (item.get("as_fn"), str(e)[:160]))
                    out.pop()
                    continue
                # an OPTIONAL block (e.g. a closure that a variant of the code writes inline): its obligation
                # is then carried by the enclosing function, whose text is taken verbatim where the block was
                log.append("OPTIONAL block %s not present (%s): skipped" % (item.get("as_fn"), str(e)[:120]))
                out.pop()
                continue
            log.extend(ed.log)
            if item.get("obligation"):
                fn_ob[item["as_fn"]] = item["obligation"]
            under_contract.append("%s :: %s (%s #%d)" % (item["file"], item["path"], "loop" if "loop" in item else ("arm" if "arm_re" in item else "closure"), item.get("loop", item.get("closure", item.get("arm_index", 0)))))
            out.append(ed.apply(lo, hi) + "\n\n")
        elif kind == "fn":
            out.append(emit_fn(src, item) + "\n\n")
        elif kind in ("impl", "trait") and "members" in item:
            # several impl blocks may share a header: take the one that contains the first member
            loc = vx.locate(src, item["path"] + " / " + item["members"][0]["path"])["parents"][0]
            toks = src.toks
            header = src.text[toks[loc["kw"]].pos:toks[loc["brace"]].end]
            for (pat, repl, why) in item.get("header_subst", []):
                if not re.search(pat, header):
                    raise Undecided("lost anchor: header pattern %r in %s" % (pat, item["path"]))
                header = re.sub(pat, repl, header)
                log.append("%s %s" % (why, item["path"]))
            out.append((item.get("attrs", "") + "\n" if item.get("attrs") else "") + header + "\n")
            # associated type items of the impl are real code: emit them verbatim
            b = loc["brace"]
            for (s0, e0) in vx._top_level_items(src, b + 1, src.pairs[b]):
                kw0, word0 = vx._item_keyword(src, s0, e0)
                if word0 == "type":
                    out.append("    " + src.text[toks[kw0].pos:toks[e0 - 1].end] + "\n")
            if item.get("ghost_members"):
                out.append(item["ghost_members"].rstrip() + "\n")
            for m in item["members"]:
                m2 = dict(m)
                m2.setdefault("file", item["file"])
                m2.setdefault("vis", "")
                out.append(emit_fn(src, m2, base_path=item["path"]) + "\n")
            # functions of the impl that the unit does not know (added by a later change): emitted
            # verbatim so that callers still compile; a `&mut self` helper gets the unit's CANDIDATE
            # postcondition (Houdini style): kept if the helper itself verifies it, dropped otherwise
            if item.get("helper_candidate") is not None:
                known = {m["path"].split("fn ")[-1].strip() for m in item["members"]}
                for (s0, e0) in vx._top_level_items(src, b + 1, src.pairs[b]):
                    kw0, word0 = vx._item_keyword(src, s0, e0)
                    if word0 != "fn":
                        continue
                    fname = toks[kw0 + 1].text
                    if fname in known:
                        continue
                    sig = src.text[toks[kw0].pos:toks[e0 - 1].end].split("{")[0]
                    cand = item["helper_candidate"] if ("&mut self" in sig and fname not in dropped) else ""
                    helpers.append(fname)
                    log.append("HELPER %s: uncontracted fn `%s` of `%s` emitted verbatim%s" % (item["path"], fname, item["path"], " with candidate postcondition" if cand else ""))
                    out.append(emit_fn(src, dict(path="fn " + fname, file=item["file"], vis="", contract=cand, body_subst_optional=item.get("helper_body_subst", [])), base_path=item["path"]) + "\n")
            out.append("}\n\n")
        else:
            loc = vx.locate(src, item["path"])
            ed = Edits(src.text)
            lo, hi = vx.extract_item(src, loc, item, ed)
            log.extend(ed.log)
            out.append(ed.apply(lo, hi) + "\n\n")
    canary = CANARY.replace("CANARY_USE", unit.get("canary_use", ""))
    out.append(canary)
    out.append(FOOTER)
    build_unit.helpers = helpers
    build_unit.lost = lost
    return "".join(out), log, fn_ob, under_contract


_err_re = re.compile(r"^(error|warning|note)(\[[A-Z0-9]+\])?: (.*)$")
_loc_re = re.compile(r"^\s*--> (.*?):(\d+):(\d+)")
_gutter_re = re.compile(r"^\s*(\d+) \|")


def parse_stderr(stderr):
    """Split into error blocks: list of dict(level,msg,lines=[line numbers mentioned],text)."""
    blocks, cur = [], None
    for line in stderr.splitlines():
        m = _err_re.match(line)
        if m:
            cur = dict(level=m.group(1), msg=m.group(3), lines=[], text=[line])
            blocks.append(cur)
            continue
        if cur is None:
            continue
        cur["text"].append(line)
        m = _loc_re.match(line)
        if m:
            cur["lines"].append(int(m.group(2)))
        m = _gutter_re.match(line)
        if m:
            cur["lines"].append(int(m.group(1)))
    for b in blocks:
        b["text"] = "\n".join(b["text"])
    return blocks


def _run_unit_once(name, workcopy, outdir, timeout=600, rlimit=None, dropped=(), drop_cands=()):
    """Run one unit. Returns dict(status=pass|fail|undecided, ...)."""
    t0 = time.time()
    res = dict(unit=name, status="undecided", failed=[], reason="", obligations=0, discharged=0,
               functions=[], rewrite_log=[], solver_ms=0, wall_s=0.0, file=None, under_contract=[],
               assumptions=[])
    try:
        unit = load_unit(name)
        res["assumptions"] = list(unit.get("assumptions", []))
        res["property_obligations"] = unit.get("obligations", {})
        # extraction keeps per-unit state in module globals (SKIP, F64_FIELDS, build_unit.helpers):
        # units are extracted one at a time, the verifier runs (the slow part) overlap
        with _BUILD_LOCK:
            text, log, fn_ob, under = build_unit(unit, workcopy, dropped)
            res["helpers"] = list(getattr(build_unit, "helpers", []))
            res["lost_items"] = list(getattr(build_unit, "lost", []))
    except Undecided as e:
        res["reason"] = str(e)
        res["wall_s"] = time.time() - t0
        return res
    if drop_cands:
        # Houdini on CANDIDATE invariant clauses (lines tagged `// @cand NAME`): proof artefacts of the
        # annotation, not claims -- a clause that is not inductive for the code at hand is left out and
        # the real obligations (preconditions of the bound callees, postconditions) are checked without it
        text = "\n".join(("" if any(("// @cand %s" % c) in ln for c in drop_cands) else ln) for ln in text.split("\n"))
        log = log + ["CANDIDATE invariant clause dropped (not inductive for this code): %s" % c for c in sorted(drop_cands)]
    res["rewrite_log"] = log
    res["under_contract"] = under
    os.makedirs(outdir, exist_ok=True)
    path = os.path.join(outdir, name + ".rs")
    with open(path, "w") as f:
        f.write(text)
    res["file"] = path
    cmd = ["verus", path, "--output-json", "--time", "--multiple-errors", "20"]
    if rlimit:
        cmd += ["--rlimit", str(rlimit)]
    res["cmd"] = " ".join(cmd)
    try:
        p = subprocess.run(cmd, capture_output=True, text=True, timeout=timeout, cwd=outdir)
    except subprocess.TimeoutExpired:
        res["reason"] = "verus timed out after %ds" % timeout
        res["wall_s"] = time.time() - t0
        return res
    res["wall_s"] = time.time() - t0
    with open(os.path.join(outdir, name + ".stderr"), "w") as f:
        f.write(p.stderr)
    with open(os.path.join(outdir, name + ".json"), "w") as f:
        f.write(p.stdout)
    try:
        js = json.loads(p.stdout)
    except Exception:
        res["reason"] = "verus produced no JSON: " + p.stderr[-2000:]
        return res
    vr = js.get("verification-results", {})
    blocks = [b for b in parse_stderr(p.stderr) if b["level"] == "error"]
    blocks = [b for b in blocks if not b["msg"].startswith("aborting due to")]
    compile_err = [b for b in blocks if re.match(r"^E\d+", (re.search(r"\[(E\d+)\]", b["text"].splitlines()[0]) or [None, ""])[1] or "")]
    if vr.get("encountered-vir-error") or "verified" not in vr or compile_err or \
            (vr.get("verified", 0) == 0 and vr.get("errors", 0) == 0 and blocks):
        res["reason"] = "verus front end rejected the extracted text: " + \
            "; ".join(b["msg"] for b in blocks[:3])
        res["stderr_tail"] = p.stderr[-3000:]
        return res
    # per function results
    funcs = []
    try:
        for mod in js["times-ms"]["smt"]["smt-run-module-times"]:
            for fb in mod.get("function-breakdown", []):
                funcs.append(dict(function=fb["function"].split("::", 1)[-1], mode=fb.get("mode:"),
                                  ms=fb.get("time-micros", 0) / 1000.0, success=fb["success"]))
        res["solver_ms"] = js["times-ms"]["smt"]["total"]
    except Exception:
        pass
    res["functions"] = funcs
    lines = text.splitlines()
    tag_re = re.compile(r"// @ob (\S+)")

    def tags_for(b):
        tags = []
        for ln in b["lines"]:
            if 1 <= ln <= len(lines):
                m = tag_re.search(lines[ln - 1])
                if m and m.group(1) not in tags:
                    tags.append(m.group(1))
        return tags

    def enclosing_fn(b):
        # nearest preceding "fn NAME" line of the first mentioned line
        for ln in b["lines"][:1]:
            for k in range(min(ln, len(lines)) - 1, -1, -1):
                m = re.search(r"\bfn\s+([A-Za-z_][A-Za-z0-9_]*)", lines[k])
                if m and not lines[k].lstrip().startswith("//"):
                    return m.group(1)
        return None

    def contract_tags(b):
        for ln in b["lines"][:1]:
            for k in range(min(ln, len(lines)) - 1, -1, -1):
                m = re.search(r"\bfn\s+([A-Za-z_][A-Za-z0-9_]*)", lines[k])
                if m and not lines[k].lstrip().startswith("//"):
                    out = []
                    for j in range(k, min(k + 120, len(lines))):
                        if lines[j].strip() == "{" or (j > k and lines[j].rstrip().endswith("{") and "ensures" not in lines[j] and "requires" not in lines[j] and "=>" not in lines[j] and "match" not in lines[j] and "if " not in lines[j]):
                            break
                        t = tag_re.search(lines[j])
                        if t and t.group(1) not in out and t.group(1) != "__canary":
                            out.append(t.group(1))
                    return out
        return []

    canary_failed = False
    failures = []
    tool_problem = None
    for b in blocks:
        tags = tags_for(b)
        fn = enclosing_fn(b)
        if "__canary" in tags or fn == "__canary_must_fail":
            canary_failed = True
            continue
        if any(k in b["msg"] for k in TOOL_LIMIT) and not any(k in b["msg"] for k in VERIF_FAIL[:8]):
            tool_problem = b["msg"]
            continue
        if not any(k in b["msg"] for k in VERIF_FAIL):
            tool_problem = "unrecognised verifier message: " + b["msg"]
            continue
        ob = [t for t in tags if t != "__canary"]
        if not ob:
            # no tagged clause among the reported lines (a failed precondition of a callee, an overflow,
            # an assert of the annotation): attribute to the obligations named in the CONTRACT of the
            # enclosing function (several extracted functions may share a name, e.g. `new`)
            ob = contract_tags(b)
        if not ob:
            ob = [fn_ob.get(fn, "%s.%s" % (name, fn))]
        cands = []
        for ln in b["lines"]:
            if 1 <= ln <= len(lines):
                cm = re.search(r"// @cand (\S+)", lines[ln - 1])
                if cm:
                    cands.append(cm.group(1))
        failures.append(dict(obligations=ob, function=fn, message=b["msg"], detail=b["text"], cands=cands))
    n_funcs = len([f for f in funcs if f["function"] != "__canary_must_fail"])
    res["obligations"] = vr.get("verified", 0) + vr.get("errors", 0) - 1  # minus the canary
    res["discharged"] = vr.get("verified", 0)
    if not canary_failed:
        res["status"] = "undecided"
        res["reason"] = "vacuity canary `ensures false` was NOT rejected: axiom set inconsistent or verifier did not run"
        return res
    if tool_problem and not failures:
        res["reason"] = tool_problem
        return res
    if failures:
        res["status"] = "fail"
        res["failed"] = failures
        return res
    if res.get("lost_items"):
        # nothing failed in what could still be verified, but part of the unit lost its anchor
        res["reason"] = res["lost_items"][0]
        return res
    if vr.get("errors", 0) != 1:
        res["reason"] = "unexpected error count %s" % vr.get("errors")
        return res
    if res["obligations"] <= 0:
        res["reason"] = "no obligations generated"
        return res
    res["status"] = "pass"
    return res


def run_unit(name, workcopy, outdir, timeout=600, rlimit=None):
    """Run a unit; if an uncontracted helper (a function the unit does not know) fails its CANDIDATE
    postcondition, drop that candidate and run once more (Houdini): a helper that does establish the
    candidate keeps callers provable, one that does not makes the caller's obligation fail."""
    r = _run_unit_once(name, workcopy, outdir, timeout, rlimit)
    drop, bad = set(), set()
    for _round in range(6):
        fl = r.get("failed", [])
        if r["status"] != "fail" or not fl:
            break
        helpers = set(r.get("helpers", []))
        # every failure must be a CANDIDATE failure (a helper's candidate postcondition, or a clause tagged
        # `// @cand`): candidates are proof artefacts, not claims; anything else is a real failure
        if not all(f.get("cands") or f["function"] in helpers for f in fl):
            break
        nd = {c for f in fl for c in f.get("cands", [])} - drop
        nb = {f["function"] for f in fl if f["function"] in helpers} - bad
        if not nd and not nb:
            break
        drop |= nd
        bad |= nb
        r = _run_unit_once(name, workcopy, outdir, timeout, rlimit, dropped=tuple(sorted(bad)), drop_cands=tuple(sorted(drop)))
        if bad:
            r["rewrite_log"] = r.get("rewrite_log", []) + ["HELPER candidates dropped for: %s" % ", ".join(sorted(bad))]
    return r


if __name__ == "__main__":
    import sys
    wc = sys.argv[2] if len(sys.argv) > 2 else "/repo"
    r = run_unit(sys.argv[1], wc, os.path.expanduser("~/.cache/cfr-verif/dev"))
    fails = r.pop("failed")
    print(json.dumps({k: v for k, v in r.items() if k not in ("functions",)}, indent=1))
    for f in fails:
        print("FAILED", f["obligations"], f["function"], f["message"])
        print(f["detail"])
    if r.get("stderr_tail"):
        print(r["stderr_tail"])
