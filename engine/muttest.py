"""Run ./check for a property against a patched scratch copy of /repo (never touches /repo or /verif/evidence)."""
import os, subprocess, sys, shutil, tempfile
pid, patch = sys.argv[1], sys.argv[2]
tier = sys.argv[3] if len(sys.argv) > 3 else "quick"
cache = os.path.expanduser("~/.cache/cfr-verif")
d = tempfile.mkdtemp(prefix="mutrepo-", dir=cache)
out = tempfile.mkdtemp(prefix="mutout-", dir=cache)
try:
    subprocess.run(["rsync", "-a", "--exclude", "/target", "--exclude", "/.git", "/repo/", d + "/"], check=True)
    r = subprocess.run(["patch", "-p1", "-s", "-i", os.path.abspath(patch)], cwd=d)
    if r.returncode != 0:
        print("PATCH FAILED"); sys.exit(3)
    env = dict(os.environ, VERIF_REPO=d, VERIF_OUT=out)
    p = subprocess.run(["/verif/check", pid, "--tier", tier], env=env, capture_output=True, text=True)
    print(p.stdout[-3000:]); print(p.stderr[-1500:])
    print("exit", p.returncode)
    for root, _, files in os.walk(os.path.join(out, "replays")):
        for f in files:
            print("--- replay", f); print(open(os.path.join(root, f)).read()[:1500])
finally:
    shutil.rmtree(d, ignore_errors=True); shutil.rmtree(out, ignore_errors=True)
