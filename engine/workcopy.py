"""Scratch copies of /repo's current working tree (outside /repo, /verif and /tmp)."""
import os
import shutil
import subprocess
import tempfile

REPO = os.environ.get("VERIF_REPO", "/repo")
CACHE = os.path.expanduser(os.environ.get("VERIF_CACHE", "~/.cache/cfr-verif"))


def make(tag):
    """Copy the working tree (no target/, no .git/) to a fresh directory and return its path."""
    os.makedirs(CACHE, exist_ok=True)
    d = tempfile.mkdtemp(prefix="run-%s-" % tag, dir=CACHE)
    subprocess.run(["rsync", "-a", "--exclude", "/target", "--exclude", "/.git", REPO + "/", d + "/"],
                   check=True)
    return d


def remove(d):
    if d and d.startswith(CACHE) and os.path.isdir(d):
        shutil.rmtree(d, ignore_errors=True)


def shared_target():
    """A cargo target dir shared by Kani runs so that dependencies are compiled once."""
    t = os.path.join(CACHE, "kani-target")
    os.makedirs(t, exist_ok=True)
    return t
