"""dev helper: python3 mutpatch.py <patch> <unit> [<unit>...] -- run Verus units on a patched copy"""
import sys, os, shutil, tempfile, subprocess
import run_verus
patch = os.path.abspath(sys.argv[1])
d = tempfile.mkdtemp(prefix="mp-", dir=os.path.expanduser("~/.cache/cfr-verif"))
try:
    subprocess.run(["rsync", "-a", "--exclude", "/target", "--exclude", "/.git", "/repo/", d + "/"], check=True)
    if subprocess.run(["patch", "-p1", "-s", "-i", patch], cwd=d).returncode: print("PATCH FAILED"); sys.exit(3)
    for unit in sys.argv[2:]:
        r = run_verus.run_unit(unit, d, d + "/out")
        print(unit, "->", r["status"], r["reason"][:300], [(f["obligations"], f["message"]) for f in r["failed"]])
finally:
    shutil.rmtree(d, ignore_errors=True)
