"""dev helper: python3 mutunit.py <unit> <relative file> <old> <new>  -- run a unit on a textually mutated copy"""
import sys, os, shutil, tempfile, subprocess, json
import run_verus
unit, rel, old, new = sys.argv[1:5]
d = tempfile.mkdtemp(prefix="mu-", dir=os.path.expanduser("~/.cache/cfr-verif"))
try:
    subprocess.run(["rsync", "-a", "--exclude", "/target", "--exclude", "/.git", "/repo/", d + "/"], check=True)
    p = os.path.join(d, rel); s = open(p).read()
    n = s.count(old)
    if n == 0: print("PATTERN NOT FOUND"); sys.exit(3)
    open(p, "w").write(s.replace(old, new))
    r = run_verus.run_unit(unit, d, d + "/out")
    print(n, "site(s);", r["status"], r["reason"][:200], [(f["obligations"], f["message"]) for f in r["failed"]])
finally:
    shutil.rmtree(d, ignore_errors=True)
