"""./check <ID> --tier quick|thorough : decide one property with Engine V (Verus) and Engine K (Kani)."""
import argparse
import importlib.util
import json
import os
import re
import shutil
import subprocess
import sys
import time
from concurrent.futures import ThreadPoolExecutor

HERE = os.path.dirname(os.path.abspath(__file__))
VERIF = os.path.dirname(HERE)
OUT = os.environ.get("VERIF_OUT", VERIF)   # where evidence/ and replays/ are written (tests of the machinery redirect it)
sys.path.insert(0, HERE)

import workcopy
import run_verus
import run_kani
from verus_extract import Undecided


def load_props():
    spec = importlib.util.spec_from_file_location("props", os.path.join(VERIF, "contracts", "properties.py"))
    mod = importlib.util.module_from_spec(spec)
    spec.loader.exec_module(mod)
    return mod.PROPS


def load_known():
    p = os.path.join(VERIF, "known_findings.json")
    if not os.path.exists(p):
        return []
    return json.load(open(p)).get("findings", [])


def scan_assumptions(text):
    """Mechanical scan of a generated Verus file for everything that is assumed rather than proved."""
    pats = [("assume", r"\bassume\s*\("), ("admit", r"\badmit\s*\("),
            ("external_body", r"external_body"), ("assume_specification", r"assume_specification"),
            ("axiom fn", r"\baxiom fn\b"), ("external_trait_specification", r"external_trait_specification"),
            ("exec_allows_no_decreases_clause", r"exec_allows_no_decreases_clause"),
            ("uninterp spec fn", r"\buninterp spec fn\b")]
    out = {}
    for name, pat in pats:
        n = len(re.findall(pat, text))
        if n:
            out[name] = n
    return out


def write_replay(pid, obligation, body):
    """one replay file per failed obligation; further failures of the same obligation are appended"""
    d = os.path.join(OUT, "replays", pid)
    os.makedirs(d, exist_ok=True)
    safe = re.sub(r"[^A-Za-z0-9_.-]", "_", obligation)
    p = os.path.join(d, safe + ".txt")
    with open(p, "a") as f:
        if f.tell():
            f.write("\n" + "=" * 78 + "\n")
        f.write(body)
    return p


def kani_counterexample(wc, h, outdir):
    """Re-run one failed harness with the SAT back end and concrete playback; return (test_src, log)."""
    env = dict(os.environ)
    env["CARGO_NET_OFFLINE"] = "true"
    cmd = ["cargo", "kani", "--lib", "--no-default-features", "-Z", "function-contracts", "-Z", "stubbing",
           "-Z", "unstable-options", "--harness-timeout", "300s", "--exact", "--harness", h["path"],
           "--solver", "cadical", "-Z", "concrete-playback", "--concrete-playback=print"]
    try:
        p = subprocess.run(cmd, cwd=wc, env=env, capture_output=True, text=True, timeout=600)
        out = p.stdout + "\n" + p.stderr
    except subprocess.TimeoutExpired:
        return None, "playback run timed out"
    m = re.search(r"```\s*\n(.*?#\[test\].*?)```", out, re.S)
    if not m:
        m = re.search(r"(///.*?\n)?(#\[test\]\s*\n\s*fn kani_concrete_playback.*?\n\}\n)", out, re.S)
        if not m:
            return None, out[-3000:]
        return m.group(0), out[-1500:]
    return m.group(1), out[-1500:]


def native_replay(wc, h, test_src):
    """Append the generated test to the harness module of the copy and run it natively with
    `cargo kani playback`.  Returns (reproduced: bool|None, log)."""
    t = run_kani.load_table()
    info = t.MODULES[h["module"]]
    host = os.path.join(wc, info["host"])
    modfile = os.path.join(os.path.dirname(host), "verif_kani_%s.rs" % h["module"])
    with open(modfile, "a") as f:
        f.write("\n" + test_src + "\n")
    m = re.search(r"fn (kani_concrete_playback_\w+)", test_src)
    if not m:
        return None, "no playback test name"
    env = dict(os.environ)
    env["CARGO_NET_OFFLINE"] = "true"
    cmd = ["cargo", "kani", "playback", "-Z", "concrete-playback", "--lib", "--no-default-features",
           "--", m.group(1)]
    try:
        p = subprocess.run(cmd, cwd=wc, env=env, capture_output=True, text=True, timeout=900)
    except subprocess.TimeoutExpired:
        return None, "native replay timed out"
    out = p.stdout + "\n" + p.stderr
    if re.search(r"test result: FAILED|panicked at", out):
        return True, out[-3000:]
    if re.search(r"test result: ok\. 1 passed", out):
        return False, out[-3000:]
    return None, out[-3000:]


def main():
    ap = argparse.ArgumentParser()
    ap.add_argument("pid")
    ap.add_argument("--tier", default=os.environ.get("VERIF_TIER", "quick"), choices=["quick", "thorough"])
    ap.add_argument("--replay")
    ap.add_argument("--keep", action="store_true")
    ap.add_argument("--jobs", type=int, default=int(os.environ.get("VERIF_JOBS", "8")))
    args = ap.parse_args()
    if args.replay:
        print(open(args.replay).read())
        return 0
    seed = int(os.environ.get("VERIF_SEED", "0") or 0)
    props = load_props()
    if args.pid not in props:
        print("unknown or not-applicable property %s" % args.pid)
        return 2
    P = props[args.pid]
    tier = args.tier
    t0 = time.time()
    known = [k for k in load_known() if k["property"] == args.pid and k.get("status") == "known"]
    evid_path = os.path.join(OUT, "evidence", args.pid + ".json")
    os.makedirs(os.path.dirname(evid_path), exist_ok=True)
    if os.path.exists(evid_path):
        os.remove(evid_path)
    rep_dir = os.path.join(OUT, "replays", args.pid)
    if os.path.isdir(rep_dir):
        shutil.rmtree(rep_dir)
    wc = workcopy.make(args.pid)
    outdir = os.path.join(workcopy.CACHE, "out-%s-%d" % (args.pid, os.getpid()))
    os.makedirs(outdir, exist_ok=True)
    violations, undecided, known_lines = [], [], []
    v_results, k_results = [], {}
    gen_dir = os.path.join(OUT, "evidence", "generated", args.pid)
    if os.path.isdir(gen_dir):
        shutil.rmtree(gen_dir)
    os.makedirs(gen_dir, exist_ok=True)
    try:
        # ---------------- Engine V ----------------
        units = [u for u in P.get("verus", []) if tier == "thorough" or u.get("tier", "quick") == "quick"]
        with ThreadPoolExecutor(max_workers=min(args.jobs, max(1, len(units)))) as ex:
            futs = [ex.submit(run_verus.run_unit, u["unit"], wc, outdir, u.get("timeout", 600)) for u in units]
            for u, f in zip(units, futs):
                r = f.result()
                r["claims"] = u.get("obligations", [])
                v_results.append(r)
                if r.get("file") and os.path.exists(r["file"]):
                    shutil.copy(r["file"], os.path.join(gen_dir, os.path.basename(r["file"])))
        # ---------------- Engine K ----------------
        t = run_kani.load_table()
        hs = [h for h in t.HARNESSES.get(args.pid, []) if h["tier"] == "quick" or (tier == "thorough" and h["tier"] == "thorough")]
        if hs:
            try:
                mods = sorted({h["module"] for h in hs})
                inj_log = run_kani.inject(wc, t, mods)
                k_results = run_kani.run_grouped(wc, hs, outdir, jobs=args.jobs)
            except Undecided as e:
                for h in hs:
                    k_results[h["path"]] = dict(harness=h["path"], name=h["name"], obligation=h["obligation"],
                                                status="undecided", reason=str(e), bounded=h.get("bounded"),
                                                complete=h.get("complete", False))
        # ---------------- verdicts ----------------
        for r in v_results:
            if r["status"] == "fail":
                for f in r["failed"]:
                    for ob in f["obligations"]:
                        kf = [k for k in known if k["obligation"] == ob]
                        if kf:
                            known_lines.append((ob, kf[0]["what"]))
                            continue
                        body = ("property: %s\nfailed obligation: %s\nengine: Verus (no counterexample available)\n"
                                "function: %s\nverifier message: %s\n\n%s\n\nextracted text: evidence/generated/%s/%s\n"
                                "command: %s\nno-failing-input-found\n") % (
                            args.pid, ob, f["function"], f["message"], f["detail"], args.pid,
                            os.path.basename(r["file"] or ""), r.get("cmd", ""))
                        violations.append((ob, write_replay(args.pid, ob, body), True))
            elif r["status"] == "undecided":
                undecided.append("V unit %s: %s" % (r["unit"], r["reason"]))
        for hp, r in k_results.items():
            if r["status"] == "fail":
                ob = r["obligation"]
                descs = [f["desc"] for f in r["failed"]]
                if all("unwinding assertion" in d for d in descs):
                    undecided.append("K harness %s: unwinding bound too small" % r["name"])
                    continue
                kf = [k for k in known if k["obligation"] == ob]
                if kf:
                    known_lines.append((ob, kf[0]["what"]))
                    continue
                h = [x for x in hs if x["path"] == hp][0]
                test_src, log = kani_counterexample(wc, h, outdir)
                if test_src:
                    reproduced, rlog = native_replay(wc, h, test_src)
                else:
                    reproduced, rlog = None, log
                body = ("property: %s\nfailed obligation: %s\nengine: Kani/CBMC\nharness: %s (%s)\nfailed checks:\n  %s\n\n"
                        % (args.pid, ob, r["name"], r.get("bounded") or "full domain", "\n  ".join(descs)))
                if test_src:
                    body += "verifier counterexample (concrete playback test):\n%s\n\nnative replay against the real code: %s\n%s\n" % (
                        test_src, {True: "REPRODUCED", False: "NOT reproduced", None: "inconclusive"}[reproduced], rlog)
                else:
                    body += "no concrete input obtained from the SAT back end:\n%s\nno-failing-input-found\n" % log
                body += "\nverifier output:\n%s\ncommand: %s\n" % (r.get("text", ""), r.get("cmd", ""))
                if test_src and reproduced is False:
                    undecided.append("K harness %s: counterexample did not reproduce natively (stubbed primitive?)" % r["name"])
                    write_replay(args.pid, ob + ".unreproduced", body)
                    continue
                violations.append((ob, write_replay(args.pid, ob, body), not (test_src and reproduced)))
            elif r["status"] == "undecided":
                undecided.append("K harness %s: %s" % (r["name"], r.get("reason", "")))
        # known findings that no longer fail are simply not printed (a `known` entry suppresses only
        # its own obligation; everything else is reported)
    finally:
        if not args.keep:
            workcopy.remove(wc)
            shutil.rmtree(outdir, ignore_errors=True)
        else:
            print("kept working copy %s, output %s" % (wc, outdir))

    # ---------------- evidence ----------------
    wall = time.time() - t0
    v_ob = sum(r["obligations"] for r in v_results if r["status"] in ("pass", "fail"))
    v_dis = sum(r["discharged"] for r in v_results if r["status"] in ("pass", "fail"))
    k_pass = [r for r in k_results.values() if r["status"] == "pass"]
    k_complete = [r for r in k_results.values() if r.get("complete")]
    k_checks = sum(r.get("n_checks", 0) or 0 for r in k_results.values())
    k_checks_pass = sum(r.get("n_checks", 0) or 0 for r in k_pass)
    scans = {}
    for r in v_results:
        gp = os.path.join(gen_dir, r["unit"] + ".rs")
        if os.path.exists(gp):
            scans[r["unit"]] = scan_assumptions(open(gp).read())
    assumptions = []
    for r in v_results:
        for a in r.get("assumptions", []):
            if a not in assumptions:
                assumptions.append(a)
    assumptions += P.get("assumptions", [])
    samples = []
    def named_obligations(unit):
        gp = os.path.join(gen_dir, unit + ".rs")
        if not os.path.exists(gp):
            return []
        return sorted({m for m in re.findall(r"// @ob (\S+)", open(gp).read()) if m != "__canary"})
    for r in v_results:
        samples.append(dict(engine="verus", unit=r["unit"], status=r["status"], obligations=r["obligations"],
                            named_obligations=named_obligations(r["unit"]),
                            discharged=r["discharged"], solver_ms=r["solver_ms"], wall_s=round(r["wall_s"], 2),
                            claims=r.get("claims", []), functions_under_contract=r["under_contract"],
                            rewrite_rules_fired=r["rewrite_log"], reason=r["reason"],
                            per_function=[f for f in r["functions"] if f["function"] != "__canary_must_fail"]))
    for r in k_results.values():
        samples.append(dict(engine="kani", harness=r["name"], obligation=r["obligation"], status=r["status"],
                            cbmc_checks=r.get("n_checks"), covers="%s/%s" % (r.get("covers_sat"), r.get("covers_total")),
                            solver_time_s=r.get("time_s"), bound=r.get("bounded") or "none (loop-free, full domain)",
                            counts_as="proof" if r.get("complete") else "bounded", reason=r.get("reason", "")))
    level = P["level"]
    cov = dict(
        samples=samples,
        functions_under_contract=sorted({f for r in v_results for f in r["under_contract"]} |
                                        set(P.get("kani_functions", []))),
        backends={"Verus+Z3": dict(units=len(v_results), obligations=v_ob, discharged=v_dis,
                                   solver_ms=sum(r["solver_ms"] for r in v_results)),
                  "Kani/CBMC": dict(harnesses=len(k_results), passed=len(k_pass), cbmc_checks=k_checks,
                                    solver_s=sum((r.get("time_s") or 0) for r in k_results.values()))},
        bounded=[dict(harness=r["name"], bound=r.get("bounded")) for r in k_results.values() if not r.get("complete")],
        assumption_scan=scans,
        generated_files="evidence/generated/%s/" % args.pid,
        undecided=undecided,
        known_findings=[dict(obligation=o, what=w) for o, w in known_lines],
        not_decided=P.get("not_decided", []),
    )
    if level == "proof":
        n_ob = v_ob + sum((r.get("n_checks") or 0) for r in k_complete)
        n_dis = v_dis + sum((r.get("n_checks") or 0) for r in k_complete if r["status"] == "pass")
        cov.update(obligations=n_ob, discharged=n_dis,
                   checker_cmd="verus <generated unit>.rs --output-json --time (per unit); cargo kani --lib --no-default-features -Z function-contracts -Z stubbing --harness <h> (per harness)",
                   trusted_base=P.get("trusted_base", []) + ["Verus 0.2026.09.13 + Z3", "Kani 0.68 / CBMC 6.11 / CaDiCaL / cvc5",
                                                            "extraction rules R0-R10 of DESIGN.md 3.1"])
        cov["bounded_checks_not_counted"] = k_checks - sum((r.get("n_checks") or 0) for r in k_complete)
    else:
        cov.update(evaluations=max(1, k_checks + v_ob), distinct_nontrivial=max(len(k_results) + len(v_results), 0),
                   rule="evaluations = CBMC checks generated over all harnesses + Verus obligations; distinct_nontrivial = number of harnesses/units, each exhaustive over its stated bound; a harness is non-trivial when all its cover! statements are satisfiable",
                   exhaustive=True)
    ev = dict(property_id=args.pid, tier=tier, seed=seed, level=level, coverage=cov, assumptions=assumptions,
              wall_s=round(wall, 2), violations=len(violations))
    with open(evid_path, "w") as f:
        json.dump(ev, f, indent=1)

    for ob, what in known_lines:
        print("KNOWN-FINDING: property=%s %s: %s" % (args.pid, ob, what))
    seen_ob = set()
    for ob, path, noinput in violations:
        if ob in seen_ob:
            continue
        seen_ob.add(ob)
        print("VIOLATION property=%s replay=%s obligation=%s%s" % (
            args.pid, path, ob, " no-failing-input-found" if noinput else ""))
    for u in undecided:
        print("UNDECIDED: %s" % u)
    print("%s tier=%s: V units %d (%d/%d obligations), K harnesses %d (%d passed), %.1fs" % (
        args.pid, tier, len(v_results), v_dis, v_ob, len(k_results), len(k_pass), wall))
    if violations:
        return 1
    if undecided:
        return 2
    return 0


if __name__ == "__main__":
    sys.exit(main())
