"""A small Rust lexer with bracket matching.

Used by the extractor (verus_extract.py) and the injector (kani_inject.py) to locate items and
structural insertion points in the *real* source text.  It never evaluates or re-prints code: all
edits are splices into the original text at token boundaries, so everything that is not touched by a
logged rewrite rule is byte-identical to /repo.
"""
import re
from dataclasses import dataclass


@dataclass
class Tok:
    kind: str   # ident | punct | lit | lifetime | comment | ws
    text: str
    pos: int    # byte offset in the source
    end: int


_PUNCT3 = ["<<=", ">>=", "...", "..="]
_PUNCT2 = ["::", "->", "=>", "==", "!=", "<=", ">=", "&&", "||", "+=", "-=", "*=", "/=", "%=", "^=",
           "&=", "|=", "<<", ">>", ".."]

_ident_re = re.compile(r"[A-Za-z_][A-Za-z0-9_]*")
_num_re = re.compile(r"[0-9][0-9_]*(\.[0-9][0-9_]*)?([eE][+-]?[0-9_]+)?([iuf](8|16|32|64|128|size))?")


class LexError(Exception):
    pass


def lex(src, keep_trivia=False):
    """Return the token list of `src`.  Whitespace/comments are dropped unless keep_trivia."""
    toks = []
    i, n = 0, len(src)
    while i < n:
        c = src[i]
        if c.isspace():
            j = i
            while j < n and src[j].isspace():
                j += 1
            if keep_trivia:
                toks.append(Tok("ws", src[i:j], i, j))
            i = j
            continue
        if src.startswith("//", i):
            j = src.find("\n", i)
            j = n if j < 0 else j
            if keep_trivia:
                toks.append(Tok("comment", src[i:j], i, j))
            i = j
            continue
        if src.startswith("/*", i):
            depth, j = 1, i + 2
            while j < n and depth:
                if src.startswith("/*", j):
                    depth += 1
                    j += 2
                elif src.startswith("*/", j):
                    depth -= 1
                    j += 2
                else:
                    j += 1
            if keep_trivia:
                toks.append(Tok("comment", src[i:j], i, j))
            i = j
            continue
        # raw strings / byte strings
        m = re.match(r'b?r(#*)"', src[i:i + 12])
        if m:
            hashes = m.group(1)
            close = '"' + hashes
            j = src.find(close, i + len(m.group(0)))
            if j < 0:
                raise LexError("unterminated raw string at %d" % i)
            j += len(close)
            toks.append(Tok("lit", src[i:j], i, j))
            i = j
            continue
        if c == '"' or (c == 'b' and src.startswith('b"', i)):
            j = i + (2 if c == 'b' else 1)
            while j < n and src[j] != '"':
                j += 2 if src[j] == "\\" else 1
            j += 1
            toks.append(Tok("lit", src[i:j], i, j))
            i = j
            continue
        if c == "'":
            # char literal or lifetime
            m = re.match(r"'(\\.[^']*|[^\\'])'", src[i:i + 12])
            if m:
                j = i + len(m.group(0))
                toks.append(Tok("lit", src[i:j], i, j))
                i = j
                continue
            m = _ident_re.match(src, i + 1)
            if m:
                j = m.end()
                toks.append(Tok("lifetime", src[i:j], i, j))
                i = j
                continue
            raise LexError("stray quote at %d" % i)
        m = _ident_re.match(src, i)
        if m:
            toks.append(Tok("ident", m.group(0), i, m.end()))
            i = m.end()
            continue
        if c.isdigit():
            m = _num_re.match(src, i)
            j = m.end()
            # `1..=n` : do not swallow the range dots
            if "." in m.group(0) and src.startswith("..", i + m.group(0).index(".")):
                j = i + m.group(0).index(".")
            toks.append(Tok("lit", src[i:j], i, j))
            i = j
            continue
        for group in (_PUNCT3, _PUNCT2):
            for p in group:
                if src.startswith(p, i):
                    toks.append(Tok("punct", p, i, i + len(p)))
                    i += len(p)
                    break
            else:
                continue
            break
        else:
            toks.append(Tok("punct", c, i, i + 1))
            i += 1
    return toks


_OPEN = {"(": ")", "[": "]", "{": "}"}
_CLOSE = {v: k for k, v in _OPEN.items()}


def match_brackets(toks):
    """Map index of each opening bracket token to the index of its closing token (and back)."""
    stack, pairs = [], {}
    for idx, t in enumerate(toks):
        if t.kind != "punct":
            continue
        if t.text in _OPEN:
            stack.append(idx)
        elif t.text in _CLOSE:
            if not stack or toks[stack[-1]].text != _CLOSE[t.text]:
                raise LexError("unbalanced %r at %d" % (t.text, t.pos))
            o = stack.pop()
            pairs[o] = idx
            pairs[idx] = o
    if stack:
        raise LexError("unclosed bracket at %d" % toks[stack[-1]].pos)
    return pairs


class Source:
    def __init__(self, text):
        self.text = text
        self.toks = lex(text)
        self.pairs = match_brackets(self.toks)

    def find_matching(self, idx):
        return self.pairs[idx]


def skip_generics(toks, i):
    """toks[i] is '<' opening a generic list; return index just after the matching '>'."""
    depth = 0
    while i < len(toks):
        t = toks[i].text
        if t == "<":
            depth += 1
        elif t == ">":
            depth -= 1
            if depth == 0:
                return i + 1
        elif t == ">>":
            depth -= 2
            if depth <= 0:
                return i + 1
        elif t == "->":
            pass
        i += 1
    raise LexError("unclosed generics")
