"""Run the registered checks against every confirmed seeded change (on patched scratch copies of /repo;
/repo and /verif/evidence are never touched) and record what each check reported in seeded/<id>/meta.json."""
import json, os, shutil, subprocess, sys, tempfile, time
from concurrent.futures import ThreadPoolExecutor
CACHE = os.path.expanduser("~/.cache/cfr-verif")
PLAN = {
 "C01-A": ["C01"], "C01-B": ["C01"], "C02-A": ["C02", "C08"], "C02-B": ["C02", "C06"],
 "C05-A": ["C05"], "C05-B": ["C05", "C02", "C08"], "C06-A": ["C06", "C09"], "C06-B": ["C06", "C08"],
 "C07-A": ["C07", "C06"], "C07-B": ["C07"], "C08-A": ["C08"], "C08-B": ["C08", "C05"],
 "C09-A": ["C09"], "C09-B": ["C09"], "C10-A": ["C10"], "C10-B": ["C10"],
 "C13-A": ["C13"], "C13-B": ["C13", "C18"], "C14-A": ["C14"], "C14-B": ["C14"],
 "C18-A": ["C18"], "C18-B": ["C18"], "C19-A": ["C19"], "C19-B": ["C19"],
 "C09-D": ["C09", "C02"], "C18-E": ["C18", "C05"],
}

def one(sid, pid, tier):
    d = tempfile.mkdtemp(prefix="mxrepo-", dir=CACHE); out = tempfile.mkdtemp(prefix="mxout-", dir=CACHE)
    try:
        subprocess.run(["rsync", "-a", "--exclude", "/target", "--exclude", "/.git", "/repo/", d + "/"], check=True)
        if subprocess.run(["patch", "-p1", "-s", "-i", "/verif/seeded/%s/patch.diff" % sid], cwd=d).returncode:
            return dict(check=pid, exit=None, note="patch failed")
        t0 = time.time()
        p = subprocess.run(["/verif/check", pid, "--tier", tier], env=dict(os.environ, VERIF_REPO=d, VERIF_OUT=out, VERIF_JOBS="6"), capture_output=True, text=True)
        lines = [l for l in p.stdout.splitlines() if l.startswith(("VIOLATION", "UNDECIDED", "KNOWN-FINDING"))]
        lines = [l.replace(out, "<out>") for l in lines]
        return dict(check=pid, tier=tier, exit=p.returncode, seconds=round(time.time() - t0), lines=lines[:8])
    finally:
        shutil.rmtree(d, ignore_errors=True); shutil.rmtree(out, ignore_errors=True)

def sweep(sid):
    """run every Verus unit of every claimed property on the patched copy (cheap) and report which
    fail: a failing unit makes every check that lists it exit 1"""
    sys.path.insert(0, "/verif/engine")
    import importlib.util, run_verus
    spec = importlib.util.spec_from_file_location("props", "/verif/contracts/properties.py"); mod = importlib.util.module_from_spec(spec); spec.loader.exec_module(mod)
    d = tempfile.mkdtemp(prefix="swrepo-", dir=CACHE)
    try:
        subprocess.run(["rsync", "-a", "--exclude", "/target", "--exclude", "/.git", "/repo/", d + "/"], check=True)
        if subprocess.run(["patch", "-p1", "-s", "-i", "/verif/seeded/%s/patch.diff" % sid], cwd=d).returncode:
            return dict(note="patch failed")
        units = {}
        for pid, P in mod.PROPS.items():
            for u in P.get("verus", []):
                units.setdefault(u["unit"], []).append(pid)
        res = {}
        for u, pids in sorted(units.items()):
            r = run_verus.run_unit(u, d, d + "/out")
            if r["status"] != "pass":
                res[u] = dict(status=r["status"], properties=pids, obligations=sorted({o for f in r["failed"] for o in f["obligations"]}), reason=r["reason"][:200])
        return res
    finally:
        shutil.rmtree(d, ignore_errors=True)


def main():
    if "--sweep" in sys.argv:
        for sid in [a for a in sys.argv[1:] if not a.startswith("--")] or sorted(os.listdir("/verif/seeded")):
            mp = "/verif/seeded/%s/meta.json" % sid
            if not os.path.exists(mp): continue
            r = sweep(sid)
            m = json.load(open(mp)); m["verus_sweep"] = r
            if any(v.get("status") == "fail" for v in r.values() if isinstance(v, dict)):
                m["detected"] = True
            json.dump(m, open(mp, "w"), indent=1)
            print(sid, {k: (v["status"], v["properties"]) for k, v in r.items() if isinstance(v, dict)}, flush=True)
        return
    only = [a for a in sys.argv[1:] if not a.startswith("--")]
    tier = "thorough" if "--thorough" in sys.argv else "quick"
    jobs = []
    for sid, pids in PLAN.items():
        if only and sid not in only: continue
        if not os.path.exists("/verif/seeded/%s/meta.json" % sid): continue
        for pid in pids: jobs.append((sid, pid))
    for sid in (only or sorted(os.listdir("/verif/seeded"))):
        if sid not in PLAN and os.path.exists("/verif/seeded/%s/meta.json" % sid):
            jobs.append((sid, sid.split("-")[0]))
    with ThreadPoolExecutor(max_workers=2) as ex:
        futs = [(sid, pid, ex.submit(one, sid, pid, tier)) for sid, pid in jobs]
        for sid, pid, f in futs:
            r = f.result()
            mp = "/verif/seeded/%s/meta.json" % sid
            m = json.load(open(mp))
            det = m.get("detection") or {}
            det["%s:%s" % (pid, tier)] = r
            m["detection"] = det
            m["detected"] = any(v.get("exit") == 1 for v in det.values())
            json.dump(m, open(mp, "w"), indent=1)
            print(sid, pid, "exit", r.get("exit"), r.get("seconds"), r.get("lines", [])[:2], flush=True)
main()
