import json, sys, glob
import jsonschema
s = json.load(open('/root/.vp/EVIDENCE.schema.json'))
for p in sys.argv[1:] or glob.glob('/verif/evidence/*.json'):
    jsonschema.validate(json.load(open(p)), s); print('evidence valid:', p)
m = json.load(open('/root/.vp/MANIFEST.schema.json'))
jsonschema.validate(json.load(open('/verif/MANIFEST.json')), m); print('manifest valid')
