import json, sys, glob
import jsonschema
s = json.load(open('/root/.vp/EVIDENCE.schema.json'))
for p in sys.argv[1:] or glob.glob('/verif/evidence/*.json'):
    jsonschema.validate(json.load(open(p)), s); print('evidence valid:', p)
m = json.load(open('/root/.vp/MANIFEST.schema.json'))
jsonschema.validate(json.load(open('/verif/MANIFEST.json')), m); print('manifest valid')
# consistency: every harness listed in contracts/kani/table.py exists in its module, every unit exists
import importlib.util, re, os
s = importlib.util.spec_from_file_location('t', '/verif/contracts/kani/table.py'); m = importlib.util.module_from_spec(s); s.loader.exec_module(m)
for pid, hs in m.HARNESSES.items():
    for h in hs:
        src = open('/verif/contracts/kani/' + m.MODULES[h['module']]['file']).read()
        assert re.search(r'\b%s\b' % re.escape(h['name']), src), "harness %s missing" % h['name']
s = importlib.util.spec_from_file_location('p', '/verif/contracts/properties.py'); pm = importlib.util.module_from_spec(s); s.loader.exec_module(pm)
for pid, P in pm.PROPS.items():
    for u in P.get('verus', []):
        assert os.path.exists('/verif/contracts/verus/units/%s.py' % u['unit']), "unit %s missing" % u['unit']
print('tables consistent')
