"""Generate /verif/MANIFEST.json from contracts/properties.py (single source of truth)."""
import importlib.util, json, os
HERE = os.path.dirname(os.path.abspath(__file__)); VERIF = os.path.dirname(HERE)
spec = importlib.util.spec_from_file_location("props", os.path.join(VERIF, "contracts", "properties.py"))
mod = importlib.util.module_from_spec(spec); spec.loader.exec_module(mod)
checks = []
import re
for pid in sorted(p for p in mod.PROPS if re.match(r"^C\d+$", p)):
    P = mod.PROPS[pid]
    checks.append(dict(
        property_id=pid,
        quick_cmd="./check %s --tier quick" % pid,
        thorough_cmd="./check %s --tier thorough" % pid,
        evidence_file="evidence/%s.json" % pid,
        replay_cmd_template="./check %s --replay {path}" % pid,
        engine=P.get("engine", "verus+kani"),
        level_claimed=dict(category=P["level"], text=P["level_text"], design_ref=P.get("design_ref", "DESIGN.md section 4, " + pid)),
        level_note=P["level_note"],
        technique=P["technique"],
    ))
man = dict(
    version=1,
    setup_cmd="./setup.sh",
    hooks=dict(guard="kani (cfg set only by the Kani compiler)", enable="none needed: contracts and harnesses are spliced into a scratch copy of /repo's working tree on every run; nothing guarded is committed to /repo",
               baseline_off_cmd="cd /repo && cargo test --workspace --no-fail-fast --offline", source_commits=[], add_only=True),
    engines=[
        dict(name="engine V", path="engine/run_verus.py", serves_properties=sorted(p for p in mod.PROPS if mod.PROPS[p].get("verus")),
             kind_free_text="contract-based deductive verification: Verus on functions extracted mechanically from /repo on every run (rules R0-R18, TYPE-SUBST, BLOCK, slices), contracts/invariants spliced at structural anchors"),
        dict(name="engine K", path="engine/run_kani.py", serves_properties=sorted(mod.KANI_PROPS),
             kind_free_text="Kani function contracts and harnesses on the real bodies, annotated in place in a scratch copy; loop-free harnesses are complete proofs, array harnesses are labelled bounded"),
    ],
    checks=checks,
    not_applicable=[dict(property_id=k, reason=v) for k, v in sorted(mod.NOT_APPLICABLE.items()) if k not in mod.PROPS],
    notes="Fix commits to /repo and known findings: known_findings.json. Seeded changes: seeded/. See DESIGN.md.",
)
json.dump(man, open(os.path.join(VERIF, "MANIFEST.json"), "w"), indent=1)
print("claimed:", [c["property_id"] for c in checks]); print("n/a:", [n["property_id"] for n in man["not_applicable"]])
