#!/bin/sh
# Offline setup: warm a cargo-kani target directory (dependencies compiled once) that every check
# hard-links into its own scratch copy.  Everything else is plain python3 + installed tools.
set -e
export CARGO_NET_OFFLINE=true
CACHE="${VERIF_CACHE:-$HOME/.cache/cfr-verif}"
mkdir -p "$CACHE"
SEED="$CACHE/kani-target-seed"
if [ ! -d "$SEED" ]; then
  WC="$CACHE/setup-copy"
  rm -rf "$WC"
  mkdir -p "$WC"
  rsync -a --exclude /target --exclude /.git /repo/ "$WC/"
  cat >> "$WC/src/lib.rs" <<'EOR'

#[cfg(kani)]
mod verif_kani_seed {
    #[kani::proof]
    fn seed() {
        let x: u8 = kani::any();
        assert!(x as u16 <= 255);
    }
}
EOR
  (cd "$WC" && cargo kani --lib --no-default-features --target-dir "$SEED" --harness verif_kani_seed::seed >/dev/null 2>&1) || echo "warning: kani warm-up failed (checks will compile dependencies themselves)"
  rm -rf "$WC"
fi
command -v verus >/dev/null && echo "setup ok"
