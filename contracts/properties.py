"""Which Verus units and Kani harness groups decide which property (harness lists: kani/table.py)."""

def U(unit, obligations, tier="quick", timeout=600):
    return dict(unit=unit, obligations=obligations, tier=tier, timeout=timeout)

PROPS = {
    "C01": dict(
        level="proof",
        technique="Verus contracts (requires/ensures/loop invariants) on regret.rs functions extracted from /repo each run; idealised-real floats",
        level_text="Deductive proof, for trees of any size, that expected() returns the expectation of the tree under the profile and chance distribution. Partial: see level_note.",
        level_note="Assumes wf_game from from_root, idealised-real arithmetic, termination unproved; optimal_deviations' bottom-up order argument not proved.",
        verus=[
            U("c01_expected", ["C01.V.expected.value"]),
        ],
        trusted_base=["idealised-real float semantics (rv axioms)", "wf_game established by from_root (assumed)"],
        not_decided=["bottom-up resolution loop of optimal_deviations (global order argument)"],
    ),
    "C18_disabled": dict(
        level="model_checking",
        technique="x", level_text="x", level_note="x",
        verus=[],
        kani_functions=["src/lib.rs :: impl Strategies / fn truncate"],
        not_decided=["idempotence and sum-to-one up to rounding at the bit level"],
    ),
}

KANI_PROPS = []

NOT_APPLICABLE = {
    "C02": "check not built yet (planned: Kani contracts on cum_regret / advance / RegretBound)",
    "C03": "analytic convergence-rate theorem over unbounded float histories; no per-call contract expresses it",
    "C04": "probabilistic convergence; neither Verus nor Kani has a probability semantics",
    "C05": "check not built yet",
    "C06": "check not built yet",
    "C07": "check not built yet",
    "C08": "check not built yet",
    "C09": "check not built yet",
    "C10": "check not built yet",
    "C11": "from_root recursion through IndexMap/HashMap/HashSet entry APIs is outside both tools (Kani times out on a 5-node tree, Verus cannot specify the crates in single-file mode)",
    "C12": "relational property over two constructions and two whole solves; needs C11 plus whole-solver functional correctness",
    "C13": "check not built yet",
    "C14": "check not built yet",
    "C15": "process-level output of the binary; logic inline in main() behind clap/serde/gambit-parser",
    "C16": "option plumbing inline in main(); process-level behaviour",
    "C17": "exit status / stderr of a process; not a property of one call",
    "C18": "check not built yet",
    "C19": "check not built yet",
}
