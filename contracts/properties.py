"""Which Verus units and Kani harness groups decide which property (harness lists: kani/table.py)."""


def U(unit, obligations, tier="quick", timeout=600):
    return dict(unit=unit, obligations=obligations, tier=tier, timeout=timeout)


FLOAT_IDEAL = "idealised-real float semantics (machine arithmetic treated as mathematical) where stated per unit"
WF_GAME = "wf_game (infoset indices in range, weight vectors as long as child lists) as established by Game::from_root: assumed (C11 decides the rule checks per node and that compact::Builder and compact::OptBuilder hand out dense indices 0,1,2,.. in first-seen order; that the final tables are built in that order -- IndexMap::into_iter -- is not covered)"

PROPS = {
    "C01": dict(
        level="proof",
        technique="Verus contracts (requires/ensures/loop invariants) on regret.rs functions extracted from /repo each run; idealised-real floats",
        level_text="Deductive proof (Verus, trees and infosets of any size) on the real text of regret.rs: expected() returns the "
                   "expectation of the tree under the profile and chance distribution; next_infoset_search() returns the recursive "
                   "continuation value; one resolution step of optimal_deviations stores max_a sum_n reach(n) val(child_a(n)) / "
                   "sum_n reach(n), decrements the predecessor's pending count by the number of resolved nodes and enqueues it exactly "
                   "at zero; regret() combines them with the right strategies, signs and clamps. Accessors (negated utility, max of "
                   "regrets) are loop-free Kani proofs over all f64. Partial: see level_note.",
        level_note="Assumes wf_game from from_root, idealised-real arithmetic, termination unproved. NOT proved: the "
                   "global order / work-list arguments of optimal_deviations (both passes are under per-step contracts, the queue seed under a contract on its predicate); bounded "
                   "Kani harnesses on concrete 6-7 node trees were tried and did not finish (15 min - 1 h): not run.",
        verus=[
            U("c01_expected", ["C01.V.expected.value"]),
            U("c01_next_infoset_search", ["C01.V.next_infoset_search.value", "C01.V.next_infoset_search.queue_empty"]),
            U("c01_optdev_resolve", ["C01.V.optimal_deviations.best_action_value", "C01.V.optimal_deviations.pending_count", "C01.V.optimal_deviations.nodes_consumed"]),
            U("c01_optdev_collect", ["C01.V.optimal_deviations.collect_step"]),
            U("c01_optdev_seed", ["C01.V.optimal_deviations.seed"]),
            U("c01_regret_wrapper", ["C01.V.regret.utility", "C01.V.regret.player_one", "C01.V.regret.player_two"]),
            U("split_by", ["V.SplitsBy.next.partition"]),
            U("lib_plumbing", ["C01.V.get_info.pairs_tables"]),
        ],
        kani_functions=["src/lib.rs :: impl StrategiesInfo / fn player_utility, player_regret, regret", "src/lib.rs :: impl PlayerNum / fn ind, ind_mut"],
        trusted_base=[FLOAT_IDEAL, WF_GAME],
        not_decided=["global order argument of optimal_deviations (every infoset resolved after all later infosets of the same player): only the per-step contract is proved",
                     "the std adapter chain around the seeding predicate of optimal_deviations (enumerate/filter/map/collect, pinned textually) and the work-list arguments that compose the per-step contracts of its two passes",
                     "the std `collect` of the split_by iterator in Strategies::get_info (which vector is cut along which infosets and handed over in which order IS decided: C01.V.get_info.pairs_tables)"],
    ),
    "C02": dict(
        level="proof",
        technique="Kani harnesses on cum_regret / RegretBound (bit-precise) + Verus contracts on advance() order; the CFR regret theorem itself is cited mathematics",
        level_text="What contracts decide is that the code computes exactly the quantity the CFR theorem bounds: cum_regret == "
                   "2*max(max R,0)/T, non-negative, regrets unchanged (Kani, cvc5, all finite f64, lengths 1..3 = bounded); "
                   "advance() reports the bound of the regrets after discounting with the caller's iteration number (Verus, any length); "
                   "RegretBound::regret_bound is the IEEE max of the two per-player bounds (loop-free Kani over all f64 pairs = proof).",
        level_note="The inequality bound >= true regret is Zinkevich et al. 2007 (trusted mathematics, not mechanised). The per-player "
                   "sum over infosets inside the solver loops is abstracted (R6) in the C09 slices. Counterfactual weighting: see C08.",
        verus=[U("c06_generic_multi_fresh", ["C06.V.solve_generic_multi.workspace_fresh (a stale payoff cache skips the updates the bound is computed from)"]),
               U("c02_cum_regret", ["C02.V.cum_regret.formula", "C02.V.cum_regret.nonneg"]),
               U("c08_advance_order", ["C02.V.advance.reports_bound"]),
               U("c08_recurse_player", ["C08.V.recurse_player.update (counterfactual weight: opponent reach x chance reach, sign for player two)"]),
               U("c08_recurse_single_player_arm", ["C08.V.recurse_single.player_arm (regret_a += weight x u_a - expected counterfactual value; average strategy += own reach x strategy)"]),
               U("c08_recurse_multi_player_arm", ["C08.V.recurse_multi.player_arm"]),
               U("c08_chance_reach", ["C08.V.chance_reach.product_along_path"]),
               U("c09_generic_single", ["C09.V.first_below (the early stop the property speaks of)"]),
               U("c09_generic_multi", ["C09.V.first_below"]),
               U("c06_threshold_player_step", ["C06.V.thread_threshold.frontier_reach", "C06.V.thread_threshold.frontier_reach_chance"])],
        kani_functions=["src/solve/data.rs :: impl RegretParams / fn cum_regret", "src/lib.rs :: impl RegretBound / fn new, player_regret_bound, regret_bound"],
        trusted_base=["CFR regret theorem (Zinkevich et al. 2007, Thm 3-4)"],
        not_decided=["the inequality itself", "sum of per-infoset bounds per player (iterator chain inside the solver loops)"],
    ),
    "C05": dict(
        level="proof",
        technique="Verus contract on avg_strat (idealised reals, any length) + bit-precise Kani harnesses on every numeric leaf (bounded lengths)",
        level_text="Verus, any number of actions: avg_strat divides every entry by the total so that the returned probabilities sum "
                   "to one, and returns exactly uniform when nothing was accumulated. Kani, bit-precise, lengths 1..3, all finite "
                   "inputs: avg_strat / regret_match (all five branches incl. softmax with either sign of the weight) return finite "
                   "entries in [0,1] with a positive entry and never panic; cum_regret is finite and non-negative; a fresh infoset is uniform.",
        level_note="Leaf totality only: absence of panics in the tree recursion, hangs, deadlock and lock poisoning are not decided; "
                   "Game::solve's dispatch is proved against stand-ins for NonZeroUsize / available_parallelism and uninterpreted solvers. exp is a "
                   "sound interval model in the softmax harness.",
        verus=[U("c10_solver_tables", ["C10.V.solver_tables.player_entry_sized (every infoset's solver state has one slot per action)"]),
               U("c02_cum_regret", ["C02.V.cum_regret.nonneg (each per-infoset bound is a non-negative number)"]),
               U("c05_avg_strat", ["C05.V.avg_strat.sums_to_one", "C05.V.avg_strat.normalised", "C05.V.avg_strat.uniform_when_empty"]),
               U("c05_into_avg_strat", ["C05.V.into_avg_strat.normalised"]),
               U("c08_regret_match", ["C08.V.regret_match.positive (current strategy: non-negative entries summing to one, any number of actions)", "C08.V.regret_match.fallback_argmax", "C08.V.regret_match.fallback_uniform", "C08.V.regret_match.fallback_argmin", "C08.V.regret_match.norm_over_positive"]),
               U("c08_discount", ["C08.V.gen_discount.value (the discount factor is t^a/(t^a+1): a number, never NaN)"]),
               U("c07_external_fresh", ["C07.V.single_player_iter.frontier_follows_sampled_player (an index panic otherwise)"]),
               U("c05_solve_dispatch", ["C05.V.solve.one_thread_never_errors", "C05.V.solve.thread_overflow", "C05.V.solve.multi_dispatch", "C05.V.solve.result_plumbing"]),
               U("c08_advance_order", ["C02.V.advance.reports_bound (the bound is computed with the caller's iteration number >= 1, hence a number)"])],
        kani_functions=["src/solve/data.rs :: fn avg_strat", "src/solve/data.rs :: impl RegretParams / fn regret_match", "src/solve/data.rs :: impl RegretInfoset / fn new"],
        trusted_base=[FLOAT_IDEAL, "interval model of f64::exp"],
        not_decided=["whole-run totality on arbitrary trees, hangs, deadlock", "what std::thread::available_parallelism answers (any value or an error: the dispatch is decided for each answer)"],
    ),
    "C06": dict(
        level="proof",
        technique="Verus loop invariant on a statement-table slice of solve_generic_multi's scope body (workspace freshness)",
        level_text="Necessary condition only. Deductive proof (any budget) that at the head of every iteration the frontier queue, "
                   "the next-level work list and the payoff cache are empty, i.e. thread_threshold's precondition holds at its call "
                   "site and no stale cached payoff can cut the traversal.",
        level_note="Schedule independence is NOT decided (no thread reasoning in Verus/Kani). thread_threshold, par_drain/par_extend are "
                   "assumed contracts restating the anchor / rayon documentation.",
        verus=[U("c10_solver_tables", ["C10.V.solver_tables.full_enumerates (the multi-threaded unsampled solver is built over the same enumerating chance entries as the single-threaded one)"]),
               U("c06_generic_multi_fresh", ["C06.V.solve_generic_multi.workspace_fresh"]),
               U("c06_threshold_player_step", ["C06.V.thread_threshold.frontier_reach", "C06.V.thread_threshold.frontier_reach_chance"]),
               U("c06_worker_task", ["C06.V.worker_task.own_entry (a worker evaluates ITS frontier entry -- own node, own reach values, shared tables, empty cache -- and files the payoff under that node's address)"]),
               U("c06_threshold_loop", ["C06.V.thread_threshold.frontier_is_a_cut (the whole expansion loop: every non-negative additive functional of the sequential traversal totals over queue+work to at most its root value -- own reach values, no subtree twice)"]),
               U("c06_recurse_multi_cache", ["C06.V.recurse_multi.cache_hit", "C06.V.recurse_multi.miss_traverses", "C06.V.cached_payoff.unit_is_empty"]),
               U("c08_recurse_single_player_arm", ["C08.V.recurse_single.player_arm (one visit of a decision node: the single-threaded statement)"]),
               U("c08_recurse_multi_player_arm", ["C08.V.recurse_multi.player_arm (the same visit as a sequence of atomic events)"]),
               U("c08_update_cum_strat", ["C08.V.update_cum_strat.vanilla", "C08.V.update_cum_strat.mutex (same update behind the lock)"]),
               U("c09_generic_single", ["C09.V.first_below (single- and multi-threaded loops obey the same stopping contract)"]),
               U("c09_generic_multi", ["C09.V.first_below"]),
               U("c08_chance_reach", ["C08.V.chance_reach.product_along_path (recurse_multi passes the same reaches as recurse_single)"]),
               U("c08_advance_order", ["C08.V.advance.order: MutexRegretInfoset::advance obeys the same contract as the single-threaded RegretInfoset::advance"])],
        
        trusted_base=["assumed contract on rayon par_drain / par_extend (prelude/workspace.rs); the call-site stub of thread_threshold there carries only the PRECONDITION (empty queue and work) of the contract proved for the real loops in c06_threshold_loop / c07_external_threshold_loop and promises nothing"],
        not_decided=["races between worker tasks, atomic add ordering, equality up to summation order",
                     "thread_threshold: termination and that the loop stops AT the target size (performance only); that the frontier it leaves holds no part of the traversal twice and only with its own reach values IS decided (C06.V.thread_threshold.frontier_is_a_cut)"],
    ),
    "C07": dict(
        level="proof",
        technique="Verus contracts on slices of external::single_player_iter / solve_external_multi / solve_generic_multi (workspace freshness) + cache contracts",
        level_text="Necessary conditions only. Deductive proof that single_player_iter re-establishes an empty workspace (queue, work, "
                   "payoffs), that solve_external_multi's loop preserves it from Workspace::with_capacity, that the chance-sampled parallel "
                   "path does the same, and that each chance infoset / opponent infoset draws at most once per pass and is re-armed by "
                   "reset()/advance().",
        level_note="Schedules and the uniqueness of the visit behind try_lock().unwrap() are NOT decided.",
        verus=[U("c08_update_cum_strat", ["C08.V.update_cum_strat.external (the sampled player's average strategy is updated at every visit, also when its action was drawn while the frontier was built)"]),
               U("c06_threshold_player_step", ["C06.V.thread_threshold.frontier_reach", "C06.V.thread_threshold.frontier_reach_chance"]),
               U("c06_threshold_loop", ["C06.V.thread_threshold.frontier_is_a_cut (chance-sampled parallel path: frontier entries are nodes of the SAMPLED tree, none twice)"]),
               U("c07_external_fresh", ["C07.V.single_player_iter.workspace_fresh", "C07.V.solve_external_multi.workspace_fresh"]),
               U("c06_generic_multi_fresh", ["C06.V.solve_generic_multi.workspace_fresh"]),
               U("c05_into_avg_strat", ["C05.V.into_avg_strat.normalised (the multi-threaded extraction uses the same normalisation)"]),
               U("c08_recurse_regret_dispatch", ["C08.V.recurse_regret.cache_hit (a frontier node evaluated by a worker is not traversed again)", "C08.V.recurse_regret.chance_sampled", "C08.V.recurse_regret.external_sampled"]),
               U("c09_external_single", ["C09.V.first_below"]), U("c09_external_multi", ["C09.V.first_below"]),
               U("c10_sampled_chance", ["C10.V.sampled_chance.cache_hit", "C10.V.sampled_chance.reset"]),
               U("c10_external_next", ["C10.V.external.chance_next (the draw made at the first visit is the one every later visit of the pass follows)", "C10.V.external.next_update"]),
               U("c07_external_next_nodes", ["C07.V.next_nodes.sampled_walk (the frontier walk follows exactly the sampled outcome / sampled action down to the pass's own player)", "C07.V.next_nodes.draws_kept (at most one sample per infoset per pass)"]),
               U("c06_worker_task", ["C07.V.worker_task.own_entry (external solver: same FIRST, updating player's table as the active one)", "C06.V.worker_task.own_entry (chance-sampled parallel path)"]),
               U("c07_external_threshold_loop", ["C07.V.external_thread_threshold.frontier_is_a_cut (the whole frontier loop of the external-sampled parallel path: queue+work hold nodes of the SAMPLED tree only, no part of it twice)", "C07.V.external_thread_threshold.draws_kept"]),
               U("c10_cached_infoset", ["C10.V.cached_infoset.cache_hit"]),
               U("c08_advance_order", ["C10.V.cached_infoset.advance_resets_draw"])],
        trusted_base=["assumed contract on rayon par_drain / par_extend (prelude/workspace.rs); the call-site stub of thread_threshold there carries only the PRECONDITION (empty queue and work) of the contract proved for the real loops in c06_threshold_loop / c07_external_threshold_loop and promises nothing"],
        not_decided=["schedules", "try_lock uniqueness on arbitrary trees"],
    ),
    "C08": dict(
        level="proof",
        technique="Verus contracts on gen_discount / discount_* / advance / update_cum_strat / external recurse (extracted each run) + Kani harnesses on presets, constructor, regret_match",
        level_text="Per function: gen_discount returns t^a/(t^a+1) (idealised reals, real-analysis axioms) and 0, 1/2, 1 at -inf, 0, "
                   "+inf (Kani, all u64 t); discount_cum_regret / discount_average_strat apply exactly the documented factor to exactly "
                   "the documented entries (Verus, any length); advance() matches on the pre-discount regrets, then discounts, with the "
                   "caller's iteration number (t-1 for the first external player's average); average-strategy accumulation and the "
                   "external regret update are the documented sums; presets and the constructor are loop-free Kani proofs; regret_match "
                   "branches are bounded Kani harnesses.",
        level_note="Equality of whole trajectories with a reference solver is NOT decided; recurse_player is proved at its &mut [f64] "
                   "instance (TYPE-SUBST) only; recurse_single/multi/regret (RefCell/Mutex-generic recursion) are read, not proved.",
        verus=[U("c06_threshold_player_step", ["C06.V.thread_threshold.frontier_reach", "C06.V.thread_threshold.frontier_reach_chance"]),
               U("c08_regret_match", ["C08.V.regret_match.positive", "C08.V.regret_match.fallback_argmax", "C08.V.regret_match.fallback_uniform", "C08.V.regret_match.fallback_argmin", "C08.V.regret_match.norm_over_positive"]),
               U("c08_discount", ["C08.V.gen_discount.value", "C08.V.discount_cum_regret", "C08.V.discount_average_strat.ratio"]),
               U("c08_advance_order", ["C08.V.advance.match_before_discount", "C08.V.advance.discount_regrets", "C08.V.advance.discount_average"]),
               U("c08_update_cum_strat", ["C08.V.update_cum_strat.vanilla", "C08.V.update_cum_strat.external", "C08.V.update_cum_strat.mutex"]),
               U("c08_external_recurse", ["C08.V.external.recurse"]),
               U("c08_external_single_roles", ["C08.V.external_single.pass_roles", "C08.V.external_single.advance_flag", "C08.V.external_single.bounds_in_player_order", "C08.V.external_single.strategies_in_player_order"]),
               U("c08_recurse_regret_dispatch", ["C08.V.recurse_regret.terminal_sign", "C08.V.recurse_regret.chance_sampled", "C08.V.recurse_regret.active_enumerates", "C08.V.recurse_regret.external_sampled", "C08.V.recurse_regret.cache_hit"]),
               U("c08_recurse_player", ["C08.V.recurse_player.update"]),
               U("c08_recurse_single_player_arm", ["C08.V.recurse_single.player_arm"]),
               U("c08_recurse_multi_player_arm", ["C08.V.recurse_multi.player_arm"]),
               U("c06_recurse_multi_cache", ["C06.V.recurse_multi.cache_hit", "C06.V.recurse_multi.miss_traverses"]),
               U("c06_generic_multi_fresh", ["C06.V.solve_generic_multi.workspace_fresh (a stale cache skips updates)"]),
               U("c07_external_fresh", ["C07.V.single_player_iter.workspace_fresh"]),
               U("c09_generic_single", ["C09.V.first_below (T iterations means T iterations)"]), U("c09_generic_multi", ["C09.V.first_below"]),
               U("c09_external_single", ["C09.V.first_below"]), U("c09_external_multi", ["C09.V.first_below"]),
               U("c08_chance_reach", ["C08.V.chance_reach.product_along_path"])],
        kani_functions=["src/solve/data.rs :: impl RegretParams / fn new, vanilla, lcfr, cfr_plus, dcfr, dcfr_prune, gen_discount, regret_match, discount_cum_regret, discount_average_strat",
                        "src/solve/data.rs :: impl Default for RegretParams"],
        trusted_base=[FLOAT_IDEAL, "real-analysis axioms for exp/ln, logaddexp documentation"],
        not_decided=["recurse_player at its AtomicF64 instance (multi-threaded path): its contract there is restated in c08_recurse_multi_player_arm, proved only at the &mut [f64] instance",
                     "the fixpoint of the recursion: every arm of recurse_single / recurse_multi / recurse_regret is under contract with the recursive calls bound to an uninterpreted value function, the induction over the tree that composes them is not done",
                     "interleavings of atomic updates by different workers", "whole-trajectory equality"],
    ),
    "C09": dict(
        level="proof",
        technique="Verus loop invariants on the control skeleton of the four solver loops (statement-table slices of the real functions, numeric body abstracted by uninterpreted state transformers)",
        level_text="Deductive proof for every budget N and every threshold (unbounded) that each of the four iteration loops "
                   "(solve_generic_single, solve_generic_multi scope body, solve_external_single, solve_external_multi scope body) "
                   "returns the state after k iterations where k is the first iteration whose max(bound one, bound two) < r, or N; "
                   "never exceeds the budget; kept statements (loop header, threshold test, break, result) are the real text.",
        level_note="Iteration body abstracted (R6) to an arbitrary deterministic state transformer: holds for every body. "
                   "Floats uninterpreted (same `<`/max in spec and code). NaN/<=0 thresholds never stopping relies on the IEEE "
                   "facts `x < NaN` is false and bounds >= 0 (the cum_regret harnesses, bounded to <= 2 regrets per infoset in the quick tier).",
        kani_functions=["src/solve/data.rs :: impl RegretParams / fn cum_regret"],
        verus=[
            U("c05_solve_dispatch", ["C05.V.solve.one_thread_never_errors", "C05.V.solve.multi_dispatch (the threshold and budget handed to the solver are the caller's, unmodified)"]),
            U("c02_cum_regret", ["C02.V.cum_regret.nonneg (every per-infoset bound the loops sum is >= 0: a zero or negative threshold is never undercut; any number of actions)"]),
            U("c09_generic_single", ["C09.V.first_below"]),
            U("c09_generic_multi", ["C09.V.first_below"]),
            U("c09_external_single", ["C09.V.first_below"]),
            U("c09_external_multi", ["C09.V.first_below"]),
        ],
        trusted_base=["R6 slicing side conditions (checked syntactically each run)"],
        not_decided=["that the abstracted body is the same state transformer with and without a threshold is by the syntactic check that max_reg does not occur in it"],
    ),
    "C10": dict(
        level="proof",
        technique="Verus contracts on Multinomial::{new,sample} and SampledChance::{new,sample,reset} extracted from /repo each run",
        level_text="Deductive proof (any number of outcomes): the categorical sampler returns k exactly when the variate lies in "
                   "the k-th cumulative interval (idealised reals); the chance-infoset cache draws once per pass from exactly "
                   "the declared weights and reset() re-arms it.",
        level_note="rand / rand_distr are assumed contracts (WeightedAliasIndex statistical correctness trusted). Which player is "
                   "sampled inside recurse_regret (RefCell/Mutex-generic recursion) is not decided.",
        verus=[
            U("c10_multinomial", ["C10.V.multinomial.inverse_cdf", "C10.V.multinomial.new_drops_last"]),
            U("c10_sampled_chance", ["C10.V.sampled_chance.cache_hit", "C10.V.sampled_chance.cache_fill", "C10.V.sampled_chance.reset"]),
            U("c10_cached_infoset", ["C10.V.cached_infoset.cache_hit", "C10.V.cached_infoset.draws_from_current_strategy"]),
            U("c08_advance_order", ["C10.V.cached_infoset.advance_resets_draw"]),
            U("c10_full_chance", ["C10.V.full_chance.no_draw"]),
            U("c10_external_next", ["C10.V.external.chance_next", "C10.V.external.chance_advance_rearms", "C10.V.external.player_next", "C10.V.external.next_update"]),
            U("c10_solver_tables", ["C10.V.solver_tables.full_enumerates (the unsampled method's chance entries never draw)", "C10.V.solver_tables.sampled_samples_declared_weights", "C10.V.solver_tables.player_entry_sized"]),
            U("c07_external_next_nodes", ["C07.V.next_nodes.sampled_walk", "C07.V.next_nodes.draws_kept"]),
            U("c07_external_threshold_loop", ["C07.V.external_thread_threshold.frontier_is_a_cut", "C07.V.external_thread_threshold.draws_kept (building the frontier never re-draws an infoset)"]),
            U("c08_recurse_regret_dispatch", ["C08.V.recurse_regret.active_enumerates (the pass's own player is enumerated)", "C08.V.recurse_regret.external_sampled (the other player's sampled action is followed)", "C08.V.recurse_regret.chance_sampled"]),
        ],
        kani_functions=["src/solve/multinomial.rs :: impl Distribution<usize> for Multinomial / fn sample"],
        trusted_base=[FLOAT_IDEAL, "rand::Rng::gen, rand_distr::WeightedAliasIndex (assumed contracts)"],
        not_decided=["statistical correctness of the alias sampler", "termination of external::thread_threshold's work-list loop (that the frontier it leaves holds only nodes of the sampled tree, none twice, IS decided: C07.V.external_thread_threshold.frontier_is_a_cut)"],
    ),
    "C11": dict(
        level="proof",
        technique="Verus contracts on the rule checks of the real Game::init_recurse, extracted each run as stand-alone blocks (terminal arm, chance-outcome loop body, the seen-before / new-infoset arms, the multi-action decision arm)",
        level_text="Deductive proof (any tree, any node) of the per-node rule checks of game construction: a leaf is accepted exactly "
                   "when its payoff is finite; a chance outcome exactly when its weight is positive and finite (else NonPositiveChance, "
                   "subtree not built), recorded with its subtree in order; a chance node of a known infoset must carry the same "
                   "normalised probabilities (else ProbabilitiesNotEqual); a decision node of a known infoset the same actions in the "
                   "same order (else ActionsNotEqual) and the same previous infoset of that player (else ImperfectRecall); a new "
                   "infoset pairwise distinct actions (else ActionsNotUnique) and is recorded with this player's previous infoset; "
                   "the subtrees below a multi-action decision node are built with exactly this player's memory updated. Partial: see note.",
        level_note="Per-node checks only, with the recursive call and the IndexMap / HashMap / HashSet tables bound to uninterpreted "
                   "functions / assumed contracts. The dispatch on the number of children (EmptyChance, a single outcome takes the node's place, EmptyPlayer, single-action route) is "
                   "decided too. The single-action arm too (same action wherever the infoset occurs, recorded once, memories unchanged; HashMap entry API as an "
                   "assumed contract). NOT decided: renormalisation of chance weights, the composition over the tree "
                   "('succeeds if and only if'), 'never panics', from_root's final conversion of the builders.",
        verus=[U("c11_init_recurse", ["C11.V.init_recurse.terminal_finite", "C11.V.init_recurse.chance_weight", "C11.V.init_recurse.chance_outcome_kept",
                                       "C11.V.init_recurse.same_probabilities", "C11.V.init_recurse.same_actions", "C11.V.init_recurse.perfect_recall",
                                       "C11.V.init_recurse.distinct_actions", "C11.V.init_recurse.records_infoset", "C11.V.init_recurse.recall_bookkeeping",
                                       "C11.V.init_recurse.empty_chance", "C11.V.init_recurse.single_outcome_elided", "C11.V.init_recurse.empty_player", "C11.V.init_recurse.player_dispatch",
                                       "C11.V.init_recurse.single_action_same", "C11.V.init_recurse.single_action_recorded_once", "C11.V.init_recurse.actions_and_children_paired"]),
               U("c11_chance_normalise", ["C11.V.init_recurse.chance_probabilities_normalised"]),
               U("c11_from_root_skeleton", ["C11.V.from_root.is_its_phases (from_root = empty tables, ONE recursive construction on the caller's root, conversion of the filled tables: no further check or error source)"]),
               U("c11_compact", ["C11.V.compact.entry_index", "C11.V.compact.insert_returns_index", "C11.V.compact.get_returns_index", "C11.V.compact.dense_preserved", "C11.V.compact.new_dense", "C11.V.compact.into_iter_entry"]),
               U("c11_compact_opt", ["C11.V.compact_opt.entry_index (chance infosets: same dense indices)", "C11.V.compact_opt.anonymous_is_new (a chance node without an infoset label is always its own infoset)", "C11.V.compact_opt.fresh_key", "C11.V.compact_opt.new", "C11.V.compact_opt.into_iter_entry"]),
               U("c11_constructors", ["C11.V.constructors.chance_infoset", "C11.V.constructors.chance_node", "C11.V.constructors.player_builder", "C11.V.constructors.player_infoset", "C11.V.constructors.num_actions"])],
        kani_functions=[],
        trusted_base=["uninterpreted float semantics + IEEE classification facts (Kani harness ieee_classification)",
                      "assumed contracts on compact::{OccupiedEntry, VacantEntry} (IndexMap), std HashMap::entry (prophecy of the entry's use), slice comparison, HashSet::len of collected references, == of user label types being equality"],
        not_decided=["composition over the tree (succeeds iff every node satisfies every rule)", "never panics", "from_root's conversion of the builders (IndexMap::into_iter order)"],
    ),
    "C13": dict(
        level="proof",
        technique="Verus contracts + representation invariant on NamedStrategyIter::{new,next,size_hint} extracted from /repo each run",
        level_text="Deductive proof (any number of infosets): ExactSizeIterator contract of the infoset iterator (size_hint == "
                   "number of items still yielded, decreasing by exactly one per item), k-th item is infoset k with the k-th "
                   "block of the dense vector, then the single-action infosets in order.",
        level_note="Representation invariant assumed at method entry (constructor + preservation proved). Action iterator: the predicates "
                   "handed to find (next) and filter (size_hint) are under Verus contract (both: probability > 0), the find/filter/count chains "
                   "themselves are std code pinned textually and exercised by bounded Kani harnesses.",
        verus=[U("c13_named_iter", ["C13.V.NamedStrategyIter.exact_size", "C13.V.NamedStrategyIter.kth_block"]),
               U("c13_action_iter_predicates", ["C13.V.action_iter.next_lists_positive", "C13.V.action_iter.len_counts_positive"]),
               U("lib_plumbing", ["C13.V.as_named.pairs_tables", "C14.V.from_named.pairs_tables", "C14.V.from_named_eq.pairs_tables"]),
               U("c14_slow_skeleton", ["C14.V.scan_import.offsets_are_prefix_sums (the importer writes infoset k's weights where the named view reads them)"]),
               U("c14_hash_skeleton", ["C14.V.hash_import.is_its_phases"]),
               U("c11_init_recurse", ["C11.V.init_recurse.single_action_recorded_once (the named view lists every single-action infoset exactly once)", "C11.V.init_recurse.records_infoset"]),
               U("c18_truncate_sums_to_one", ["C18.V.truncate.sums_to_one (the named view of a truncated profile still sums to one)"]),
               U("c18_truncate_block", ["C18.V.truncate.rescale"]), U("c18_truncate_whole", ["C18.V.truncate.whole"]),
               U("c14_normalise", ["C14.V.normalise.weight_over_total (importing the view back yields the profile)"]),
               U("c14_hash_validate", ["C14.V.hash_import.dense_index (the importer assigns dense slots in the order the named view lists them)", "C14.V.hash_import.stores_weight"])],
        kani_functions=["src/lib.rs :: impl Strategies / fn as_named", "src/lib.rs :: impl Iterator for NamedStrategyActionIter / fn next, size_hint"],
        trusted_base=["representation-invariant induction (constructor + preservation + field privacy)"],
        not_decided=["round trip through the hashing importer"],
    ),
    "C15": dict(
        level="proof",
        technique="Verus contract on the assembly of the printed record in the binary's main() (statement-table slice of the real function; library calls as uninterpreted functions) and on the serialisation filter",
        level_text="Deductive proof on the real text of main(): the printed utilities are each player's OWN payoff of the printed profile "
                   "(zero-sum utility plus half the constant the file's payoffs add up to, for both players), the printed regrets and the "
                   "total are those of the printed profile, the two strategies are the named views of that profile in player order, and "
                   "an action is serialised exactly when its probability is positive. Partial: see note.",
        level_note="Process-level behaviour (exit status, that exactly one JSON object is written, parsing of the input file, how the constant "
                   "is derived by the Gambit reader) is NOT decided: clap / serde / gambit-parser code is abstracted. Game::solve is assumed to succeed.",
        verus=[U("c16_main_slice", ["C15.V.main.own_payoffs", "C15.V.output.zero_probability_actions_omitted", "C16.V.main.prints_what_the_options_select"]),
               U("c15_gambit_terminal", ["C15.V.gambit.terminal_payoff"]),
               U("c15_gambit_constant_sum", ["C15.V.gambit.constant_sum_leaf (the analysed quantity at a leaf is half the sum of the two players' collected payoffs; running min / max of it and of player one's payoff)", "C15.V.gambit.constant_sum_interior (interior outcomes are carried to every child, both players')", "C15.V.gambit.interior_payoff (the conversion adds an interior node's outcome, none for outcome 0)", "C15.V.gambit.child_inherits_payoffs", "C15.V.gambit.offset_is_midpoint (the constant handed on is the midpoint of the smallest and largest half-sum)"]),
               U("lib_plumbing", ["C13.V.as_named.pairs_tables", "C01.V.get_info.pairs_tables"]),
               U("c13_action_iter_predicates", ["C13.V.action_iter.next_lists_positive"])],
        kani_functions=[],
        trusted_base=["uninterpreted float semantics", "the library calls of main() as uninterpreted functions of all their arguments (their own contracts: C01, C05, C13, C18)"],
        not_decided=["process-level behaviour: exit status, one JSON object, input parsing", "the Gambit reader beyond the per-node steps of its constant-sum analysis and of the payoff accumulation (c15_gambit_constant_sum): the work-list loops, the constant-sum test, infoset naming, action sorting", "independent re-evaluation of the printed strategies on the file's game"],
    ),
    "C16": dict(
        level="proof",
        technique="Verus contract on the option plumbing of the binary's main() (statement-table slice of the real function) and on Discount::into_params",
        level_text="Deductive proof on the real text of main(): the method, discount preset, iteration budget (0 = unlimited), regret threshold and "
                   "parallelism options reach Game::solve unchanged and in the right argument positions; each preset name maps to its library "
                   "preset; the profile truncated at the clip threshold is printed exactly when its regret is strictly lower than the "
                   "unpruned one, otherwise the solver's profile; what is printed (regrets, strategies) belongs to that profile. Partial: see note.",
        level_note="Input route and format detection (file / stdin, explicit / auto), output destination, and 'a JSON and a Gambit encoding of "
                   "the same game give the same solution' are NOT decided (reader code abstracted); validity of the printed profile is C05 / C18.",
        verus=[U("c16_main_slice", ["C16.V.main.prints_what_the_options_select", "C16.V.discount.into_params"]),
               U("c15_gambit_terminal", ["C15.V.gambit.terminal_payoff (a Gambit leaf gets the zero-sum payoff the JSON encoding of the same game states)"]),
               U("c15_gambit_constant_sum", ["C15.V.gambit.offset_is_midpoint", "C15.V.gambit.constant_sum_leaf", "C15.V.gambit.constant_sum_interior", "C15.V.gambit.interior_payoff", "C15.V.gambit.child_inherits_payoffs"]),
               U("c18_truncate_whole", ["C18.V.truncate.whole"]), U("c18_truncate_sums_to_one", ["C18.V.truncate.sums_to_one (what is printed after clipping is a valid profile)"])],
        kani_functions=[],
        trusted_base=["uninterpreted float semantics", "the library calls of main() as uninterpreted functions of all their arguments"],
        not_decided=["input route / format detection / output destination", "equivalence of the JSON and Gambit encodings", "thread-count independence of the printed result (C06)"],
    ),
    "C18": dict(
        level="proof",
        technique="Verus contract on the per-infoset body of truncate (extracted each run) + Kani harnesses on the real truncate (bounded, bit-precise)",
        level_text="Verus (any infoset size, uninterpreted floats): every entry above the threshold is divided by one common "
                   "divisor, every other entry becomes exactly 0, or the block is untouched. Kani (bounded {2,2}/{2}, all f64 "
                   "thresholds, bit-precise): the result is always a valid distribution per block and entries <= h are removed "
                   "in every block that has a survivor.",
        level_note="The Filter/sum statement computing the divisor is abstracted in Verus (value arbitrary); that it is the sum "
                   "of survivors is only checked at the bounded level. Idempotence / sum-to-one up to rounding not decided.",
        verus=[U("c18_truncate_block", ["C18.V.truncate.rescale", "C18.V.truncate.total_over_survivors"]),
               U("c18_truncate_whole", ["C18.V.truncate.whole (the method is its per-infoset loops applied once to the profile handed in: no stale guard, no early exit)"]),
               U("c18_truncate_sums_to_one", ["C18.V.truncate.sums_to_one", "C18.V.truncate.flat_infoset_unchanged", "C18.V.truncate.low_threshold_noop (a threshold below every positive probability changes nothing; idealised reals)", "C18.V.truncate.idempotent (truncating twice equals truncating once: lemma over the per-infoset postcondition, idealised reals, for an infoset that is a distribution)"]),
               U("split_by", ["V.SplitsByMut.next.partition"])],
        kani_functions=["src/lib.rs :: impl Strategies / fn truncate"],
        trusted_base=["uninterpreted float semantics in the Verus unit"],
        not_decided=["idempotence and sum-to-one at the bit level (up to rounding); idempotence IS decided in idealised reals"],
    ),
    "C14": dict(
        level="proof",
        technique="Verus contract on the normalisation step of BOTH import paths (extracted each run) + Kani harnesses on the real strat_into_box_slow against a reference model (bounded input shapes, all f64 weights)",
        level_text="Verus (any infoset size, idealised reals), for the normalisation loop body of strat_into_box AND strat_into_box_slow: "
                   "a zero total gives UninitializedInfoset and writes nothing, otherwise every action gets weight / total and the infoset "
                   "sums to one. Kani (bounded, bit-precise; 2 entries x 1 pair with concrete name patterns, every f64 weight): the scan-based "
                   "import succeeds exactly when all rules hold, an error carries the kind of a violated rule, zero / unspecified / "
                   "overridden-by-zero actions end exactly 0 (last write wins).",
        level_note="Kani harnesses: only the scan-based path (from_named_eq). Of the hash-based twin strat_into_box the per-entry validation "
                   "kernel (both inner loop bodies) and the dense index assignment are under Verus contracts (any size, HashMap/Borrow as assumed "
                   "contracts); its outer dispatch, the all-singles-seen check and hence 'both paths agree' are NOT decided (nested HashMap: "
                   "Kani infeasible, Verus rejects the iterator chains). Normalised values beyond the support are "
                   "not compared (float division miters exhaust CBMC). Legal weights above 1e300 excluded (total overflow).",
        verus=[U("c14_normalise", ["C14.V.normalise.weight_over_total", "C14.V.normalise.uninitialized"]), U("split_by", ["V.SplitsByMut.next.partition"]),
               U("lib_plumbing", ["C14.V.from_named.pairs_tables", "C14.V.from_named_eq.pairs_tables"]),
               U("c14_hash_skeleton", ["C14.V.hash_import.is_its_phases (no shortcut around validation / normalisation / the all-singles check)"]),
               U("c14_hash_tables", ["C14.V.hash_import.infoset_table (every infoset's actions get the next block of dense indices in the infoset's own action order)", "C14.V.hash_import.num_actions"]),
               U("c14_hash_dispatch", ["C14.V.hash_import.entry_dispatch (an imported entry is validated against ITS infoset's table: multi-action table first, then the single-action table; the other table is untouched)", "C14.V.hash_import.rejects_unknown_infoset", "C14.V.scan_import.entry_dispatch (the scanning importer dispatches the same way, with the row's own offset)", "C14.V.scan_import.rejects_unknown_infoset"]),
               U("c14_slow_skeleton", ["C14.V.scan_import.offsets_are_prefix_sums", "C14.V.scan_import.is_its_phases"]),
               U("c11_init_recurse", ["C11.V.init_recurse.single_action_recorded_once (the table of single-action infosets both importers check coverage against lists each such infoset once)"]),
               U("c14_hash_validate", ["C14.V.hash_import.rejects_bad_weight", "C14.V.hash_import.rejects_unknown_action", "C14.V.hash_import.stores_weight",
                                       "C14.V.hash_import.single_rejects_other_action", "C14.V.hash_import.single_rejects_bad_weight", "C14.V.hash_import.single_marks_seen",
                                       "C14.V.hash_import.dense_index",
                                       "C14.V.scan_import.rejects_bad_weight", "C14.V.scan_import.rejects_unknown_action", "C14.V.scan_import.stores_weight"])],
        kani_functions=["src/lib.rs :: impl Game / fn strat_into_box_slow"],
        trusted_base=["assumed contracts on std::borrow::Borrow, HashMap::{get, insert}, Clone of user key types (c14_hash_validate)"],
        not_decided=["strat_into_box beyond its phases, per-entry validation kernels, entry dispatch and index assignment: the all-singles-seen check (an `all` over the marks, pinned textually) and the agreement of the hashing and scanning paths as whole functions (they are shown to obey the same per-entry and dispatch contracts)", "exact normalised values"],
    ),
    "C19": dict(
        level="proof",
        technique="Verus contract on the per-player closure of Strategies::distance extracted from /repo each run (formula, then symmetry / non-negativity / zero-iff-equal as lemmas over it) + Kani harnesses on the real function (bounded game, bit-precise, powf modelled exactly for p in {1,2}) for NaN-freedom and the two panics",
        level_text="Deductive proof, idealised reals (any dense vector length, any number of infosets, any p > 0): each player's distance "
                   "is (sum_i |l_i - r_i|^p) / #infosets, 0 for a player without multi-action infosets; hence symmetric, >= 0, and zero "
                   "exactly when the two profiles coincide. Bounded and bit-precise (Kani: one 2-action infoset / a player without "
                   "infosets; entries any f64 in [0,1]; p in {1,2}): never NaN, non-negative, zero for coinciding profiles, positive "
                   "when they differ (p=1), panics for other games and for !(p>0); symmetry and the upper range on the grid "
                   "{0,1/4,..,1}. The upper bound 1 is a KNOWN FINDING (disjoint supports give 2).",
        level_note="Verus part: rounding/overflow/NaN not modelled, x^p an uninterpreted real function with two real-analysis axioms; the "
                   "iterator chain around the closure is pinned textually. Kani part: powf replaced by exact models x and x*x; p restricted to {1,2}.",
        verus=[U("c19_distance", ["C19.V.distance.formula", "C19.V.distance.symmetric", "C19.V.distance.nonneg", "C19.V.distance.zero_iff_equal"])],
        kani_functions=["src/lib.rs :: impl Strategies / fn distance"],
        trusted_base=["idealised-real float semantics (machine arithmetic treated as mathematical) where stated per unit",
                      "std iterator adapters zip/map/collect and <[f64; 2]>::try_from around the per-player closure"],
        not_decided=["bit-level NaN-freedom / range for p outside {1,2} and for games with more infosets", "Game::eq (pointer identity) beyond the two-game panic harnesses"],
    ),
}

KANI_PROPS = ["C01", "C02", "C05", "C06", "C08", "C09", "C10", "C11", "C13", "C14", "C18", "C19"]

NOT_APPLICABLE = {
    "C03": "analytic convergence-rate theorem over unbounded float histories; no per-call contract expresses it",
    "C04": "probabilistic convergence; neither Verus nor Kani has a probability semantics",
    "C12": "relational property over two constructions and two whole solves; needs whole-tree construction (C11 is decided per node only) plus whole-solver functional correctness",
    "C17": "exit status / stderr of a process; not a property of one call",
}
