"""Which Verus units and Kani harness groups decide which property (harness lists: kani/table.py)."""


def U(unit, obligations, tier="quick", timeout=600):
    return dict(unit=unit, obligations=obligations, tier=tier, timeout=timeout)


FLOAT_IDEAL = "idealised-real float semantics (machine arithmetic treated as mathematical) where stated per unit"
WF_GAME = "wf_game (infoset indices in range, weight vectors as long as child lists) as established by Game::from_root: assumed, C11 is not applicable"

PROPS = {
    "C01": dict(
        level="proof",
        technique="Verus contracts (requires/ensures/loop invariants) on regret.rs functions extracted from /repo each run; idealised-real floats",
        level_text="Deductive proof (Verus, unbounded trees) on the real text of regret::expected and regret::next_infoset_search: "
                   "the reported utility equals the expectation of the tree under the profile and chance distribution, and the "
                   "continuation value used by the best-response pass equals its recursive definition. SplitsBy::next partition "
                   "contract covers how get_info cuts the dense vector. Partial: see level_note.",
        level_note="Assumes wf_game from from_root, idealised-real arithmetic, termination unproved; the global order argument of "
                   "optimal_deviations (every infoset resolved after its successors) is NOT proved.",
        verus=[
            U("c01_expected", ["C01.V.expected.value"]),
            U("c01_next_infoset_search", ["C01.V.next_infoset_search.value", "C01.V.next_infoset_search.queue_empty"]),
            U("split_by", ["V.SplitsBy.next.partition"]),
        ],
        trusted_base=[FLOAT_IDEAL, WF_GAME],
        not_decided=["bottom-up resolution loop of optimal_deviations (global order argument)"],
    ),
    "C09": dict(
        level="proof",
        technique="Verus loop invariants on the control skeleton of the four solver loops (statement-table slices of the real functions, numeric body abstracted by uninterpreted state transformers)",
        level_text="Deductive proof for every budget N and every threshold (unbounded) that each of the four iteration loops "
                   "(solve_generic_single, solve_generic_multi scope body, solve_external_single, solve_external_multi scope body) "
                   "returns the state after k iterations where k is the first iteration whose max(bound one, bound two) < r, or N; "
                   "never exceeds the budget; kept statements (loop header, threshold test, break, result) are the real text.",
        level_note="Iteration body abstracted (R6) to an arbitrary deterministic state transformer: holds for every body. "
                   "Floats uninterpreted (same `<`/max in spec and code). NaN/<=0 thresholds never stopping relies on the IEEE "
                   "facts `x < NaN` is false and bounds >= 0 (C02 harnesses).",
        verus=[
            U("c09_generic_single", ["C09.V.first_below"]),
            U("c09_generic_multi", ["C09.V.first_below"]),
            U("c09_external_single", ["C09.V.first_below"]),
            U("c09_external_multi", ["C09.V.first_below"]),
        ],
        trusted_base=["R6 slicing side conditions (checked syntactically each run)"],
        not_decided=["that the abstracted body is the same state transformer with and without a threshold is by the syntactic check that max_reg does not occur in it"],
    ),
    "C10": dict(
        level="proof",
        technique="Verus contracts on Multinomial::{new,sample} and SampledChance::{new,sample,reset} extracted from /repo each run",
        level_text="Deductive proof (any number of outcomes): the categorical sampler returns k exactly when the variate lies in "
                   "the k-th cumulative interval (idealised reals); the chance-infoset cache draws once per pass from exactly "
                   "the declared weights and reset() re-arms it.",
        level_note="rand / rand_distr are assumed contracts (WeightedAliasIndex statistical correctness trusted). Which player is "
                   "sampled inside recurse_regret (RefCell/Mutex-generic recursion) is not decided.",
        verus=[
            U("c10_multinomial", ["C10.V.multinomial.inverse_cdf", "C10.V.multinomial.new_drops_last"]),
            U("c10_sampled_chance", ["C10.V.sampled_chance.cache_hit", "C10.V.sampled_chance.cache_fill", "C10.V.sampled_chance.reset"]),
        ],
        trusted_base=[FLOAT_IDEAL, "rand::Rng::gen, rand_distr::WeightedAliasIndex (assumed contracts)"],
        not_decided=["recurse_regret's choice of enumerated vs sampled player", "statistical correctness of the alias sampler"],
    ),
    "C13": dict(
        level="proof",
        technique="Verus contracts + representation invariant on NamedStrategyIter::{new,next,size_hint} extracted from /repo each run",
        level_text="Deductive proof (any number of infosets): ExactSizeIterator contract of the infoset iterator (size_hint == "
                   "number of items still yielded, decreasing by exactly one per item), k-th item is infoset k with the k-th "
                   "block of the dense vector, then the single-action infosets in order.",
        level_note="Representation invariant assumed at method entry (constructor + preservation proved). Action iterator "
                   "(find/filter/count chains) handled by bounded Kani harnesses.",
        verus=[U("c13_named_iter", ["C13.V.NamedStrategyIter.exact_size", "C13.V.NamedStrategyIter.kth_block"])],
        trusted_base=["representation-invariant induction (constructor + preservation + field privacy)"],
        not_decided=["round trip through the hashing importer"],
    ),
    "C18": dict(
        level="proof",
        technique="Verus contract on the per-infoset body of truncate (extracted each run) + Kani harnesses on the real truncate (bounded, bit-precise)",
        level_text="Verus (any infoset size, uninterpreted floats): every entry above the threshold is divided by one common "
                   "divisor, every other entry becomes exactly 0, or the block is untouched. Kani (bounded {2,2}/{2}, all f64 "
                   "thresholds, bit-precise): the result is always a valid distribution per block and entries <= h are removed "
                   "in every block that has a survivor.",
        level_note="The Filter/sum statement computing the divisor is abstracted in Verus (value arbitrary); that it is the sum "
                   "of survivors is only checked at the bounded level. Idempotence / sum-to-one up to rounding not decided.",
        verus=[U("c18_truncate_block", ["C18.V.truncate.rescale"]), U("split_by", ["V.SplitsByMut.next.partition"])],
        kani_functions=["src/lib.rs :: impl Strategies / fn truncate"],
        trusted_base=["uninterpreted float semantics in the Verus unit"],
        not_decided=["idempotence and sum-to-one up to rounding at the bit level"],
    ),
}

KANI_PROPS = ["C18"]

NOT_APPLICABLE = {
    "C02": "check not built yet (planned: Kani contracts on cum_regret / advance / RegretBound)",
    "C03": "analytic convergence-rate theorem over unbounded float histories; no per-call contract expresses it",
    "C04": "probabilistic convergence; neither Verus nor Kani has a probability semantics",
    "C05": "check not built yet",
    "C06": "check not built yet",
    "C07": "check not built yet",
    "C08": "check not built yet",
    "C11": "from_root recursion through IndexMap/HashMap/HashSet entry APIs is outside both tools (Kani times out on a 5-node tree, Verus cannot specify the crates in single-file mode)",
    "C12": "relational property over two constructions and two whole solves; needs C11 plus whole-solver functional correctness",
    "C14": "check not built yet",
    "C15": "process-level output of the binary; logic inline in main() behind clap/serde/gambit-parser",
    "C16": "option plumbing inline in main(); process-level behaviour",
    "C17": "exit status / stderr of a process; not a property of one call",
    "C19": "check not built yet",
}
