// R6 state abstraction for the external-sampling loops: one iteration = pass for player one, then
// pass for player two; each pass is an uninterpreted, deterministic transformer of the opaque state
// and reports that player's bound.
pub struct St { pub g: Ghost<int> }
pub uninterp spec fn pass_one(s: int, it: u64) -> int;
pub uninterp spec fn pass_two(s: int, it: u64) -> int;
pub uninterp spec fn reg_one_of(s: int) -> f64;
pub uninterp spec fn reg_two_of(s: int) -> f64;
pub open spec fn step_state(s: int, it: u64) -> int { pass_two(pass_one(s, it), it) }
pub open spec fn state_after(s0: int, k: nat) -> int decreases k {
    if k == 0 { s0 } else { step_state(state_after(s0, (k - 1) as nat), k as u64) }
}
// bounds reported by iteration k (k >= 1)
pub open spec fn regs_at(s0: int, k: nat) -> (f64, f64) {
    (reg_one_of(pass_one(state_after(s0, (k - 1) as nat), k as u64)), reg_two_of(state_after(s0, k)))
}
pub open spec fn below_at(s0: int, k: nat, r: f64) -> bool { flt(fmaxf(regs_at(s0, k).0, regs_at(s0, k).1), r) }
pub uninterp spec fn __s0() -> int;
#[verifier::external_body]
pub fn __init_state() -> (st: St) { unimplemented!() }
#[verifier::external_body]
pub fn __abs_pass_one(st: &mut St, it: u64) -> (r: f64)
    ensures final(st).g@ == pass_one(old(st).g@, it), r == reg_one_of(final(st).g@),
{ unimplemented!() }
#[verifier::external_body]
pub fn __abs_pass_two(st: &mut St, it: u64) -> (r: f64)
    ensures final(st).g@ == pass_two(old(st).g@, it), r == reg_two_of(final(st).g@),
{ unimplemented!() }
pub uninterp spec fn strats_of(s: int) -> [Box<[f64]>; 2];
#[verifier::external_body]
pub fn __abs_final_strats(st: &St) -> (r: [Box<[f64]>; 2])
    ensures r == strats_of(st.g@),
{ unimplemented!() }
