// sums of idealised values and the normalisation lemmas shared by avg_strat / import / truncate units
pub open spec fn rsum(s: Seq<f64>, k: int) -> real decreases k {
    if k <= 0 { 0real } else { rsum(s, k - 1) + rv(s[k - 1]) }
}
pub proof fn lemma_fsum_rsum(s: Seq<f64>, k: int)
    requires 0 <= k <= s.len(),
    ensures rv(fsum(s, k)) == rsum(s, k),
    decreases k
{
    broadcast use ideal;
    ax_rv_sum_init();
    if k > 0 { lemma_fsum_rsum(s, k - 1); }
}
// sum of x_i / n over the first k entries equals (sum of x_i) / n
pub proof fn lemma_rsum_div(a: Seq<f64>, b: Seq<f64>, n: real, k: int)
    requires 0 <= k <= a.len(), a.len() == b.len(), n != 0real, forall|i: int| 0 <= i < a.len() ==> rv(#[trigger] b[i]) == rv(a[i]) / n,
    ensures rsum(b, k) == rsum(a, k) / n,
    decreases k
{
    if k <= 0 {
        assert(0real / n == 0real) by(nonlinear_arith) requires n != 0real;
    } else {
        lemma_rsum_div(a, b, n, k - 1);
        assert(rv(b[k - 1]) == rv(a[k - 1]) / n);
        assert(rsum(b, k) == rsum(b, k - 1) + rv(b[k - 1]));
        assert(rsum(a, k) == rsum(a, k - 1) + rv(a[k - 1]));
        assert(rsum(a, k - 1) / n + rv(a[k - 1]) / n == (rsum(a, k - 1) + rv(a[k - 1])) / n) by(nonlinear_arith) requires n != 0real;
    }
}
