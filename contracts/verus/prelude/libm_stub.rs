// R5: libm / logaddexp boundary.  Real-analysis facts are ASSUMPTIONS (listed in the evidence):
// exp > 0, exp(x - y) exp(y) = exp(x), exp(ln x) = x for x > 0, exp 0 = 1, and the documentation of
// the logaddexp crate: ln_add_exp(x, y) = ln(exp x + exp y).
pub uninterp spec fn rexp(x: real) -> real;
pub uninterp spec fn rln(x: real) -> real;
pub axiom fn ax_exp_pos(x: real) ensures rexp(x) > 0real;
pub axiom fn ax_exp_sub(x: real, y: real) ensures rexp(x - y) * rexp(y) == rexp(x);
pub axiom fn ax_exp_ln(x: real) requires x > 0real ensures rexp(rln(x)) == x;
pub axiom fn ax_exp_zero() ensures rexp(0real) == 1real;
pub uninterp spec fn fln(x: f64) -> f64;
pub uninterp spec fn fexp(x: f64) -> f64;
pub uninterp spec fn flae(x: f64, y: f64) -> f64;
pub assume_specification [f64::ln] (x: f64) -> (r: f64) ensures r == fln(x);
pub assume_specification [f64::exp] (x: f64) -> (r: f64) ensures r == fexp(x);
pub broadcast axiom fn ax_rv_ln(x: f64) ensures rv(#[trigger] fln(x)) == rln(rv(x));
pub broadcast axiom fn ax_rv_exp(x: f64) ensures rv(#[trigger] fexp(x)) == rexp(rv(x));
pub broadcast axiom fn ax_rv_lae(x: f64, y: f64) ensures rv(#[trigger] flae(x, y)) == rln(rexp(rv(x)) + rexp(rv(y)));
pub broadcast group ideal_libm { ax_rv_ln, ax_rv_exp, ax_rv_lae }
pub trait LogAddExp {
    fn ln_add_exp(&self, other: f64) -> f64;
}
impl LogAddExp for f64 {
    #[verifier::external_body]
    fn ln_add_exp(&self, other: f64) -> (r: f64)
        ensures r == flae(*self, other)
    { unimplemented!() }
}
