// R6: abstraction of the sliced-away iteration body.  The solver state (cumulative regrets,
// cumulative strategies, cached draws) is an opaque ghost value; one execution of the abstracted
// statements of iteration `it` maps state s to step_state(s, it) -- an uninterpreted function, so
// what is proved holds for EVERY deterministic body (for the sampled methods: under fixed draws,
// which is the premise of the property).  regs_of(s) are the two per-player bounds the body reports.
pub struct St { pub g: Ghost<int> }
pub uninterp spec fn step_state(s: int, it: u64) -> int;
pub uninterp spec fn regs_of(s: int) -> (f64, f64);
pub open spec fn state_after(s0: int, k: nat) -> int decreases k {
    if k == 0 { s0 } else { step_state(state_after(s0, (k - 1) as nat), k as u64) }
}
// "the total regret bound after this iteration is strictly below r"
pub open spec fn below(s: int, r: f64) -> bool { flt(fmaxf(regs_of(s).0, regs_of(s).1), r) }
#[verifier::external_body]
pub fn __init_state() -> (st: St) { unimplemented!() }
// one execution of the abstracted statements; writes the bounds into `regs`
#[verifier::external_body]
pub fn __abs_iteration(st: &mut St, it: u64, regs: &mut [f64; 2])
    ensures final(st).g@ == step_state(old(st).g@, it),
            (final(regs)[0], final(regs)[1]) == regs_of(final(st).g@),
{ unimplemented!() }
pub uninterp spec fn strats_of(s: int) -> [Box<[f64]>; 2];
#[verifier::external_body]
pub fn __abs_final_strats(st: &St) -> (r: [Box<[f64]>; 2])
    ensures r == strats_of(st.g@),
{ unimplemented!() }
// the (arbitrary) initial solver state
pub uninterp spec fn __s0() -> int;
