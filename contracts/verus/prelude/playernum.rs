// PlayerNum::ind / ind_mut use slice patterns in a `match` (rejected by this Verus); they are kept
// external with the two-case spec, and that spec is discharged against the real bodies by the
// loop-free Kani harness `playernum_ind` (so it is cited, not assumed).
impl PlayerNum {
    #[verifier::external_body]
    pub fn ind<'a, T>(&self, arr: &'a [T; 2]) -> (r: &'a T)
        ensures *r == (match *self { PlayerNum::One => arr[0], PlayerNum::Two => arr[1] })
    { unimplemented!() }

    #[verifier::external_body]
    pub fn ind_mut<'a, T>(&self, arr: &'a mut [T; 2]) -> (r: &'a mut T)
        ensures
            *r == (match *self { PlayerNum::One => old(arr)[0], PlayerNum::Two => old(arr)[1] }),
            match *self {
                PlayerNum::One => final(arr)[0] == *final(r) && final(arr)[1] == old(arr)[1],
                PlayerNum::Two => final(arr)[1] == *final(r) && final(arr)[0] == old(arr)[0],
            },
    { unimplemented!() }
}
