// R5: assumed contracts on std collection helpers vstd does not specify.
// to_vec on a slice of Copy scalars (f64, bool, usize): an element-wise copy.
pub assume_specification<T> [<[T]>::to_vec] (s: &[T]) -> (r: Vec<T>)
    where T: Clone,
    ensures r@ == s@;
