// R5: assumed contracts on std collection helpers vstd does not specify.
// to_vec on a slice of Copy scalars (f64, bool, usize): an element-wise copy.
pub assume_specification<T> [<[T]>::to_vec] (s: &[T]) -> (r: Vec<T>)
    where T: Clone,
    ensures r@ == s@;
// Vec::extend appends the items the iterator yields (std documentation); only the length fact is used.
pub assume_specification<T, A: core::alloc::Allocator, I: IntoIterator<Item = T>> [<Vec<T, A> as Extend<T>>::extend::<I>] (v: &mut Vec<T, A>, it: I)
    ensures final(v)@.len() >= old(v)@.len(), final(v)@.take(old(v)@.len() as int) == old(v)@;
