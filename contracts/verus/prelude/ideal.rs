// Floating point, layer 2 ("idealised real" mode of DESIGN.md 3.2): machine arithmetic treated as
// mathematical.  rv maps a float to the real it denotes; rounding, overflow, NaN and signed zero are
// ignored.  Used only where the property is a statement of real arithmetic.
pub uninterp spec fn rv(x: f64) -> real;
pub broadcast axiom fn ax_rv_add(a: f64, b: f64) ensures rv(#[trigger] fadd(a, b)) == rv(a) + rv(b);
pub broadcast axiom fn ax_rv_sub(a: f64, b: f64) ensures rv(#[trigger] fsub(a, b)) == rv(a) - rv(b);
pub broadcast axiom fn ax_rv_mul(a: f64, b: f64) ensures rv(#[trigger] fmul(a, b)) == rv(a) * rv(b);
pub broadcast axiom fn ax_rv_div(a: f64, b: f64) ensures rv(b) != 0real ==> rv(#[trigger] fdiv(a, b)) == rv(a) / rv(b);
pub broadcast axiom fn ax_rv_neg(a: f64) ensures rv(#[trigger] fneg(a)) == 0real - rv(a);
pub broadcast axiom fn ax_rv_cmp(a: f64, b: f64)
    ensures #[trigger] fcmp(a, b) == (if rv(a) < rv(b) { Some(core::cmp::Ordering::Less) }
        else if rv(a) == rv(b) { Some(core::cmp::Ordering::Equal) } else { Some(core::cmp::Ordering::Greater) });
pub broadcast axiom fn ax_rv_eq(a: f64, b: f64) ensures #[trigger] feq(a, b) == (rv(a) == rv(b));
pub broadcast axiom fn ax_rv_max(a: f64, b: f64) ensures rv(#[trigger] fmaxf(a, b)) == (if rv(a) >= rv(b) { rv(a) } else { rv(b) });
pub broadcast axiom fn ax_rv_min(a: f64, b: f64) ensures rv(#[trigger] fminf(a, b)) == (if rv(a) <= rv(b) { rv(a) } else { rv(b) });
// (idealised) powf denotes a function of the real values of its arguments
pub uninterp spec fn rpow(x: real, y: real) -> real;
pub broadcast axiom fn ax_rv_powf(a: f64, b: f64) ensures rv(#[trigger] fpowf(a, b)) == rpow(rv(a), rv(b));
pub axiom fn ax_rv_lits()
    ensures rv(0.0f64) == 0real, rv(1.0f64) == 1real, rv(2.0f64) == 2real, rv(0.5f64) * 2real == 1real;
pub broadcast group ideal {
    ax_rv_add, ax_rv_sub, ax_rv_mul, ax_rv_div, ax_rv_neg, ax_rv_cmp, ax_rv_eq, ax_rv_max, ax_rv_min, ax_rv_powf
}
// (idealised) integer-to-float casts are exact
pub broadcast axiom fn ax_rv_u64(n: u64) ensures rv(#[trigger] u64_to_f64(n)) == n as real;
pub broadcast axiom fn ax_rv_usize(n: usize) ensures rv(#[trigger] usize_to_f64(n)) == n as real;
pub broadcast group ideal_casts { ax_rv_u64, ax_rv_usize }
