// ---------- specification of C01 (utility): expectation of a tree, from the property text ----------
pub struct Ctx { pub chance: Seq<Seq<f64>>, pub s1: Seq<Seq<f64>>, pub s2: Seq<Seq<f64>> }

pub open spec fn weights_of(n: Node, c: Ctx) -> Seq<f64> {
    match n {
        Node::Terminal(_) => Seq::empty(),
        Node::Chance(ch) => c.chance[ch.infoset as int],
        Node::Player(pl) => match pl.num { PlayerNum::One => c.s1[pl.infoset as int], PlayerNum::Two => c.s2[pl.infoset as int] },
    }
}
// ev(n) = payoff at a terminal; sum_i w_i * ev(child_i) at chance (w = chance probabilities of the
// node's infoset) and at player nodes (w = the acting player's strategy at the node's infoset)
pub open spec fn ev(n: Node, c: Ctx) -> real
    decreases n, 1int, 0int
{
    match n {
        Node::Terminal(p) => rv(p),
        _ => sum_kids(n, c, kids_of(n).len() as int),
    }
}
pub open spec fn sum_kids(parent: Node, c: Ctx, k: int) -> real
    decreases parent, 0int, k
{
    if k <= 0 || k > kids_of(parent).len() { 0real } else {
        sum_kids(parent, c, k - 1) + rv(weights_of(parent, c)[k - 1]) * ev(kids_of(parent)[k - 1], c)
    }
}
// what Game::from_root is ASSUMED to establish (C11 decides its rule checks per node only) plus validity of the profile
pub open spec fn wf_node(n: Node, c: Ctx) -> bool
    decreases n
{
    match n {
        Node::Terminal(_) => true,
        Node::Chance(ch) => ch.infoset < c.chance.len() && weights_of(n, c).len() == kids_of(n).len()
            && forall|i: int| 0 <= i < kids_of(n).len() ==> wf_node(#[trigger] kids_of(n)[i], c),
        Node::Player(pl) => {
            (match pl.num { PlayerNum::One => pl.infoset < c.s1.len(), PlayerNum::Two => pl.infoset < c.s2.len() })
            && weights_of(n, c).len() == kids_of(n).len()
            && (forall|i: int| 0 <= i < kids_of(n).len() ==> rv(#[trigger] weights_of(n, c)[i]) >= 0real)
            && forall|i: int| 0 <= i < kids_of(n).len() ==> wf_node(#[trigger] kids_of(n)[i], c)
        }
    }
}
pub open spec fn qsum(q: Seq<(&Node, f64)>, c: Ctx) -> real
    decreases q.len()
{
    if q.len() == 0 { 0real } else { qsum(q.drop_last(), c) + rv(q.last().1) * ev(*q.last().0, c) }
}
pub open spec fn ctx_of<C: ChanceInfoset, S: AsRef<[f64]>>(chance_info: &[C], strat_info: [&[S]; 2]) -> Ctx {
    Ctx {
        chance: Seq::new(chance_info@.len(), |i: int| chance_info@[i].probs_view()),
        s1: Seq::new(strat_info[0]@.len(), |i: int| asref_view::<S, [f64]>(&strat_info[0]@[i])@),
        s2: Seq::new(strat_info[1]@.len(), |i: int| asref_view::<S, [f64]>(&strat_info[1]@[i])@),
    }
}

pub proof fn lemma_qsum_push(q: Seq<(&Node, f64)>, e: (&Node, f64), c: Ctx)
    ensures qsum(q.push(e), c) == qsum(q, c) + rv(e.1) * ev(*e.0, c)
{
    assert(q.push(e).drop_last() =~= q);
}

