pub open spec fn total(l: Seq<usize>) -> nat decreases l.len() {
    if l.len() == 0 { 0 } else { l[0] as nat + total(l.drop_first()) }
}
