// categorical sampler specification (C10): cumulative sums over the stored weights (all but the last)
pub open spec fn cum(p: Seq<f64>, k: int) -> real decreases k {
    if k <= 0 { 0real } else { cum(p, k - 1) + rv(p[k - 1]) }
}
// index k is returned exactly when the uniform variate u lies in the k-th cumulative interval
pub open spec fn inv_cdf(init: Seq<f64>, u: f64, k: int) -> bool {
    0 <= k <= init.len()
    && (forall|j: int| 0 < j <= k ==> cum(init, j) < rv(u))
    && (k < init.len() ==> rv(u) <= cum(init, k + 1))
}
