// R7: provided Iterator methods vstd does not specify, as external wrappers whose contracts restate
// the std documentation over the iterator's remaining() sequence.
// Iterator::reduce(f): None for an empty iterator, otherwise the left fold of f over the items.
// (f is assumed deterministic: its postcondition determines its result -- true for fn items such as
// f64::max whose assume_specification is an equation.)
pub open spec fn fapply<F: Fn(f64, f64) -> f64>(f: F, a: f64, b: f64) -> f64 {
    choose|r: f64| f.ensures((a, b), r)
}
pub open spec fn rfold<F: Fn(f64, f64) -> f64>(f: F, s: Seq<f64>) -> f64
    decreases s.len()
{
    if s.len() <= 1 { s[0] } else { fapply(f, rfold(f, s.drop_last()), s.last()) }
}
#[verifier::external_body]
pub fn __reduce<I: Iterator<Item = f64>, F: Fn(f64, f64) -> f64>(it: I, f: F) -> (r: Option<f64>)
    requires it.obeys_prophetic_iter_laws(),
    ensures
        it.remaining().len() == 0 ==> r is None,
        it.remaining().len() > 0 ==> r == Some(rfold(f, it.remaining())),
{ unimplemented!() }
// the fn ITEMS f64::max / f64::min used as values: their call postcondition is the same equation
// as their assume_specification (Verus does not derive this for function items by itself)
pub axiom fn ax_fn_items()
    ensures
        forall|a: f64, b: f64, r: f64| #[trigger] f64::max.ensures((a, b), r) == (r == fmaxf(a, b)),
        forall|a: f64, b: f64, r: f64| #[trigger] f64::min.ensures((a, b), r) == (r == fminf(a, b));
