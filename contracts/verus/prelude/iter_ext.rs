// R7: provided Iterator methods vstd does not specify, as external wrappers whose contracts restate
// the std documentation over the iterator's remaining() sequence.
// Iterator::reduce(f): None for an empty iterator, otherwise the left fold of f over the items.
// (f is assumed deterministic: its postcondition determines its result -- true for fn items such as
// f64::max whose assume_specification is an equation.)
pub open spec fn fapply<F: Fn(f64, f64) -> f64>(f: F, a: f64, b: f64) -> f64 {
    choose|r: f64| f.ensures((a, b), r)
}
pub open spec fn rfold<F: Fn(f64, f64) -> f64>(f: F, s: Seq<f64>) -> f64
    decreases s.len()
{
    if s.len() <= 1 { s[0] } else { fapply(f, rfold(f, s.drop_last()), s.last()) }
}
#[verifier::external_body]
pub fn __reduce<I: Iterator<Item = f64>, F: Fn(f64, f64) -> f64>(it: I, f: F) -> (r: Option<f64>)
    requires it.obeys_prophetic_iter_laws(),
    ensures
        it.remaining().len() == 0 ==> r is None,
        it.remaining().len() > 0 ==> r == Some(rfold(f, it.remaining())),
{ unimplemented!() }
// the fn ITEMS f64::max / f64::min used as values: their call postcondition is the same equation
// as their assume_specification (Verus does not derive this for function items by itself)
pub axiom fn ax_fn_items()
    ensures
        forall|a: f64, b: f64, r: f64| #[trigger] f64::max.ensures((a, b), r) == (r == fmaxf(a, b)),
        forall|a: f64, b: f64, r: f64| #[trigger] f64::min.ensures((a, b), r) == (r == fminf(a, b));
// Iterator::sum over &f64 items: the left fold of `+` starting from the additive identity the
// standard library uses (an unspecified zero constant here; its real value is 0)
pub uninterp spec fn fsum_init() -> f64;
pub open spec fn fsum_ref(s: Seq<&f64>, k: int) -> f64 decreases k {
    if k <= 0 { fsum_init() } else { fadd(fsum_ref(s, k - 1), *s[k - 1]) }
}
pub open spec fn fsum(s: Seq<f64>, k: int) -> f64 decreases k {
    if k <= 0 { fsum_init() } else { fadd(fsum(s, k - 1), s[k - 1]) }
}
#[verifier::external_body]
pub fn __sum<'a, I: Iterator<Item = &'a f64>>(it: I) -> (r: f64)
    requires it.obeys_prophetic_iter_laws(),
    ensures r == fsum_ref(it.remaining(), it.remaining().len() as int),
{ unimplemented!() }
// summing references to the elements of a sequence is summing the sequence (fires automatically)
pub broadcast proof fn lemma_fsum_ref_is_fsum(rem: Seq<&f64>, s: Seq<f64>, k: int)
    requires 0 <= k <= rem.len(), k <= s.len(), forall|i: int| 0 <= i < k ==> *rem[i] == s[i],
    ensures #![trigger fsum_ref(rem, k), fsum(s, k)] fsum_ref(rem, k) == fsum(s, k),
    decreases k
{
    if k > 0 { lemma_fsum_ref_is_fsum(rem, s, k - 1); }
}
// Iterator::all: NOT specified (the result is an arbitrary boolean): code whose outcome depends on it
// can only be proved if it is correct for both answers
#[verifier::external_body]
pub fn __all<I: Iterator, F: FnMut(I::Item) -> bool>(it: I, f: F) -> (r: bool) { unimplemented!() }
