// R5: the four update helpers of RegretParams seen from their callers: each is a PURE function of its
// arguments with a frame (regret_match and cum_regret do not modify the regrets).  These contracts
// are discharged per helper by Kani harnesses on the real bodies (c08_regret_match_*,
// c08_discount_cum_regret, c08_discount_average_strat, c02_cum_regret_formula: formula + frame,
// bounded to slices of length <= 3), so they are cited at the bounded level, assumed beyond it.
pub uninterp spec fn rm_spec(p: RegretParams, cum_reg: Seq<f64>) -> Seq<f64>;
pub uninterp spec fn dcr_spec(p: RegretParams, it: u64, cum_reg: Seq<f64>) -> Seq<f64>;
pub uninterp spec fn das_spec(p: RegretParams, it: u64, avg: Seq<f64>) -> Seq<f64>;
pub uninterp spec fn cr_spec(p: RegretParams, it: u64, cum_reg: Seq<f64>) -> f64;
impl RegretParams {
    #[verifier::external_body]
    pub fn regret_match(&self, cum_reg: &mut [f64], strat: &mut [f64])
        ensures final(strat)@ == rm_spec(*self, old(cum_reg)@), final(cum_reg)@ == old(cum_reg)@,
    { unimplemented!() }
    #[verifier::external_body]
    pub fn discount_cum_regret(&self, it: u64, cum_reg: &mut [f64])
        ensures final(cum_reg)@ == dcr_spec(*self, it, old(cum_reg)@),
    { unimplemented!() }
    #[verifier::external_body]
    pub fn discount_average_strat(&self, it: u64, avg_strat: &mut [f64])
        ensures final(avg_strat)@ == das_spec(*self, it, old(avg_strat)@),
    { unimplemented!() }
    #[verifier::external_body]
    pub fn cum_regret(&self, it: u64, cum_reg: &mut [f64]) -> (r: f64)
        ensures r == cr_spec(*self, it, old(cum_reg)@), final(cum_reg)@ == old(cum_reg)@,
    { unimplemented!() }
}
