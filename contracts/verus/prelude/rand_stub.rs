// R5: the parts of rand / rand_distr that the extracted functions touch, with ASSUMED contracts
// restating their documentation (external crates cannot be linked in single-file mode).
pub trait Rng {
    // the next uniform variate in [0,1) this generator will produce
    spec fn next_f64(&self) -> f64;
    fn gen(&mut self) -> (r: f64) ensures r == old(self).next_f64();
}
pub trait Distribution<T> {
    fn sample<R>(&self, rnd: &mut R) -> T where R: Rng + ?Sized;
}
// rand_distr::WeightedAliasIndex<f64>: documented as sampling index i with probability
// proportional to weights[i] (TRUSTED: statistical correctness is not decided here).
#[verifier::external_body]
#[verifier::reject_recursive_types(W)]
pub struct WeightedAliasIndex<W> { _p: core::marker::PhantomData<W> }
#[verifier::external_body]
#[derive(Debug)]
pub struct WeightedError { }
#[verifier::external_body]
pub struct ThreadRng { }
#[verifier::external_body]
pub fn thread_rng() -> ThreadRng { unimplemented!() }
impl Rng for ThreadRng {
    uninterp spec fn next_f64(&self) -> f64;
    #[verifier::external_body]
    fn gen(&mut self) -> (r: f64) { unimplemented!() }
}
// the weights an alias table was built from
pub uninterp spec fn alias_weights<W>(w: &WeightedAliasIndex<W>) -> Seq<W>;
// ghost draw counter: how many times `sample` has been called on this table is not tracked by the
// type; instead `sample`'s contract exposes the only facts callers rely on
impl<W> WeightedAliasIndex<W> {
    #[verifier::external_body]
    pub fn new(weights: Vec<W>) -> (r: Result<Self, WeightedError>)
        requires weights@.len() > 0,
        ensures r is Ok, alias_weights(&r->Ok_0) == weights@,
    { unimplemented!() }
    #[verifier::external_body]
    pub fn sample(&self, rng: &mut ThreadRng) -> (r: usize)
        ensures r < alias_weights(self).len(), r < usize::MAX,
    { unimplemented!() }
}
