// Trait declarations of src/lib.rs restated with a ghost view and a contract on each method
// (a trait method declaration has no body to extract; `expect` entries of the unit check on every
// run that the real declarations still have exactly these signatures).
pub trait ChanceInfoset {
    spec fn probs_view(&self) -> Seq<f64>;
    fn probs(&self) -> (r: &[f64])
        ensures r@ == self.probs_view();
}
pub trait PlayerInfoset {
    spec fn num_actions_view(&self) -> usize;
    spec fn prev_infoset_view(&self) -> Option<usize>;
    fn num_actions(&self) -> (r: usize)
        ensures r == self.num_actions_view();
    fn prev_infoset(&self) -> (r: Option<usize>)
        ensures r == self.prev_infoset_view();
}
