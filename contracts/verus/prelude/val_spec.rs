// ---- specification: value of a continuation up to the deviating player's next infosets ----
pub struct VCtx { pub chance: Seq<Seq<f64>>, pub opp: Seq<Seq<f64>>, pub utab: Seq<f64>, pub p1: bool }

pub open spec fn own(n: Node, p1: bool) -> bool {
    match n { Node::Player(pl) => (match pl.num { PlayerNum::One => p1, PlayerNum::Two => !p1 }), _ => false }
}
pub open spec fn vweights(n: Node, c: VCtx) -> Seq<f64> {
    match n {
        Node::Terminal(_) => Seq::empty(),
        Node::Chance(ch) => c.chance[ch.infoset as int],
        Node::Player(pl) => c.opp[pl.infoset as int],
    }
}
pub open spec fn val(n: Node, c: VCtx) -> real
    decreases n, 1int, 0int
{
    match n {
        Node::Terminal(p) => if c.p1 { rv(p) } else { 0real - rv(p) },
        Node::Player(pl) => if own(n, c.p1) { rv(c.utab[pl.infoset as int]) } else { vsum(n, c, kids_of(n).len() as int) },
        Node::Chance(_) => vsum(n, c, kids_of(n).len() as int),
    }
}
pub open spec fn vsum(parent: Node, c: VCtx, k: int) -> real
    decreases parent, 0int, k
{
    if k <= 0 || k > kids_of(parent).len() { 0real } else {
        vsum(parent, c, k - 1) + rv(vweights(parent, c)[k - 1]) * val(kids_of(parent)[k - 1], c)
    }
}
pub open spec fn vwf(n: Node, c: VCtx) -> bool
    decreases n
{
    match n {
        Node::Terminal(_) => true,
        Node::Chance(ch) => ch.infoset < c.chance.len() && vweights(n, c).len() == kids_of(n).len()
            && forall|i: int| 0 <= i < kids_of(n).len() ==> vwf(#[trigger] kids_of(n)[i], c),
        Node::Player(pl) => if own(n, c.p1) { pl.infoset < c.utab.len() } else {
            pl.infoset < c.opp.len() && vweights(n, c).len() == kids_of(n).len()
            && (forall|i: int| 0 <= i < kids_of(n).len() ==> rv(#[trigger] vweights(n, c)[i]) >= 0real)
            && forall|i: int| 0 <= i < kids_of(n).len() ==> vwf(#[trigger] kids_of(n)[i], c)
        },
    }
}
pub open spec fn vqsum(q: Seq<(&Node, f64)>, c: VCtx) -> real
    decreases q.len()
{
    if q.len() == 0 { 0real } else { vqsum(q.drop_last(), c) + rv(q.last().1) * val(*q.last().0, c) }
}
pub open spec fn vctx_seq<C: ChanceInfoset, S: AsRef<[f64]>>(p1: bool, infos: Seq<DeviationInfo>, chance_info: &[C], strat_info: &[S]) -> VCtx {
    VCtx {
        chance: Seq::new(chance_info@.len(), |i: int| chance_info@[i].probs_view()),
        opp: Seq::new(strat_info@.len(), |i: int| asref_view::<S, [f64]>(&strat_info@[i])@),
        utab: Seq::new(infos.len(), |i: int| infos[i].max_utility),
        p1: p1,
    }
}
pub open spec fn vctx_of<C: ChanceInfoset, S: AsRef<[f64]>>(p1: bool, infosets: &[DeviationInfo], chance_info: &[C], strat_info: &[S]) -> VCtx {
    vctx_seq(p1, infosets@, chance_info, strat_info)
}
pub proof fn lemma_vqsum_push(q: Seq<(&Node, f64)>, e: (&Node, f64), c: VCtx)
    ensures vqsum(q.push(e), c) == vqsum(q, c) + rv(e.1) * val(*e.0, c)
{
    assert(q.push(e).drop_last() =~= q);
}

