// ---- specification of one resolution step of optimal_deviations (C01, regret sentence) ----
// payoff of action a summed over the first k reached nodes of the infoset, each weighted by the
// opponent/chance reach recorded with it
pub open spec fn step_payoff(nodes: Seq<(&Player, f64)>, a: int, c: VCtx, k: int) -> real
    decreases k
{
    if k <= 0 { 0real } else { step_payoff(nodes, a, c, k - 1) + val(nodes[k - 1].0.actions@[a], c) * rv(nodes[k - 1].1) }
}
// the largest payoff among the first m actions
pub open spec fn step_max(nodes: Seq<(&Player, f64)>, c: VCtx, m: int) -> real
    decreases m
{
    if m <= 1 { step_payoff(nodes, 0, c, nodes.len() as int) } else {
        let prev = step_max(nodes, c, m - 1);
        let cur = step_payoff(nodes, m - 1, c, nodes.len() as int);
        if prev >= cur { prev } else { cur }
    }
}
pub open spec fn reach_sum(nodes: Seq<(&Player, f64)>, k: int) -> real
    decreases k
{
    if k <= 0 { 0real } else { reach_sum(nodes, k - 1) + rv(nodes[k - 1].1) }
}
// R6: `let total_reach: f64 = nodes.iter().map(|(_, p)| p).sum();` -- Map/sum chains are outside this
// Verus; ASSUMED contract: the sum of the recorded reaches
#[verifier::external_body]
pub fn __abs_total_reach(nodes: &Vec<(&Player, f64)>) -> (r: f64)
    ensures rv(r) == reach_sum(nodes@, nodes@.len() as int),
{ unimplemented!() }

pub proof fn lemma_rfold_max(p: Seq<f64>, nodes: Seq<(&Player, f64)>, c: VCtx, m: int)
    requires 1 <= m <= p.len(), forall|a: int| 0 <= a < m ==> rv(#[trigger] p[a]) == step_payoff(nodes, a, c, nodes.len() as int),
    ensures rv(rfold(f64::max, p.take(m))) == step_max(nodes, c, m),
    decreases m
{
    broadcast use ideal;
    ax_fn_items();
    reveal_with_fuel(rfold, 2);
    if m == 1 {
        assert(p.take(1)[0] == p[0]);
    } else {
        lemma_rfold_max(p, nodes, c, m - 1);
        assert(p.take(m).drop_last() =~= p.take(m - 1));
        assert(p.take(m).last() == p[m - 1]);
        let acc = rfold(f64::max, p.take(m - 1));
        assert(f64::max.ensures((acc, p[m - 1]), fmaxf(acc, p[m - 1])));
        assert(fapply(f64::max, acc, p[m - 1]) == fmaxf(acc, p[m - 1]));
    }
}
