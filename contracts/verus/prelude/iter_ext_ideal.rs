// (idealised) the additive identity Iterator::sum starts from denotes 0
pub axiom fn ax_rv_sum_init() ensures rv(fsum_init()) == 0real;
