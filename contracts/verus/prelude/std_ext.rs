// R5: assumed contracts on std items that vstd does not specify (each is listed in the evidence).
#[verifier::external_trait_specification]
pub trait ExAsRef<T: core::marker::PointeeSized>: core::marker::PointeeSized {
    type ExternalTraitSpecificationFor: core::convert::AsRef<T>;
    fn as_ref(&self) -> (r: &T)
        ensures r == asref_view::<Self, T>(self);
}
pub uninterp spec fn asref_view<S: core::marker::PointeeSized, T: core::marker::PointeeSized>(s: &S) -> &T;
