// children of a node, as a sequence (shared by the ev and val specifications)
pub open spec fn kids_of(n: Node) -> Seq<Node> {
    match n {
        Node::Terminal(_) => Seq::empty(),
        Node::Chance(ch) => ch.outcomes@,
        Node::Player(pl) => pl.actions@,
    }
}

pub proof fn lemma_dist(r: real, a: real, w: real, e: real)
    ensures r * (a + w * e) == r * a + (w * r) * e
{
    assert(r * (a + w * e) == r * a + (w * r) * e) by(nonlinear_arith);
}
