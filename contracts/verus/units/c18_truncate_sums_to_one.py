P = __file__.rsplit("/units/", 1)[0] + "/prelude/"
CLAUSE_SURV = """    surv_sum(old(strat)@, thresh, old(strat)@.len() as int) > 0real ==>
        (forall|i: int| 0 <= i < old(strat)@.len() ==> rv(#[trigger] final(strat)@[i]) ==
            (if rv(old(strat)@[i]) > rv(thresh) { rv(old(strat)@[i]) / surv_sum(old(strat)@, thresh, old(strat)@.len() as int) } else { 0real }))
        && rsum(final(strat)@, old(strat)@.len() as int) == 1real"""
CLAUSE_FLAT = """    !(surv_sum(old(strat)@, thresh, old(strat)@.len() as int) > 0real) ==> final(strat)@ == old(strat)@"""
UNIT = dict(
    id="c18_truncate_sums_to_one",
    prelude=["floats.rs", "ideal.rs", "iter_ext.rs", "iter_ext_ideal.rs"],
    canary_use="broadcast use fl; broadcast use ideal; ax_obeys(); ax_rv_lits();",
    assumptions=[
        "idealised-real float mode",
        "R6: `let total: f64 = strat.iter().filter(|p| p > &&thresh).sum();` is abstracted with the ASSUMED contract `total is the sum of the entries above the threshold` (Filter/sum chains are outside this Verus; the bounded Kani harnesses exercise the real statement)",
        "BLOCK: per-infoset body of truncate (see unit c18_truncate_block)",
    ],
    items=[
        dict(raw=open(P + "rsum_lemmas.rs").read()),
        dict(raw="""// sum of the entries strictly above the threshold among the first k
pub open spec fn surv_sum(s: Seq<f64>, h: f64, k: int) -> real decreases k {
    if k <= 0 { 0real } else { surv_sum(s, h, k - 1) + (if rv(s[k - 1]) > rv(h) { rv(s[k - 1]) } else { 0real }) }
}
#[verifier::external_body]
pub fn __abs_total(strat: &[f64], thresh: f64) -> (r: f64)
    ensures rv(r) == surv_sum(strat@, thresh, strat@.len() as int),
{ unimplemented!() }
pub proof fn lemma_surv_div(a: Seq<f64>, b: Seq<f64>, h: f64, t: real, k: int)
    requires 0 <= k <= a.len(), a.len() == b.len(), t != 0real,
        forall|i: int| 0 <= i < a.len() ==> rv(#[trigger] b[i]) == (if rv(a[i]) > rv(h) { rv(a[i]) / t } else { 0real }),
    ensures rsum(b, k) == surv_sum(a, h, k) / t,
    decreases k
{
    if k <= 0 {
        assert(0real / t == 0real) by(nonlinear_arith) requires t != 0real;
    } else {
        lemma_surv_div(a, b, h, t, k - 1);
        assert(rsum(b, k) == rsum(b, k - 1) + rv(b[k - 1]));
        let x = if rv(a[k - 1]) > rv(h) { rv(a[k - 1]) } else { 0real };
        assert(rv(b[k - 1]) == x / t) by {
            assert(0real / t == 0real) by(nonlinear_arith) requires t != 0real;
        }
        assert(surv_sum(a, h, k - 1) / t + x / t == (surv_sum(a, h, k - 1) + x) / t) by(nonlinear_arith) requires t != 0real;
    }
}"""),
        dict(file="src/lib.rs", path="impl Strategies / fn truncate", loop=1, n_loops=3,
             header_re=r"^for strat in split_by_mut\(",
             as_fn="truncate__per_infoset", params="strat: &mut [f64], thresh: f64",
             obligation="C18.V.truncate.sums_to_one",
             table=[(r"^let total: f64 = strat\.iter\(\)\.filter\(\|p\| [^|;]*\)\.sum\(\);$", ("abstract", "let total: f64 = __abs_total(strat, thresh);"))],
             contract="""ensures
    final(strat)@.len() == old(strat)@.len(),
    // some action exceeds h (with positive mass): exactly those actions survive, rescaled
    // proportionally, and the infoset sums to one
""" + CLAUSE_SURV + """, // @ob C18.V.truncate.sums_to_one
    // no action exceeds h: the infoset keeps its distribution
""" + CLAUSE_FLAT + """, // @ob C18.V.truncate.flat_infoset_unchanged""",
             entry="broadcast use fl; broadcast use ideal;\nproof { ax_obeys(); ax_rv_lits(); }\nlet ghost s0 = strat@;\nlet ghost n = strat@.len();",
             loops={0: dict(kind="for", binder="it",
                            head="""invariant
    it.snapshot@.remaining().len() == n, 0 <= it.index@ <= n,
    forall|i: int| 0 <= i < n ==> *(#[trigger] it.snapshot@.remaining()[i]) == s0[i],
    rv(total) == surv_sum(s0, thresh, n as int), rv(total) > 0real,
    forall|i: int| 0 <= i < it.index@ ==> rv(*final(#[trigger] it.snapshot@.remaining()[i])) ==
        (if rv(s0[i]) > rv(thresh) { rv(s0[i]) / rv(total) } else { 0real }),
ensures
    forall|i: int| 0 <= i < n ==> rv(*final(#[trigger] it.snapshot@.remaining()[i])) ==
        (if rv(s0[i]) > rv(thresh) { rv(s0[i]) / rv(total) } else { 0real }),""",
                            body_start="broadcast use fl; broadcast use ideal;\nproof { ax_obeys(); ax_rv_lits(); }",
                            after="""proof {
    lemma_surv_div(s0, strat@, thresh, rv(total), n as int);
    assert(surv_sum(s0, thresh, n as int) / rv(total) == 1real) by(nonlinear_arith) requires rv(total) == surv_sum(s0, thresh, n as int), rv(total) > 0real;
}""")},
        ),

        # "truncating twice equals truncating once" as a lemma over the contract above: `post` is the
        # postcondition's own text (same Python template, instantiated for a pair of sequences)
        dict(raw="""
pub open spec fn post(a: Seq<f64>, thresh: f64, b: Seq<f64>) -> bool {
    b.len() == a.len()
    && (""" + CLAUSE_SURV.replace("old(strat)@", "a").replace("final(strat)@", "b") + """)
    && (""" + CLAUSE_FLAT.replace("old(strat)@", "a").replace("final(strat)@", "b") + """)
}
pub open spec fn dist(a: Seq<f64>) -> bool {
    (forall|i: int| 0 <= i < a.len() ==> rv(#[trigger] a[i]) >= 0real) && rsum(a, a.len() as int) == 1real
}
pub proof fn lemma_surv_le(a: Seq<f64>, h: f64, k: int)
    requires 0 <= k <= a.len(), forall|i: int| 0 <= i < a.len() ==> rv(#[trigger] a[i]) >= 0real,
    ensures 0real <= surv_sum(a, h, k) <= rsum(a, k),
    decreases k
{ if k > 0 { lemma_surv_le(a, h, k - 1); } }
// b's survivors are a's survivors, each divided by S
pub proof fn lemma_surv_again(a: Seq<f64>, b: Seq<f64>, h: f64, s: real, k: int)
    requires 0 <= k <= a.len(), a.len() == b.len(), 0real < s <= 1real,
        forall|i: int| 0 <= i < a.len() ==> rv(#[trigger] a[i]) >= 0real,
        forall|i: int| 0 <= i < a.len() ==> rv(#[trigger] b[i]) == (if rv(a[i]) > rv(h) { rv(a[i]) / s } else { 0real }),
    ensures surv_sum(b, h, k) == surv_sum(a, h, k) / s,
        forall|i: int| 0 <= i < a.len() ==> ((rv(#[trigger] b[i]) > rv(h)) == (rv(a[i]) > rv(h))) || (rv(b[i]) == 0real && rv(a[i]) == 0real),
    decreases k
{
    assert forall|i: int| 0 <= i < a.len() implies ((rv(#[trigger] b[i]) > rv(h)) == (rv(a[i]) > rv(h))) || (rv(b[i]) == 0real && rv(a[i]) == 0real) by {
        let x = rv(a[i]);
        if x > rv(h) {
            assert(x / s >= x) by(nonlinear_arith) requires 0real < s <= 1real, x >= 0real;
        } else if rv(h) < 0real {
            // x >= 0 > h contradicts !(x > h)
        } else {
            // b[i] == 0 <= h: not a survivor either
        }
    }
    if k <= 0 {
        assert(0real / s == 0real) by(nonlinear_arith) requires s != 0real;
    } else {
        lemma_surv_again(a, b, h, s, k - 1);
        let x = rv(a[k - 1]);
        let xa = if x > rv(h) { x } else { 0real };
        let xb = if rv(b[k - 1]) > rv(h) { rv(b[k - 1]) } else { 0real };
        assert(xb == xa / s) by {
            assert(0real / s == 0real) by(nonlinear_arith) requires s != 0real;
            if x > rv(h) { assert(x / s >= x) by(nonlinear_arith) requires 0real < s <= 1real, x >= 0real; }
        }
        assert(surv_sum(a, h, k - 1) / s + xa / s == (surv_sum(a, h, k - 1) + xa) / s) by(nonlinear_arith) requires s != 0real;
    }
}
pub proof fn lemma_surv_all(a: Seq<f64>, h: f64, k: int)
    requires 0 <= k <= a.len(), forall|i: int| 0 <= i < a.len() ==> rv(#[trigger] a[i]) >= 0real,
        forall|i: int| 0 <= i < a.len() ==> (rv(#[trigger] a[i]) > 0real ==> rv(a[i]) > rv(h)),
    ensures surv_sum(a, h, k) == rsum(a, k),
    decreases k
{ if k > 0 { lemma_surv_all(a, h, k - 1); } }
pub proof fn lemma_low_threshold_noop(a: Seq<f64>, b: Seq<f64>, thresh: f64)
    requires dist(a), post(a, thresh, b),
        forall|i: int| 0 <= i < a.len() ==> (rv(#[trigger] a[i]) > 0real ==> rv(a[i]) > rv(thresh)),
    ensures
        // a threshold below every positive probability changes nothing (idealised reals)
        forall|i: int| 0 <= i < a.len() ==> rv(#[trigger] b[i]) == rv(a[i]), // @ob C18.V.truncate.low_threshold_noop
{
    let n = a.len() as int;
    lemma_surv_all(a, thresh, n);
    assert forall|i: int| 0 <= i < n implies rv(#[trigger] b[i]) == rv(a[i]) by {
        let y = rv(a[i]);
        assert(y / 1real == y) by(nonlinear_arith);
    }
}
pub proof fn lemma_truncate_idempotent(a: Seq<f64>, b: Seq<f64>, c: Seq<f64>, thresh: f64)
    requires dist(a), post(a, thresh, b), post(b, thresh, c),
    ensures
        // truncating the truncated infoset again changes nothing (idealised reals)
        c.len() == b.len() && forall|i: int| 0 <= i < b.len() ==> rv(#[trigger] c[i]) == rv(b[i]), // @ob C18.V.truncate.idempotent
{
    let n = a.len() as int;
    let s = surv_sum(a, thresh, n);
    lemma_surv_le(a, thresh, n);
    if s > 0real {
        lemma_surv_again(a, b, thresh, s, n);
        assert(s / s == 1real) by(nonlinear_arith) requires s > 0real;
        assert(surv_sum(b, thresh, n) == 1real);
        assert forall|i: int| 0 <= i < n implies rv(#[trigger] c[i]) == rv(b[i]) by {
            let y = rv(b[i]);
            assert(y / 1real == y) by(nonlinear_arith);
            if y > rv(thresh) { } else {
                // not a survivor of the second pass: it was 0 already, or it is a survivor of the first whose
                // quotient does not exceed h -- excluded by lemma_surv_again
                assert(((rv(b[i]) > rv(thresh)) == (rv(a[i]) > rv(thresh))) || (rv(b[i]) == 0real && rv(a[i]) == 0real));
            }
        }
    } else {
        assert(b == a);
        assert(c == b);
    }
}
"""),
    ],
)
