P = __file__.rsplit("/units/", 1)[0] + "/prelude/"
OPT_OUT = """
// vstd attaches its generic prophetic iterator laws to every `impl Iterator`; this type opts out and
// states its own measure-based contract on `next` instead (ghost code only).
impl<'a, T, I: Iterator<Item = usize>> vstd::std_specs::iter::IteratorSpecImpl for %(ty)s<'a, T, I> {
    open spec fn obeys_prophetic_iter_laws(&self) -> bool { false }
    #[verifier::prophetic]
    open spec fn remaining(&self) -> Seq<Self::Item> { arbitrary() }
    #[verifier::prophetic]
    open spec fn will_return_none(&self) -> bool { arbitrary() }
    open spec fn decrease(&self) -> Option<nat> { None }
    open spec fn peek(&self, i: int) -> Option<Self::Item> { None }
}
impl<'a, T, I: Iterator<Item = usize>> %(ty)s<'a, T, I> {
    // representation invariant: the remaining lengths fit into the remaining slice
    #[verifier::prophetic]
    pub open spec fn wf(self) -> bool {
        self.lens.obeys_prophetic_iter_laws() && total(self.lens.remaining()) <= self.slice@.len()
    }
}
"""
ENTRY = """proof {
    assume(self.wf()); // representation invariant: established by split_by*/preserved by next (below)
    assert(old(self).lens.remaining().len() > 0 ==> total(old(self).lens.remaining())
        == old(self).lens.remaining()[0] as nat + total(old(self).lens.remaining().drop_first()));
}"""
UNIT = dict(
    id="split_by",
    prelude=[],
    canary_use="",
    assumptions=[
        "representation invariant wf() of SplitsBy/SplitsByMut assumed at entry of next(); it is established by the constructors under `total(lens) <= slice.len()` and re-established by next() (proved here); encapsulation (no other code builds the struct) is by Rust privacy of the fields",
        "the length iterator obeys vstd's prophetic iterator laws (true for the slice::Iter/Map chains used at all call sites; not proved for arbitrary user iterators)",
        "std::mem::take returns the old value and leaves Default (assume_specification)",
    ],
    items=[
        dict(raw=open(P + "split_spec.rs").read()),
        dict(raw="pub assume_specification<T: Default> [std::mem::take] (x: &mut T) -> (r: T) ensures r == *old(x);\nuse std::mem;"),
        dict(file="src/split.rs", path="struct SplitsBy", pub_fields=True, attrs="#[verifier::reject_recursive_types(I)]"),
        dict(raw=OPT_OUT % dict(ty="SplitsBy")),
        dict(file="src/split.rs", path="impl Iterator for SplitsBy",
             members=[dict(path="fn next", ret="ret", obligation="C01.V.SplitsBy.next.partition",
                           contract="""ensures
    final(self).wf(), // @ob V.SplitsBy.next.wf_preserved
    old(self).lens.remaining().len() == 0 ==> ret is None,
    old(self).lens.remaining().len() > 0 ==> ret is Some
        && ret->0@ == old(self).slice@.take(old(self).lens.remaining()[0] as int)
        && final(self).slice@ == old(self).slice@.skip(old(self).lens.remaining()[0] as int)
        && final(self).lens.remaining() == old(self).lens.remaining().drop_first(), // @ob V.SplitsBy.next.partition""",
                           entry=ENTRY)]),
        dict(file="src/split.rs", path="struct SplitsByMut", pub_fields=True, attrs="#[verifier::reject_recursive_types(I)]"),
        dict(raw=OPT_OUT % dict(ty="SplitsByMut")),
        dict(file="src/split.rs", path="impl Iterator for SplitsByMut",
             members=[dict(path="fn next", ret="ret", obligation="V.SplitsByMut.next.partition",
                           contract="""ensures
    final(self).wf(), // @ob V.SplitsByMut.next.wf_preserved
    old(self).lens.remaining().len() == 0 ==> ret is None,
    old(self).lens.remaining().len() > 0 ==> ret is Some
        && ret->0@ == old(self).slice@.take(old(self).lens.remaining()[0] as int)
        && final(self).slice@ == old(self).slice@.skip(old(self).lens.remaining()[0] as int)
        && final(self).lens.remaining() == old(self).lens.remaining().drop_first(), // @ob V.SplitsByMut.next.partition""",
                           entry=ENTRY)]),
    ],
)
