UNIT = dict(
    id="c08_discount",
    prelude=["floats.rs", "ideal.rs", "libm_stub.rs"],
    canary_use="broadcast use fl; broadcast use ideal; broadcast use ideal_casts; broadcast use ideal_libm; ax_obeys(); ax_rv_lits(); ax_exp_zero(); ax_exp_pos(0real);",
    assumptions=[
        "idealised-real float mode; `u64 as f64` exact",
        "real-analysis axioms for exp / ln and the logaddexp crate's documentation (prelude/libm_stub.rs)",
        "comparisons of `&mut f64` with `&mut f64` compare the pointees (core impl, axiom)",
        "TYPE-SUBST in discount_cum_regret: the generic `R: IntoFloatsMut` is instantiated at [f64], whose impl of into_floats_mut is `self.iter_mut()` (checked by the `expect` pattern on src/solve/data.rs)",
        "the special exponents -inf / 0 / +inf are separate constants (fneginf, 0, finf); their results 0, 1/2, 1 are decided bit-precisely by Kani harness c08_gen_discount_special",
    ],
    expect=[("src/solve/data.rs", r"impl<'a> IntoFloatsMut<'a> for &'a mut \[f64\] \{\s*type Floats = slice::IterMut<'a, f64>;\s*fn into_floats_mut\(self\) -> Self::Floats \{\s*self\.iter_mut\(\)\s*\}\s*\}")],
    items=[
        dict(raw="""pub open spec fn pow_t(t: u64, a: f64) -> real { rexp(rv(a) * rln(t as real)) }
// the documented discount factor t^a / (t^a + 1)
pub open spec fn is_discount(r: f64, t: u64, a: f64) -> bool { rv(r) * (pow_t(t, a) + 1real) == pow_t(t, a) }
// the value gen_discount computes, as a function of its arguments (uninterpreted float operations)
pub open spec fn gd_general(it: u64, d: f64) -> f64 {
    let numer = fmul(d, fln(u64_to_f64(it)));
    let denom = flae(numer, 0.0f64);
    fexp(fsub(numer, denom))
}
pub open spec fn gd_spec(it: u64, d: f64) -> f64 {
    if feq(d, fneginf()) { 0.0f64 } else if feq(d, 0.0f64) { 0.5f64 } else if feq(d, finf()) { 1.0f64 } else { gd_general(it, d) }
}
pub proof fn lemma_gd_general(it: u64, d: f64)
    requires it >= 1,
    ensures is_discount(gd_general(it, d), it, d),
{
    broadcast use fl; broadcast use ideal; broadcast use ideal_casts; broadcast use ideal_libm;
    ax_rv_lits();
    let numer = fmul(d, fln(u64_to_f64(it)));
    let denom = flae(numer, 0.0f64);
    let n = rv(numer);
    ax_exp_zero();
    ax_exp_pos(n);
    ax_exp_ln(rexp(n) + 1real);
    ax_exp_sub(n, rv(denom));
    assert(rv(denom) == rln(rexp(n) + 1real));
    assert(rexp(rv(denom)) == rexp(n) + 1real);
    assert(n == rv(d) * rln(it as real));
    assert(rv(gd_general(it, d)) == rexp(n - rv(denom)));
}
pub axiom fn ax_mutref_cmp()
    ensures <&mut f64 as PartialOrdSpec<&mut f64>>::obeys_partial_cmp_spec(),
        forall|a: &mut f64, b: &mut f64| #[trigger] a.partial_cmp_spec(&b) == fcmp(*a, *b);
"""),
        dict(file="src/solve/data.rs", path="struct RegretParams", attrs="#[derive(Clone, Copy)]"),
        dict(file="src/solve/data.rs", path="impl RegretParams", members=[
            dict(path="fn gen_discount", ret="res", vis="pub ", obligation="C08.V.gen_discount.value",
                 contract="""requires
    it >= 1,
ensures
    // (the value as a real number: operand order inside the formula is immaterial; the three special
    // exponents give the exact constants)
    rv(res) == rv(gd_spec(it, discount)),
    feq(discount, fneginf()) ==> res == 0.0f64, !feq(discount, fneginf()) && feq(discount, 0.0f64) ==> res == 0.5f64,
    !feq(discount, fneginf()) && !feq(discount, 0.0f64) && feq(discount, finf()) ==> res == 1.0f64,
    // general branch: t^a / (t^a + 1) with t^a := exp(a ln t)
    !feq(discount, fneginf()) && !feq(discount, 0.0f64) && !feq(discount, finf()) ==> is_discount(res, it, discount), // @ob C08.V.gen_discount.value""",
                 entry="""broadcast use fl; broadcast use ideal; broadcast use ideal_casts; broadcast use ideal_libm;
proof { ax_obeys(); ax_rv_lits(); lemma_gd_general(it, discount); }""",
                 ),
            dict(path="fn discount_average_strat", vis="pub ", obligation="C08.V.discount_average_strat", n_loops=2,
                 f64_fields=["strat", "pos_regret", "neg_regret", "no_positive"],
                 contract="""requires
    it >= 1,
ensures
    final(avg_strat)@.len() == old(avg_strat)@.len(),
    // gamma == +inf: everything forgotten
    feq(self.strat, finf()) ==> forall|i: int| 0 <= i < old(avg_strat)@.len() ==> rv(#[trigger] final(avg_strat)@[i]) == 0real, // @ob C08.V.discount_average_strat.inf
    // 0 < gamma < inf: every entry times ONE ratio (t / (t + 1))^gamma
    !feq(self.strat, finf()) && fgt(self.strat, 0.0f64) ==> forall|i: int| 0 <= i < old(avg_strat)@.len() ==>
        rv(#[trigger] final(avg_strat)@[i]) == rv(old(avg_strat)@[i]) * rpow((it as real) / (it as real + 1real), rv(self.strat)), // @ob C08.V.discount_average_strat.ratio
    // gamma == 0 (or negative): untouched
    !feq(self.strat, finf()) && !fgt(self.strat, 0.0f64) ==> final(avg_strat)@ == old(avg_strat)@, // @ob C08.V.discount_average_strat.zero""",
                 entry="broadcast use fl; broadcast use ideal; broadcast use ideal_casts;\nproof { ax_obeys(); ax_rv_lits(); }\nlet ghost s0 = avg_strat@;\nlet ghost n = avg_strat@.len();",
                 loops={
                     0: dict(kind="for", binder="it0", head="""invariant
    it0.snapshot@.remaining().len() == n, 0 <= it0.index@ <= n,
    forall|i: int| 0 <= i < it0.index@ ==> rv(*final(#[trigger] it0.snapshot@.remaining()[i])) == 0real,
ensures
    forall|i: int| 0 <= i < n ==> rv(*final(#[trigger] it0.snapshot@.remaining()[i])) == 0real,""",
                             body_start="broadcast use fl; broadcast use ideal;\nproof { ax_obeys(); ax_rv_lits(); }"),
                     1: dict(kind="for", binder="it1", head="""invariant
    it1.snapshot@.remaining().len() == n, 0 <= it1.index@ <= n,
    forall|i: int| 0 <= i < n ==> *(#[trigger] it1.snapshot@.remaining()[i]) == s0[i],
    rv(ratio) == rpow((it as real) / (it as real + 1real), rv(self.strat)),
    forall|i: int| 0 <= i < it1.index@ ==> rv(*final(#[trigger] it1.snapshot@.remaining()[i])) == rv(s0[i]) * rv(ratio),
ensures
    forall|i: int| 0 <= i < n ==> rv(*final(#[trigger] it1.snapshot@.remaining()[i])) == rv(s0[i]) * rv(ratio),""",
                             body_start="broadcast use fl; broadcast use ideal;\nproof { ax_obeys(); ax_rv_lits(); }"),
                 }),
            dict(path="fn discount_cum_regret", vis="pub ", obligation="C08.V.discount_cum_regret", n_loops=1,
                 sig_subst=[(r"fn discount_cum_regret<R: \?Sized>\(&self, it: u64, cum_reg: &mut R\)\s*where\s*for<'a> &'a mut R: IntoFloatsMut<'a>,",
                             "fn discount_cum_regret(&self, it: u64, cum_reg: &mut [f64])", "TYPE-SUBST R := [f64]")],
                 body_subst=[(r"cum_reg\.into_floats_mut\(\)", "cum_reg.iter_mut()", "TYPE-SUBST <&mut [f64] as IntoFloatsMut>::into_floats_mut is iter_mut")],
                 contract="""requires
    it >= 1,
ensures
    final(cum_reg)@.len() == old(cum_reg)@.len(),
    // positive cumulative regrets are multiplied by the factor of alpha, negative ones by the factor
    // of beta (both for THIS iteration number), zeros stay
    forall|i: int| 0 <= i < old(cum_reg)@.len() ==> rv(#[trigger] final(cum_reg)@[i]) ==
        (if rv(old(cum_reg)@[i]) > 0real { rv(old(cum_reg)@[i]) * rv(gd_spec(it, self.pos_regret)) }
         else if rv(old(cum_reg)@[i]) < 0real { rv(old(cum_reg)@[i]) * rv(gd_spec(it, self.neg_regret)) }
         else { rv(old(cum_reg)@[i]) }), // @ob C08.V.discount_cum_regret""",
                 entry="broadcast use fl; broadcast use ideal;\nproof { ax_obeys(); ax_rv_lits(); ax_mutref_cmp(); }\nlet ghost s0 = cum_reg@;\nlet ghost n = cum_reg@.len();",
                 loops={0: dict(kind="for", binder="it0", head="""invariant
    it0.snapshot@.remaining().len() == n, 0 <= it0.index@ <= n,
    rv(pos) == rv(gd_spec(it, self.pos_regret)), rv(neg) == rv(gd_spec(it, self.neg_regret)),
    forall|i: int| 0 <= i < n ==> *(#[trigger] it0.snapshot@.remaining()[i]) == s0[i],
    forall|i: int| 0 <= i < it0.index@ ==> rv(*final(#[trigger] it0.snapshot@.remaining()[i])) ==
        (if rv(s0[i]) > 0real { rv(s0[i]) * rv(pos) } else if rv(s0[i]) < 0real { rv(s0[i]) * rv(neg) } else { rv(s0[i]) }),
ensures
    forall|i: int| 0 <= i < n ==> rv(*final(#[trigger] it0.snapshot@.remaining()[i])) ==
        (if rv(s0[i]) > 0real { rv(s0[i]) * rv(pos) } else if rv(s0[i]) < 0real { rv(s0[i]) * rv(neg) } else { rv(s0[i]) }),""",
                                body_start="broadcast use fl; broadcast use ideal;\nproof { ax_obeys(); ax_rv_lits(); ax_mutref_cmp(); }")}),
        ]),
    ],
)
