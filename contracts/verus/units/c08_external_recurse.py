UNIT = dict(
    id="c08_external_recurse",
    prelude=["floats.rs", "ideal.rs"],
    canary_use="broadcast use fl; broadcast use ideal; ax_obeys(); ax_rv_lits();",
    expect=[("src/solve/external.rs", r"trait ActiveInfo \{\s*fn recurse\(&mut self, player: &Player, rec: impl Fn\(&Node\) -> f64\) -> f64;")],
    assumptions=[
        "idealised-real float mode (harmless reorderings of operands do not disturb the proof)",
        "struct invariant actions.len() == strat.len() == cum_regret.len() (wf_game + RegretInfoset::new), assumed at entry",
        "the continuation `rec` may be called on any child (its precondition is assumed to hold for every node); its results u_a are whatever it returns (existentially quantified)",
    ],
    items=[
        dict(raw="""use vstd::std_specs::iter::{zip_iter_snd, zip_iter_fst};
#[derive(Copy, Clone)]
pub enum PlayerNum { One, Two }
pub trait ActiveInfo {
    fn recurse<F: Fn(&Node) -> f64>(&mut self, player: &Player, rec: F) -> f64;
}
// expected utility under the current strategy, accumulated left to right: e_{k+1} = e_k + sigma_k * u_k
pub open spec fn ext_expected(strat: Seq<f64>, us: Seq<f64>, k: int) -> real decreases k {
    if k <= 0 { 0real } else { ext_expected(strat, us, k - 1) + rv(strat[k - 1]) * rv(us[k - 1]) }
}"""),
        dict(file="src/lib.rs", path="enum Node"),
        dict(file="src/lib.rs", path="struct Chance", pub_fields=True),
        dict(file="src/lib.rs", path="struct Player", pub_fields=True),
        dict(file="src/solve/data.rs", path="struct RegretInfoset"),
        dict(file="src/solve/external.rs", path="struct CachedInfoset", pub_fields=True),
        dict(file="src/solve/external.rs", path="impl ActiveInfo for CachedInfoset", members=[
            dict(path="fn recurse", ret="out", obligation="C08.V.external.recurse", n_loops=2,
                 sig_subst=[(r"fn recurse\(&mut self, player: &Player, rec: impl Fn\(&Node\) -> f64\)", "fn recurse<F: Fn(&Node) -> f64>(&mut self, player: &Player, rec: F)", "R11 impl-Trait argument named (Rust's own desugaring)")],
                 contract="""ensures
    final(self).reg.strat@ == old(self).reg.strat@, final(self).reg.cum_strat@ == old(self).reg.cum_strat@,
    final(self).cached == old(self).cached,
    final(self).reg.cum_regret@.len() == old(self).reg.cum_regret@.len(),
    // with u_a what the continuation returned for action a: the result is sum_a sigma_a u_a and every
    // cumulative regret grows by u_a minus that expectation (no reach weighting in external sampling)
    exists|us: Seq<f64>| us.len() == player.actions@.len()
        && (forall|a: int| 0 <= a < us.len() ==> rec.ensures((&#[trigger] player.actions@[a],), us[a]))
        && rv(out) == ext_expected(old(self).reg.strat@, us, us.len() as int)
        && (forall|a: int| 0 <= a < us.len() ==> rv(#[trigger] final(self).reg.cum_regret@[a])
                == rv(old(self).reg.cum_regret@[a]) + rv(us[a]) - rv(out)), // @ob C08.V.external.recurse""",
                 entry="""broadcast use fl; broadcast use ideal;
proof {
    ax_obeys(); ax_rv_lits();
    assume(player.actions@.len() == self.reg.strat@.len() && self.reg.strat@.len() == self.reg.cum_regret@.len());
    assume(forall|n: &Node| rec.requires((n,)));
}
let ghost n = self.reg.cum_regret@.len();
let ghost st = self.reg.strat@;
let ghost c0 = self.reg.cum_regret@;
let ghost acts = player.actions@;
let ghost mut us: Seq<f64> = Seq::empty();""",
                 loops={
                     0: dict(kind="for", binder="it",
                             head="""invariant
    it.snapshot@.remaining().len() == n, n == acts.len(), n == st.len(), n == c0.len(),
    0 <= it.index@ <= n,
    us.len() == it.index@,
    zip_iter_snd(it.snapshot@).remaining().len() == n,
    forall|i: int| 0 <= i < n ==> (it.snapshot@.remaining()[i]).1 == #[trigger] zip_iter_snd(it.snapshot@).remaining()[i],
    forall|i: int| 0 <= i < n ==> *((#[trigger] it.snapshot@.remaining()[i]).0).0 == acts[i]
        && *((it.snapshot@.remaining()[i]).0).1 == st[i] && *(it.snapshot@.remaining()[i]).1 == c0[i],
    forall|i: int| 0 <= i < n ==> rec.requires((((#[trigger] it.snapshot@.remaining()[i]).0).0,)),
    forall|i: int| 0 <= i < it.index@ ==> rec.ensures((&#[trigger] acts[i],), us[i]),
    forall|i: int| 0 <= i < it.index@ ==> rv(*final((#[trigger] it.snapshot@.remaining()[i]).1)) == rv(c0[i]) + rv(us[i]),
    rv(expected) == ext_expected(st, us, it.index@),
ensures
    forall|i: int| 0 <= i < n ==> rv(*final(#[trigger] zip_iter_snd(it.snapshot@).remaining()[i])) == rv(c0[i]) + rv(us[i]),""",
                             body_start="broadcast use fl; broadcast use ideal;\nproof { ax_obeys(); ax_rv_lits(); }\nlet ghost us0 = us;",
                             body_end="""proof {
    assert(rv(util) * rv(*prob) == rv(*prob) * rv(util)) by(nonlinear_arith);
    us = us0.push(util);
    assert(forall|i: int| 0 <= i < us0.len() ==> us[i] == us0[i]);
    assert(ext_expected(st, us, us0.len() as int) == ext_expected(st, us0, us0.len() as int)) by {
        lemma_ext_expected_prefix(st, us0, us, us0.len() as int);
    }
}"""),
                     1: dict(kind="for", binder="it2",
                             before="let ghost mid = self.reg.cum_regret@;",
                             head="""invariant
    it2.snapshot@.remaining().len() == n,
    0 <= it2.index@ <= n,
    forall|i: int| 0 <= i < n ==> *(#[trigger] it2.snapshot@.remaining()[i]) == mid[i],
    forall|i: int| 0 <= i < it2.index@ ==> rv(*final(#[trigger] it2.snapshot@.remaining()[i])) == rv(mid[i]) - rv(expected),
ensures
    forall|i: int| 0 <= i < n ==> rv(*final(#[trigger] it2.snapshot@.remaining()[i])) == rv(mid[i]) - rv(expected),""",
                             body_start="broadcast use fl; broadcast use ideal;\nproof { ax_obeys(); ax_rv_lits(); }",
                             after="""proof {
    let w = us;
    assert(w.len() == player.actions@.len() && acts == player.actions@);
    assert(forall|a: int| 0 <= a < w.len() ==> rec.ensures((&#[trigger] player.actions@[a],), w[a]));
    assert(rv(expected) == ext_expected(st, w, w.len() as int));
    assert(forall|a: int| 0 <= a < w.len() ==> rv(#[trigger] self.reg.cum_regret@[a]) == rv(c0[a]) + rv(w[a]) - rv(expected));
}"""),
                 }),
        ]),
        dict(raw="""pub proof fn lemma_ext_expected_prefix(st: Seq<f64>, a: Seq<f64>, b: Seq<f64>, k: int)
    requires 0 <= k <= a.len(), k <= b.len(), forall|i: int| 0 <= i < k ==> a[i] == b[i],
    ensures ext_expected(st, a, k) == ext_expected(st, b, k),
    decreases k
{
    if k > 0 { lemma_ext_expected_prefix(st, a, b, k - 1); }
}"""),
    ],
)
