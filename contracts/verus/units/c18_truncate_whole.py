UNIT = dict(
    id="c18_truncate_whole",
    prelude=[],
    canary_use="",
    assumptions=[
        "R6 slice of the whole method: its single top-level statement, the loop over the two players' dense vectors (whose per-infoset body is under contract in c18_truncate_block / c18_truncate_sums_to_one and whose partition into infosets is V.SplitsByMut.next.partition), is abstracted to one uninterpreted relation trunc_rel(old probabilities, threshold, new probabilities); every OTHER statement of the method is kept verbatim, so an added guard, early return or second pass must itself establish that relation",
        "Game is opaque here; the struct Strategies is the extracted text (a new field is visible to the verifier)",
    ],
    items=[
        dict(raw="""#[verifier::external_body]
#[verifier::reject_recursive_types(I)]
#[verifier::reject_recursive_types(A)]
pub struct Game<I, A> { _p: core::marker::PhantomData<(I, A)> }
// the effect of the per-player / per-infoset loops of truncate on the two dense vectors
pub uninterp spec fn trunc_rel(before: [Box<[f64]>; 2], thresh: f64, after: [Box<[f64]>; 2]) -> bool;
"""),
        dict(file="src/lib.rs", path="struct Strategies", pub_fields=True, attrs="#[verifier::reject_recursive_types(Infoset)]\n#[verifier::reject_recursive_types(Action)]"),
        dict(raw="""#[verifier::external_body]
pub fn __abs_truncate_loops<'a, I, A>(s: &mut Strategies<'a, I, A>, thresh: f64)
    ensures trunc_rel(old(s).probs, thresh, final(s).probs), final(s).game == old(s).game,
{ unimplemented!() }
"""),
        dict(file="src/lib.rs", path="impl Strategies", members=[
            dict(path="fn truncate", vis="pub ", obligation="C18.V.truncate.whole",
                 rules=[],
                 table=[(r"^for \(infos, box_probs\) in self\.game\.player_infosets\.iter\(\)\.zip\(self\.probs\.iter_mut\(\)\) \{.*\}$",
                         ("abstract", "__abs_truncate_loops(self, thresh);"))],
                 contract="""ensures
    // truncate IS its per-infoset loops applied once to the profile as it was handed in, with the
    // threshold as given -- for every threshold and every profile, whatever was done to it before
    trunc_rel(old(self).probs, thresh, final(self).probs), // @ob C18.V.truncate.whole
    final(self).game == old(self).game,"""),
        ]),
    ],
)
