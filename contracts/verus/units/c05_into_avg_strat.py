P = __file__.rsplit("/units/", 1)[0] + "/prelude/"
AVG_POST = """    // the returned per-infoset probabilities are the normalised accumulation: they sum to one, or are
    // exactly uniform when nothing was accumulated (the contract proved for data::avg_strat)
    avg_ok(%(old)s, out@), // @ob C05.V.into_avg_strat.normalised"""
UNIT = dict(
    id="c05_into_avg_strat",
    prelude=["floats.rs", "ideal.rs", "iter_ext.rs", "iter_ext_ideal.rs"],
    canary_use="broadcast use fl; broadcast use ideal; ax_obeys(); ax_rv_lits();",
    assumptions=[
        "data::avg_strat is bound to the contract PROVED for it by unit c05_avg_strat (cited, modular)",
        "Mutex::into_inner on an owned mutex returns the protected value (poisoning not modelled); TYPE-SUBST Box<[AtomicF64]> -> Box<[f64]> in MutexRegretInfoset",
        "infosets have at least one action",
    ],
    items=[
        dict(raw=open(P + "rsum_lemmas.rs").read()),
        dict(raw="""// what avg_strat establishes (unit c05_avg_strat)
pub open spec fn avg_ok(old: Seq<f64>, new: Seq<f64>) -> bool {
    new.len() == old.len()
    && (rsum(old, old.len() as int) == 0real ==> forall|i: int| 0 <= i < old.len() ==> rv(#[trigger] new[i]) == 1real / (old.len() as real))
    && (rsum(old, old.len() as int) != 0real ==> rsum(new, old.len() as int) == 1real
        && forall|i: int| 0 <= i < old.len() ==> rv(#[trigger] new[i]) == rv(old[i]) / rsum(old, old.len() as int))
}
#[verifier::external_body]
pub fn avg_strat(cum_strat: &mut [f64])
    requires old(cum_strat)@.len() >= 1,
    ensures avg_ok(old(cum_strat)@, final(cum_strat)@),
{ unimplemented!() }
pub mod data { pub use super::avg_strat; }
#[derive(Debug)]
pub struct PoisonError { }
pub struct Mutex<T> { pub inner: T }
impl<T> Mutex<T> {
    #[verifier::external_body]
    pub fn into_inner(self) -> (r: Result<T, PoisonError>)
        ensures r is Ok, r->Ok_0 == self.inner,
    { unimplemented!() }
}"""),
        dict(file="src/solve/data.rs", path="struct RegretInfoset"),
        dict(file="src/solve/data.rs", path="impl RegretInfoset", members=[
            dict(path="fn into_avg_strat", ret="out", vis="pub ", obligation="C05.V.into_avg_strat",
                 contract="requires self.cum_strat@.len() >= 1,\nensures\n" + AVG_POST % dict(old="self.cum_strat@")),
        ]),
        dict(file="src/solve/vanilla.rs", path="struct MutexRegretInfoset",
             subst=[(r"Box<\[AtomicF64\]>", "Box<[f64]>", "TYPE-SUBST AtomicF64 cells as f64")]),
        dict(file="src/solve/vanilla.rs", path="impl MutexRegretInfoset", members=[
            dict(path="fn into_avg_strat", ret="out", vis="pub ", obligation="C05.V.into_avg_strat",
                 rules=["R3", "R1", "R2", "R7", "R9", "R12", "R10"],
                 contract="requires self.cum_strat.inner@.len() >= 1,\nensures\n" + AVG_POST % dict(old="self.cum_strat.inner@")),
        ]),
    ],
)
