STUBS = """// the three interning tables of Game::from_root, opaque (their insides: c11_compact, c11_compact_opt;
// std HashMap for the single-action infosets)
#[verifier::external_body] pub struct OptBuilder { }
#[verifier::external_body] pub struct Builder { }
#[verifier::external_body] pub struct HashMap { }
pub uninterp spec fn empty_opt() -> OptBuilder;
pub uninterp spec fn empty_builder() -> Builder;
pub uninterp spec fn empty_map() -> HashMap;
impl OptBuilder { #[verifier::external_body] pub fn new() -> (r: Self) ensures r == empty_opt() { unimplemented!() } }
impl Builder { #[verifier::external_body] pub fn new() -> (r: Self) ensures r == empty_builder() { unimplemented!() } }
impl HashMap { #[verifier::external_body] pub fn new() -> (r: Self) ensures r == empty_map() { unimplemented!() } }
#[verifier::external_body] pub struct Node { }
#[verifier::external_body]
#[verifier::reject_recursive_types(I)]
#[verifier::reject_recursive_types(A)]
pub struct Game<I, A> { _p: core::marker::PhantomData<(I, A)> }
// the recursive construction (init_recurse: per-node rule checks, C11 units) as an uninterpreted function
// of the input tree and the tables it is started with: the compact root and the filled tables, or the error
pub uninterp spec fn init_spec<T>(root: T, c: OptBuilder, p: [Builder; 2], s: [HashMap; 2]) -> Result<(Node, OptBuilder, [Builder; 2], [HashMap; 2]), GameError>;
#[verifier::external_body]
pub fn __abs_init<T>(c: &mut OptBuilder, p: &mut [Builder; 2], s: &mut [HashMap; 2], root: T) -> (r: Result<Node, GameError>)
    ensures match init_spec(root, *old(c), *old(p), *old(s)) {
        Ok(t) => r == Ok::<Node, GameError>(t.0) && *final(c) == t.1 && *final(p) == t.2 && *final(s) == t.3,
        Err(e) => r == Err::<Node, GameError>(e),
    },
{ unimplemented!() }
// the conversion of the filled tables into the game's boxed slices (iterator chains over the builders)
pub uninterp spec fn finish_spec<I, A>(c: OptBuilder, p: [Builder; 2], s: [HashMap; 2], root: Node) -> Game<I, A>;
#[verifier::external_body]
pub fn __abs_finish<I, A>(c: OptBuilder, p: [Builder; 2], s: [HashMap; 2], root: Node) -> (r: Game<I, A>)
    ensures r == finish_spec::<I, A>(c, p, s, root),
{ unimplemented!() }
pub open spec fn from_root_seq<T, I, A>(root: T) -> Result<Game<I, A>, GameError> {
    match init_spec(root, empty_opt(), [empty_builder(), empty_builder()], [empty_map(), empty_map()]) {
        Err(e) => Err(e),
        Ok(t) => Ok(finish_spec::<I, A>(t.1, t.2, t.3, t.0)),
    }
}
"""
UNIT = dict(
    id="c11_from_root_skeleton",
    prelude=[],
    canary_use="",
    assumptions=[
        "R6 skeleton slice of Game::from_root: fresh tables, ONE call of the recursive construction on the caller's root with no remembered infosets, conversion of the filled tables; the recursive construction and the conversion are uninterpreted functions of what they are given, every OTHER statement is kept verbatim -- so an added check, early return or a second pass must itself produce the result of that sequence",
        "the obligation is stronger than the property: a semantically neutral extra pass would fail it too (reported with no-failing-input-found)",
        "TYPE-SUBST: the where-clause of from_root (IntoGameNode bounds) is dropped, the tree type is an arbitrary T; the three tables are opaque non-generic types",
    ],
    items=[
        dict(file="src/error.rs", path="enum GameError", attrs="#[derive(PartialEq, Eq, Structural, Clone, Copy)]"),
        dict(raw=STUBS),
        dict(raw="impl<I, A> Game<I, A> {"),
        dict(file="src/lib.rs", path="impl Game / fn from_root", ret="out", vis="pub ",
             obligation="C11.V.from_root.is_its_phases", rules=[],
             sig_subst=[(r"(?s)\s*where.*$", " ", "TYPE-SUBST where-clause dropped (the tree type is arbitrary here)")],
             table=[
                 (r"^let \[first_player, second_player\] = &mut player_infosets;$", ("abstract", "")),
                 (r"^let \[first_single, second_single\] = &mut single_infosets;$", ("abstract", "")),
                 (r"^let root = Game::init_recurse\( &mut chance_infosets, &mut \[first_player, second_player\], &mut \[first_single, second_single\], root, \[None; 2\], \)\?;$",
                  ("abstract_try", "let root = __abs_init(&mut chance_infosets, &mut player_infosets, &mut single_infosets, root)?;")),
                 (r"^Ok\(Game \{ chance_infosets: chance_infosets\.into_iter\(\)\.map\(\|\(_, v\)\| v\)\.collect\(\), player_infosets: player_infosets\.map\(\|pinfo\| \{ pinfo \.into_iter\(\) \.map\(\|\(infoset, builder\)\| PlayerInfosetData::new\(infoset, builder\)\) \.collect\(\) \}\), single_infosets: single_infosets\.map\(\|sinfo\| sinfo\.into_iter\(\)\.collect\(\)\), root, \}\)$",
                  ("abstract", "Ok(__abs_finish(chance_infosets, player_infosets, single_infosets, root))")),
             ],
             contract="""ensures
    // construction succeeds exactly when the recursive per-node checks succeed on the caller's tree,
    // started from EMPTY tables, and then hands back the game built from the tables they filled: no
    // further check, no other source of errors
    out == from_root_seq::<T, I, A>(root), // @ob C11.V.from_root.is_its_phases"""),
        dict(raw="}"),
    ],
)
