P = __file__.rsplit("/units/", 1)[0] + "/prelude/"
import importlib.util, os
_p = os.path.join(os.path.dirname(__file__), "c06_threshold_player_step.py")
_s = importlib.util.spec_from_file_location("unit_c06_threshold_player_step_for_loop", _p); _m = importlib.util.module_from_spec(_s); _s.loader.exec_module(_m)
# the vocabulary of the decision-node arm's contract (pnext_ok, sel_ok, added_ok) is the text of the unit that proves it
_PN = [it["raw"] for it in _m.UNIT["items"] if "raw" in it and "pub open spec fn pnext_ok" in it["raw"]][0]
_SEL = [it["raw"] for it in _m.UNIT["items"] if "raw" in it and "pub open spec fn sel_ok" in it["raw"]][0]
_SEL = _SEL[:_SEL.index("#[verifier::external_body] pub struct AtomicF64")] if "#[verifier::external_body] pub struct AtomicF64" in _SEL else _SEL
SPEC = r"""
use std::mem;
pub type Item<'a> = (&'a Node, f64, [f64; 2]);
#[verifier::external_body] pub struct AtomicF64 { }
#[verifier::external_body]
#[verifier::reject_recursive_types(T)]
pub struct Mutex<T> { t: core::marker::PhantomData<T> }
#[verifier::external_body] pub struct ChanceTables { }
// std::num::NonZeroUsize as far as the loop uses it
pub struct NonZeroUsize { pub v: usize }
impl NonZeroUsize { pub fn get(self) -> (r: usize) ensures r == self.v { self.v } }
impl Clone for NonZeroUsize { fn clone(&self) -> (r: Self) ensures r == *self { NonZeroUsize { v: self.v } } }
impl Copy for NonZeroUsize { }

// ---- what the frontier is measured with: ANY additive functional of the traversal -----------------
// vf(n, pc, p1, p2): an arbitrary integer-valued functional of "the traversal of the subtree below n
// entered with chance reach pc and player reaches p1, p2" (e.g. how often a given infoset update or a
// given leaf is performed).  It is uninterpreted; all that is assumed (ax_additive) is that it
// decomposes over the children the SEQUENTIAL traversal visits: at a chance node the outcomes the
// infoset's next_nodes yields in this pass (all of them, or the one sampled), each with the chance
// reach multiplied by its probability; at a decision node every action, with the acting player's
// reach multiplied by the current strategy's probability.  Terminals are unconstrained.
pub uninterp spec fn vf(n: Node, pc: real, p1: real, p2: real) -> int;
pub uninterp spec fn outcomes_of(ch: Chance) -> Seq<(f64, Node)>;
pub uninterp spec fn cur_strat(num: PlayerNum, infoset: int) -> Seq<f64>;

pub open spec fn csum(ch: Chance, pc: real, p1: real, p2: real, k: int) -> int
    decreases k
{
    if k <= 0 { 0 } else { csum(ch, pc, p1, p2, k - 1) + vf(outcomes_of(ch)[k - 1].1, pc * rv(outcomes_of(ch)[k - 1].0), p1, p2) }
}
pub open spec fn psum(pl: Player, pc: real, p1: real, p2: real, k: int) -> int
    decreases k
{
    if k <= 0 { 0 } else {
        psum(pl, pc, p1, p2, k - 1) + (match pl.num {
            PlayerNum::One => vf(pl.actions@[k - 1], pc, p1 * rv(cur_strat(pl.num, pl.infoset as int)[k - 1]), p2),
            PlayerNum::Two => vf(pl.actions@[k - 1], pc, p1, p2 * rv(cur_strat(pl.num, pl.infoset as int)[k - 1])),
        })
    }
}
#[verifier::external_body]
pub proof fn ax_additive()
    ensures
        forall|ch: Chance, pc: real, p1: real, p2: real| #[trigger] vf(Node::Chance(ch), pc, p1, p2) == csum(ch, pc, p1, p2, outcomes_of(ch).len() as int),
        forall|pl: Player, pc: real, p1: real, p2: real| #[trigger] vf(Node::Player(pl), pc, p1, p2) == psum(pl, pc, p1, p2, pl.actions@.len() as int),
        forall|n: Node, pc: real, p1: real, p2: real| #[trigger] vf(n, pc, p1, p2) >= 0,
{ }

pub open spec fn ival(e: Item) -> int { vf(*e.0, rv(e.1), rv(e.2[0]), rv(e.2[1])) }
pub open spec fn tsum(q: Seq<Item>) -> int
    decreases q.len()
{
    if q.len() == 0 { 0 } else { tsum(q.drop_last()) + ival(q.last()) }
}
pub open spec fn all_terminal(q: Seq<Item>) -> bool { forall|i: int| 0 <= i < q.len() ==> (*(#[trigger] q[i]).0) is Terminal }

// the tables the tree was built against: every decision node's infoset exists and its current strategy
// has one entry per action (Game::from_root, C11); the outcomes a chance infoset hands out are
// children of the node
pub open spec fn wf(n: Node, infos: [Seq<MutexRegretInfoset>; 2]) -> bool
    decreases n
{
    match n {
        Node::Terminal(_) => true,
        Node::Chance(ch) => (forall|i: int| 0 <= i < ch.outcomes@.len() ==> wf(#[trigger] ch.outcomes@[i], infos))
            && (forall|k: int| 0 <= k < outcomes_of(ch).len() ==> ch.outcomes@.contains(#[trigger] outcomes_of(ch)[k].1)),
        Node::Player(pl) => {
            let tab = match pl.num { PlayerNum::One => infos[0], PlayerNum::Two => infos[1] };
            pl.infoset < tab.len() && tab[pl.infoset as int].strat@ == cur_strat(pl.num, pl.infoset as int)
            && cur_strat(pl.num, pl.infoset as int).len() == pl.actions@.len()
            && forall|i: int| 0 <= i < pl.actions@.len() ==> wf(#[trigger] pl.actions@[i], infos)
        }
    }
}
pub open spec fn all_wf(q: Seq<Item>, infos: [Seq<MutexRegretInfoset>; 2]) -> bool { forall|i: int| 0 <= i < q.len() ==> wf(*(#[trigger] q[i]).0, infos) }
pub open spec fn tabs(pi: [&mut [MutexRegretInfoset]; 2]) -> [Seq<MutexRegretInfoset>; 2] { [pi[0]@, pi[1]@] }

pub proof fn lemma_tsum_push(q: Seq<Item>, e: Item)
    ensures tsum(q.push(e)) == tsum(q) + ival(e)
{ assert(q.push(e).drop_last() =~= q); }

pub proof fn lemma_tsum_pop(q: Seq<Item>)
    requires q.len() > 0
    ensures tsum(q) == tsum(q.drop_last()) + ival(q.last())
{ }

// a list that grew by n entries whose values are given entry-wise
pub proof fn lemma_tsum_ext(w0: Seq<Item>, w1: Seq<Item>, n: int, f: spec_fn(int) -> int, g: spec_fn(int) -> int)
    requires
        n >= 0, w1.len() == w0.len() + n, w1.take(w0.len() as int) == w0,
        forall|k: int| 0 <= k < n ==> ival(#[trigger] w1[w0.len() + k]) == f(k),
        g(0) == 0, forall|k: int| 0 < k <= n ==> #[trigger] g(k) == g(k - 1) + f(k - 1),
    ensures tsum(w1) == tsum(w0) + g(n)
    decreases n
{
    if n == 0 { assert(w1 =~= w0); }
    else {
        let w1p = w1.drop_last();
        assert(w1p.take(w0.len() as int) =~= w0);
        assert(forall|k: int| 0 <= k < n - 1 ==> (#[trigger] w1p[w0.len() + k]) == w1[w0.len() + k]);
        lemma_tsum_ext(w0, w1p, n - 1, f, g);
        assert(w1.last() == w1[w0.len() + (n - 1)]);
    }
}

pub proof fn lemma_tsum_nonneg(q: Seq<Item>)
    ensures tsum(q) >= 0
    decreases q.len()
{ ax_additive(); if q.len() > 0 { lemma_tsum_nonneg(q.drop_last()); } }
// partial sums of non-negative terms grow
pub proof fn lemma_g_mono(f: spec_fn(int) -> int, g: spec_fn(int) -> int, n: int, a: int, b: int)
    requires 0 <= a <= b <= n, forall|k: int| 0 <= k < n ==> #[trigger] f(k) >= 0,
        forall|k: int| 0 < k <= n ==> #[trigger] g(k) == g(k - 1) + f(k - 1),
    ensures g(a) <= g(b)
    decreases b - a
{ if a < b { lemma_g_mono(f, g, n, a, b - 1); } }
pub open spec fn sel_bound(idx: Seq<int>) -> int { if idx.len() == 0 { 0 } else { idx.last() + 1 } }
// a list that grew by the entries of a SELECTION of positions (strictly increasing), whose values are
// given position-wise and are non-negative: it grew by at most the full sum
pub proof fn lemma_tsum_sel(w0: Seq<Item>, w1: Seq<Item>, idx: Seq<int>, n: int, f: spec_fn(int) -> int, g: spec_fn(int) -> int)
    requires
        n >= 0, sel_ok(idx, n), w1.len() == w0.len() + idx.len(), w1.take(w0.len() as int) == w0,
        forall|j: int| 0 <= j < idx.len() ==> ival(#[trigger] w1[w0.len() + j]) == f(idx[j]),
        forall|k: int| 0 <= k < n ==> #[trigger] f(k) >= 0,
        g(0) == 0, forall|k: int| 0 < k <= n ==> #[trigger] g(k) == g(k - 1) + f(k - 1),
    ensures tsum(w1) <= tsum(w0) + g(sel_bound(idx)), 0 <= sel_bound(idx) <= n, tsum(w1) <= tsum(w0) + g(n),
    decreases idx.len()
{
    if idx.len() == 0 { assert(w1 =~= w0); lemma_g_mono(f, g, n, 0, n); }
    else {
        let w1p = w1.drop_last();
        let ip = idx.drop_last();
        let m = idx.len() - 1;
        assert(w1p.take(w0.len() as int) =~= w0);
        assert(forall|j: int| 0 <= j < ip.len() ==> (#[trigger] w1p[w0.len() + j]) == w1[w0.len() + j]);
        assert(forall|j: int| 0 <= j < ip.len() ==> #[trigger] ip[j] == idx[j]);
        lemma_tsum_sel(w0, w1p, ip, n, f, g);
        assert(w1.last() == w1[w0.len() + m]);
        let last = idx[m];
        assert(sel_bound(ip) <= last) by { if ip.len() > 0 { assert(ip.last() == idx[m - 1]); assert(idx[m - 1] < idx[m]); } }
        lemma_g_mono(f, g, n, sel_bound(ip), last);
        assert(g(last + 1) == g(last) + f(last));
        lemma_g_mono(f, g, n, last + 1, n);
    }
}

// ---- the two expanding arms, by the contracts proved for their real text in c06_threshold_player_step
#[verifier::external_body]
pub fn __chance_arm<'a>(chance_infosets: &ChanceTables, chance: &'a Chance, p_chance: f64, p_player: [f64; 2], work: &mut Vec<Item<'a>>)
    ensures
        final(work)@.len() == old(work)@.len() + outcomes_of(*chance).len(),
        final(work)@.take(old(work)@.len() as int) == old(work)@,
        forall|k: int| 0 <= k < outcomes_of(*chance).len() ==> *(#[trigger] final(work)@[old(work)@.len() + k]).0 == outcomes_of(*chance)[k].1
            && final(work)@[old(work)@.len() + k].2 == p_player
            && rv(final(work)@[old(work)@.len() + k].1) == rv(p_chance) * rv(outcomes_of(*chance)[k].0),
{ unimplemented!() }
#[verifier::external_body]
pub fn __player_arm<'a, 'b>(player: &'a Player, p_chance: f64, p_player: [f64; 2], player_infosets: &mut [&'b mut [MutexRegretInfoset]; 2], work: &mut Vec<Item<'a>>)
    requires
        player.infoset < (match player.num { PlayerNum::One => old(player_infosets)[0]@, PlayerNum::Two => old(player_infosets)[1]@ }).len(),
        (match player.num { PlayerNum::One => old(player_infosets)[0]@, PlayerNum::Two => old(player_infosets)[1]@ })[player.infoset as int].strat@.len() == player.actions@.len(),
    ensures
        tabs(*final(player_infosets)) == tabs(*old(player_infosets)),
        exists|idx: Seq<int>| #[trigger] sel_ok(idx, player.actions@.len() as int)
            && added_ok(old(work)@, final(work)@, idx, player, (match player.num { PlayerNum::One => old(player_infosets)[0]@, PlayerNum::Two => old(player_infosets)[1]@ })[player.infoset as int].strat@, p_chance, p_player),
{ unimplemented!() }
// documented allocation limit of Vec (never more than isize::MAX bytes; an Item is 32 bytes)
#[verifier::external_body]
pub proof fn ax_vec_len<'a>(v: &Vec<Item<'a>>) ensures v@.len() * 32 <= isize::MAX { }

"""
UNIT = dict(
    id="c06_threshold_loop",
    prelude=["floats.rs", "ideal.rs"],
    canary_use="broadcast use fl; broadcast use ideal; ax_obeys(); ax_rv_lits();",
    assumptions=[
        "idealised-real float mode for the reach products (as in c06_threshold_player_step)",
        "the two expanding arms are replaced by calls carrying the contracts proved for their real text in c06_threshold_player_step (decision-node arm: entries for a strictly increasing selection of the actions -- the contract vocabulary is imported from that unit; chance arm: the closure mapped over what the infoset's next_nodes yields, Vec::extend/Map being std code); that the decision-node arm leaves the strategy tables untouched is part of the assumed call contract (the arm only reads `.strat`)",
        "outcomes_of(chance): what ChanceRecurse::next_nodes yields for the node in the current pass is a function of the node (all outcomes, or the one outcome sampled for its infoset: C10), and they are children of the node",
        "ax_additive: the functional the frontier is measured with is ANY uninterpreted NON-NEGATIVE integer functional that decomposes over the children the sequential traversal visits (this is the definition of the quantification, not a fact about the code)",
        "std: Vec::len never exceeds isize::MAX / size_of::<T>() (documented allocation limit), used only for `queue.len() + work.len()` not to overflow; Vec::pop / push / is_empty / mem::swap by their vstd specifications",
        "termination of the loop is not proved (exec_allows_no_decreases_clause)",
        "NonZeroUsize restated as a struct with get()",
    ],
    items=[
        dict(file="src/lib.rs", path="enum PlayerNum", attrs="#[derive(Copy, Clone)]"),
        dict(file="src/lib.rs", path="enum Node"),
        dict(file="src/lib.rs", path="struct Chance", pub_fields=True),
        dict(file="src/lib.rs", path="struct Player", pub_fields=True),
        dict(file="src/solve/vanilla.rs", path="struct MutexRegretInfoset"),
        dict(raw=_PN + "\n" + _SEL),
        dict(raw=SPEC),
        dict(file="src/solve/vanilla.rs", path="fn thread_threshold",
             attrs="#[verifier::exec_allows_no_decreases_clause]",
             obligation="C06.V.thread_threshold.frontier_is_a_cut",
             sig_subst=[(r"&\[impl ChanceRecurse\]", "&ChanceTables", "TYPE-SUBST opaque chance tables")],
             body_subst=[
                 (r"(?s)(Some\(\(Node::Chance\(chance\), p_chance, p_player\)\) => \{).*?(?=\}\s*Some\(\(Node::Player)",
                  r"\1 __chance_arm(chance_infosets, chance, p_chance, p_player, work); ",
                  "R6 chance arm (c06_threshold_player_step: thread_threshold__chance_outcome) abstracted"),
                 (r"(?s)(Some\(\(Node::Player\(player\), p_chance, p_player\)\) => \{).*?(?=\}\s*None =>)",
                  r"\1 __player_arm(player, p_chance, p_player, &mut player_infosets, work); ",
                  "R6 decision-node arm (c06_threshold_player_step: thread_threshold__player_node) abstracted"),
             ],
             rules=[],
             contract="""requires
    old(queue)@.len() == 0, old(work)@.len() == 0,
    wf(*root, tabs(player_infosets)),
ensures
    // what is handed to the workers (queue; work is discarded by the caller) are tasks of the tree the
    // sequential traversal visits, with the reach values of that traversal, and NO part of the tree is
    // in them twice (no entry twice, none below another): every non-negative additive functional of
    // the traversal totals over the frontier to at most its value at the root. (Less is harmless:
    // what is not in the frontier is traversed by the pass from the root.)
    tsum(final(queue)@) + tsum(final(work)@) <= vf(*root, 1real, 1real, 1real), // @ob C06.V.thread_threshold.frontier_is_a_cut""",
             entry="""broadcast use fl; broadcast use ideal;
proof { ax_obeys(); ax_rv_lits(); ax_additive(); }
let ghost infos = tabs(player_infosets);""",
             loops={0: dict(kind="while",
                            before="""proof {
    let e0 = queue@.last();
    assert(queue@ =~= Seq::<Item>::empty().push(e0));
    lemma_tsum_push(Seq::<Item>::empty(), e0);
    assert(e0.0 == root && rv(e0.1) == 1real && rv(e0.2[0]) == 1real && rv(e0.2[1]) == 1real);
    assert(tsum(Seq::<Item>::empty()) == 0);
    assert(tsum(work@) == 0);
    ax_vec_len(queue); ax_vec_len(work);
}""",
                            head="""invariant
    infos == tabs(player_infosets),
    all_wf(queue@, infos), all_wf(work@, infos),
    queue@.len() * 32 <= isize::MAX, work@.len() * 32 <= isize::MAX,
    tsum(queue@) + tsum(work@) <= vf(*root, 1real, 1real, 1real), // @ob C06.V.thread_threshold.frontier_is_a_cut""",
                            body_start="""broadcast use fl; broadcast use ideal;
proof { ax_obeys(); ax_rv_lits(); ax_additive(); }
let ghost q0 = queue@;
let ghost w0 = work@;""",
                            body_end="""proof {
    ax_vec_len(queue); ax_vec_len(work);
    lemma_tsum_nonneg(w0); lemma_tsum_nonneg(q0); lemma_tsum_nonneg(work@); lemma_tsum_nonneg(queue@);
    if q0.len() > 0 {
        let e = q0.last();
        lemma_tsum_pop(q0);
        assert(queue@ =~= q0.drop_last());
        assert(wf(*e.0, infos));
        match *e.0 {
            Node::Terminal(_) => { }
            Node::Chance(ch) => {
                let n = outcomes_of(ch).len() as int;
                let pc = rv(e.1); let p1 = rv(e.2[0]); let p2 = rv(e.2[1]);
                assert forall|k: int| 0 <= k < n implies wf(*(#[trigger] work@[w0.len() + k]).0, infos) by {
                    let nd = outcomes_of(ch)[k].1;
                    assert(ch.outcomes@.contains(nd));
                    let j = choose|j: int| 0 <= j < ch.outcomes@.len() && ch.outcomes@[j] == nd;
                    assert(wf(ch.outcomes@[j], infos));
                }
                assert forall|i: int| 0 <= i < work@.len() implies wf(*(#[trigger] work@[i]).0, infos) by {
                    if i < w0.len() { assert(work@[i] == work@.take(w0.len() as int)[i]); } else { assert(work@[i] == work@[w0.len() + (i - w0.len())]); }
                }
                lemma_tsum_ext(w0, work@, n,
                    |k: int| vf(outcomes_of(ch)[k].1, pc * rv(outcomes_of(ch)[k].0), p1, p2),
                    |k: int| csum(ch, pc, p1, p2, k));
            }
            Node::Player(pl) => {
                let n = pl.actions@.len() as int;
                let pc = rv(e.1); let p1 = rv(e.2[0]); let p2 = rv(e.2[1]);
                let st = cur_strat(pl.num, pl.infoset as int);
                let idx = choose|idx: Seq<int>| #[trigger] sel_ok(idx, n) && added_ok(w0, work@, idx, &pl, st, e.1, e.2);
                assert forall|i: int| 0 <= i < work@.len() implies wf(*(#[trigger] work@[i]).0, infos) by {
                    if i < w0.len() { assert(work@[i] == work@.take(w0.len() as int)[i]); } else { assert(work@[i] == work@[w0.len() + (i - w0.len())]); }
                }
                lemma_tsum_sel(w0, work@, idx, n,
                    |k: int| match pl.num {
                        PlayerNum::One => vf(pl.actions@[k], pc, p1 * rv(st[k]), p2),
                        PlayerNum::Two => vf(pl.actions@[k], pc, p1, p2 * rv(st[k])),
                    },
                    |k: int| psum(pl, pc, p1, p2, k));
            }
        }
    } else {
        assert(queue@ == w0 && work@ == q0);
    }
}""")}),
    ],
)
