P = __file__.rsplit("/units/", 1)[0] + "/prelude/"
SPEC = r"""
use std::mem;
pub type Item<'a> = (&'a Node, f64, [f64; 2]);
#[verifier::external_body] pub struct AtomicF64 { }
#[verifier::external_body]
#[verifier::reject_recursive_types(T)]
pub struct Mutex<T> { t: core::marker::PhantomData<T> }
#[verifier::external_body] pub struct ChanceTables { }
// std::num::NonZeroUsize as far as the loop uses it
pub struct NonZeroUsize { pub v: usize }
impl NonZeroUsize { pub fn get(self) -> (r: usize) ensures r == self.v { self.v } }
impl Clone for NonZeroUsize { fn clone(&self) -> (r: Self) ensures r == *self { NonZeroUsize { v: self.v } } }
impl Copy for NonZeroUsize { }

// ---- what the frontier is measured with: ANY additive functional of the traversal -----------------
// vf(n, pc, p1, p2): an arbitrary integer-valued functional of "the traversal of the subtree below n
// entered with chance reach pc and player reaches p1, p2" (e.g. how often a given infoset update or a
// given leaf is performed).  It is uninterpreted; all that is assumed (ax_additive) is that it
// decomposes over the children the SEQUENTIAL traversal visits: at a chance node the outcomes the
// infoset's next_nodes yields in this pass (all of them, or the one sampled), each with the chance
// reach multiplied by its probability; at a decision node every action, with the acting player's
// reach multiplied by the current strategy's probability.  Terminals are unconstrained.
pub uninterp spec fn vf(n: Node, pc: real, p1: real, p2: real) -> int;
pub uninterp spec fn outcomes_of(ch: Chance) -> Seq<(f64, Node)>;
pub uninterp spec fn cur_strat(num: PlayerNum, infoset: int) -> Seq<f64>;

pub open spec fn csum(ch: Chance, pc: real, p1: real, p2: real, k: int) -> int
    decreases k
{
    if k <= 0 { 0 } else { csum(ch, pc, p1, p2, k - 1) + vf(outcomes_of(ch)[k - 1].1, pc * rv(outcomes_of(ch)[k - 1].0), p1, p2) }
}
pub open spec fn psum(pl: Player, pc: real, p1: real, p2: real, k: int) -> int
    decreases k
{
    if k <= 0 { 0 } else {
        psum(pl, pc, p1, p2, k - 1) + (match pl.num {
            PlayerNum::One => vf(pl.actions@[k - 1], pc, p1 * rv(cur_strat(pl.num, pl.infoset as int)[k - 1]), p2),
            PlayerNum::Two => vf(pl.actions@[k - 1], pc, p1, p2 * rv(cur_strat(pl.num, pl.infoset as int)[k - 1])),
        })
    }
}
#[verifier::external_body]
pub proof fn ax_additive()
    ensures
        forall|ch: Chance, pc: real, p1: real, p2: real| #[trigger] vf(Node::Chance(ch), pc, p1, p2) == csum(ch, pc, p1, p2, outcomes_of(ch).len() as int),
        forall|pl: Player, pc: real, p1: real, p2: real| #[trigger] vf(Node::Player(pl), pc, p1, p2) == psum(pl, pc, p1, p2, pl.actions@.len() as int),
{ }

pub open spec fn ival(e: Item) -> int { vf(*e.0, rv(e.1), rv(e.2[0]), rv(e.2[1])) }
pub open spec fn tsum(q: Seq<Item>) -> int
    decreases q.len()
{
    if q.len() == 0 { 0 } else { tsum(q.drop_last()) + ival(q.last()) }
}
pub open spec fn all_terminal(q: Seq<Item>) -> bool { forall|i: int| 0 <= i < q.len() ==> (*(#[trigger] q[i]).0) is Terminal }

// the tables the tree was built against: every decision node's infoset exists and its current strategy
// has one entry per action (Game::from_root, C11); the outcomes a chance infoset hands out are
// children of the node
pub open spec fn wf(n: Node, infos: [Seq<MutexRegretInfoset>; 2]) -> bool
    decreases n
{
    match n {
        Node::Terminal(_) => true,
        Node::Chance(ch) => (forall|i: int| 0 <= i < ch.outcomes@.len() ==> wf(#[trigger] ch.outcomes@[i], infos))
            && (forall|k: int| 0 <= k < outcomes_of(ch).len() ==> ch.outcomes@.contains(#[trigger] outcomes_of(ch)[k].1)),
        Node::Player(pl) => {
            let tab = match pl.num { PlayerNum::One => infos[0], PlayerNum::Two => infos[1] };
            pl.infoset < tab.len() && tab[pl.infoset as int].strat@ == cur_strat(pl.num, pl.infoset as int)
            && cur_strat(pl.num, pl.infoset as int).len() == pl.actions@.len()
            && forall|i: int| 0 <= i < pl.actions@.len() ==> wf(#[trigger] pl.actions@[i], infos)
        }
    }
}
pub open spec fn all_wf(q: Seq<Item>, infos: [Seq<MutexRegretInfoset>; 2]) -> bool { forall|i: int| 0 <= i < q.len() ==> wf(*(#[trigger] q[i]).0, infos) }
pub open spec fn tabs(pi: [&mut [MutexRegretInfoset]; 2]) -> [Seq<MutexRegretInfoset>; 2] { [pi[0]@, pi[1]@] }

pub proof fn lemma_tsum_push(q: Seq<Item>, e: Item)
    ensures tsum(q.push(e)) == tsum(q) + ival(e)
{ assert(q.push(e).drop_last() =~= q); }

pub proof fn lemma_tsum_pop(q: Seq<Item>)
    requires q.len() > 0
    ensures tsum(q) == tsum(q.drop_last()) + ival(q.last())
{ }

// a list that grew by n entries whose values are given entry-wise
pub proof fn lemma_tsum_ext(w0: Seq<Item>, w1: Seq<Item>, n: int, f: spec_fn(int) -> int, g: spec_fn(int) -> int)
    requires
        n >= 0, w1.len() == w0.len() + n, w1.take(w0.len() as int) == w0,
        forall|k: int| 0 <= k < n ==> ival(#[trigger] w1[w0.len() + k]) == f(k),
        g(0) == 0, forall|k: int| 0 < k <= n ==> #[trigger] g(k) == g(k - 1) + f(k - 1),
    ensures tsum(w1) == tsum(w0) + g(n)
    decreases n
{
    if n == 0 { assert(w1 =~= w0); }
    else {
        let w1p = w1.drop_last();
        assert(w1p.take(w0.len() as int) =~= w0);
        assert(forall|k: int| 0 <= k < n - 1 ==> (#[trigger] w1p[w0.len() + k]) == w1[w0.len() + k]);
        lemma_tsum_ext(w0, w1p, n - 1, f, g);
        assert(w1.last() == w1[w0.len() + (n - 1)]);
    }
}

// ---- the two expanding arms, by the contracts proved for their real text in c06_threshold_player_step
pub open spec fn pnext_ok(num: PlayerNum, p_player: [f64; 2], prob: f64, p_next: [f64; 2]) -> bool {
    match num {
        PlayerNum::One => rv(p_next[0]) == rv(p_player[0]) * rv(prob) && p_next[1] == p_player[1],
        PlayerNum::Two => p_next[0] == p_player[0] && rv(p_next[1]) == rv(p_player[1]) * rv(prob),
    }
}
#[verifier::external_body]
pub fn __chance_arm<'a>(chance_infosets: &ChanceTables, chance: &'a Chance, p_chance: f64, p_player: [f64; 2], work: &mut Vec<Item<'a>>)
    ensures
        final(work)@.len() == old(work)@.len() + outcomes_of(*chance).len(),
        final(work)@.take(old(work)@.len() as int) == old(work)@,
        forall|k: int| 0 <= k < outcomes_of(*chance).len() ==> *(#[trigger] final(work)@[old(work)@.len() + k]).0 == outcomes_of(*chance)[k].1
            && final(work)@[old(work)@.len() + k].2 == p_player
            && rv(final(work)@[old(work)@.len() + k].1) == rv(p_chance) * rv(outcomes_of(*chance)[k].0),
{ unimplemented!() }
#[verifier::external_body]
pub fn __player_arm<'a, 'b>(player: &'a Player, p_chance: f64, p_player: [f64; 2], player_infosets: &mut [&'b mut [MutexRegretInfoset]; 2], work: &mut Vec<Item<'a>>)
    requires
        player.infoset < (match player.num { PlayerNum::One => old(player_infosets)[0]@, PlayerNum::Two => old(player_infosets)[1]@ }).len(),
        (match player.num { PlayerNum::One => old(player_infosets)[0]@, PlayerNum::Two => old(player_infosets)[1]@ })[player.infoset as int].strat@.len() == player.actions@.len(),
    ensures
        tabs(*final(player_infosets)) == tabs(*old(player_infosets)),
        final(work)@.len() == old(work)@.len() + player.actions@.len(),
        final(work)@.take(old(work)@.len() as int) == old(work)@,
        forall|a: int| 0 <= a < player.actions@.len() ==> (#[trigger] final(work)@[old(work)@.len() + a]).0 == &player.actions@[a]
            && final(work)@[old(work)@.len() + a].1 == p_chance
            && pnext_ok(player.num, p_player, (match player.num { PlayerNum::One => old(player_infosets)[0]@, PlayerNum::Two => old(player_infosets)[1]@ })[player.infoset as int].strat@[a],
                        final(work)@[old(work)@.len() + a].2),
{ unimplemented!() }
// documented allocation limit of Vec (never more than isize::MAX bytes; an Item is 32 bytes)
#[verifier::external_body]
pub proof fn ax_vec_len<'a>(v: &Vec<Item<'a>>) ensures v@.len() * 32 <= isize::MAX { }

pub open spec fn cut_ok(root: Node, queue: Seq<Item>, work: Seq<Item>, d: Seq<Item>) -> bool {
    all_terminal(d) && #[trigger] tsum(queue) + tsum(work) + tsum(d) == vf(root, 1real, 1real, 1real)
}
"""
UNIT = dict(
    id="c06_threshold_loop",
    prelude=["floats.rs", "ideal.rs"],
    canary_use="broadcast use fl; broadcast use ideal; ax_obeys(); ax_rv_lits();",
    assumptions=[
        "idealised-real float mode for the reach products (as in c06_threshold_player_step)",
        "the two expanding arms are replaced by calls carrying the contracts proved for their real text in c06_threshold_player_step (decision-node arm: one entry per action; chance arm: the closure mapped over what the infoset's next_nodes yields, Vec::extend/Map being std code); that the decision-node arm leaves the strategy tables untouched is part of the assumed call contract (the arm only reads `.strat`)",
        "outcomes_of(chance): what ChanceRecurse::next_nodes yields for the node in the current pass is a function of the node (all outcomes, or the one outcome sampled for its infoset: C10), and they are children of the node",
        "ax_additive: the functional the frontier is measured with is ANY uninterpreted functional that decomposes over the children the sequential traversal visits (this is the definition of the quantification, not a fact about the code)",
        "std: Vec::len never exceeds isize::MAX / size_of::<T>() (documented allocation limit), used only for `queue.len() + work.len()` not to overflow; Vec::pop / push / is_empty / mem::swap by their vstd specifications",
        "termination of the loop is not proved (exec_allows_no_decreases_clause)",
        "NonZeroUsize restated as a struct with get()",
    ],
    items=[
        dict(file="src/lib.rs", path="enum PlayerNum", attrs="#[derive(Copy, Clone)]"),
        dict(file="src/lib.rs", path="enum Node"),
        dict(file="src/lib.rs", path="struct Chance", pub_fields=True),
        dict(file="src/lib.rs", path="struct Player", pub_fields=True),
        dict(file="src/solve/vanilla.rs", path="struct MutexRegretInfoset"),
        dict(raw=SPEC),
        dict(file="src/solve/vanilla.rs", path="fn thread_threshold",
             attrs="#[verifier::exec_allows_no_decreases_clause]",
             obligation="C06.V.thread_threshold.frontier_is_a_cut",
             sig_subst=[(r"&\[impl ChanceRecurse\]", "&ChanceTables", "TYPE-SUBST opaque chance tables")],
             body_subst=[
                 (r"(?s)(Some\(\(Node::Chance\(chance\), p_chance, p_player\)\) => \{).*?(?=\}\s*Some\(\(Node::Player)",
                  r"\1 __chance_arm(chance_infosets, chance, p_chance, p_player, work); ",
                  "R6 chance arm (c06_threshold_player_step: thread_threshold__chance_outcome) abstracted"),
                 (r"(?s)(Some\(\(Node::Player\(player\), p_chance, p_player\)\) => \{).*?(?=\}\s*None =>)",
                  r"\1 __player_arm(player, p_chance, p_player, &mut player_infosets, work); ",
                  "R6 decision-node arm (c06_threshold_player_step: thread_threshold__player_node) abstracted"),
             ],
             rules=[],
             contract="""requires
    old(queue)@.len() == 0, old(work)@.len() == 0,
    wf(*root, tabs(player_infosets)),
ensures
    // the frontier handed to the workers (queue and work) together with the terminals the expansion
    // already passed is a CUT of the tree the sequential traversal visits, with the reach values of
    // that traversal: every additive functional of the traversal has the same total over the cut as
    // at the root -- no subtree is visited twice, none is lost
    exists|d: Seq<Item>| cut_ok(*root, final(queue)@, final(work)@, d), // @ob C06.V.thread_threshold.frontier_is_a_cut""",
             entry="""broadcast use fl; broadcast use ideal;
proof { ax_obeys(); ax_rv_lits(); ax_additive(); }
let ghost infos = tabs(player_infosets);
let ghost mut dropped: Seq<Item> = Seq::empty();""",
             loops={0: dict(kind="while",
                            before="""proof {
    let e0 = queue@.last();
    assert(queue@ =~= Seq::<Item>::empty().push(e0));
    lemma_tsum_push(Seq::<Item>::empty(), e0);
    assert(e0.0 == root && rv(e0.1) == 1real && rv(e0.2[0]) == 1real && rv(e0.2[1]) == 1real);
    assert(tsum(Seq::<Item>::empty()) == 0);
    assert(tsum(work@) == 0);
    assert(tsum(dropped) == 0);
    ax_vec_len(queue); ax_vec_len(work);
}""",
                            head="""invariant
    infos == tabs(player_infosets),
    all_wf(queue@, infos), all_wf(work@, infos), all_terminal(dropped),
    queue@.len() * 32 <= isize::MAX, work@.len() * 32 <= isize::MAX,
    tsum(queue@) + tsum(work@) + tsum(dropped) == vf(*root, 1real, 1real, 1real), // @ob C06.V.thread_threshold.frontier_is_a_cut""",
                            body_start="""broadcast use fl; broadcast use ideal;
proof { ax_obeys(); ax_rv_lits(); ax_additive(); }
let ghost q0 = queue@;
let ghost w0 = work@;""",
                            body_end="""proof {
    ax_vec_len(queue); ax_vec_len(work);
    if q0.len() > 0 {
        let e = q0.last();
        lemma_tsum_pop(q0);
        assert(queue@ =~= q0.drop_last());
        assert(wf(*e.0, infos));
        match *e.0 {
            Node::Terminal(_) => {
                lemma_tsum_push(dropped, e);
                dropped = dropped.push(e);
            }
            Node::Chance(ch) => {
                let n = outcomes_of(ch).len() as int;
                let pc = rv(e.1); let p1 = rv(e.2[0]); let p2 = rv(e.2[1]);
                assert forall|k: int| 0 <= k < n implies wf(*(#[trigger] work@[w0.len() + k]).0, infos) by {
                    let nd = outcomes_of(ch)[k].1;
                    assert(ch.outcomes@.contains(nd));
                    let j = choose|j: int| 0 <= j < ch.outcomes@.len() && ch.outcomes@[j] == nd;
                    assert(wf(ch.outcomes@[j], infos));
                }
                assert forall|i: int| 0 <= i < work@.len() implies wf(*(#[trigger] work@[i]).0, infos) by {
                    if i < w0.len() { assert(work@[i] == work@.take(w0.len() as int)[i]); } else { assert(work@[i] == work@[w0.len() + (i - w0.len())]); }
                }
                lemma_tsum_ext(w0, work@, n,
                    |k: int| vf(outcomes_of(ch)[k].1, pc * rv(outcomes_of(ch)[k].0), p1, p2),
                    |k: int| csum(ch, pc, p1, p2, k));
            }
            Node::Player(pl) => {
                let n = pl.actions@.len() as int;
                let pc = rv(e.1); let p1 = rv(e.2[0]); let p2 = rv(e.2[1]);
                let st = cur_strat(pl.num, pl.infoset as int);
                assert forall|i: int| 0 <= i < work@.len() implies wf(*(#[trigger] work@[i]).0, infos) by {
                    if i < w0.len() { assert(work@[i] == work@.take(w0.len() as int)[i]); } else { assert(work@[i] == work@[w0.len() + (i - w0.len())]); }
                }
                lemma_tsum_ext(w0, work@, n,
                    |k: int| match pl.num {
                        PlayerNum::One => vf(pl.actions@[k], pc, p1 * rv(st[k]), p2),
                        PlayerNum::Two => vf(pl.actions@[k], pc, p1, p2 * rv(st[k])),
                    },
                    |k: int| psum(pl, pc, p1, p2, k));
            }
        }
    } else {
        assert(queue@ == w0 && work@ == q0);
    }
}""",
                            after="""proof { assert(cut_ok(*root, queue@, work@, dropped)); }""")}),
    ],
)
