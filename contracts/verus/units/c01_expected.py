INNER_INV = """invariant
    c == ctx_of(chance_info, strat_info),
    wf_node(*node, c),
    *node == %(ctor)s,
    probs@ == weights_of(*node, c),
    probs@.len() == %(kids)s@.len(),
    0 <= it.index@ <= probs@.len(),
    forall|i: int| 0 <= i < queue@.len() ==> wf_node(*(#[trigger] queue@[i]).0, c),
    qsum(queue@, c) == qsum(q0, c) + rv(reach) * sum_kids(*node, c, it.index@), // @ob C01.V.expected.value"""

BODY_START = """broadcast use fl; broadcast use ideal;
proof { ax_obeys(); ax_rv_lits(); }
let ghost k = it.index@;
let ghost qb = queue@;
proof {
    assert(kids_of(*node)[k] == *next);
    assert(sum_kids(*node, c, k + 1) == sum_kids(*node, c, k) + rv(probs@[k]) * ev(*next, c));
}"""

UNIT = dict(
    id="c01_expected",
    prelude=["floats.rs", "ideal.rs", "std_ext.rs", "infoset_traits.rs"],
    canary_use="broadcast use fl; broadcast use ideal; ax_obeys(); ax_rv_lits();",
    expect=[("src/lib.rs", r"trait ChanceInfoset \{\s*fn probs\(&self\) -> &\[f64\];\s*\}")],
    assumptions=[
        "idealised-real float mode (machine arithmetic treated as mathematical): rv axioms of prelude/ideal.rs",
        "wf_node: infoset indices in range, weight vectors as long as child lists, strategy entries >= 0 -- assumed to be established by Game::from_root / strat_into_box (C11 decides from_root per node only)",
        "termination of expected() not proved (exec_allows_no_decreases_clause)",
        "AsRef<[f64]>::as_ref is a pure view (assumed contract on std)",
        "PlayerNum::ind two-case spec (discharged by Kani harness playernum_ind)",
    ],
    items=[
        dict(file="src/lib.rs", path="enum PlayerNum", attrs="#[derive(Copy, Clone)]"),
        dict(raw=open(__file__.rsplit("/units/", 1)[0] + "/prelude/playernum.rs").read()),
        dict(file="src/lib.rs", path="enum Node"),
        dict(file="src/lib.rs", path="struct Chance", pub_fields=True),
        dict(file="src/lib.rs", path="struct Player", pub_fields=True),
        dict(raw=open(__file__.rsplit("/units/", 1)[0] + "/prelude/tree_common.rs").read()),
        dict(raw=open(__file__.rsplit("/units/", 1)[0] + "/prelude/ev_spec.rs").read()),
        dict(
            file="src/regret.rs", path="fn expected", ret="res",
            attrs="#[verifier::exec_allows_no_decreases_clause]",
            obligation="C01.V.expected.value",
            n_loops=3,
            contract="""requires
    wf_node(*node, ctx_of(chance_info, strat_info)),
ensures
    rv(res) == ev(*node, ctx_of(chance_info, strat_info)), // @ob C01.V.expected.value""",
            entry="""broadcast use fl; broadcast use ideal;
proof { ax_obeys(); ax_rv_lits(); }
let ghost c = ctx_of(chance_info, strat_info);
let ghost root = *node;""",
            loops={
                0: dict(kind="while",
                        before="""proof {
    assert(queue@ =~= Seq::<(&Node, f64)>::empty().push((node, 1.0f64)));
    lemma_qsum_push(Seq::<(&Node, f64)>::empty(), (node, 1.0f64), c);
}""",
                        head="""invariant
    c == ctx_of(chance_info, strat_info),
    forall|i: int| 0 <= i < queue@.len() ==> wf_node(*(#[trigger] queue@[i]).0, c),
    rv(expected) + qsum(queue@, c) == ev(root, c), // @ob C01.V.expected.value
ensures
    queue@.len() == 0,""",
                        body_start="broadcast use fl; broadcast use ideal;\nproof { ax_obeys(); ax_rv_lits(); }",
                        after="proof { assert(queue@.len() == 0); assert(qsum(queue@, c) == 0real); }"),
                1: dict(kind="for", binder="it",
                        before="let ghost q0 = queue@;\nproof { assert(sum_kids(*node, c, 0) == 0real); }",
                        head=INNER_INV % dict(ctor="Node::Chance(*chance)", kids="chance.outcomes"),
                        body_start=BODY_START,
                        body_end="""proof {
    // (the pushed entry is referred to as `queue@.last()`, not by its float expression, so that a
    // harmless reordering of the operands of `prob * reach` does not disturb the proof)
    assert(queue@ =~= qb.push(queue@.last()));
    assert(queue@.last().0 == next && rv(queue@.last().1) == rv(*prob) * rv(reach));
    lemma_qsum_push(qb, queue@.last(), c);
    lemma_dist(rv(reach), sum_kids(*node, c, k), rv(*prob), ev(*next, c));
}"""),
                2: dict(kind="for", binder="it",
                        before="let ghost q0 = queue@;\nproof { assert(sum_kids(*node, c, 0) == 0real); }",
                        head=INNER_INV % dict(ctor="Node::Player(*player)", kids="player.actions"),
                        body_start=BODY_START + "\nproof { assert(rv(weights_of(*node, c)[k]) >= 0real); }",
                        body_end="""proof {
    let w = rv(*prob); let r = rv(reach); let e = ev(*next, c);
    lemma_dist(r, sum_kids(*node, c, k), w, e);
    if w > 0real {
        assert(queue@ =~= qb.push(queue@.last()));
        assert(queue@.last().0 == next && rv(queue@.last().1) == w * r);
        lemma_qsum_push(qb, queue@.last(), c);
    } else {
        assert((w * r) * e == 0real) by(nonlinear_arith) requires w == 0real;
        assert(w * e == 0real) by(nonlinear_arith) requires w == 0real;
    }
}"""),
            },
        ),
    ],
)
