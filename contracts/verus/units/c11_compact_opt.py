import importlib.util, os
_p = os.path.join(os.path.dirname(__file__), "c11_compact.py")
_s = importlib.util.spec_from_file_location("unit_c11_compact_for_opt", _p); _m = importlib.util.module_from_spec(_s); _s.loader.exec_module(_m)
STUBS = _m.STUBS          # the IndexMap declaration with its assumed contracts: the same text as in c11_compact
RR = "#[verifier::reject_recursive_types(K)]\n#[verifier::reject_recursive_types(V)]"
UNIT = dict(
    id="c11_compact_opt",
    prelude=[],
    canary_use="",
    assumptions=[
        "indexmap::IndexMap is a local declaration with assumed contracts (the text of unit c11_compact)",
        "Option::ok_or_else(f): Ok(k) for Some(k) without calling f, Err(f()) for None (std, restated in the call that replaces it; f's contract is the one proved for the closure's real text in this unit)",
        "fewer than usize::MAX anonymous chance infosets are requested from one builder (`self.counter += 1` does not wrap): precondition",
        "the representation invariants of compact::OptBuilder -- dense indices, and every anonymous key Err(i) in the map has i below the counter -- are assumed at method entry and proved to be established by new() and preserved by entry() whatever the returned entry is used for",
    ],
    items=[
        dict(raw=STUBS),
        dict(file="src/compact.rs", path="struct OptBuilder", pub_fields=True, subst=[(r"<K: Hash \+ Eq, V>", "<K, V>", "R0 bounds dropped (Hash/Eq are used only by the stubbed IndexMap)")], attrs=RR),
        dict(file="src/compact.rs", path="struct VacantEntry", pub_fields=True, attrs=RR),
        dict(file="src/compact.rs", path="struct OccupiedEntry", pub_fields=True, attrs=RR),
        dict(file="src/compact.rs", path="enum Entry", attrs=RR),
        dict(raw="""pub open spec fn dense<K, V>(s: Seq<(K, (usize, V))>) -> bool { forall|i: int| 0 <= i < s.len() ==> (#[trigger] s[i]).1.0 == i }
// every anonymous key handed out so far is below the counter: the next anonymous key is new
pub open spec fn errs_below<K, V>(s: Seq<(Result<K, usize>, (usize, V))>, counter: usize) -> bool {
    forall|i: int| 0 <= i < s.len() ==> ((#[trigger] s[i]).0 matches Err(c) ==> c < counter)
}
pub open spec fn true_key<K>(key: Option<K>, counter: usize) -> Result<K, usize> { match key { Some(k) => Ok(k), None => Err(counter) } }
// Option::ok_or_else with the closure `|| { let res = self.counter; self.counter += 1; res }` (its
// contract: optbuilder_entry__fresh_key below, proved on its real text)
#[verifier::external_body]
pub fn __ok_or_else_fresh<K, V>(key: Option<K>, b: &mut OptBuilder<K, V>) -> (r: Result<K, usize>)
    requires old(b).counter < usize::MAX,
    ensures r == true_key(key, old(b).counter), final(b).map == old(b).map,
        final(b).counter == (if key is None { (old(b).counter + 1) as usize } else { old(b).counter }),
{ unimplemented!() }
"""),
        dict(file="src/compact.rs", path="impl OptBuilder / fn entry", closure=0, header_re=r"^\|\|$", optional_item=True,
             as_fn="optbuilder_entry__fresh_key", generics="<K, V>", rename_self=True,
             params="self_: &mut OptBuilder<K, V>", ret="out", ret_type="usize",
             obligation="C11.V.compact_opt.fresh_key", rules=[],
             contract="""requires
    old(self_).counter < usize::MAX,
ensures
    // an anonymous chance infoset gets the current counter as its key, and the counter moves on
    out == old(self_).counter && final(self_).counter == old(self_).counter + 1 && final(self_).map == old(self_).map, // @ob C11.V.compact_opt.fresh_key"""),
        dict(file="src/compact.rs", path="impl OptBuilder", header_subst=[(r"<K: Hash \+ Eq, V>", "<K, V>", "R0 bounds dropped")], members=[
            dict(path="fn new", ret="r", vis="pub ", obligation="C11.V.compact_opt.new", rules=[],
                 contract="ensures dense(r.map@), r.map@.len() == 0, errs_below(r.map@, r.counter), // @ob C11.V.compact_opt.new"),
            dict(path="fn entry", ret="r", vis="pub ", obligation="C11.V.compact_opt.entry_index", rules=[],
                 body_subst_optional=[(r"(?s)key\.ok_or_else\(\|\| \{.*?\}\);", "__ok_or_else_fresh(key, self);", "R5 Option::ok_or_else bound to its std contract composed with the closure's proved contract")],
                 contract="""requires
    dense(old(self).map@), errs_below(old(self).map@, old(self).counter), old(self).counter < usize::MAX,
ensures
    match r {
        // a named infoset seen before: the entry carries the index it was given then
        Entry::Occupied(e) => key is Some && has_key(old(self).map@, true_key(key, old(self).counter))
            && e.ent.stored().0 == key_at(old(self).map@, true_key(key, old(self).counter)) && final(self).map@ == old(self).map@, // @ob C11.V.compact_opt.entry_index
        // a new infoset: the entry carries the next index, the number of infosets so far
        Entry::Vacant(e) => !has_key(old(self).map@, true_key(key, old(self).counter)) && e.ind == old(self).map@.len()
            && final(self).map@ == (match e.ent.inserted() { Some(v) => old(self).map@.push((true_key(key, old(self).counter), v)), None => old(self).map@ }), // @ob C11.V.compact_opt.entry_index
    },
    // an anonymous chance node (no infoset label) is ALWAYS its own new infoset
    key is None ==> r is Vacant, // @ob C11.V.compact_opt.anonymous_is_new
    // the invariant behind that survives whatever the entry is then used for
    errs_below(final(self).map@, final(self).counter), // @ob C11.V.compact_opt.anonymous_is_new""",
                 entry="""let ghost m0 = self.map@;
let ghost c0 = self.counter;
proof {
    assert(has_key(m0, true_key(key, c0)) ==> m0[key_at(m0, true_key(key, c0))].1.0 == key_at(m0, true_key(key, c0)));
    // an anonymous key is not in the map: all anonymous keys there are below the counter
    assert(key is None ==> !has_key(m0, true_key(key, c0))) by {
        if key is None && has_key(m0, true_key(key, c0)) {
            let i = choose|i: int| 0 <= i < m0.len() && #[trigger] m0[i].0 == true_key(key, c0);
            assert(m0[i].0 matches Err(c) && c < c0);
        }
    }
}""",
                 exit=None),
        ]),
        # what the finished builder hands to from_root, entry by entry (the order is IndexMap's insertion order: assumed)
        dict(file="src/compact.rs", path="impl Iterator for OptIntoIter / fn next", closure=0, expr_closure=True,
             header_re=r"^\|\((\w+), \(_, (\w+)\)\)\|$", as_fn="optintoiter_next__entry", generics="<K, V>",
             params="$1: Result<K, usize>, $2: V", ret="out", ret_type="(Option<K>, V)",
             obligation="C11.V.compact_opt.into_iter_entry", rules=[],
             contract="""ensures
    // the stored value is handed over unchanged; a named infoset keeps its label, an anonymous one has none
    out.1 == $2 && out.0 == (match $1 { Ok(k) => Some(k), Err(_) => None::<K> }), // @ob C11.V.compact_opt.into_iter_entry"""),
    ],
)
