STUBS = r"""
use std::hash::Hash;
// ---- R5 stubs: std::num::NonZeroUsize, std::thread::available_parallelism, rayon's error, the six solver entry points ----
#[derive(Clone, Copy, PartialEq, Eq, Structural)]
pub struct NonZeroUsize { pub v: usize }
impl NonZeroUsize {
    pub fn new(n: usize) -> (r: Option<NonZeroUsize>)
        ensures n == 0 ==> r is None, n != 0 ==> r == Some(NonZeroUsize { v: n }),
    { if n == 0 { None } else { Some(NonZeroUsize { v: n }) } }
    // core: "Multiplies two non-zero integers together. Checks for overflow and returns None on overflow."
    #[verifier::external_body]
    pub fn checked_mul(self, other: NonZeroUsize) -> (r: Option<NonZeroUsize>)
        ensures self.v * other.v > usize::MAX ==> r is None,
                self.v * other.v <= usize::MAX ==> r == Some(NonZeroUsize { v: (self.v * other.v) as usize }),
    { unimplemented!() }
}
pub struct ThreadPoolBuildError { }
pub struct IoError { }
// what std::thread::available_parallelism() answers on this machine (any value, or an error)
pub uninterp spec fn avail_spec() -> Result<NonZeroUsize, IoError>;
pub mod thread {
    use super::*;
    #[verifier::external_body]
    pub fn available_parallelism() -> (r: Result<NonZeroUsize, IoError>)
        ensures r == avail_spec(), r is Ok ==> r->Ok_0.v != 0,
    { unimplemented!() }
}
#[verifier::external_body] pub struct Node { }
pub trait ChanceInfoset { }
pub trait PlayerInfoset { }
pub type SolveInfo = ([f64; 2], [Box<[f64]>; 2]);
pub uninterp spec fn default_params() -> RegretParams;
impl Default for RegretParams {
    #[verifier::external_body]
    fn default() -> (r: Self) ensures r == default_params() { unimplemented!() }
}
// core: Option::or_else "Returns the option if it contains a value, otherwise calls f and returns the result"
pub assume_specification<T, F: FnOnce() -> Option<T>> [Option::<T>::or_else] (o: Option<T>, f: F) -> (r: Option<T>)
    ensures o is Some ==> r == o, o is None ==> f.ensures((), r);
// result of each solver as a function of (budget, threshold, parameters [, thread info])
pub uninterp spec fn single_spec(which: int, max_iter: u64, max_reg: f64, p: RegretParams) -> SolveInfo;
pub uninterp spec fn multi_spec(which: int, max_iter: u64, max_reg: f64, threads: usize, target: usize, p: RegretParams) -> Result<SolveInfo, ThreadPoolBuildError>;
pub mod vanilla {
    use super::*;
    #[verifier::external_body]
    pub fn solve_full_single(start: &Node, chance_info: &[impl ChanceInfoset], player_info: [&[impl PlayerInfoset]; 2], max_iter: u64, max_reg: f64, params: &RegretParams) -> (r: SolveInfo)
        ensures r == single_spec(0, max_iter, max_reg, *params) { unimplemented!() }
    #[verifier::external_body]
    pub fn solve_sampled_single(start: &Node, chance_info: &[impl ChanceInfoset], player_info: [&[impl PlayerInfoset]; 2], max_iter: u64, max_reg: f64, params: &RegretParams) -> (r: SolveInfo)
        ensures r == single_spec(1, max_iter, max_reg, *params) { unimplemented!() }
    #[verifier::external_body]
    pub fn solve_full_multi(start: &Node, chance_info: &[impl ChanceInfoset], player_info: [&[impl PlayerInfoset]; 2], max_iter: u64, max_reg: f64, thread_info: (NonZeroUsize, NonZeroUsize), params: &RegretParams) -> (r: Result<SolveInfo, ThreadPoolBuildError>)
        ensures r == multi_spec(0, max_iter, max_reg, thread_info.0.v, thread_info.1.v, *params) { unimplemented!() }
    #[verifier::external_body]
    pub fn solve_sampled_multi(start: &Node, chance_info: &[impl ChanceInfoset], player_info: [&[impl PlayerInfoset]; 2], max_iter: u64, max_reg: f64, thread_info: (NonZeroUsize, NonZeroUsize), params: &RegretParams) -> (r: Result<SolveInfo, ThreadPoolBuildError>)
        ensures r == multi_spec(1, max_iter, max_reg, thread_info.0.v, thread_info.1.v, *params) { unimplemented!() }
}
pub mod external {
    use super::*;
    #[verifier::external_body]
    pub fn solve_external_single(start: &Node, chance_info: &[impl ChanceInfoset], player_info: [&[impl PlayerInfoset]; 2], max_iter: u64, max_reg: f64, params: &RegretParams) -> (r: SolveInfo)
        ensures r == single_spec(2, max_iter, max_reg, *params) { unimplemented!() }
    #[verifier::external_body]
    pub fn solve_external_multi(start: &Node, chance_info: &[impl ChanceInfoset], player_info: [&[impl PlayerInfoset]; 2], max_iter: u64, max_reg: f64, thread_info: (NonZeroUsize, NonZeroUsize), params: &RegretParams) -> (r: Result<SolveInfo, ThreadPoolBuildError>)
        ensures r == multi_spec(2, max_iter, max_reg, thread_info.0.v, thread_info.1.v, *params) { unimplemented!() }
}
pub open spec fn p_eff(params: Option<RegretParams>) -> RegretParams { match params { Some(p) => p, None => default_params() } }
pub open spec fn which_of(m: SolveMethod) -> int { match m { SolveMethod::Full => 0, SolveMethod::Sampled => 1, SolveMethod::External => 2 } }
// effective thread count: the argument, or the machine's parallelism for 0, or 1 if that is unknown
pub open spec fn eff_threads(num_threads: usize) -> usize {
    if num_threads != 0 { num_threads } else { match avail_spec() { Ok(n) => n.v, Err(_) => 1 } }
}
"""
UNIT = dict(
    id="c05_solve_dispatch",
    prelude=["floats.rs"],
    canary_use="broadcast use fl; ax_obeys();",
    assumptions=[
        "R5: NonZeroUsize is a stand-in struct with the documented new/checked_mul behaviour; thread::available_parallelism answers an arbitrary value; the six solver entry points are uninterpreted functions of (budget, threshold, parameters [, threads, target]) -- their bodies are the subject of the other properties",
        "the `?` operator converts the multi-threaded solvers' ThreadPoolBuildError with From::from (Rust semantics, trusted; this Verus does not expose the converted value)",
        "Option::unwrap_or_default returns the contained value for Some (assume_specification) and RegretParams::default() otherwise",
        "ChanceInfosetData / PlayerInfosetData are extracted as structs implementing marker traits (the solvers' use of them is not part of this unit)",
    ],
    items=[
        dict(file="src/solve/data.rs", path="struct RegretParams", attrs="#[derive(Clone, Copy)]"),
        dict(file="src/lib.rs", path="enum SolveMethod", attrs="#[derive(Clone, Copy)]"),
        dict(file="src/error.rs", path="enum SolveError", attrs="#[derive(Clone, Copy)]"),
        dict(raw=STUBS),
        dict(raw="""// vstd attaches a trait-level law to From::from; this impl states its spec-level meaning (ghost)
impl vstd::std_specs::convert::FromSpecImpl<ThreadPoolBuildError> for SolveError {
    open spec fn obeys_from_spec() -> bool { true }
    open spec fn from_spec(v: ThreadPoolBuildError) -> Self { SolveError::ThreadSpawnError }
}"""),
        dict(file="src/error.rs", path="impl From<ThreadPoolBuildError> for SolveError", members=[
            dict(path="fn from", ret="r", sig_subst=[(r"fn from\(_: ThreadPoolBuildError\)", "fn from(_e: ThreadPoolBuildError)", "R14 unnamed parameter `_` named")],
                 contract="ensures r == SolveError::ThreadSpawnError")]),
        dict(file="src/lib.rs", path="struct ChanceInfosetData", pub_fields=True),
        dict(file="src/lib.rs", path="struct PlayerInfosetData", pub_fields=True),
        dict(raw="impl ChanceInfoset for ChanceInfosetData { }\nimpl<I, A> PlayerInfoset for PlayerInfosetData<I, A> { }"),
        dict(file="src/lib.rs", path="struct Game", pub_fields=True, attrs="#[verifier::reject_recursive_types(Infoset)]\n#[verifier::reject_recursive_types(Action)]"),
        dict(file="src/lib.rs", path="struct Strategies", pub_fields=True, attrs="#[verifier::reject_recursive_types(Infoset)]\n#[verifier::reject_recursive_types(Action)]"),
        dict(file="src/lib.rs", path="struct RegretBound", pub_fields=True),
        dict(file="src/lib.rs", path="impl RegretBound", members=[dict(path="fn new", ret="r", vis="pub ", contract="ensures r.regrets == regrets")]),
        dict(file="src/lib.rs", path="impl Game", members=[
            dict(path="fn solve", ret="out", vis="pub ", obligation="C05.V.solve.thread_errors",
                 rules=["R3", "R1", "R9", "R12", "R10"],
                 body_subst=[(r"\.or_else\(\|\| thread::available_parallelism\(\)\.ok\(\)\)",
                              ".or_else(|| -> (o: Option<NonZeroUsize>) ensures o == (match avail_spec() { Ok(n) => Some(n), Err(_) => None }) { thread::available_parallelism().ok() })",
                              "closure contract (the closure's body is the real text, checked against the inserted contract)")],
                 contract="""ensures
    // a returned profile belongs to this game and carries exactly what the chosen solver returned
    out is Ok ==> out->Ok_0.0.game == self, // @ob C05.V.solve.result_plumbing
    // ONE thread never errors and uses the single-threaded variant of the requested method, with
    // the documented default parameters when none are given
    eff_threads(num_threads) == 1 ==> out is Ok
        && (out->Ok_0.1.regrets, out->Ok_0.0.probs) == single_spec(which_of(method), max_iter, max_reg, p_eff(params)), // @ob C05.V.solve.one_thread_never_errors
    // several threads: the documented thread-count error exactly when 3 x threads overflows, and then no solver runs
    eff_threads(num_threads) > 1 && eff_threads(num_threads) * 3 > usize::MAX ==> out == Err::<(Strategies<I, A>, RegretBound), SolveError>(SolveError::ThreadOverflow), // @ob C05.V.solve.thread_overflow
    // otherwise the multi-threaded variant of the requested method with (threads, 3 x threads); its
    // pool-construction error is the only other error
    // (0 threads means the machine's parallelism, or 1 if that is unknown: eff_threads)
    eff_threads(num_threads) > 1 && eff_threads(num_threads) * 3 <= usize::MAX ==>
        match multi_spec(which_of(method), max_iter, max_reg, eff_threads(num_threads), (eff_threads(num_threads) * 3) as usize, p_eff(params)) {
            Ok(info) => out is Ok && (out->Ok_0.1.regrets, out->Ok_0.0.probs) == info,
            // (the error VALUE is `From::from(e)` applied by `?` -- Rust semantics, trusted; the impl of
            // From<ThreadPoolBuildError> is proved above to return ThreadSpawnError)
            Err(_) => out is Err,
        }, // @ob C05.V.solve.multi_dispatch"""),
        ]),
    ],
)
