P = __file__.rsplit("/units/", 1)[0] + "/prelude/"
UNIT = dict(
    id="c10_cached_infoset",
    prelude=["floats.rs", "ideal.rs", "rand_stub.rs"],
    canary_use="broadcast use fl; broadcast use ideal; ax_obeys(); ax_rv_lits();",
    assumptions=[
        "Multinomial::{new, sample} are bound to the contracts PROVED for them by unit c10_multinomial (cited, modular)",
        "thread_rng() yields a generator whose next variate is some f64 (rand, assumed)",
        "RegretInfoset invariant strat.len() >= 1 (RegretInfoset::new with >= 2 actions), assumed at entry",
    ],
    items=[
        dict(raw=open(P + "multinomial_spec.rs").read()),
        dict(raw="""// contracts proved by unit c10_multinomial on the real bodies
pub struct Multinomial<'a> { pub init_probs: &'a [f64] }
impl<'a> Multinomial<'a> {
    #[verifier::external_body]
    pub fn new(probs: &'a [f64]) -> (r: Self)
        requires probs@.len() >= 1,
        ensures r.init_probs@ == probs@.take(probs@.len() - 1),
    { unimplemented!() }
    #[verifier::external_body]
    pub fn sample(&self, rnd: &mut ThreadRng) -> (res: usize)
        ensures inv_cdf(self.init_probs@, old(rnd).next_f64(), res as int),
    { unimplemented!() }
}"""),
        dict(file="src/solve/data.rs", path="struct RegretInfoset"),
        dict(file="src/solve/external.rs", path="struct CachedInfoset", pub_fields=True),
        dict(file="src/solve/external.rs", path="impl CachedInfoset", members=[
            dict(path="fn sample", ret="r", vis="pub ", obligation="C10.V.cached_infoset.cache",
                 contract="""requires
    old(self).reg.strat@.len() >= 1,
ensures
    final(self).reg == old(self).reg,
    // already drawn this pass: no new draw, same action
    old(self).cached != 0 ==> r == old(self).cached - 1 && final(self).cached == old(self).cached, // @ob C10.V.cached_infoset.cache_hit
    // first visit this pass: one draw from the CURRENT strategy of this (non-updating) player,
    // by the inverse-CDF sampler, remembered as r + 1
    old(self).cached == 0 ==> final(self).cached == r + 1
        && exists|u: f64| #[trigger] inv_cdf(old(self).reg.strat@.take(old(self).reg.strat@.len() - 1), u, r as int), // @ob C10.V.cached_infoset.draws_from_current_strategy
    final(self).cached != 0,""",
                 entry="let ghost __l = self.reg.strat.len(); // brings `len() <= usize::MAX` into scope"),
        ]),
    ],
)
