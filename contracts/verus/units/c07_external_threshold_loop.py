import importlib.util, os, re
_p = os.path.join(os.path.dirname(__file__), "c07_external_next_nodes.py")
_s = importlib.util.spec_from_file_location("unit_c07_external_next_nodes_for_loop", _p); _m = importlib.util.module_from_spec(_s); _s.loader.exec_module(_m)
# the specification vocabulary (tables, sampled_step, sampled_path, draws_kept, wf_tables) and the CONTRACT of
# next_nodes are taken verbatim from the unit that proves next_nodes, so the callee contract assumed here
# is by construction the one discharged there
_NN = [it for it in _m.UNIT["items"] if it.get("path") == "fn next_nodes"][0]
_VOCAB = [it for it in _m.UNIT["items"] if "raw" in it and "sampled_step" in it["raw"]][0]["raw"]
_NN_CONTRACT = re.sub(r"\s*// @ob \S+", "", _NN["contract"])

SPEC = r"""
use std::mem;
pub struct NonZeroUsize { pub v: usize }
impl NonZeroUsize { pub fn get(self) -> (r: usize) ensures r == self.v { self.v } }
impl Clone for NonZeroUsize { fn clone(&self) -> (r: Self) ensures r == *self { NonZeroUsize { v: self.v } } }
impl Copy for NonZeroUsize { }

// next_nodes by the contract proved for its real text in c07_external_next_nodes
#[verifier::external_body]
pub fn next_nodes<'a, const FIRST: bool>(node0: &'a Node, chance_infosets: &mut [Mutex<SampledChance>], external_player_infosets: &mut [Mutex<CachedInfoset>]) -> (r: Option<&'a [Node]>)
""" + _NN_CONTRACT + r"""
{ unimplemented!() }

// Vec::<&Node>::extend(&[Node]): appends a reference to every element, in order (std, assumed)
#[verifier::external_body]
pub fn __extend_refs<'a>(work: &mut Vec<&'a Node>, nexts: &'a [Node])
    ensures final(work)@.len() == old(work)@.len() + nexts@.len(),
        final(work)@.take(old(work)@.len() as int) == old(work)@,
        forall|k: int| 0 <= k < nexts@.len() ==> *(#[trigger] final(work)@[old(work)@.len() + k]) == nexts@[k],
{ unimplemented!() }
#[verifier::external_body]
pub proof fn ax_vec_len<'a>(v: &Vec<&'a Node>) ensures v@.len() * 8 <= isize::MAX { }

// ---- ANY additive functional of the SAMPLED traversal (see c06_threshold_loop): it is constant along
// a sampled step (chance outcome drawn for the infoset / the other player's drawn action) and is the sum
// over all actions at a node of the pass's own player; unconstrained at terminals.  The draws are made
// lazily while the frontier is built, so the functional is indexed by the tables (ch, ex) that record them.
pub uninterp spec fn vfe(n: Node, first: bool, ch: Seq<Mutex<SampledChance>>, ex: Seq<Mutex<CachedInfoset>>) -> int;
pub open spec fn asum(p: Player, k: int, first: bool, ch: Seq<Mutex<SampledChance>>, ex: Seq<Mutex<CachedInfoset>>) -> int
    decreases k
{
    if k <= 0 { 0 } else { asum(p, k - 1, first, ch, ex) + vfe(p.actions@[k - 1], first, ch, ex) }
}
#[verifier::external_body]
pub proof fn ax_additive_sampled()
    ensures
        forall|a: Node, b: Node, first: bool, ch: Seq<Mutex<SampledChance>>, ex: Seq<Mutex<CachedInfoset>>|
            #[trigger] sampled_step(a, b, first, ch, ex) ==> vfe(a, first, ch, ex) == vfe(b, first, ch, ex),
        forall|p: Player, first: bool, ch: Seq<Mutex<SampledChance>>, ex: Seq<Mutex<CachedInfoset>>|
            is_active(p.num, first) ==> #[trigger] vfe(Node::Player(p), first, ch, ex) == asum(p, p.actions@.len() as int, first, ch, ex),
        forall|n: Node, first: bool, ch: Seq<Mutex<SampledChance>>, ex: Seq<Mutex<CachedInfoset>>| #[trigger] vfe(n, first, ch, ex) >= 0,
{ }
pub open spec fn rsum(q: Seq<&Node>, first: bool, ch: Seq<Mutex<SampledChance>>, ex: Seq<Mutex<CachedInfoset>>) -> int
    decreases q.len()
{
    if q.len() == 0 { 0 } else { rsum(q.drop_last(), first, ch, ex) + vfe(*q.last(), first, ch, ex) }
}
pub open spec fn total(queue: Seq<&Node>, work: Seq<&Node>, first: bool, ch: Seq<Mutex<SampledChance>>, ex: Seq<Mutex<CachedInfoset>>) -> int {
    rsum(queue, first, ch, ex) + rsum(work, first, ch, ex)
}
// the bound holds for the tables as they are and for every way the pass may still complete them
pub open spec fn conserved(root: Node, queue: Seq<&Node>, work: Seq<&Node>, first: bool, c0: Seq<Mutex<SampledChance>>, e0: Seq<Mutex<CachedInfoset>>) -> bool {
    forall|c: Seq<Mutex<SampledChance>>, e: Seq<Mutex<CachedInfoset>>| #[trigger] draws_kept(c0, c, e0, e)
        ==> total(queue, work, first, c, e) <= vfe(root, first, c, e)
}
pub open spec fn all_wf(q: Seq<&Node>, ch: Seq<Mutex<SampledChance>>, ex: Seq<Mutex<CachedInfoset>>) -> bool {
    forall|i: int| 0 <= i < q.len() ==> wf_tables(*(#[trigger] q[i]), ch, ex)
}
// what one expansion step did, read off next_nodes' contract and the extend that follows it
pub open spec fn walk_ok(path: Seq<Node>, n: Node, w0: Seq<&Node>, w1: Seq<&Node>, first: bool) -> bool {
    path.len() >= 1 && path[0] == n && match path.last() {
        Node::Terminal(_) => w1 == w0,
        Node::Chance(_) => false,
        // all children of the own player's node enter the frontier -- or none (then the pass from the root visits them)
        Node::Player(p) => is_active(p.num, first) && (w1 == w0 || (w1.len() == w0.len() + p.actions@.len() && w1.take(w0.len() as int) == w0
            && forall|k: int| 0 <= k < p.actions@.len() ==> *(#[trigger] w1[w0.len() + k]) == p.actions@[k])),
    }
}
pub proof fn lemma_kept_refl(c: Seq<Mutex<SampledChance>>, e: Seq<Mutex<CachedInfoset>>)
    ensures draws_kept(c, c, e, e)
{ }
pub proof fn lemma_kept_trans(c0: Seq<Mutex<SampledChance>>, c1: Seq<Mutex<SampledChance>>, c2: Seq<Mutex<SampledChance>>,
                              e0: Seq<Mutex<CachedInfoset>>, e1: Seq<Mutex<CachedInfoset>>, e2: Seq<Mutex<CachedInfoset>>)
    requires draws_kept(c0, c1, e0, e1), draws_kept(c1, c2, e1, e2)
    ensures draws_kept(c0, c2, e0, e2)
{
    assert forall|j: int| 0 <= j < c0.len() implies (#[trigger] c2[j]).inner.n == c0[j].inner.n && (c0[j].inner.cached != 0 ==> c2[j].inner.cached == c0[j].inner.cached) by {
        assert(c1[j].inner.n == c0[j].inner.n);
    }
    assert forall|j: int| 0 <= j < e0.len() implies (#[trigger] e2[j]).inner.n == e0[j].inner.n && (e0[j].inner.cached != 0 ==> e2[j].inner.cached == e0[j].inner.cached) by {
        assert(e1[j].inner.n == e0[j].inner.n);
    }
}
pub proof fn lemma_step_mono(a: Node, b: Node, first: bool, c0: Seq<Mutex<SampledChance>>, c1: Seq<Mutex<SampledChance>>, e0: Seq<Mutex<CachedInfoset>>, e1: Seq<Mutex<CachedInfoset>>)
    requires sampled_step(a, b, first, c0, e0), draws_kept(c0, c1, e0, e1)
    ensures sampled_step(a, b, first, c1, e1)
{
    match a {
        Node::Terminal(_) => {}
        Node::Chance(c) => { assert(c1[c.infoset as int].inner.cached == c0[c.infoset as int].inner.cached); }
        Node::Player(p) => { assert(e1[p.infoset as int].inner.cached == e0[p.infoset as int].inner.cached); }
    }
}
// along a sampled path (under tables that may since have been completed) the functional is constant
pub proof fn lemma_path_const(path: Seq<Node>, first: bool, c0: Seq<Mutex<SampledChance>>, c1: Seq<Mutex<SampledChance>>, e0: Seq<Mutex<CachedInfoset>>, e1: Seq<Mutex<CachedInfoset>>)
    requires path.len() >= 1, sampled_path(path, first, c0, e0), draws_kept(c0, c1, e0, e1)
    ensures vfe(path[0], first, c1, e1) == vfe(path.last(), first, c1, e1)
    decreases path.len()
{
    if path.len() > 1 {
        let pp = path.drop_last();
        assert forall|i: int| 0 <= i < pp.len() - 1 implies sampled_step(#[trigger] pp[i], pp[i + 1], first, c0, e0) by {
            assert(sampled_step(path[i], path[i + 1], first, c0, e0));
        }
        lemma_path_const(pp, first, c0, c1, e0, e1);
        let i = path.len() - 2;
        assert(sampled_step(path[i], path[i + 1], first, c0, e0));
        lemma_step_mono(path[i], path[i + 1], first, c0, c1, e0, e1);
        ax_additive_sampled();
    }
}
pub proof fn lemma_path_wf(path: Seq<Node>, first: bool, c: Seq<Mutex<SampledChance>>, e: Seq<Mutex<CachedInfoset>>)
    requires path.len() >= 1, sampled_path(path, first, c, e), wf_tables(path[0], c, e)
    ensures wf_tables(path.last(), c, e)
    decreases path.len()
{
    if path.len() > 1 {
        let pp = path.drop_last();
        assert forall|i: int| 0 <= i < pp.len() - 1 implies sampled_step(#[trigger] pp[i], pp[i + 1], first, c, e) by {
            assert(sampled_step(path[i], path[i + 1], first, c, e));
        }
        lemma_path_wf(pp, first, c, e);
        let i = path.len() - 2;
        assert(sampled_step(path[i], path[i + 1], first, c, e));
    }
}
pub proof fn lemma_rsum_push(q: Seq<&Node>, n: &Node, first: bool, c: Seq<Mutex<SampledChance>>, e: Seq<Mutex<CachedInfoset>>)
    ensures rsum(q.push(n), first, c, e) == rsum(q, first, c, e) + vfe(*n, first, c, e)
{ assert(q.push(n).drop_last() =~= q); }
pub proof fn lemma_rsum_nonneg(q: Seq<&Node>, first: bool, c: Seq<Mutex<SampledChance>>, e: Seq<Mutex<CachedInfoset>>)
    ensures rsum(q, first, c, e) >= 0
    decreases q.len()
{ ax_additive_sampled(); if q.len() > 0 { lemma_rsum_nonneg(q.drop_last(), first, c, e); } }
pub proof fn lemma_rsum_ext(w0: Seq<&Node>, w1: Seq<&Node>, p: Player, n: int, first: bool, c: Seq<Mutex<SampledChance>>, e: Seq<Mutex<CachedInfoset>>)
    requires 0 <= n <= p.actions@.len(), w1.len() == w0.len() + n, w1.take(w0.len() as int) == w0,
        forall|k: int| 0 <= k < n ==> *(#[trigger] w1[w0.len() + k]) == p.actions@[k],
    ensures rsum(w1, first, c, e) == rsum(w0, first, c, e) + asum(p, n, first, c, e)
    decreases n
{
    if n == 0 { assert(w1 =~= w0); }
    else {
        let w1p = w1.drop_last();
        assert(w1p.take(w0.len() as int) =~= w0);
        assert(forall|k: int| 0 <= k < n - 1 ==> (#[trigger] w1p[w0.len() + k]) == w1[w0.len() + k]);
        lemma_rsum_ext(w0, w1p, p, n - 1, first, c, e);
        assert(w1.last() == w1[w0.len() + (n - 1)]);
    }
}
"""
UNIT = dict(
    id="c07_external_threshold_loop",
    prelude=[],
    canary_use="",
    assumptions=[
        "next_nodes is bound to the contract PROVED for its real text by unit c07_external_next_nodes (the contract text and the specification vocabulary are imported from that unit, not restated)",
        "ax_additive_sampled: the functional the frontier is measured with is ANY uninterpreted non-negative integer functional that is constant along a sampled step and additive over the actions of the pass's own player (the definition of the quantification, not a fact about the code)",
        "std: Vec::<&Node>::extend(&[Node]) appends a reference to every element in order; Vec::len never exceeds isize::MAX / size_of::<T>(); Vec::pop / push / is_empty / mem::swap by their vstd specifications",
        "termination of the loop is not proved (exec_allows_no_decreases_clause); NonZeroUsize restated as a struct with get()",
    ],
    items=[
        dict(file="src/lib.rs", path="enum PlayerNum", attrs="#[derive(Copy, Clone)]"),
        dict(file="src/lib.rs", path="enum Node"),
        dict(file="src/lib.rs", path="struct Chance", pub_fields=True),
        dict(file="src/lib.rs", path="struct Player", pub_fields=True),
        dict(raw=_VOCAB),
        dict(raw=SPEC),
        dict(file="src/solve/external.rs", path="fn thread_threshold",
             attrs="#[verifier::exec_allows_no_decreases_clause]",
             obligation="C07.V.external_thread_threshold.frontier_is_a_cut",
             body_subst=[(r"work\.extend\((\w+)\);", r"__extend_refs(work, \1);", "R5 Vec::extend over a slice bound to its std contract")],
             rules=[],
             contract="""requires
    old(queue)@.len() == 0, old(work)@.len() == 0,
    wf_tables(*root, old(chance_infosets)@, old(external_player_infosets)@),
ensures
    // every draw made before or while the frontier was built is kept (one sample per infoset per pass)
    draws_kept(old(chance_infosets)@, final(chance_infosets)@, old(external_player_infosets)@, final(external_player_infosets)@), // @ob C07.V.external_thread_threshold.draws_kept
    // what is handed to the workers are tasks of the SAMPLED tree of this pass and no part of it is in
    // them twice: every non-negative additive functional of the sampled traversal totals over the
    // frontier to at most its value at the root (less is harmless: what is not in the frontier is
    // traversed by the pass from the root) -- nothing twice, nothing outside the sampled tree
    total(final(queue)@, final(work)@, FIRST, final(chance_infosets)@, final(external_player_infosets)@)
        <= vfe(*root, FIRST, final(chance_infosets)@, final(external_player_infosets)@), // @ob C07.V.external_thread_threshold.frontier_is_a_cut""",
             entry="""proof { ax_additive_sampled(); }
let ghost cs = chance_infosets@;
let ghost es = external_player_infosets@;""",
             loops={0: dict(kind="while",
                            before="""proof {
    assert(queue@ =~= Seq::<&Node>::empty().push(root));
    ax_vec_len(queue); ax_vec_len(work);
    lemma_kept_refl(cs, es);
    assert forall|c: Seq<Mutex<SampledChance>>, e: Seq<Mutex<CachedInfoset>>| #[trigger] draws_kept(cs, c, es, e)
        implies total(queue@, work@, FIRST, c, e) <= vfe(*root, FIRST, c, e) by {
        lemma_rsum_push(Seq::<&Node>::empty(), root, FIRST, c, e);
        assert(rsum(Seq::<&Node>::empty(), FIRST, c, e) == 0);
        assert(rsum(work@, FIRST, c, e) == 0);
    }
}""",
                            head="""invariant
    cs == old(chance_infosets)@, es == old(external_player_infosets)@,
    draws_kept(cs, chance_infosets@, es, external_player_infosets@),
    all_wf(queue@, chance_infosets@, external_player_infosets@), all_wf(work@, chance_infosets@, external_player_infosets@),
    queue@.len() * 8 <= isize::MAX, work@.len() * 8 <= isize::MAX,
    conserved(*root, queue@, work@, FIRST, chance_infosets@, external_player_infosets@), // @ob C07.V.external_thread_threshold.frontier_is_a_cut""",
                            body_start="""proof { ax_additive_sampled(); }
let ghost q0 = queue@;
let ghost w0 = work@;
let ghost cb = chance_infosets@;
let ghost eb = external_player_infosets@;""",
                            body_end="""proof {
    ax_vec_len(queue); ax_vec_len(work);
    let c1 = chance_infosets@; let e1 = external_player_infosets@;
    if q0.len() > 0 {
        let n = q0.last();
        assert(queue@ =~= q0.drop_last());
        assert(wf_tables(*n, cb, eb));
        assert(draws_kept(cb, c1, eb, e1));
        lemma_kept_trans(cs, cb, c1, es, eb, e1);
        assert(exists|path: Seq<Node>| #[trigger] sampled_path(path, FIRST, c1, e1) && walk_ok(path, *n, w0, work@, FIRST));
        let path = choose|path: Seq<Node>| #[trigger] sampled_path(path, FIRST, c1, e1) && walk_ok(path, *n, w0, work@, FIRST);
        lemma_wf_kept(*n, cb, c1, eb, e1);
        lemma_path_wf(path, FIRST, c1, e1);
        assert forall|i: int| 0 <= i < queue@.len() implies wf_tables(*(#[trigger] queue@[i]), c1, e1) by {
            assert(queue@[i] == q0[i]);
            lemma_wf_kept(*q0[i], cb, c1, eb, e1);
        }
        assert forall|i: int| 0 <= i < work@.len() implies wf_tables(*(#[trigger] work@[i]), c1, e1) by {
            if i < w0.len() {
                assert(work@[i] == work@.take(w0.len() as int)[i]);
                lemma_wf_kept(*w0[i], cb, c1, eb, e1);
            } else {
                assert(work@[i] == work@[w0.len() + (i - w0.len())]);
            }
        }
        assert forall|c: Seq<Mutex<SampledChance>>, e: Seq<Mutex<CachedInfoset>>| #[trigger] draws_kept(c1, c, e1, e)
            implies total(queue@, work@, FIRST, c, e) <= vfe(*root, FIRST, c, e) by {
            lemma_kept_trans(cb, c1, c, eb, e1, e);
            assert(total(q0, w0, FIRST, c, e) <= vfe(*root, FIRST, c, e));
            lemma_path_const(path, FIRST, c1, c, e1, e);
            match path.last() {
                Node::Terminal(_) => { }
                Node::Chance(_) => {}
                Node::Player(p) => { if work@ != w0 { lemma_rsum_ext(w0, work@, p, p.actions@.len() as int, FIRST, c, e); } }
            }
        }
    } else {
        assert(queue@ == w0 && work@ == q0);
        assert(c1 == cb && e1 == eb);
    }
}""",
                            after="""proof { lemma_kept_refl(chance_infosets@, external_player_infosets@); }""")}),
    ],
)
