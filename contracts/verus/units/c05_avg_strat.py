UNIT = dict(
    id="c05_avg_strat",
    prelude=["floats.rs", "ideal.rs", "iter_ext.rs", "iter_ext_ideal.rs"],
    canary_use="broadcast use fl; broadcast use ideal; ax_obeys(); ax_rv_lits(); ax_rv_sum_init();",
    assumptions=[
        "idealised-real float mode for the value clauses (rounding / NaN / overflow ignored: those are decided bit-precisely by the Kani harnesses c05_avg_strat_distribution_n*)",
        "R7: `cum_strat.iter().sum()` -> `__sum(..)` with the std-documented fold contract",
        "`usize as f64` is exact for the lengths that occur (R12 wrapper __usize_to_f64, idealised: denotes the integer)",
        "slice::fill(v): every element becomes v (assume_specification restating std)",
    ],
    items=[
        dict(raw="""pub assume_specification<T: Clone> [<[T]>::fill] (s: &mut [T], v: T)
    ensures final(s)@.len() == old(s)@.len(), forall|i: int| 0 <= i < old(s)@.len() ==> #[trigger] final(s)@[i] == v;
"""),
        dict(raw=open(__file__.rsplit("/units/", 1)[0] + "/prelude/rsum_lemmas.rs").read()),
        dict(file="src/solve/data.rs", path="fn avg_strat", obligation="C05.V.avg_strat", n_loops=1,
             rules=["R3", "R1", "R7", "R9", "R12", "R10"],
             contract="""requires
    old(cum_strat)@.len() >= 1,
ensures
    final(cum_strat)@.len() == old(cum_strat)@.len(),
    // nothing accumulated: exactly uniform
    rsum(old(cum_strat)@, old(cum_strat)@.len() as int) == 0real ==>
        forall|i: int| 0 <= i < old(cum_strat)@.len() ==> rv(#[trigger] final(cum_strat)@[i]) == 1real / (old(cum_strat)@.len() as real), // @ob C05.V.avg_strat.uniform_when_empty
    // otherwise every entry is divided by the total ...
    rsum(old(cum_strat)@, old(cum_strat)@.len() as int) != 0real ==>
        forall|i: int| 0 <= i < old(cum_strat)@.len() ==> rv(#[trigger] final(cum_strat)@[i]) == rv(old(cum_strat)@[i]) / rsum(old(cum_strat)@, old(cum_strat)@.len() as int), // @ob C05.V.avg_strat.normalised
    // ... so the returned action probabilities sum to one
    rsum(old(cum_strat)@, old(cum_strat)@.len() as int) != 0real ==> rsum(final(cum_strat)@, old(cum_strat)@.len() as int) == 1real, // @ob C05.V.avg_strat.sums_to_one""",
             entry="""broadcast use fl; broadcast use ideal;
proof { ax_obeys(); ax_rv_lits(); ax_rv_sum_init(); }
broadcast use ideal_casts;
let ghost s0 = cum_strat@;
let ghost n = cum_strat@.len();
proof { lemma_fsum_rsum(s0, n as int); }
broadcast use lemma_fsum_ref_is_fsum;""",
             loops={0: dict(kind="for", binder="it",
                            before="""proof {
    broadcast use lemma_fsum_ref_is_fsum;
    assert(fsum(s0, n as int) == fsum(s0, n as int));
    assert(norm == fsum(s0, n as int));
}""",
                            head="""invariant
    it.snapshot@.remaining().len() == n, 0 <= it.index@ <= n,
    forall|i: int| 0 <= i < n ==> *(#[trigger] it.snapshot@.remaining()[i]) == s0[i],
    rv(norm) == rsum(s0, n as int), rv(norm) != 0real,
    forall|i: int| 0 <= i < it.index@ ==> rv(*final(#[trigger] it.snapshot@.remaining()[i])) == rv(s0[i]) / rv(norm),
ensures
    forall|i: int| 0 <= i < n ==> rv(*final(#[trigger] it.snapshot@.remaining()[i])) == rv(s0[i]) / rv(norm),""",
                            body_start="broadcast use fl; broadcast use ideal;\nproof { ax_obeys(); ax_rv_lits(); }",
                            after="""proof {
    lemma_rsum_div(s0, cum_strat@, rv(norm), n as int);
    assert(rsum(s0, n as int) / rv(norm) == 1real) by(nonlinear_arith) requires rv(norm) == rsum(s0, n as int), rv(norm) != 0real;
}""")},
        ),
    ],
)
